/-
Line-protocol helpers shared by every driver (core Lean only).

A driver reads lines "<case>\t<impl output>" on stdin and prints one verdict per
line:  "ok <class> [nt]"  |  "MODEL-DIFF <detail>"  |  "SPEC-VIOL <detail>"  |  "SKIP <reason>".
Byte strings travel hex-encoded; the empty byte string is "-".
-/
namespace OpenFGAVerif.Proto

abbrev Bytes := List UInt8

def hexDigit (c : Char) : Option Nat :=
  if '0' ≤ c ∧ c ≤ '9' then some (c.toNat - '0'.toNat)
  else if 'a' ≤ c ∧ c ≤ 'f' then some (c.toNat - 'a'.toNat + 10)
  else if 'A' ≤ c ∧ c ≤ 'F' then some (c.toNat - 'A'.toNat + 10)
  else none

def unhexChars : List Char → Option Bytes
  | [] => some []
  | a :: b :: rest => do
      let x ← hexDigit a
      let y ← hexDigit b
      let r ← unhexChars rest
      pure (UInt8.ofNat (x * 16 + y) :: r)
  | _ => none

/-- inverse of the harness' `hx.H` -/
def unhex (s : String) : Option Bytes :=
  if s == "-" then some [] else unhexChars s.toList

def hexNibble (n : Nat) : Char :=
  if n < 10 then Char.ofNat (n + '0'.toNat) else Char.ofNat (n - 10 + 'a'.toNat)

def hex (b : Bytes) : String :=
  if b.isEmpty then "-" else
  String.ofList (b.foldr (fun x acc => hexNibble (x.toNat / 16) :: hexNibble (x.toNat % 16) :: acc) [])

/-- decode a hex field as a UTF-8 string (only used for display / names) -/
def unhexStr (s : String) : Option String := do
  let b ← unhex s
  pure (String.fromUTF8! (ByteArray.mk b.toArray))

def hexStr (s : String) : String := hex s.toUTF8.toList

/-- split a case line into space-separated fields (no empty fields) -/
def fields (s : String) : List String :=
  (s.splitOn " ").filter (· ≠ "")

/-- split "<case>\t<impl>" -/
def splitTab (line : String) : String × String :=
  match line.splitOn "\t" with
  | [c] => (c, "")
  | c :: rest => (c, "\t".intercalate rest)
  | [] => ("", "")

/-- main loop: `step case impl = verdict` -/
partial def loop (h : IO.FS.Stream) (out : IO.FS.Stream) (step : String → String → String) : IO Unit := do
  let line ← h.getLine
  if line.isEmpty then return ()
  let line := (line.dropEndWhile (fun c => c == '\n' || c == '\r')).toString
  let (c, i) := splitTab line
  out.putStrLn (step c i)
  loop h out step

def run (step : String → String → String) : IO Unit := do
  let stdin ← IO.getStdin
  let stdout ← IO.getStdout
  loop stdin stdout step
  stdout.flush

/-- verdict helpers -/
def ok (cls : String) (nontrivial : Bool := true) : String :=
  "ok " ++ cls ++ (if nontrivial then " nt" else "")
def modelDiff (expected : String) : String := "MODEL-DIFF expected=" ++ expected
def specViol (why : String) : String := "SPEC-VIOL " ++ why

end OpenFGAVerif.Proto
