/-
Shared driver step for the `sf` cases of harness/sfres (C16, C17, C31): overlapping typesystem resolutions with a cold
cache over a slow datastore.

  sf q1 … qk        q = s.o.i | s.L          impl:  R1 a1 … ak | R2 b1 … bk

1. the property, model-free: the answer to (store s, model id of (o, i)) is the datastore's answer for exactly that pair:
   the model (o, i) if s = o, "model not found" otherwise; latest = the store's newest model; both while the requests
   overlap (R1) and afterwards from the memo (R2);
2. the flight model `Model.Resolver.run` with the singleflight keys the extractor found in the source.
-/
import OpenFGAVerif.Driver.Proto
import OpenFGAVerif.Model.ResolverKeys

namespace OpenFGAVerif.SfCase
open OpenFGAVerif.Proto OpenFGAVerif.Model.Resolver

structure Q where
  s : Nat
  o : Option Nat     -- none = latest
  i : Nat

def parseQ (q : String) : Option Q :=
  match q.splitOn "." with
  | [s, "L"] => s.toNat?.map (fun s => { s := s, o := none, i := 0 })
  | [s, o, i] => do
    let s ← s.toNat?
    let o ← o.toNat?
    let i ← i.toNat?
    pure { s := s, o := some o, i := i }
  | _ => none

def nModels : Nat := 2

def reqOf (q : Q) : Req :=
  { store := [UInt8.ofNat (65 + q.s)], model := match q.o with | some o => [UInt8.ofNat (97 + o * nModels + q.i)] | none => [] }

/-- the datastore: model (o, i) has code o*nModels+i and lives in store o only; latest = the last model of the store -/
def dsOf (q : Q) : Option Nat :=
  match q.o with
  | some o => if o = q.s then some (o * nModels + q.i) else none
  | none => some (q.s * nModels + (nModels - 1))

def showAns : Option Nat → String
  | some c => s!"{c / nModels}.{c % nModels}"
  | none => "nf"

def qStr (q : Q) : String :=
  match q.o with
  | some o => s!"(store {q.s}, id of model {o}.{q.i})"
  | none => s!"(store {q.s}, latest)"

/-- the flight model on this scenario: all arrivals overlap, then every flight ends, then the same arrivals again -/
def modelAnswers (qs : List Q) : List String × List String :=
  let table : List (Req × Option Nat) := qs.map (fun q => (reqOf q, dsOf q))
  let ds : Req → Option Nat := fun r => ((table.find? (fun e => e.1 == r)).map (·.2)).getD none
  let arr := qs.map (fun q => Ev.arrive (reqOf q))
  let fin := qs.map (fun _ => (Ev.finish 0 : Ev Req))
  let out : List String := (Model.Resolver.run groupKey ds memoById (empty : St Model.Resolver.Bytes Req Nat) (arr ++ fin ++ arr)).2.map (fun p => showAns p.2)
  (out.take qs.length, out.drop qs.length)

def step (c impl : String) : String :=
  if impl.startsWith "SETUPERR" || impl.startsWith "BADCASE" then "SKIP " ++ impl else
  match fields c with
  | "sf" :: qsS =>
    match qsS.foldr (fun q acc => do let a ← acc; let x ← parseQ q; pure (x :: a)) (some []) with
    | none => "SKIP unparsable-queries"
    | some qs =>
      match (impl.splitOn " | ").map fields with
      | [("R1" :: r1), ("R2" :: r2)] =>
        if r1.length != qs.length || r2.length != qs.length then modelDiff "one answer per query and round"
        else
          let expect := qs.map (fun q => showAns (dsOf q))
          let bad (round : String) (got : List String) : Option String :=
            ((qs.zip expect).zip got).findSome? (fun p =>
              let q := p.1.1; let e := p.1.2; let g := p.2
              if g == e then none
              else if e == "nf" && g != "nf" && !g.startsWith "err" && g != "hang" then
                some s!"{round}: the resolution of {qStr q} returned model {g}: a model of ANOTHER store (the typesystem resolver shared one datastore read between requests for different stores); expected model not found"
              else some s!"{round}: the resolution of {qStr q} returned {g}, the datastore's answer for exactly that (store, model) is {e} (requests with different (store, model) shared one datastore read / memo entry)")
          match bad "overlapping" r1 with
          | some why => specViol why
          | none =>
            match bad "memoised" r2 with
            | some why => specViol why
            | none =>
              let (m1, m2) := modelAnswers qs
              if m1 != r1 || m2 != r2 then modelDiff s!"R1 {" ".intercalate m1} | R2 {" ".intercalate m2}"
              else
                let foreign := qs.any (fun q => q.o.isSome && q.o != some q.s)
                ok (if foreign then "resolver-flights-cross-store" else "resolver-flights") (qs.length ≥ 2)
      | _ => "SKIP unparsable-output"
  | _ => "SKIP unknown-kind"

end OpenFGAVerif.SfCase
