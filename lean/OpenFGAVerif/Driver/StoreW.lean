/-
Shared pieces of the C12 / C15 drivers: text form of tuples, changes and write requests (see harness/storew),
the model runners for the four backends, and the model-independent checks on the implementation's own outputs.
-/
import OpenFGAVerif.Driver.Proto
import OpenFGAVerif.Model.StoreWrite
import OpenFGAVerif.Model.StoreKeys
import OpenFGAVerif.Gen.StoreWrite
import OpenFGAVerif.Gen.StoreKeys

namespace OpenFGAVerif.Driver.StoreW
open OpenFGAVerif OpenFGAVerif.Model OpenFGAVerif.Model.StoreTypes OpenFGAVerif.Model.StoreWrite

/-! ### text form -/

def ctxOfLabel (s : String) : Option Bytes :=
  if s == "n" then none else if s == "e" then some [] else some s.toUTF8.toList

def labelOfCtx : Option Bytes → String
  | none => "n"
  | some [] => "e"
  | some b => String.fromUTF8! (ByteArray.mk b.toArray)

def parseKey (s : String) : Option TupleKey := do
  let (o, rest) ← splitAtFirst '#' s.toList
  let (r, u) ← splitAtFirst '@' rest
  let (ty, id) := splitObject (String.ofList o)
  some ⟨ty, id, String.ofList r, String.ofList u⟩

def parseWrite (s : String) : Option TupleRec :=
  match s.splitOn "~" with
  | [k, c, l] => do
    let k ← parseKey k
    some { objType := k.objType, objId := k.objId, relation := k.relation, user := k.user,
           condName := if c == "-" then "" else c, condCtx := ctxOfLabel l }
  | _ => none

def fmtTuple (t : TupleRec) : String :=
  buildObject t ++ "#" ++ t.relation ++ "@" ++ t.user ++ "~" ++ (if t.condName == "" then "-" else t.condName) ++ "~" ++ labelOfCtx t.condCtx

def fmtList (xs : List String) : String := if xs.isEmpty then "_" else ",".intercalate xs

def parseList (s : String) : List String := if s == "_" || s == "" then [] else s.splitOn ","

def allSome {α} : List (Option α) → Option (List α)
  | [] => some []
  | none :: _ => none
  | some x :: xs => (allSome xs).map (x :: ·)

def fmtChange (c : Change) : String := (match c.op with | .write => "+" | .delete => "-") ++ fmtTuple c.tuple

/-- a change as printed by the harness: "+tuple" / "-tuple" -/
def parseChange (s : String) : Option (Op × TupleRec) :=
  match s.toList with
  | '+' :: r => (parseWrite (String.ofList r)).map (fun t => (Op.write, t))
  | '-' :: r => (parseWrite (String.ofList r)).map (fun t => (Op.delete, t))
  | _ => none

structure Req where
  onMissing : String
  onDuplicate : String
  dels : List TupleKey
  writes : List TupleRec
deriving Inhabited

/-- "w;<on_missing>;<on_duplicate>;<deletes>;<writes>" -/
def parseReq (s : String) : Option Req :=
  match s.splitOn ";" with
  | ["w", m, d, ds, ws] => do
    let ds ← allSome ((parseList ds).map parseKey)
    let ws ← allSome ((parseList ws).map parseWrite)
    some ⟨m, d, ds, ws⟩
  | _ => none

/-- options as the harness hands them to the datastore API ("_" = option not given) -/
def dsOpts (r : Req) : WriteOpts := { ignoreMissing := r.onMissing == "ignore", ignoreDup := r.onDuplicate == "ignore" }

def rawOpt (w : String) : String := if w == "_" then "" else w

/-! ### model runners -/

def genCfg : SqlCfg :=
  { selectInTxn := Gen.StoreWrite.sqlSelectInTxn, deleteInTxn := Gen.StoreWrite.sqlDeleteInTxn,
    insertInTxn := Gen.StoreWrite.sqlInsertInTxn, changelogInTxn := Gen.StoreWrite.sqlChangelogInTxn,
    rollbackDeferred := Gen.StoreWrite.sqlRollbackDeferred }

/-- the condition comparison the source makes today (`Gen.StoreWrite.memCondCompare` / `sqlCondCompare`) -/
def memCeq : TupleRec → TupleRec → Bool := ceqOfSource Gen.StoreWrite.memCondCompare memCompareNormalisedText
def sqlCeq : TupleRec → TupleRec → Bool := ceqOfSource Gen.StoreWrite.sqlCondCompare sqlCompareNormalisedText

/-- the lock keys of a request as the source computes them today (field list and separator of makeTupleLockKeys'
    de-dup key: `Gen.StoreKeys.sqlLockKeyJoin` / `sqlLockKeySep`) -/
def srcLockKeys (dels : List TupleKey) (writes : List TupleRec) : List TupleKey :=
  StoreKeys.sqlLockKeys StoreKeys.userTypeOf (StoreKeys.lockFieldsOf Gen.StoreKeys.sqlLockKeyJoin)
    (Gen.StoreKeys.sqlLockKeySep.map Char.ofNat) dels writes

/-- sqlite.write / its driver-level trace with these lock keys -/
def sqlWriteSrc (db : Db) (dels : List TupleKey) (writes : List TupleRec) (o : WriteOpts) (now : Nat) (f : Option Fail) : Db × Option WriteErr :=
  StoreKeys.sqlWriteK (srcLockKeys dels writes) sqlCeq genCfg db dels writes o now f
def sqlTraceSrc (db : Db) (dels : List TupleKey) (writes : List TupleRec) (o : WriteOpts) : List String :=
  StoreKeys.sqlTraceK (srcLockKeys dels writes) sqlCeq db dels writes o

/-- model state of one session: the memory store (raw records) or the SQL database -/
inductive MState where
  | mem (s : StoreState)
  | sql (db : Db)

def MState.init (backend : String) : MState :=
  if backend == "sql" || backend == "cmdsql" then .sql { committed := {} } else .mem {}

def MState.view : MState → List TupleRec
  | .mem s => memView s
  | .sql db => db.committed.tuples

def MState.changes : MState → List Change
  | .mem s => s.changes
  | .sql db => db.committed.changes

def MState.dump (m : MState) : String :=
  fmtList (m.view.map fmtTuple) ++ ";" ++ fmtList (m.changes.map fmtChange)

/-- the options the request ends up with, or the front-end error (commands backends) -/
def frontOpts (backend : String) (r : Req) : Except WriteErr WriteOpts :=
  if backend == "cmdmem" || backend == "cmdsql" then
    cmdFront Gen.StoreWrite.onDuplicateTable Gen.StoreWrite.onMissingTable
      (Gen.StoreWrite.cmdDeleteValidators.contains "IsValidObject" && Gen.StoreWrite.cmdDeleteValidators.contains "IsValidRelation")
      r.dels r.writes (rawOpt r.onDuplicate) (rawOpt r.onMissing)
  else .ok (dsOpts r)

/-- the options the API documents for the request's words, independent of the source's tables: "" / "error" → fail,
    "ignore" → skip; any other word, a malformed delete key or a key given twice must be rejected (`none`) -/
def intendedOpts (backend : String) (r : Req) : Option WriteOpts :=
  if backend == "cmdmem" || backend == "cmdsql" then
    let okWord (w : String) := w == "_" || w == "error" || w == "ignore"
    if (r.dels.isEmpty && r.writes.isEmpty) || !(okWord r.onMissing && okWord r.onDuplicate)
       || r.dels.any (fun k => !validDeleteKey k) || hasDupKeys (r.dels ++ r.writes.map (·.key)) then none
    else some (dsOpts r)
  else some (dsOpts r)

def stepModel (backend : String) (m : MState) (r : Req) (now : Nat) (f : Option Fail := none) : MState × String :=
  match frontOpts backend r with
  | .error e => (m, e.name)
  | .ok o =>
    match m with
    | .mem s =>
      let (s', e) := memWrite memCeq s r.dels r.writes o now
      (.mem s', match e with | none => "ok" | some e => e.name)
    | .sql db =>
      let (db', e) := sqlWriteSrc db r.dels r.writes o now f
      (.sql db', match e with | none => "ok" | some e => e.name)

/-! ### what the implementation printed -/

structure Obs where
  res : String
  tuples : List TupleRec
  changes : List (Op × TupleRec)
deriving Inhabited

def parseObs (res ts cs : String) : Option Obs := do
  let ts ← allSome ((parseList ts).map parseWrite)
  let cs ← allSome ((parseList cs).map parseChange)
  some ⟨res, ts, cs⟩

def sortStrings (xs : List String) : List String := (xs.toArray.qsort (· < ·)).toList

def obsChangeStr (c : Op × TupleRec) : String := (match c.1 with | .write => "+" | .delete => "-") ++ fmtTuple c.2

def isPrefix (a b : List String) : Bool := a.isPrefixOf b

/-- replay of a printed changelog onto the empty store -/
def replayObs (cs : List (Op × TupleRec)) : List TupleRec :=
  replay [] (cs.map (fun c => { tuple := c.2, op := c.1, ulid := 0, ts := 0 }))

def reqWellFormed (r : Req) : Bool :=
  r.dels.all (fun k => decide (WfKey k)) && r.writes.all (fun w => decide (WfKey w.key)) && !hasDupKeys (r.dels ++ r.writes.map (·.key))

/-- Checks that use only the implementation's own outputs before (`prev`) and after (`cur`) one write request.
    `opts` = the options in force (`none`: the commands front end rejected the request).
    Returns the violated part of the property, if any. -/
def specCheck (backend : String) (prev cur : Obs) (r : Req) (opts : Option WriteOpts) : Option String :=
  let pc := prev.changes.map obsChangeStr
  let cc := cur.changes.map obsChangeStr
  let pt := prev.tuples.map fmtTuple
  let ct := cur.tuples.map fmtTuple
  if cur.res != "ok" && (pt != ct || pc != cc) then
    some s!"not all-or-nothing: the write failed ({cur.res}) but the store changed [{backend}]"
  else if !isPrefix pc cc then some s!"the changelog is not append-only [{backend}]"
  else if sortStrings ((replayObs cur.changes).map fmtTuple) != sortStrings ct then
    some s!"replaying the changelog does not reproduce the store's tuples [{backend}]"
  else match opts with
    | none => (if cur.res == "ok" then some s!"a request rejected by the command front end was applied [{backend}]" else none)
    | some o =>
      if !reqWellFormed r then none else
      let st : StoreState := { tuples := prev.tuples, changes := [] }
      match specWrite semCondEq false id st r.dels r.writes o 0 with
      | .error e =>
        if cur.res == "ok" then some s!"the write succeeded although it must fail as a whole ({e.name}) [{backend}]" else none
      | .ok s' =>
        if cur.res == "cond-conflict" then
          some s!"on_duplicate=ignore rejected a write whose condition equals the stored one (absent vs empty condition context) [{backend}]"
        else if cur.res != "ok" then
          some s!"the write failed ({cur.res}) although every item is applicable or ignorable [{backend}]"
        else
          let newC := cc.drop pc.length
          let specC := s'.changes.map fmtChange
          let delsFirst := (newC.dropWhile (fun s => s.startsWith "-")).all (fun s => s.startsWith "+")
          if sortStrings (s'.tuples.map (fun t => fmtTuple (normCond t))) != sortStrings ct then
            some s!"tuples after the write differ from: stored − effective deletes + effective writes [{backend}]"
          else if sortStrings newC != sortStrings specC || !delsFirst then
            some s!"the changelog does not get exactly one entry per effective delete/write (deletes first) [{backend}]"
          else none

end OpenFGAVerif.Driver.StoreW
