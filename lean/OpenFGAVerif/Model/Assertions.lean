/-
Model of assertion storage (pkg/storage/memory, pkg/storage/sqlite, pkg/server/commands). Core Lean only.

  memory.WriteAssertions / ReadAssertions   → `memWrite` / `memRead`   (one Go map keyed by fmt.Sprintf("%s|%s", store, model))
  sqlite.WriteAssertions / ReadAssertions   → `sqlWrite` / `sqlRead`   (table `assertion`, PRIMARY KEY (store, authorization_model_id),
                                                                        INSERT … ON CONFLICT … DO UPDATE, blob = proto.Marshal)
  commands.WriteAssertionsCommand.Execute   → `cmdWrite`               (guards in front of the datastore write)
  the property's reading                     → `Spec`: a map keyed by the *pair* (store, model)

An assertion is an opaque value of type `A` (the harness uses the deterministic protobuf encoding);
protobuf marshal/unmarshal is a `Codec` whose round trip is a hypothesis of the sqlite theorems.
-/
namespace OpenFGAVerif.Model.Assertions

abbrev Bytes := List UInt8

/-- '|' -/
def bar : UInt8 := 124

/-! ## operations and the specification -/

inductive Op (A : Type) where
  | write (store model : Bytes) (as : List A)
  | read (store model : Bytes)
  | deleteStore (store : Bytes)

/-- the property's reading: one list per (store, model) pair; never written ⇒ `[]` -/
def Spec (A : Type) := Bytes → Bytes → List A

def Spec.empty {A : Type} : Spec A := fun _ _ => []

def Spec.write {A : Type} (sp : Spec A) (s m : Bytes) (as : List A) : Spec A :=
  fun s' m' => if s' = s ∧ m' = m then as else sp s' m'

/-- one step of the specification; reads and DeleteStore leave the assertions alone -/
def Spec.step {A : Type} (sp : Spec A) : Op A → Spec A
  | .write s m as => sp.write s m as
  | .read _ _ => sp
  | .deleteStore _ => sp

def Spec.run {A : Type} (sp : Spec A) (h : List (Op A)) : Spec A := h.foldl Spec.step sp

/-- the list most recently written for (s, m) in a history that starts with `init` there:
scan the history, remember the last matching write -/
def lastWritten {A : Type} (init : List A) : List (Op A) → Bytes → Bytes → List A
  | [], _, _ => init
  | .write s' m' as :: rest, s, m => lastWritten (if s' = s ∧ m' = m then as else init) rest s m
  | _ :: rest, s, m => lastWritten init rest s m

/-! ## the memory backend -/

/-- `fmt.Sprintf("%s|%s", store, modelID)` -/
def memKey (sep : Bytes) (s m : Bytes) : Bytes := s ++ sep ++ m

/-- `s.assertions`: a Go map from the formatted key to the slice that was handed in -/
abbrev MemState (A : Type) := List (Bytes × List A)

def memGet {A : Type} : MemState A → Bytes → Option (List A)
  | [], _ => none
  | (k', v) :: rest, k => if k' = k then some v else memGet rest k

/-- `s.assertions[assertionsID] = assertions` -/
def memSet {A : Type} : MemState A → Bytes → List A → MemState A
  | [], k, v => [(k, v)]
  | (k', v') :: rest, k, v => if k' = k then (k, v) :: rest else (k', v') :: memSet rest k v

def memWrite {A : Type} (sep : Bytes) (st : MemState A) (s m : Bytes) (as : List A) : MemState A :=
  memSet st (memKey sep s m) as

/-- `assertions, ok := s.assertions[id]; if !ok { return []*Assertion{} }` -/
def memRead {A : Type} (sep : Bytes) (st : MemState A) (s m : Bytes) : List A :=
  match memGet st (memKey sep s m) with
  | some as => as
  | none => []

/-- memory.DeleteStore only deletes from `s.stores` -/
def memStep {A : Type} (sep : Bytes) (st : MemState A) : Op A → MemState A
  | .write s m as => memWrite sep st s m as
  | .read _ _ => st
  | .deleteStore _ => st

def memRun {A : Type} (sep : Bytes) (st : MemState A) (h : List (Op A)) : MemState A := h.foldl (memStep sep) st

/-! ## the sqlite backend -/

/-- protobuf (un)marshalling of `openfgav1.Assertions` (trusted) -/
structure Codec (A : Type) where
  marshal : List A → Bytes
  unmarshal : Bytes → Option (List A)

def Codec.RoundTrip {A : Type} (c : Codec A) : Prop := ∀ as, c.unmarshal (c.marshal as) = some as

/-- table `assertion`: rows (store, authorization_model_id, assertions BLOB), primary key on the pair -/
abbrev SqlState := List ((Bytes × Bytes) × Bytes)

def sqlGet : SqlState → Bytes → Bytes → Option Bytes
  | [], _, _ => none
  | ((s', m'), b) :: rest, s, m => if s' = s ∧ m' = m then some b else sqlGet rest s m

/-- INSERT … ON CONFLICT (store, authorization_model_id) DO UPDATE SET assertions = ? -/
def sqlUpsert : SqlState → Bytes → Bytes → Bytes → SqlState
  | [], s, m, b => [((s, m), b)]
  | ((s', m'), b') :: rest, s, m, b =>
    if s' = s ∧ m' = m then ((s, m), b) :: rest else ((s', m'), b') :: sqlUpsert rest s m b

def sqlWrite {A : Type} (c : Codec A) (st : SqlState) (s m : Bytes) (as : List A) : SqlState :=
  sqlUpsert st s m (c.marshal as)

/-- SELECT assertions … WHERE store = ? AND authorization_model_id = ?; no row ⇒ empty list;
a blob that does not unmarshal is an error (`none`) -/
def sqlRead {A : Type} (c : Codec A) (st : SqlState) (s m : Bytes) : Option (List A) :=
  match sqlGet st s m with
  | none => some []
  | some b => c.unmarshal b

/-- sqlite.DeleteStore only sets `store.deleted_at` -/
def sqlStep {A : Type} (c : Codec A) (st : SqlState) : Op A → SqlState
  | .write s m as => sqlWrite c st s m as
  | .read _ _ => st
  | .deleteStore _ => st

def sqlRun {A : Type} (c : Codec A) (st : SqlState) (h : List (Op A)) : SqlState := h.foldl (sqlStep c) st

/-! ## the command in front of the datastore -/

inductive CmdErr where
  | modelNotFound | storageError | badSchemaVersion | invalidModel | tooLarge | invalidAssertion
  deriving Repr, DecidableEq

/-- what `WriteAssertionsCommand.Execute` looks at before it writes, in the order it looks -/
structure CmdInput where
  modelFound : Bool            -- ReadAuthorizationModel did not return ErrNotFound
  modelReadOk : Bool           -- … nor another error
  schemaSupported : Bool       -- typesystem.IsSchemaVersionSupported
  typesystemOk : Bool          -- typesystem.New
  totalSize : Nat              -- Σ proto.Size(assertion)
  allValid : Bool              -- every tuple key / contextual tuple validates against the model

/-- the guards of `Execute`, in source order; `none` = the datastore write is reached -/
def cmdGuards (maxBytes : Nat) (i : CmdInput) : Option CmdErr :=
  if !i.modelFound then some .modelNotFound
  else if !i.modelReadOk then some .storageError
  else if !i.schemaSupported then some .badSchemaVersion
  else if !i.typesystemOk then some .invalidModel
  else if i.totalSize > maxBytes then some .tooLarge
  else if !i.allValid then some .invalidAssertion
  else none

/-- `Execute` over a datastore state with write function `w` -/
def cmdWrite {S A : Type} (maxBytes : Nat) (w : S → Bytes → Bytes → List A → S) (st : S) (i : CmdInput)
    (s m : Bytes) (as : List A) : S × Option CmdErr :=
  match cmdGuards maxBytes i with
  | some e => (st, some e)
  | none => (w st s m as, none)

end OpenFGAVerif.Model.Assertions
