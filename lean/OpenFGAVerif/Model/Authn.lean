/-
Model of OpenFGA's authenticators (C27).

  * `grpcauth.AuthFromMD(ctx, "Bearer")` (go-grpc-middleware) on the list of `authorization` metadata values;
  * internal/authn/presharedkey: hash the presented token, OR together the constant-time comparisons with every
    configured key hash, accept iff the result is 1;
  * internal/authn/oidc `Authenticate`: jwt parser with the option list of the source, issuer loop, guarded subject
    loop, typed `sub`, client-id claim loop, scopes.  The jwt library (golang-jwt/jwt v5 `Parser` / `Validator`) is
    modelled at the level of its documented decision procedure over an abstract view of the token (`Token`);
    signature verification / JWKS lookup is the abstract predicate `sigOk`.
  * internal/middleware/authn `AuthFunc`.

Core Lean only.
-/
namespace OpenFGAVerif.Model.Authn

abbrev Bytes := List UInt8

/-! ## `grpcauth.AuthFromMD` -/

/-- `strings.Cut(s, " ")` -/
def cutSpace : Bytes → Option (Bytes × Bytes)
  | [] => none
  | x :: xs =>
    if x = 32 then some ([], xs)
    else match cutSpace xs with
      | none => none
      | some (l, r) => some (x :: l, r)

def lowerAscii (b : UInt8) : UInt8 := if 65 ≤ b ∧ b ≤ 90 then b + 32 else b

/-- "bearer" -/
def bearerLower : Bytes := [98, 101, 97, 114, 101, 114]

/-- `strings.EqualFold(scheme, "Bearer")`: none of b, e, a, r has a non-ASCII simple-fold partner, so Unicode folding
coincides with ASCII case-insensitive comparison of the bytes (assumption, exercised by the correspondence) -/
def schemeIsBearer (scheme : Bytes) : Bool := scheme.map lowerAscii = bearerLower

/-- `AuthFromMD(ctx, "Bearer")`: `none` = error.  Only the first metadata value is looked at. -/
def authFromMD (vals : List Bytes) : Option Bytes :=
  match vals with
  | [] => none
  | v :: _ =>
    match cutSpace v with
    | none => none
    | some (scheme, tok) => if schemeIsBearer scheme then some tok else none

/-! ## Pre-shared keys -/

inductive PskResult where
  | accepted | missingBearer | unauthenticated
deriving DecidableEq, Repr

/-- `subtle.ConstantTimeCompare` on two equal-length inputs -/
def ctEq {Hash : Type} [DecidableEq Hash] (a b : Hash) : Nat := if a = b then 1 else 0

/-- `for _, kh := range hashes { matched |= ConstantTimeCompare(tokenHash, kh) }` -/
def matchedFold {Hash : Type} [DecidableEq Hash] (th : Hash) (hashes : List Hash) (acc : Nat) : Nat :=
  match hashes with
  | [] => acc
  | kh :: rest => matchedFold th rest (acc ||| ctEq th kh)

/-- `NewPresharedKeyAuthenticator`: `none` = constructor error -/
def presharedNew {Hash : Type} (H : Bytes → Hash) (keys : List Bytes) : Option (List Hash) :=
  if keys.length < 1 then none else some (keys.map H)

/-- `PresharedKeyAuthenticator.Authenticate` -/
def presharedAuthenticate {Hash : Type} [DecidableEq Hash] (H : Bytes → Hash) (hashes : List Hash) (vals : List Bytes) : PskResult :=
  match authFromMD vals with
  | none => .missingBearer
  | some tok => if matchedFold (H tok) hashes 0 = 1 then .accepted else .unauthenticated

/-- `AuthFunc`: claims are attached to the context iff the authenticator accepted; otherwise the error is returned
and no context -/
def authFunc (r : PskResult) : Option Unit × Option PskResult :=
  match r with
  | .accepted => (some (), none)
  | e => (none, some e)

/-! ## OIDC -/

inductive NumClaim where
  | absent | bad | val (t : Int)
deriving DecidableEq, Repr

inductive StrClaim where
  | absent | bad | val (s : String)
deriving DecidableEq, Repr

inductive AudClaim where
  | absent | bad | vals (l : List String)
deriving DecidableEq, Repr

/-- what the jwt library sees in a bearer string -/
structure Token where
  /-- three segments, base64url JSON header and claim set, `alg` present -/
  wellFormed : Bool
  alg : String
  /-- the key function finds the token's `kid` in the issuer's key set (compatible with `alg`) and the signature
  verifies under `alg` with that key -/
  sigOk : Bool
  exp : NumClaim
  iat : NumClaim
  nbf : NumClaim
  aud : AudClaim
  iss : StrClaim
  sub : StrClaim
  /-- other claims the authenticator reads (client-id claims, `scope`) -/
  other : List (String × StrClaim)
deriving Repr

def Token.claim (t : Token) (name : String) : StrClaim :=
  match t.other.lookup name with
  | some c => c
  | none => .absent

/-- where the argument of a `jwt.With…` option comes from -/
inductive ArgRef where
  | none          -- the option is not set
  | cfgAudience   -- `oidc.Audience`
  | loopVar       -- the variable of the surrounding ContainsFunc loop (`issuer` / `subject`)
  | unknown
deriving DecidableEq, Repr

/-- state of a `jwt.Parser` / `jwt.Validator` after its options were applied (arguments still symbolic) -/
structure VTemplate where
  validMethods : List String := []     -- [] = any method
  verifyIat : Bool := false
  requireExp : Bool := false
  aud : ArgRef := .none
  iss : ArgRef := .none
  sub : ArgRef := .none
  /-- an option (or argument) the model does not know -/
  unknown : Bool := false
deriving DecidableEq, Repr

def argRef (a : String) : ArgRef :=
  if a = "oidc.Audience" then .cfgAudience
  else if a = "issuer" ∨ a = "subject" then .loopVar
  else .unknown

def applyOpt (v : VTemplate) (o : String × List String) : VTemplate :=
  match o with
  | ("WithValidMethods", ms) => { v with validMethods := ms }
  | ("WithIssuedAt", []) => { v with verifyIat := true }
  | ("WithExpirationRequired", []) => { v with requireExp := true }
  | ("WithAudience", [a]) => { v with aud := argRef a, unknown := v.unknown || argRef a == .unknown }
  | ("WithIssuer", [a]) => { v with iss := argRef a, unknown := v.unknown || argRef a == .unknown }
  | ("WithSubject", [a]) => { v with sub := argRef a, unknown := v.unknown || argRef a == .unknown }
  | _ => { v with unknown := true }

def templateOf (opts : List (String × List String)) : VTemplate := opts.foldl applyOpt {}

structure Config where
  mainIssuer : String
  aliases : List String
  audience : String
  subjects : List String
  clientIDClaims : List String

/-- `NewRemoteOidcAuthenticator`: defaults for the client-id claims (the issuer / audience non-emptiness checks are
preconditions of `Config` values used in the theorems) -/
def Config.clientClaims (c : Config) : List String :=
  if c.clientIDClaims.length = 0 then ["azp", "client_id"] else c.clientIDClaims

def resolveArg (r : ArgRef) (cfg : Config) (loopVal : String) : String :=
  match r with
  | .none => ""
  | .cfgAudience => cfg.audience
  | .loopVar => loopVal
  | .unknown => ""

def numNotPassed (now : Int) (required : Bool) : NumClaim → Bool
  | .absent => !required
  | .bad => false
  | .val e => decide (now < e)

/-- `verifyNotBefore` / `verifyIssuedAt` (not required): the claim, if present, must not lie in the future -/
def numNotFuture (now : Int) : NumClaim → Bool
  | .absent => true
  | .bad => false
  | .val t => decide (¬ now < t)

/-- `verifyAudience` with `expectAllAud = false`; called only when an audience is expected -/
def audOk (expected : String) : AudClaim → Bool
  | .absent => false
  | .bad => false
  | .vals l => if l = [] ∨ l = [""] then false else l.any (fun a => a = expected)

/-- `verifyIssuer` / `verifySubject` with `required = true` -/
def strIs (expected : String) : StrClaim → Bool
  | .absent => false
  | .bad => false
  | .val s => if s = "" then false else decide (s = expected)

/-- `Validator.Validate` -/
def validate (v : VTemplate) (cfg : Config) (loopVal : String) (now : Int) (t : Token) : Bool :=
  numNotPassed now v.requireExp t.exp &&
  numNotFuture now t.nbf &&
  (!v.verifyIat || numNotFuture now t.iat) &&
  (v.aud == .none || audOk (resolveArg v.aud cfg loopVal) t.aud) &&
  (resolveArg v.iss cfg loopVal == "" || strIs (resolveArg v.iss cfg loopVal) t.iss) &&
  (resolveArg v.sub cfg loopVal == "" || strIs (resolveArg v.sub cfg loopVal) t.sub)

/-- `Parser.Parse` with a key function: well-formed, method allowed, signature verifies, claims validate -/
def parse (v : VTemplate) (cfg : Config) (now : Int) (t : Token) : Bool :=
  t.wellFormed && (v.validMethods == [] || v.validMethods.contains t.alg) && t.sigOk && validate v cfg "" now t

inductive IssuerSrc where
  | main | aliases | unknown
deriving DecidableEq, Repr

def issuerSrc (e : String) : IssuerSrc :=
  if e = "oidc.MainIssuer" then .main else if e = "oidc.IssuerAliases..." then .aliases else .unknown

def issuersOf (cfg : Config) : List IssuerSrc → List String
  | [] => []
  | .main :: r => cfg.mainIssuer :: issuersOf cfg r
  | .aliases :: r => cfg.aliases ++ issuersOf cfg r
  | .unknown :: r => issuersOf cfg r

inductive OidcResult where
  | missingBearer
  | invalidClaims
  | accepted (subject clientID : String) (scope : Option String)
deriving DecidableEq, Repr

/-- the client-id loop: the first claim of the list that is a string wins; a failed assertion leaves "" -/
def clientIDOf (t : Token) : List String → String
  | [] => ""
  | n :: rest =>
    match t.claim n with
    | .val s => s
    | _ => match rest with
      | [] => ""
      | _ => clientIDOf t rest

/-- `RemoteOidcAuthenticator.Authenticate` with the parser / validator templates made explicit -/
def oidcCore (ptpl : VTemplate) (isrc : List IssuerSrc) (itpl stpl : VTemplate) (subjectsGuarded : Bool)
    (cfg : Config) (now : Int) (view : Bytes → Token) (vals : List Bytes) : OidcResult :=
  match authFromMD vals with
  | none => .missingBearer
  | some tok =>
    let t := view tok
    if !parse ptpl cfg now t then .invalidClaims
    else if !(issuersOf cfg isrc).any (fun i => validate itpl cfg i now t) then .invalidClaims
    else if (!subjectsGuarded || decide (cfg.subjects.length > 0)) && !cfg.subjects.any (fun s => validate stpl cfg s now t) then .invalidClaims
    else match t.sub with
      | .bad => .invalidClaims
      | sc =>
        let subject := match sc with | .val s => s | _ => ""
        let scope := match t.claim "scope" with | .val s => some s | _ => none
        .accepted subject (clientIDOf t cfg.clientClaims) scope

/-- the authenticator as written in the source: templates computed from the extracted option lists -/
def oidcAuthenticate (parserOpts : List (String × List String)) (issuerExprs : List String)
    (validatorOpts : List (List (String × List String))) (subjectGuard : String)
    (cfg : Config) (now : Int) (view : Bytes → Token) (vals : List Bytes) : OidcResult :=
  oidcCore (templateOf parserOpts) (issuerExprs.map issuerSrc)
    (templateOf (validatorOpts.getD 0 [])) (templateOf (validatorOpts.getD 1 []))
    (subjectGuard == "len(oidc.Subjects) > 0") cfg now view vals

end OpenFGAVerif.Model.Authn
