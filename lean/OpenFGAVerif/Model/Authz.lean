/-
Model of OpenFGA's API access control (C26).

Mirrors, step for step,
  * internal/authz/authz.go: `Authorize`, `individualAuthorize`, `moduleAuthorize`, `checkAuthClaims`,
    `AuthorizeCreateStore`, `AuthorizeListStores`, `ListAuthorizedStores`, `extractModulesFromTuples`;
  * pkg/server/server.go: `checkAuthz`, `checkCreateStoreAuthz`, `getAccessibleStores`, `checkWriteAuthz`;
  * pkg/server/stores.go `ListStores` + pkg/server/commands/list_stores.go + pkg/storage/memory `ListStores`
    (an empty ID list means "no filter");
  * the per-handler event skeletons extracted from pkg/server/*.go.

The nested FGA `Check` / `ListObjects` on the access-control store are parameters (`Checker`, a list).
The goroutine completion order inside `moduleAuthorize` is an explicit oracle argument (`sched`).
Core Lean only.
-/
namespace OpenFGAVerif.Model.Authz

/-! ## The authorizer -/

/-- result of the nested `server.Check` on the access-control store -/
inductive CheckRes where
  | allowed | denied | error
deriving DecidableEq, Repr

/-- the `Cause` of the Go `authorizationError` (or of the raw error) that makes `Authorize` refuse -/
inductive Cause where
  | noClient | unknownMethod | checkError | notAllowed | tooManyModules
deriving DecidableEq, Repr

structure Tuple where
  object : String
  relation : String
  user : String
deriving DecidableEq, Repr

/-- what `individualAuthorize` sends to `server.Check` -/
structure CheckReq where
  user : String
  relation : String
  object : String
  ctx : List Tuple
deriving DecidableEq, Repr

abbrev Checker := CheckReq → CheckRes

instance : DecidableEq (Except Cause Unit) := fun a b =>
  match a, b with
  | .ok (), .ok () => isTrue rfl
  | .error x, .error y => if h : x = y then isTrue (by rw [h]) else isFalse (fun e => h (by cases e; rfl))
  | .ok (), .error _ => isFalse (fun e => by cases e)
  | .error _, .ok () => isFalse (fun e => by cases e)

/-- type names / fixed ids used to build object strings (values come from `Gen.Authz`) -/
structure Names where
  storeType : String := "store"
  moduleType : String := "module"
  applicationType : String := "application"
  systemType : String := "system"
  systemRelationOnStore : String := "system"
  rootSystemID : String := "fga"
  canCallGetStore : String := "can_call_get_store"

def Names.storeObj (n : Names) (id : String) : String := n.storeType ++ ":" ++ id
def Names.appUser (n : Names) (c : String) : String := n.applicationType ++ ":" ++ c
def Names.moduleObj (n : Names) (store m : String) : String := n.moduleType ++ ":" ++ store ++ "|" ++ m
def Names.systemObj (n : Names) : String := n.systemType ++ ":" ++ n.rootSystemID

/-- `getSystemAccessTuple` -/
def Names.systemAccessTuple (n : Names) (store : String) : Tuple :=
  ⟨n.storeObj store, n.systemRelationOnStore, n.systemObj⟩

/-- the contextual tuples `moduleAuthorize` hands to the nested Check -/
def Names.moduleCtx (n : Names) (store m : String) : List Tuple :=
  [⟨n.moduleObj store m, n.storeType, n.storeObj store⟩, n.systemAccessTuple store]

/-- `getRelation`: a Go `switch` over string constants = first matching entry; no entry = `default:` = error -/
def lookupRelation (tbl : List (String × String)) (m : String) : Option String :=
  match tbl with
  | [] => none
  | (k, v) :: rest => if k = m then some v else lookupRelation rest m

/-- `individualAuthorize` -/
def individualAuthorize (check : Checker) (n : Names) (client rel obj : String) (ctx : List Tuple) : Except Cause Unit :=
  match check ⟨n.appUser client, rel, obj, ctx⟩ with
  | .error => .error .checkError
  | .denied => .error .notAllowed
  | .allowed => .ok ()

def storeReq (n : Names) (client rel store : String) : CheckReq :=
  ⟨n.appUser client, rel, n.storeObj store, [n.systemAccessTuple store]⟩

def moduleReq (n : Names) (client rel store m : String) : CheckReq :=
  ⟨n.appUser client, rel, n.moduleObj store m, n.moduleCtx store m⟩

/-- the error one module goroutine pushes on the channel (none = nothing pushed) -/
def moduleErr (check : Checker) (n : Names) (client rel store m : String) : Option Cause :=
  match individualAuthorize check n client rel (n.moduleObj store m) (n.moduleCtx store m) with
  | .ok _ => none
  | .error c => some c

/-- `moduleAuthorize`: every module is checked in its own goroutine; errors go to a buffered channel; after
`wg.Wait()` the first error in channel order is returned.  `sched ms` is the order in which the goroutines
delivered (a permutation of `ms`). -/
def moduleAuthorize (check : Checker) (n : Names) (sched : List String → List String)
    (client rel store : String) (ms : List String) : Except Cause Unit :=
  match (sched ms).filterMap (moduleErr check n client rel store) with
  | [] => .ok ()
  | c :: _ => .error c

structure Req where
  /-- `none`: no AuthClaims in the context; `some id`: `claims.ClientID` -/
  claims : Option String
  store : String
  method : String
  modules : List String
deriving Repr

/-- `checkAuthClaims` -/
def checkAuthClaims (claims : Option String) : Except Cause String :=
  match claims with
  | none => .error .noClient
  | some c => if c = "" then .error .noClient else .ok c

/-- `Authorizer.Authorize` -/
def authorize (tbl : List (String × String)) (maxModules : Nat) (n : Names) (check : Checker)
    (sched : List String → List String) (r : Req) : Except Cause Unit :=
  match checkAuthClaims r.claims with
  | .error e => .error e
  | .ok c =>
    match lookupRelation tbl r.method with
    | none => .error .unknownMethod
    | some rel =>
      match individualAuthorize check n c rel (n.storeObj r.store) [n.systemAccessTuple r.store] with
      | .ok _ => .ok ()
      | .error e =>
        if r.modules.length > 0 then
          if r.modules.length > maxModules then .error .tooManyModules
          else moduleAuthorize check n sched c rel r.store r.modules
        else .error e

/-- executable form of the specification `Granted` (Props: `grantedB_iff`) -/
def grantedB (tbl : List (String × String)) (maxModules : Nat) (n : Names) (check : Checker) (r : Req) : Bool :=
  match r.claims with
  | none => false
  | some c =>
    c ≠ "" &&
    match lookupRelation tbl r.method with
    | none => false
    | some rel =>
      check (storeReq n c rel r.store) = .allowed ||
      (!r.modules.isEmpty && decide (r.modules.length ≤ maxModules) && r.modules.all (fun m => check (moduleReq n c rel r.store m) = .allowed))

/-- `AuthorizeCreateStore` / `AuthorizeListStores`: the relation of `method` on `system:fga`, no contextual tuples -/
def authorizeSystem (tbl : List (String × String)) (n : Names) (check : Checker) (claims : Option String)
    (method : String) : Except Cause Unit :=
  match checkAuthClaims claims with
  | .error e => .error e
  | .ok c =>
    match lookupRelation tbl method with
    | none => .error .unknownMethod
    | some rel => individualAuthorize check n c rel n.systemObj []

/-- `strings.TrimPrefix(s, p)` -/
def trimPrefix (p s : String) : String :=
  if p.toList.isPrefixOf s.toList then String.ofList (s.toList.drop p.toList.length) else s

/-- `ListAuthorizedStores`: `none` models an error; the Go slice is always non-nil on success -/
def listAuthorizedStores (n : Names) (claims : Option String) (listObjects : String → Option (List String)) : Option (List String) :=
  match checkAuthClaims claims with
  | .error _ => none
  | .ok c =>
    match listObjects (n.appUser c) with
    | none => none
    | some objs => some (objs.map (trimPrefix (n.storeType ++ ":")))

/-! ## `extractModulesFromTuples` / `GetModulesForWriteRequest` -/

/-- what the typesystem says about one tuple of a write request -/
inductive TupleModule where
  | typeNotFound        -- `GetTypeDefinition` fails
  | relationNotFound    -- `GetModuleForObjectTypeRelation` fails
  | noModule            -- module = ""
  | module (m : String)
deriving DecidableEq, Repr

/-- `none` = error (the caller denies); `some []` = "authorize against the store" (Go returns a nil map / empty
list); otherwise the de-duplicated module set (Go iterates a map: the order is unspecified, it only matters
through `sched`) -/
def extractModules : List TupleModule → List String → Option (List String)
  | [], acc => some acc
  | .typeNotFound :: _, _ => none
  | .relationNotFound :: _, _ => none
  | .noModule :: _, _ => some []
  | .module m :: rest, acc => extractModules rest (if m ∈ acc then acc else acc ++ [m])

/-! ## The server-side wrappers -/

inductive Outcome where
  | pass        -- authorization let the call through (what happens next is the command's business)
  | forbidden   -- authz.ErrUnauthorizedResponse
  | preError    -- a non-authorization error returned before the authorizer ran
deriving DecidableEq, Repr

/-- `Server.checkAuthz` -/
def checkAuthz (skip : Bool) (auth : Except Cause Unit) : Outcome :=
  if skip then .pass else
  match auth with
  | .ok _ => .pass
  | .error _ => .forbidden

/-- `Server.checkWriteAuthz` -/
def checkWriteAuthz (skip : Bool) (tuples : List TupleModule) (auth : List String → Except Cause Unit) : Outcome :=
  if skip then .pass else
  match extractModules tuples [] with
  | none => .forbidden
  | some ms => checkAuthz false (auth ms)

/-! ## ListStores -/

structure Store where
  id : String
  name : String
deriving DecidableEq, Repr

/-- `memory.ListStores` up to pagination: the ID filter is applied only when the list is non-empty
(`len(options.IDs) > 0`), then the name filter.  (The result is sorted by id and cut into pages; neither adds
stores.) -/
def backendListStores (all : List Store) (ids : List String) (name : String) : List Store :=
  let s1 := if ids.length > 0 then ids.flatMap (fun i => all.filter (fun s => s.id = i)) else all
  if name ≠ "" then s1.filter (fun s => s.name = name) else s1

/-- `Server.getAccessibleStores`: `none` = forbidden; `some none` = Go `nil` (authz skipped / no access control);
`some (some ids)` = the non-nil list from the authorizer -/
def getAccessibleStores (skip : Bool) (mayList : Except Cause Unit) (granted : Option (List String)) : Option (Option (List String)) :=
  if skip then some none else
  match mayList with
  | .error _ => none
  | .ok _ =>
    match granted with
    | none => none
    | some ids => some (some ids)

/-- `Server.ListStores` after authorization.  `guard` = the handler returns an empty page when the granted list is
non-nil and empty (absent on the unchanged tree: finding F3). -/
def serverListStores (guard : Bool) (accessible : Option (List String)) (all : List Store) (name : String) : List Store :=
  match accessible with
  | none => backendListStores all [] name
  | some ids => if guard ∧ ids.length = 0 then [] else backendListStores all ids name

/-! ## Handler skeletons (data from `Gen.Authz.handlers`) -/

abbrev Event := String × String × Bool × Bool      -- kind, arg, error returned right away, top-level statement
abbrev Handler := String × List Event

def findHandler (tbl : List Handler) (name : String) : Option Handler :=
  match tbl with
  | [] => none
  | h :: rest => if h.1 = name then some h else findHandler rest name

/-- Does the handler authorize before touching data?  Walks the events in source order:
  * an authorizer call whose error is returned right away and that is a top-level statement: guarded, stop;
  * a call of another handler that is itself `guards` (fuel-bounded), error returned, top level: guarded, stop;
  * `resolveTypesystem` (reads the model): allowed before the guard only for the handlers in `typesysFirst`;
  * a reference to a data-bearing field before the guard: not guarded;
  * end of the list: `atEnd` (a handler that never touches data needs no guard; a *delegate* must guard). -/
def scan (tbl : List Handler) (typesysFirst : List String) (name : String) (atEnd : Bool) : Nat → List Event → Bool
  | 0, _ => false
  | _ + 1, [] => atEnd
  | fuel + 1, (kind, arg, ret, top) :: rest =>
    if kind = "authz" then
      if ret ∧ top then true else scan tbl typesysFirst name atEnd fuel rest
    else if kind = "typesys" then
      (name ∈ typesysFirst ∧ ret) && scan tbl typesysFirst name atEnd fuel rest
    else if kind = "call" then
      match findHandler tbl arg with
      | none => false
      | some h =>
        if scan tbl typesysFirst h.1 false fuel h.2 then
          (if ret ∧ top then true else scan tbl typesysFirst name atEnd fuel rest)
        else false
    else false

/-- fuel: every event and every delegation consumes one unit; 64 is far above any real handler (events are capped
at 10 per handler by the extractor, delegation depth is at most 3) -/
def authorizesFirst (tbl : List Handler) (typesysFirst : List String) (h : Handler) : Bool :=
  scan tbl typesysFirst h.1 true 64 h.2

/-- the API method a handler hands to `checkAuthz` (first authorizer event), following delegations -/
def guardOf (tbl : List Handler) : Nat → List Event → Option String
  | 0, _ => none
  | _ + 1, [] => none
  | fuel + 1, (kind, arg, _, _) :: rest =>
    if kind = "authz" then some arg
    else if kind = "call" then
      match findHandler tbl arg with
      | none => none
      | some h => guardOf tbl fuel h.2
    else guardOf tbl fuel rest

/-- has the handler a `resolveTypesystem` before its first authorizer event / delegation? -/
def typesysBeforeGuard : List Event → Bool
  | [] => false
  | (kind, _, _, _) :: rest =>
    if kind = "typesys" then true
    else if kind = "authz" ∨ kind = "call" then false
    else typesysBeforeGuard rest

/-! ## The reference access-control model (pkg/server/server_authz_test.go `rootStoreModel`), evaluated directly.
Only the correspondence driver uses this: the theorems quantify over every `Checker`. -/

def hasTuple (T : List Tuple) (o r u : String) : Bool := T.any (fun t => t.object = o ∧ t.relation = r ∧ t.user = u)

def directApp (T : List Tuple) (o r user : String) (wild : Bool) : Bool :=
  hasTuple T o r user || (wild && hasTuple T o r "application:*")

def isType (ty o : String) : Bool := (ty ++ ":").toList.isPrefixOf o.toList

def sysAdminOn (T : List Tuple) (sysObj user : String) : Bool :=
  isType "system" sysObj && directApp T sysObj "admin" user false

def storeAdmin (T : List Tuple) (s user : String) : Bool :=
  directApp T s "admin" user false || directApp T s "creator" user false ||
  T.any (fun t => t.object = s ∧ t.relation = "system" ∧ sysAdminOn T t.user user)

def storeRole (T : List Tuple) (s role user : String) : Bool :=
  directApp T s role user false || storeAdmin T s user

def storeRel (T : List Tuple) (s rel user : String) : Bool :=
  if rel = "admin" then storeAdmin T s user
  else if rel = "creator" then directApp T s rel user false
  else if rel ∈ ["reader", "writer", "model_writer"] then storeRole T s rel user
  else if rel ∈ ["can_call_delete_store", "can_call_get_store"] then directApp T s rel user false || storeAdmin T s user
  else if rel ∈ ["can_call_check", "can_call_expand", "can_call_list_objects", "can_call_list_users", "can_call_read", "can_call_read_changes"] then
    directApp T s rel user false || storeRole T s "reader" user
  else if rel ∈ ["can_call_read_assertions", "can_call_read_authorization_models"] then
    directApp T s rel user false || storeRole T s "reader" user || storeRole T s "model_writer" user
  else if rel = "can_call_write" then directApp T s rel user false || storeRole T s "writer" user
  else if rel ∈ ["can_call_write_assertions", "can_call_write_authorization_models"] then
    directApp T s rel user false || storeRole T s "model_writer" user
  else false

def moduleRel (T : List Tuple) (m rel user : String) : Bool :=
  if rel = "writer" then directApp T m rel user false
  else if rel = "can_call_write" then
    directApp T m rel user false || directApp T m "writer" user false ||
    T.any (fun t => t.object = m ∧ t.relation = "store" ∧ isType "store" t.user ∧ storeRole T t.user "writer" user)
  else false

def systemRel (T : List Tuple) (o rel user : String) : Bool :=
  if rel = "admin" then directApp T o rel user false
  else if rel ∈ ["can_call_create_stores", "can_call_list_stores"] then directApp T o rel user true || directApp T o "admin" user false
  else false

/-- Check on the reference model: stored tuples ++ contextual tuples -/
def rootCheck (stored : List Tuple) (q : CheckReq) : CheckRes :=
  let T := stored ++ q.ctx
  let b :=
    if isType "store" q.object then storeRel T q.object q.relation q.user
    else if isType "module" q.object then moduleRel T q.object q.relation q.user
    else if isType "system" q.object then systemRel T q.object q.relation q.user
    else false
  if b then .allowed else .denied

end OpenFGAVerif.Model.Authz
