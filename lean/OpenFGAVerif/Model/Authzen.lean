/-
Model of `pkg/server/authzen.go`: the mapping of AuthZEN requests onto the native OpenFGA API.

  mergePropertiesToContext   → `merge`      (a Go map filled by four loops, later assignments overwrite)
  buildCheckRequest          → `build`      (nil guards in the code's order, `type:id` formatting)
  resolveEvalFields          → `resolve`    (item field, else top-level field)
  Server.Evaluation          → `evaluation`
  Server.Evaluations         → `evaluations` (empty list ⇒ single evaluation, options ⇒ semantic, dispatch)
  evaluateWithShortCircuit   → `shortCircuit`
  evaluateAll                → `evaluateAll` (BatchCheck, correlation id = index)
  SubjectSearch              → `subjectSearch`  (ListUsers, objects and typed wildcards mapped back)
  ResourceSearch             → `resourceSearch` (StreamedListObjects, `strings.Cut(obj, ":")`)
  ActionSearch               → `actionSearch`   (BatchCheck over the relations of the resource type, sorted)
  protoc-gen-validate rules  → `validName` / `valid…` (patterns `^[^:#@\s]{1,N}$`)

The native API is a parameter (`Native`): the theorems of `Props/C32.lean` hold for an arbitrary native
`check` / `batchCheck` / `listUsers` / `streamedListObjects`; what they assume about `batchCheck`
(it answers item `i` like `check` does — property C07) is an explicit hypothesis.

Property values (`structpb.Value`) are an arbitrary type `V`; a `structpb.Struct` is the list of its
entries.  Core Lean only.
-/
namespace OpenFGAVerif.Model.Authzen

/-! ### structs as maps -/

abbrev Struct (V : Type) := List (String × V)

/-- Go map assignment `m[k] = v` -/
def assign {V : Type} (k : String) (v : V) (m : Struct V) : Struct V :=
  (k, v) :: m.filter (fun e => e.1 ≠ k)

def lookup {V : Type} (m : Struct V) (k : String) : Option V := (m.find? (fun e => e.1 = k)).map (·.2)

/-- the value a Go loop `for k, v := range src { m[k] = v }` leaves for key `k`: the last entry wins
(a protobuf map has unique keys; nothing below depends on that) -/
def getLast {V : Type} (m : Struct V) (k : String) : Option V := lookup m.reverse k

/-- one merge step: `if src != nil { for k, v := range src.AsMap() { merged[prefix+k] = v } }` -/
def mergeStep {V : Type} (pre : String) (src : Option (Struct V)) (acc : Struct V) : Struct V :=
  match src with
  | none => acc
  | some s => s.foldl (fun acc e => assign (pre ++ e.1) e.2 acc) acc

def subjectPrefix : String := "subject_"
def resourcePrefix : String := "resource_"
def actionPrefix : String := "action_"

/-- the merged map before the "empty ⇒ nil" test: subject, resource, action properties, then the
request context (highest precedence) -/
def mergeMap {V : Type} (ctx subj res act : Option (Struct V)) : Struct V :=
  mergeStep "" ctx (mergeStep actionPrefix act (mergeStep resourcePrefix res (mergeStep subjectPrefix subj [])))

/-- `mergePropertiesToContext`: `none` = the nil context -/
def merge {V : Type} (ctx subj res act : Option (Struct V)) : Option (Struct V) :=
  let m := mergeMap ctx subj res act
  if m.isEmpty then none else some m

/-- all entries in assignment order, with their final keys -/
def entries {V : Type} (ctx subj res act : Option (Struct V)) : Struct V :=
  let pre (p : String) (s : Option (Struct V)) : Struct V := (s.getD []).map (fun e => (p ++ e.1, e.2))
  pre subjectPrefix subj ++ pre resourcePrefix res ++ pre actionPrefix act ++ pre "" ctx

/-! ### AuthZEN entities and the native request -/

structure Entity (V : Type) where
  typ : String
  id : String
  props : Option (Struct V) := none

structure Action (V : Type) where
  name : String
  props : Option (Struct V) := none

structure CheckReq (V : Type) where
  user : String
  rel : String
  obj : String
  ctx : Option (Struct V)

/-- `fmt.Sprintf("%s:%s", typ, id)` -/
def pair (typ id : String) : String := typ ++ ":" ++ id

inductive BuildErr where
  | missingSubject | missingResource | missingAction
  deriving DecidableEq, Repr

/-- `buildCheckRequest` -/
def build {V : Type} (subj : Option (Entity V)) (res : Option (Entity V)) (act : Option (Action V))
    (ctx : Option (Struct V)) : Except BuildErr (CheckReq V) :=
  match subj with
  | none => .error .missingSubject
  | some s =>
    match res with
    | none => .error .missingResource
    | some r =>
      match act with
      | none => .error .missingAction
      | some a =>
        .ok { user := pair s.typ s.id, rel := a.name, obj := pair r.typ r.id,
              ctx := merge ctx s.props r.props a.props }

/-! ### the native API -/

/-- answer of the native Check: `err code http` = the gRPC status code of the error and the HTTP status
`grpcErrorToHTTPStatus` derives from it -/
inductive Res where
  | allow | deny
  | err (code http : Nat)
  deriving DecidableEq, Repr

/-- one entry of a BatchCheck result map -/
inductive BatchRes where
  | allowed (b : Bool)
  | inputErr (http : Nat)     -- CheckError_InputError, `NewEncodedError(code).HTTPStatus()`
  | internalErr               -- CheckError_InternalError, or an error without a code
  deriving DecidableEq, Repr

/-- a user returned by ListUsers -/
inductive UserRes where
  | object (typ id : String)
  | wildcard (typ : String)
  | userset (typ id rel : String)
  deriving DecidableEq, Repr

structure ListUsersReq (V : Type) where
  objType : String
  objId : String
  rel : String
  filterType : String
  ctx : Option (Struct V)

structure ListObjectsReq (V : Type) where
  user : String
  rel : String
  typ : String
  ctx : Option (Struct V)

structure Native (V : Type) where
  check : CheckReq V → Res
  /-- BatchCheck: an error of the whole call, or the result map indexed by correlation id (= item index) -/
  batchCheck : List (CheckReq V) → Except Nat (Nat → Option BatchRes)
  listUsers : ListUsersReq V → Except Nat (List UserRes)
  streamedListObjects : ListObjectsReq V → Except Nat (List String)
  /-- `typesys.GetRelations(type)`: the relation names in the (arbitrary) order the Go map yields them -/
  relations : String → Except Nat (List String)

def invalidArgument : Nat := 3

/-! ### request validation (protoc-gen-validate) -/

/-- RE2 `\s` -/
def isSpaceRE2 (c : Char) : Bool := c = ' ' || c = '\t' || c = '\n' || c = '\x0c' || c = '\r'

/-- `^[^:#@\s]{1,max}$` -/
def validName (max : Nat) (s : String) : Bool :=
  let cs := s.toList
  1 ≤ cs.length && cs.length ≤ max && cs.all (fun c => c ≠ ':' && c ≠ '#' && c ≠ '@' && !isSpaceRE2 c)

def validSubject {V : Type} (e : Entity V) : Bool := validName 50 e.typ && validName 500 e.id
def validResource {V : Type} (e : Entity V) : Bool := validName 50 e.typ && validName 256 e.id
def validAction {V : Type} (a : Action V) : Bool := validName 50 a.name

def optAll {α : Type} (p : α → Bool) : Option α → Bool
  | none => true
  | some a => p a

/-! ### Evaluation -/

def Res.toExcept : Res → Except Nat Bool
  | .allow => .ok true
  | .deny => .ok false
  | .err code _ => .error code

/-- `Server.Evaluation` after request validation -/
def evaluationCore {V : Type} (N : Native V) (subj res : Option (Entity V)) (act : Option (Action V))
    (ctx : Option (Struct V)) : Except Nat Bool :=
  match build subj res act ctx with
  | .error _ => .error invalidArgument
  | .ok rq => (N.check rq).toExcept

/-- `Server.Evaluation`: `Validate()` requires the three entities and checks their patterns -/
def evaluation {V : Type} (N : Native V) (subj res : Option (Entity V)) (act : Option (Action V))
    (ctx : Option (Struct V)) : Except Nat Bool :=
  match subj, res, act with
  | some s, some r, some a =>
    if validSubject s && validResource r && validAction a then evaluationCore N subj res act ctx
    else .error invalidArgument
  | _, _, _ => .error invalidArgument

/-! ### Evaluations -/

structure Item (V : Type) where
  subject : Option (Entity V) := none
  resource : Option (Entity V) := none
  action : Option (Action V) := none
  context : Option (Struct V) := none

/-- `resolveEvalFields` -/
def resolve {V : Type} (top it : Item V) : Item V :=
  { subject := it.subject.orElse (fun _ => top.subject),
    resource := it.resource.orElse (fun _ => top.resource),
    action := it.action.orElse (fun _ => top.action),
    context := it.context.orElse (fun _ => top.context) }

def buildItem {V : Type} (top it : Item V) : Except BuildErr (CheckReq V) :=
  let r := resolve top it
  build r.subject r.resource r.action r.context

/-- one entry of an EvaluationsResponse: a decision, or `decision = false` with an error context -/
inductive ItemResp where
  | decision (b : Bool)
  | error (http : Nat)
  deriving DecidableEq, Repr

def ItemResp.allowed : ItemResp → Bool
  | .decision b => b
  | .error _ => false

def execAll : Nat := 0
def denyOnFirstDeny : Nat := 1
def permitOnFirstPermit : Nat := 2

/-- what one iteration of the short-circuit loop appends for an item -/
def single {V : Type} (N : Native V) (top it : Item V) : ItemResp :=
  match buildItem top it with
  | .error _ => .error 400
  | .ok rq =>
    match N.check rq with
    | .allow => .decision true
    | .deny => .decision false
    | .err _ http => .error http

/-- does the loop `break` after appending this response? -/
def stops (sem : Nat) (r : ItemResp) : Bool :=
  match r with
  | .error _ => sem = denyOnFirstDeny
  | .decision b => (sem = denyOnFirstDeny && !b) || (sem = permitOnFirstPermit && b)

/-- `evaluateWithShortCircuit` -/
def shortCircuit {V : Type} (N : Native V) (sem : Nat) (top : Item V) : List (Item V) → List ItemResp
  | [] => []
  | it :: rest =>
    let r := single N top it
    if stops sem r then [r] else r :: shortCircuit N sem top rest

/-- the first loop of `evaluateAll`: build every item or fail the whole request -/
def buildAll {V : Type} (top : Item V) : List (Item V) → Except Nat (List (CheckReq V))
  | [] => .ok []
  | it :: rest =>
    match buildItem top it with
    | .error _ => .error invalidArgument
    | .ok rq =>
      match buildAll top rest with
      | .error e => .error e
      | .ok rqs => .ok (rq :: rqs)

/-- the second loop of `evaluateAll`: one response per item from the result map -/
def ofBatch : Option BatchRes → ItemResp
  | none => .error 500
  | some (.allowed b) => .decision b
  | some (.inputErr http) => .error http
  | some .internalErr => .error 500

/-- `evaluateAll` -/
def evaluateAll {V : Type} (N : Native V) (top : Item V) (items : List (Item V)) : Except Nat (List ItemResp) :=
  match buildAll top items with
  | .error e => .error e
  | .ok rqs =>
    match N.batchCheck rqs with
    | .error e => .error e
    | .ok f => .ok ((List.range items.length).map (fun i => ofBatch (f i)))

structure EvalsReq (V : Type) where
  top : Item V
  items : List (Item V)
  /-- `none`: no options message; `some n`: options.evaluations_semantic = n -/
  semantic : Option Nat

def validItem {V : Type} (it : Item V) : Bool :=
  optAll validSubject it.subject && optAll validResource it.resource && optAll validAction it.action

def validEvals {V : Type} (r : EvalsReq V) : Bool :=
  validItem r.top && r.items.all validItem && optAll (fun n => n ≤ 2) r.semantic

/-- `Server.Evaluations` -/
def evaluations {V : Type} (N : Native V) (r : EvalsReq V) : Except Nat (List ItemResp) :=
  if !validEvals r then .error invalidArgument
  else if r.items.isEmpty then
    match evaluation N r.top.subject r.top.resource r.top.action r.top.context with
    | .error e => .error e
    | .ok b => .ok [.decision b]
  else
    let sem := r.semantic.getD execAll
    if sem ≠ execAll ∧ sem ≠ denyOnFirstDeny ∧ sem ≠ permitOnFirstPermit then .error invalidArgument
    else if sem = denyOnFirstDeny ∨ sem = permitOnFirstPermit then .ok (shortCircuit N sem r.top r.items)
    else evaluateAll N r.top r.items

/-! ### searches -/

/-- the users SubjectSearch passes on: objects and typed wildcards (`id = "*"`); usersets are dropped -/
def subjectOf : UserRes → Option (String × String)
  | .object t i => some (t, i)
  | .wildcard t => some (t, "*")
  | .userset _ _ _ => none

def subjectSearchReq {V : Type} (subjType : String) (subjProps : Option (Struct V)) (res : Entity V) (act : Action V)
    (ctx : Option (Struct V)) : ListUsersReq V :=
  { objType := res.typ, objId := res.id, rel := act.name, filterType := subjType,
    ctx := merge ctx subjProps res.props act.props }

/-- `Server.SubjectSearch` -/
def subjectSearch {V : Type} (N : Native V) (subjType : String) (subjProps : Option (Struct V)) (res : Entity V)
    (act : Action V) (ctx : Option (Struct V)) : Except Nat (List (String × String)) :=
  if !(validName 50 subjType && validResource res && validAction act) then .error invalidArgument
  else match N.listUsers (subjectSearchReq subjType subjProps res act ctx) with
    | .error e => .error e
    | .ok us => .ok (us.filterMap subjectOf)

/-- `strings.Cut(s, ":")` on characters -/
def cutColon : List Char → Option (List Char × List Char)
  | [] => none
  | c :: cs =>
    if c = ':' then some ([], cs)
    else match cutColon cs with
      | none => none
      | some (a, b) => some (c :: a, b)

def cutObject (s : String) : Option (String × String) :=
  (cutColon s.toList).map (fun p => (String.ofList p.1, String.ofList p.2))

def resourceSearchReq {V : Type} (subj : Entity V) (act : Action V) (resType : String) (resProps : Option (Struct V))
    (ctx : Option (Struct V)) : ListObjectsReq V :=
  { user := pair subj.typ subj.id, rel := act.name, typ := resType,
    ctx := merge ctx subj.props resProps act.props }

/-- `Server.ResourceSearch` -/
def resourceSearch {V : Type} (N : Native V) (subj : Entity V) (act : Action V) (resType : String)
    (resProps : Option (Struct V)) (ctx : Option (Struct V)) : Except Nat (List (String × String)) :=
  if !(validSubject subj && validAction act && validName 50 resType) then .error invalidArgument
  else match N.streamedListObjects (resourceSearchReq subj act resType resProps ctx) with
    | .error e => .error e
    | .ok os => .ok (os.filterMap cutObject)

/-- insertion sort by `<` on names (`sort.Slice` with `actions[i].GetName() < actions[j].GetName()`);
the names are distinct relation names, so stability does not matter -/
def insertName (a : String) : List String → List String
  | [] => [a]
  | b :: bs => if a < b then a :: b :: bs else b :: insertName a bs

def sortNames (l : List String) : List String := l.foldr insertName []

def actionCheckReq {V : Type} (subj res : Entity V) (ctx : Option (Struct V)) (rel : String) : CheckReq V :=
  { user := pair subj.typ subj.id, rel := rel, obj := pair res.typ res.id,
    ctx := merge ctx subj.props res.props none }

/-- the relations whose batch result is `allowed = true` (errors and missing results are skipped) -/
def allowedNames (rels : List String) (f : Nat → Option BatchRes) : List String :=
  (List.range rels.length).filterMap (fun i =>
    match f i with
    | some (.allowed true) => rels[i]?
    | _ => none)

/-- `Server.ActionSearch` -/
def actionSearch {V : Type} (N : Native V) (subj res : Entity V) (ctx : Option (Struct V)) : Except Nat (List String) :=
  if !(validSubject subj && validResource res) then .error invalidArgument
  else match N.relations res.typ with
    | .error e => .error e
    | .ok rels =>
      match N.batchCheck (rels.map (actionCheckReq subj res ctx)) with
      | .error e => .error e
      | .ok f => .ok (sortNames (allowedNames rels f))

/-! ### the authorization model id

Every native request names an authorization model (`AuthorizationModelId`, "" = the latest model of the
store).  The AuthZEN endpoints take the id from the `Openfga-Authorization-Model-Id` header
(`getAuthorizationModelIDFromHeader`: "" when absent or malformed) and put it into EVERY native request
they build — `buildCheckRequest` (Evaluation, both short-circuit semantics), the `BatchCheckRequest` of
`evaluateAll`, the `ListUsersRequest`, the `StreamedListObjectsRequest`; ActionSearch resolves the
typesystem with it and sends the RESOLVED id with its `BatchCheckRequest`
(`Gen.Authzen.nativeModelIds / modelIdSources / modelIdPassing`). -/

/-- the native API as the server exposes it: every call names a model -/
structure NativeM (V : Type) where
  check : String → CheckReq V → Res
  batchCheck : String → List (CheckReq V) → Except Nat (Nat → Option BatchRes)
  listUsers : String → ListUsersReq V → Except Nat (List UserRes)
  streamedListObjects : String → ListObjectsReq V → Except Nat (List String)
  /-- `resolveTypesystem(store, id)`: the id of the model that `id` resolves to ("" ↦ the latest) -/
  resolve : String → Except Nat String
  relations : String → String → Except Nat (List String)

/-- the native API as seen by requests that all carry the model id `mid` -/
def NativeM.pinned {V : Type} (N : NativeM V) (mid : String) : Native V :=
  { check := N.check mid, batchCheck := N.batchCheck mid, listUsers := N.listUsers mid,
    streamedListObjects := N.streamedListObjects mid, relations := N.relations mid }

/-- `Server.Evaluation` with the header value `hdr` -/
def evaluationH {V : Type} (N : NativeM V) (hdr : String) (subj res : Option (Entity V)) (act : Option (Action V))
    (ctx : Option (Struct V)) : Except Nat Bool := evaluation (N.pinned hdr) subj res act ctx

/-- `evaluateAll(ctx, req, authorizationModelID)`: `batchMid` is the `AuthorizationModelId` field of the
`BatchCheckRequest` literal — the code passes the header value -/
def evaluateAllAt {V : Type} (N : NativeM V) (batchMid : String) (top : Item V) (items : List (Item V)) :
    Except Nat (List ItemResp) := evaluateAll (N.pinned batchMid) top items

/-- `Server.Evaluations` with the header value `hdr` (all three semantics, and the empty list) -/
def evaluationsH {V : Type} (N : NativeM V) (hdr : String) (r : EvalsReq V) : Except Nat (List ItemResp) :=
  evaluations (N.pinned hdr) r

def subjectSearchH {V : Type} (N : NativeM V) (hdr : String) (subjType : String) (subjProps : Option (Struct V))
    (res : Entity V) (act : Action V) (ctx : Option (Struct V)) : Except Nat (List (String × String)) :=
  subjectSearch (N.pinned hdr) subjType subjProps res act ctx

def resourceSearchH {V : Type} (N : NativeM V) (hdr : String) (subj : Entity V) (act : Action V) (resType : String)
    (resProps : Option (Struct V)) (ctx : Option (Struct V)) : Except Nat (List (String × String)) :=
  resourceSearch (N.pinned hdr) subj act resType resProps ctx

/-- `Server.ActionSearch`: validation, `resolveTypesystem(hdr)`, then relations and BatchCheck of the RESOLVED model -/
def actionSearchH {V : Type} (N : NativeM V) (hdr : String) (subj res : Entity V) (ctx : Option (Struct V)) :
    Except Nat (List String) :=
  if !(validSubject subj && validResource res) then .error invalidArgument
  else match N.resolve hdr with
    | .error e => .error e
    | .ok rid => actionSearch (N.pinned rid) subj res ctx

end OpenFGAVerif.Model.Authzen
