/-
Model of `commands.BatchCheckQuery.Execute` (pkg/server/commands/batch_check_command.go).

  validation    `len(checks) > maxChecksAllowed` → error; `len(checks) == 0` → error;
                `validateCorrelationIDs`: in list order, an empty id, then an id already seen → error
  de-duplication `cacheKeyMap`: for each check in list order `key := generateCacheKeyFromCheck(check, store, model)`;
                a key already present only gets the correlation id appended, otherwise a new entry
                `{Check: check, CorrelationIDs: [id]}` — the FIRST check with a key represents its group
  execution     one pool task per map entry (Go map iteration order, up to `maxConcurrentChecks` at a
                time): a cancelled context stores `{Err: ctx.Err()}`, otherwise the checker runs on the
                representative's tuple key / contextual tuples / context and its result is stored under the key
  fan-out       for each map entry (again map order), for each of its correlation ids: `results[id] = outcome`

The key function, the checker and the two iteration orders are parameters; the checker is a function
of the item's inputs (determinism of Check itself is C02's business).  Core Lean only.
-/
namespace OpenFGAVerif.Model.Batch

/-- one `BatchCheckItem`: correlation id and the inputs of the check (tuple key, contextual tuples,
context) as one value -/
structure Item (I : Type) where
  cid : String
  inp : I

inductive Err where
  | tooMany
  | noChecks
  | emptyId (index : Nat)
  | dupId (id : String)
  deriving Repr, DecidableEq

/-- `validateCorrelationIDs`: list order, the empty test before the duplicate test -/
def validateIds {I : Type} : List String → Nat → List (Item I) → Option Err
  | _, _, [] => none
  | seen, i, it :: rest =>
    if it.cid = "" then some (.emptyId i)
    else if seen.contains it.cid then some (.dupId it.cid)
    else validateIds (it.cid :: seen) (i + 1) rest

/-- an entry of `cacheKeyMap` -/
structure Group (I K : Type) where
  key : K
  rep : I                  -- `Check`: the first item with that key
  ids : List String        -- `CorrelationIDs`, in arrival order

/-- add one check to the map (entries kept in first-arrival order; the Go map has no order — the two
loops over it are modelled with explicit permutations) -/
def addItem {I K : Type} [DecidableEq K] (key : I → K) (it : Item I) : List (Group I K) → List (Group I K)
  | [] => [{ key := key it.inp, rep := it.inp, ids := [it.cid] }]
  | g :: gs =>
    if g.key = key it.inp then { g with ids := g.ids ++ [it.cid] } :: gs
    else g :: addItem key it gs

def groupItems {I K : Type} [DecidableEq K] (key : I → K) (items : List (Item I)) : List (Group I K) :=
  items.foldl (fun acc it => addItem key it acc) []

/-- outcome of one pool task -/
inductive Outcome (R : Type) where
  | cancelled            -- `ctx.Err()` stored without running the check
  | done (r : R)         -- `{Allowed: res.Allowed, …, Err: err}`
  deriving Repr, DecidableEq

/-- the pool: one task per group in the order `sched` puts them (any interleaving of independent
tasks is one such order); `cancelled k` = the context was already done when the task for `k` started -/
def runGroups {I K R : Type} (check : I → R) (cancelled : K → Bool) (gs : List (Group I K)) : List (K × Outcome R) :=
  gs.map (fun g => (g.key, if cancelled g.key then .cancelled else .done (check g.rep)))

/-- `resultMap.Load(cacheKey)` -/
def loadResult {K R : Type} [DecidableEq K] (rs : List (K × Outcome R)) (k : K) : Option (Outcome R) :=
  (rs.find? (fun p => p.1 = k)).map (·.2)

/-- the fan-out loop: `results[id] = outcome` for every id of every entry -/
def fanOut {I K R : Type} [DecidableEq K] (rs : List (K × Outcome R)) (gs : List (Group I K)) : List (String × Option (Outcome R)) :=
  gs.flatMap (fun g => g.ids.map (fun id => (id, loadResult rs g.key)))

/-- a Go map built by assignments in list order: the last assignment to a key wins -/
def mapGet {V : Type} (m : List (String × V)) (id : String) : Option V :=
  (m.reverse.find? (fun p => p.1 = id)).map (·.2)

structure Result (R : Type) where
  results : List (String × Option (Outcome R))   -- assignments `results[id] = outcome` in execution order
  duplicateCheckCount : Nat

/-- `Execute`; `permRun` / `permFan` are the two map iteration orders -/
def execute {I K R : Type} [DecidableEq K] (maxChecks : Nat) (key : I → K) (check : I → R) (cancelled : K → Bool)
    (permRun permFan : List (Group I K) → List (Group I K)) (items : List (Item I)) : Except Err (Result R) :=
  if items.length > maxChecks then .error .tooMany
  else if items.length = 0 then .error .noChecks
  else match validateIds [] 0 items with
    | some e => .error e
    | none =>
      let gs := groupItems key items
      let rs := runGroups check cancelled (permRun gs)
      .ok { results := fanOut rs (permFan gs), duplicateCheckCount := items.length - gs.length }

/-! ### the return value of the pool task

`concurrency.NewPool` builds the pool `WithCancelOnError`: a task function that returns a non-nil error
cancels the context every other task runs under; a task that then starts stores `{Err: ctx.Err()}`.
The task function of `Execute` returns `nil` on every path (`Gen.Batch.poolTaskReturns`) — the error of
a check is stored in the item's outcome, never handed to the pool.  `retErr r` makes that explicit:
"after storing the outcome of a check that answered `r`, the task returns a non-nil error". -/

/-- the pool, tasks in schedule order; `dead` = an earlier task returned an error (pool context
cancelled); `cancelled k` = the REQUEST context was already done when the task for `k` started -/
def runPool {I K R : Type} (check : I → R) (retErr : R → Bool) (cancelled : K → Bool) :
    Bool → List (Group I K) → List (K × Outcome R)
  | _, [] => []
  | dead, g :: gs =>
    if dead || cancelled g.key then (g.key, .cancelled) :: runPool check retErr cancelled dead gs   -- `return nil`
    else (g.key, .done (check g.rep)) :: runPool check retErr cancelled (retErr (check g.rep)) gs

/-- `Execute` with the return value of the task explicit -/
def executeP {I K R : Type} [DecidableEq K] (maxChecks : Nat) (key : I → K) (check : I → R) (retErr : R → Bool)
    (cancelled : K → Bool) (permRun permFan : List (Group I K) → List (Group I K)) (items : List (Item I)) :
    Except Err (Result R) :=
  if items.length > maxChecks then .error .tooMany
  else if items.length = 0 then .error .noChecks
  else match validateIds [] 0 items with
    | some e => .error e
    | none =>
      let gs := groupItems key items
      let rs := runPool check retErr cancelled false (permRun gs)
      .ok { results := fanOut rs (permFan gs), duplicateCheckCount := items.length - gs.length }

end OpenFGAVerif.Model.Batch
