/-
Model for C10 (higher-consistency requests are never stale).

Two parts:

1. The *guard analysis* over the regenerated table of cache read sites (`Gen.CacheSites`): a site is
   fine when a HIGHER_CONSISTENCY test on the request's consistency preference dominates it — in its
   own function (`localHigher`), through every in-package caller of an unexported helper, or through
   every construction of the receiver type of an iterator method (`funcGuarded`) — or when it is one of
   the explicitly listed sites that cannot serve tuple data (`exempt`).

2. The *layered reader*: the request storage wrapper is a stack of caching wrappers around the
   datastore; each wrapper either forwards to the inner reader (what the guard forces for HIGHER) or may
   answer from its cache.  The Check engine is the relation `Dfs.Eval` over a system built from the
   reader, with the sub-problem cache as `Facts`.
-/
import OpenFGAVerif.Model.Dfs

namespace OpenFGAVerif.CacheBypass

/-! ### 1. guard analysis (pure functions over the extracted tables; evaluated by `decide` in Props) -/

/-- `(knownFalse, lhs, op, rhs)` -/
abbrev Guard := Bool × String × String × String
abbrev Site := String × String × String × String × List Guard           -- kind, file, func, call, guards
abbrev Edge := String × String × List String × List Guard               -- caller, callee, args, guards
abbrev Fn := String × Bool × String                                     -- id, exported, receiver type

def higherConst : String := "openfgav1.ConsistencyPreference_HIGHER_CONSISTENCY"

/-- expressions that denote the consistency preference of the request being served -/
def consistencyExprs : List String :=
  ["req.Consistency", "req.GetConsistency()", "params.Consistency",
   "options.Consistency.Preference", "opts.Consistency.Preference"]

/-- the guard says: on this path the preference is **not** HIGHER_CONSISTENCY -/
def polarityOK (g : Guard) : Bool :=
  g.2.2.2 = higherConst && ((g.2.2.1 = "!=" && !g.1) || (g.2.2.1 = "==" && g.1))

def isHigher (g : Guard) : Bool := polarityOK g && consistencyExprs.contains g.2.1

def paramIndex (s : String) : Option Nat :=
  if s = "$param0" then some 0 else if s = "$param1" then some 1 else if s = "$param2" then some 2
  else if s = "$param3" then some 3 else none

/-- the call graph with functions and receiver types replaced by their positions in `funcs` /
`recvTypes` (the extractor emits both forms; `indexConsistent` ties them) -/
structure Graph where
  fns : List (Bool × Nat)                          -- exported, receiver type index + 1 (0 = plain function)
  edges : List ((Nat × Bool × Nat) × List String × List Guard)   -- (caller, isCtor, callee), args, guards

def Graph.exported (g : Graph) (f : Nat) : Bool :=
  match g.fns[f]? with
  | some r => r.1
  | none => true          -- unknown function: assume it can be called from anywhere

def Graph.recv (g : Graph) (f : Nat) : Nat :=
  match g.fns[f]? with
  | some r => r.2
  | none => 0

def Graph.callers (g : Graph) (f : Nat) := g.edges.filter (fun e => !e.1.2.1 && e.1.2.2 = f)
def Graph.ctors (g : Graph) (t : Nat) := g.edges.filter (fun e => e.1.2.1 && e.1.2.2 = t)

/-- a test on the i-th parameter counts when the function is unexported and every caller passes the
request's preference in that position -/
def isParamHigher (g : Graph) (f : Nat) (gd : Guard) : Bool :=
  polarityOK gd &&
  match paramIndex gd.2.1 with
  | none => false
  | some i =>
    let cs := g.callers f
    !g.exported f && !cs.isEmpty &&
      cs.all (fun e => match e.2.1[i]? with | some a => consistencyExprs.contains a | none => false)

def localHigher (g : Graph) (f : Nat) (gs : List Guard) : Bool :=
  gs.any (fun gd => isHigher gd || isParamHigher g f gd)

/-- every way into `f` passes a HIGHER test: all in-package callers of an unexported function, or all
constructions of the receiver type of a method (an iterator exists only if it was constructed) -/
def funcGuarded (g : Graph) : Nat → Nat → Bool
  | 0, _ => false
  | fuel + 1, f =>
    let viaCallers :=
      let cs := g.callers f
      !g.exported f && !cs.isEmpty &&
        cs.all (fun e => localHigher g e.1.1 e.2.2 || funcGuarded g fuel e.1.1)
    let viaCtor :=
      let rt := g.recv f
      let cs := g.ctors (rt - 1)
      rt ≠ 0 && !cs.isEmpty &&
        cs.all (fun e => localHigher g e.1.1 e.2.2 || funcGuarded g fuel e.1.1)
    viaCallers || viaCtor

/-- read sites that cannot serve tuple data, with the reason -/
def exemptions : List (String × String) :=
  [ -- weighted graph of an authorization model, keyed by (store, model id): models are immutable
    ("internal/modelgraph:AuthorizationModelGraphResolver.Resolve", "r.cache.Get(key)"),
    -- authorization model by (store, model id): immutable; the *latest* model id is always read from the store
    ("pkg/storage/storagewrappers:cachedOpenFGADatastore.ReadAuthorizationModel", "c.cache.Get(cacheKey)"),
    -- compiled typesystem by (store, model id): immutable
    ("pkg/typesystem:MemoizedTypesystemResolverFunc", "cache.Get(key)"),
    -- the controller reads only the changelog entry (a timestamp); it is consulted for non-HIGHER
    -- requests only (`triggers_guarded`) and never yields tuples or decisions
    ("internal/cachecontroller:InMemoryCacheController.DetermineInvalidationTime", "c.cache.Get(cacheKey)"),
    ("internal/cachecontroller:InMemoryCacheController.findChangesAndInvalidateIfNecessary", "c.cache.Get(changelogCacheKey)") ]

def mkGraph (fnsN : List (Bool × Nat)) (edges : List Edge) (edgesN : List (Nat × Bool × Nat)) : Graph :=
  { fns := fnsN, edges := edgesN.zip (edges.map (fun e => (e.2.2.1, e.2.2.2))) }

/-- a site with the index of its function -/
def siteOK (g : Graph) (fuel : Nat) (s : Site × Nat) : Bool :=
  exemptions.contains (s.1.2.2.1, s.1.2.2.2.1) ||
  localHigher g s.2 s.1.2.2.2.2 ||
  funcGuarded g fuel s.2

def allGuarded (g : Graph) (sites : List Site) (siteFuncs : List Nat) : Bool :=
  sites.length = siteFuncs.length && (sites.zip siteFuncs).all (siteOK g 6)

/-- the sites of one file (used to derive the per-layer guard bits of the reader model) -/
def fileGuarded (g : Graph) (sites : List Site) (siteFuncs : List Nat) (file : String) : Bool :=
  let ss := (sites.zip siteFuncs).filter (·.1.2.1 = file)
  !ss.isEmpty && ss.all (siteOK g 6)

/-- the index tables say what the name tables say -/
def indexConsistent (fns : List Fn) (recvTypes : List String) (fnsN : List (Bool × Nat))
    (edges : List Edge) (edgesN : List (Nat × Bool × Nat)) (sites : List Site) (siteFuncs : List Nat) : Bool :=
  fns.length = fnsN.length && edges.length = edgesN.length && sites.length = siteFuncs.length &&
  (fns.zip fnsN).all (fun p => p.1.2.1 = p.2.1 &&
     (if p.2.2 = 0 then p.1.2.2 = "" else recvTypes[p.2.2 - 1]? = some p.1.2.2)) &&
  (edges.zip edgesN).all (fun p =>
     (fns[p.2.1]?.map (·.1)) = some p.1.1 &&
     (if p.2.2.1 then (recvTypes[p.2.2.2]?.map ("new:" ++ ·)) = some p.1.2.1
      else (fns[p.2.2.2]?.map (·.1)) = some p.1.2.1)) &&
  (sites.zip siteFuncs).all (fun p => (fns[p.2]?.map (·.1)) = some p.1.2.2.1)

/-- the consistency field of a read-option literal forwards the request's preference -/
def forwardsPreference (v : String) : Bool :=
  ["storage.ConsistencyOptions{ Preference: req.GetConsistency(), }",
   "storage.ConsistencyOptions{Preference: req.GetConsistency()}",
   "storage.ConsistencyOptions{ Preference: req.Consistency, }",
   "storage.ConsistencyOptions{ Preference: r.consistency, }",
   "storage.ConsistencyOptions{ Preference: consistency, }",
   "consistencyOpts"].contains v

/-! ### 1b. construction sites of readers: is the request's preference handed to what is built? -/

/-- `(kind, carrier, expression)`: `arg` = a With…Consistency option among the constructor's own arguments,
`lit` = a `Consistency:` field of a composite literal in the constructing function, `opt` = a With…Consistency
call anywhere in it -/
abbrev Evidence := String × String × String
/-- `(file, function, constructor, evidence)` -/
abbrev ReaderSite := String × String × String × List Evidence

/-- expressions through which an engine function hands on the consistency preference of the request it serves -/
def handoffExprs : List String :=
  ["req.GetConsistency()", "req.Consistency", "params.Consistency", "info.req.Consistency",
   "o.GetConsistency()", "r.GetConsistency()", "p.Consistency"]

/-- constructors whose product can answer a read from a cache -/
def cacheCapableCtors : List String :=
  ["storagewrappers.NewRequestStorageWrapperWithCache", "storagewrappers.NewCachedTupleReader",
   "storagewrappers.NewCachedDatastore", "sharediterator.NewSharedIteratorDatastore", "pipeline.NewValidatingStore"]

def ReaderSite.cacheCapable (s : ReaderSite) : Bool := cacheCapableCtors.contains s.2.2.1

/-- the reads that go through the product of this site carry the request's preference:
* `pipeline.NewValidatingStore` stamps every read option with its own `consistency` field — the option
  `pipeline.WithStoreConsistency(<preference of the request>)` must be among its arguments;
* the other wrappers are passive (they look at the options of each read): the function that builds one must
  hand the preference on to the engine it starts (some evidence), and every hand-off it makes must be the
  request's preference. -/
def ReaderSite.passes (s : ReaderSite) : Bool :=
  if s.2.2.1 = "pipeline.NewValidatingStore" then
    s.2.2.2.any (fun e => e.1 = "arg" && e.2.1 = "pipeline.WithStoreConsistency" && handoffExprs.contains e.2.2)
  else
    !s.2.2.2.isEmpty && s.2.2.2.all (fun e => handoffExprs.contains e.2.2)

/-- the preference the reads of a site's product carry -/
def effectivePref {P : Type} (unspecified : P) (passes : Bool) (pref : P) : P := if passes then pref else unspecified

/-! ### 2. layered reader and engine -/

inductive Pref where
  | unspecified | minimizeLatency | higher
  deriving DecidableEq, Repr

/-- the guard bits of the cache layers, as established from the site table -/
structure Guards where
  query : Bool       -- CachedCheckResolver.tryCache / check.Resolver.isCached
  iter : Bool        -- CachedDatastore / CachedTupleReader
  shared : Bool      -- sharediterator.IteratorDatastore
  deriving DecidableEq, Repr

section
variable {Key Val : Type}

/-- a caching read wrapper: with the guard in place a HIGHER read goes to the inner reader; otherwise the
wrapper may serve whatever its cache holds for the key -/
def wrap (guarded : Bool) (pref : Pref) (cache : Key → Option Val) (inner : Key → Val) : Key → Val :=
  fun k =>
    if guarded && pref = .higher then inner k
    else match cache k with
      | some v => v
      | none => inner k

/-- `NewRequestStorageWrapperWithCache`: bounded reader → cached datastore → shared iterators
(the combined reader adds the request's own contextual tuples on top and caches nothing) -/
def stack (g : Guards) (pref : Pref) (iterCache sharedCache : Key → Option Val) (db : Key → Val) : Key → Val :=
  wrap g.shared pref sharedCache (wrap g.iter pref iterCache db)

theorem wrap_higher (cache : Key → Option Val) (inner : Key → Val) : wrap true .higher cache inner = inner := by
  funext k; simp [wrap]

theorem stack_higher (g : Guards) (hi : g.iter = true) (hs : g.shared = true)
    (iterCache sharedCache : Key → Option Val) (db : Key → Val) :
    stack g .higher iterCache sharedCache db = db := by
  unfold stack; rw [hi, hs, wrap_higher, wrap_higher]
end

/-- the sub-problem cache as seen by a request -/
def factsFor {N : Type} (g : Guards) (pref : Pref) (cache : Dfs.Facts N) : Dfs.Facts N :=
  if g.query && pref = .higher then Dfs.noFacts else cache

theorem factsFor_higher {N : Type} (g : Guards) (hq : g.query = true) (cache : Dfs.Facts N) :
    factsFor g .higher cache = Dfs.noFacts := by
  unfold factsFor; simp [hq]

end OpenFGAVerif.CacheBypass
