/-
Timeline model of the cache controller and the two caches it governs (C11).

  internal/cachecontroller/cache_controller.go   findChangesAndInvalidateIfNecessary  → `runRead` / `runEnd`
                                                 DetermineInvalidationTime            → `invTime`
  pkg/storage/storagewrappers/cached_datastore.go   isInvalidAt / findInCache / flush → `invalidAt` / `iterHit` / `popIter`
  pkg/storage/storagewrappers/cached_reader.go      tryGetFromCache (same comparisons) → `iterHit`
  internal/graph/cached_resolver.go                 `LastModified.After(LastCacheInvalidationTime)` → `queryHit`
  internal/check/check.go                           isCached (same comparison)         → `queryHit`

Time is a logical clock (`Nat`, one global `now`).  Every `time.Now()` of the code is an explicit
instant: events advance the clock by the deltas they carry, so every event list is a well-timed
schedule and theorems quantify over *all* event lists.

What is abstract:
  * `K` — the type of invalidation-marker keys (object#relation / user+object-type); `depsOf key` are
    the marker keys a cache key is tested against (a function of the key: `newCachedIteratorBy…`);
  * the shared theine cache: an entry is alive at `t` iff `t < exp` (TTL), data entries can also be
    evicted at any time (`evict`); the *control* entries (changelog entry, markers) are assumed not to
    be evicted before their TTL;
  * cache keys of data entries are `Nat` (injectivity of the key encoding is C24).

The ghost field `seen` (largest changelog timestamp a completed run has acted on) and the ghost field
`basis` of a query entry (earliest instant the data it was computed from was read) exist only in the
model.
-/
namespace OpenFGAVerif.CacheTimeline

structure Params where
  /-- `InMemoryCacheController.iteratorCacheTTL` (= settings.CheckIteratorCacheTTL) -/
  iterTTL : Nat
  /-- `InMemoryCacheController.queryCacheTTL` (= settings.CheckQueryCacheTTL): TTL of the changelog entry -/
  queryTTL : Nat
  /-- `storage.DefaultPageSize`: the newest page read by `findChangesDescending` -/
  pageSize : Nat
  /-- TTL of the store-wide marker (`math.MaxInt`, capped to one year by `InMemoryLRUCache.Set`) -/
  storeTTL : Nat
  deriving Repr

structure Change (K : Type) where
  ts : Nat
  keys : List K        -- the markers a change to this tuple writes: [OR(object, relation), UOT(user, type)]

/-- `InvalidEntityCacheEntry` with the expiry instant of the cache item -/
structure Marker where
  lm : Nat
  exp : Nat
  deriving Repr, DecidableEq

/-- `TupleIteratorCacheEntry` / `V2IteratorCacheEntry`: `lm` = LastModified = initializedAt / createdAt -/
structure IterEntry where
  lm : Nat
  exp : Nat
  deriving Repr, DecidableEq

/-- `CheckResponseCacheEntry` / `ResponseCacheEntry`: `lm` = LastModified = `time.Now()` at `Set`;
`basis` (ghost) = when the evaluation that produced it started reading the store -/
structure QEntry where
  lm : Nat
  basis : Nat
  exp : Nat
  deriving Repr, DecidableEq

/-- `ChangelogCacheEntry` -/
structure ClEntry where
  lm : Nat          -- LastModified: timestamp of the newest change seen
  checked : Nat     -- LastChecked
  exp : Nat
  deriving Repr, DecidableEq

/-- what an invalidation run holds between its read and its decision -/
structure Pending (K : Type) where
  lastCached : Nat            -- lastChangeTimeCached (0 = zero time)
  logR : List (Change K)      -- the changelog at the time of the read (the run uses its newest page)

structure St (K : Type) where
  now : Nat
  log : List (Change K)                 -- oldest first
  cl : Option ClEntry
  storeMarker : Option Marker
  markers : K → Option Marker
  iters : Nat → Option IterEntry
  queries : Nat → Option QEntry
  pending : Option (Pending K)
  seen : Nat                            -- ghost

def St.init {K : Type} : St K :=
  { now := 0, log := [], cl := none, storeMarker := none, markers := fun _ => none,
    iters := fun _ => none, queries := fun _ => none, pending := none, seen := 0 }

inductive Ev (K : Type) where
  /-- the clock advances -/
  | tick (dt : Nat)
  /-- a Write commits `dt` after the previous event; its changelog entry is stamped with that instant -/
  | write (dt : Nat) (keys : List K)
  /-- `cachedIterator.flush` / `CachingIterator.flush` now: the read was initiated `age` ago, the item
  lives `life` (= ttl + jitter); `store = false`: the flush was suppressed (entry already present, or
  `isInvalidAt(initializedAt)`), see `popStoresV1` / `popStoresV2` for the code's decision -/
  | popIter (key : Nat) (age life : Nat) (store : Bool)
  /-- `CachedCheckResolver` / `check.Resolver` store a result now; the evaluation started `age` ago -/
  | popQuery (key : Nat) (age life : Nat)
  /-- start of `findChangesAndInvalidateIfNecessary` (ignored while another run is in flight):
  reads the changelog entry and the newest page -/
  | runRead
  /-- rest of the run: the changelog entry is set at `now + d0`, the window cutoff is computed at
  `+ d1`, the markers are stamped at `+ d2` -/
  | runEnd (d0 d1 d2 : Nat)
  /-- `findInCache` (deletes an invalid entry) -/
  | lookupIter (key : Nat)
  /-- eviction of a data entry by the cache's admission policy -/
  | evict (iter : Bool) (key : Nat)

section
variable {K : Type} [DecidableEq K] (p : Params) (depsOf : Nat → List K)

def markerInvalidates (now ts : Nat) : Option Marker → Bool
  | some m => decide (now < m.exp) && decide (ts < m.lm)     -- `ts.Before(invalidEntry.LastModified)`
  | none => false

/-- `isInvalidAt(cache, ts, invalidStore, invalidEntityKeys)` -/
def invalidAt (s : St K) (ts : Nat) (deps : List K) : Bool :=
  markerInvalidates s.now ts s.storeMarker || deps.any (fun k => markerInvalidates s.now ts (s.markers k))

/-- `findInCache`: the entry a lookup is served from -/
def iterHit (s : St K) (key : Nat) : Option IterEntry :=
  match s.iters key with
  | some e => if s.now < e.exp && !invalidAt s e.lm (depsOf key) then some e else none
  | none => none

/-- `DetermineInvalidationTime`: LastModified of the changelog entry, zero time if there is none -/
def invTime (s : St K) : Nat :=
  match s.cl with
  | some e => if s.now < e.exp then e.lm else 0
  | none => 0

/-- the query-cache entry a lookup is served from: `res.LastModified.After(LastCacheInvalidationTime)` -/
def queryHit (s : St K) (key : Nat) : Option QEntry :=
  match s.queries key with
  | some q => if s.now < q.exp && invTime s < q.lm then some q else none
  | none => none

/-- `cachedIterator.Stop`: flush unless a valid entry is present or the read predates a marker -/
def popStoresV1 (s : St K) (key : Nat) (age : Nat) : Bool :=
  (iterHit depsOf s key).isNone && !invalidAt s (s.now - age) (depsOf key)

/-- `CachingIterator.drainInBackground`: flush unless *any* entry is present -/
def popStoresV2 (s : St K) (key : Nat) : Bool :=
  match s.iters key with
  | some e => !(s.now < e.exp)
  | none => true

def newest (l : List (Change K)) : Option (Change K) := l.getLast?

/-- `changes` as `findChangesDescending` returns them: newest first, at most one page -/
def page (l : List (Change K)) : List (Change K) := l.reverse.take p.pageSize

/-- the loop `for ; idx >= 0; idx--` run from the oldest change of the page: what is left once the
first change inside the window is found (`changes[idx].After(now − iteratorCacheTTL)`), oldest first -/
def inWindowSuffix (tD : Nat) (pg : List (Change K)) : List (Change K) :=
  pg.reverse.dropWhile (fun c => decide (c.ts + p.iterTTL ≤ tD))

def setMarkers (tM : Nat) (ks : List K) (m : K → Option Marker) : K → Option Marker :=
  fun k => if k ∈ ks then some { lm := tM, exp := tM + p.iterTTL } else m k

def step (s : St K) : Ev K → St K
  | .tick dt => { s with now := s.now + dt }
  | .write dt keys =>
      let t := s.now + dt
      { s with now := t, log := s.log ++ [{ ts := t, keys := keys }] }
  | .popIter key age life store =>
      if store then { s with iters := fun k => if k = key then some { lm := s.now - age, exp := s.now + life } else s.iters k }
      else s
  | .popQuery key age life =>
      { s with queries := fun k => if k = key then some { lm := s.now, basis := s.now - age, exp := s.now + life } else s.queries k }
  | .runRead =>
      match s.pending with
      | some _ => s                                              -- inflightInvalidations.LoadOrStore
      | none => { s with pending := some { lastCached := invTime s, logR := s.log } }
  | .runEnd d0 d1 d2 =>
      match s.pending with
      | none => s
      | some pd =>
        let tS := s.now + d0
        let tD := tS + d1
        let tM := tD + d2
        match newest pd.logR with
        | none =>
            -- ReadChanges fails (no changes): "do not allow any cache read until next refresh"
            { s with now := tM, pending := none, storeMarker := some { lm := tM, exp := tM + p.storeTTL } }
        | some n =>
            let cl' : ClEntry := { lm := n.ts, checked := tS, exp := tS + p.queryTTL }
            let s1 := { s with now := tM, pending := none, cl := some cl', seen := max s.seen n.ts }
            if n.ts ≤ pd.lastCached then s1                      -- !lastChangeTimeActual.After(lastChangeTimeCached)
            else
              let pg := page p pd.logR
              let rem := inWindowSuffix p tD pg
              if rem.length = pg.length then                     -- idx == len(changes)-1: full
                { s1 with storeMarker := some { lm := tM, exp := tM + p.storeTTL } }
              else
                { s1 with markers := setMarkers p tM (rem.flatMap (·.keys)) s.markers }
  | .lookupIter key =>
      match s.iters key with
      | some e =>
          if s.now < e.exp && invalidAt s e.lm (depsOf key) then
            { s with iters := fun k => if k = key then none else s.iters k }      -- cache.Delete(key)
          else s
      | none => s
  | .evict iter key =>
      if iter then { s with iters := fun k => if k = key then none else s.iters k }
      else { s with queries := fun k => if k = key then none else s.queries k }

def run (s : St K) (evs : List (Ev K)) : St K := evs.foldl (step p depsOf) s

end

/-! ### hypotheses on schedules -/

/-- every write gets a timestamp strictly larger than everything before it -/
def StrictWrites {K : Type} : List (Ev K) → Prop
  | [] => True
  | .write dt _ :: rest => 1 ≤ dt ∧ StrictWrites rest
  | _ :: rest => StrictWrites rest

/-- iterator entries never outlive `iterTTL` counted from the instant their read was initiated
(`exp ≤ LastModified + iteratorCacheTTL`) -/
def IterLifeOK {K : Type} (p : Params) : List (Ev K) → Prop
  | [] => True
  | .popIter _ age life _ :: rest => age + life ≤ p.iterTTL ∧ IterLifeOK p rest
  | _ :: rest => IterLifeOK p rest

/-- query entries never outlive `queryTTL` -/
def QueryLifeOK {K : Type} (p : Params) : List (Ev K) → Prop
  | [] => True
  | .popQuery _ _ life :: rest => life ≤ p.queryTTL ∧ QueryLifeOK p rest
  | _ :: rest => QueryLifeOK p rest

/-- evaluations are instantaneous: a query entry is stamped at the instant its data was read -/
def QueryAtomic {K : Type} : List (Ev K) → Prop
  | [] => True
  | .popQuery _ age _ :: rest => age = 0 ∧ QueryAtomic rest
  | _ :: rest => QueryAtomic rest

def NoRunEnd {K : Type} : List (Ev K) → Prop
  | [] => True
  | .runEnd _ _ _ :: _ => False
  | _ :: rest => NoRunEnd rest

/-! ### the concrete marker keys and which reads they cover -/

inductive MKey where
  /-- `InvalidIteratorByObjectRelationCacheKey(store, object, relation)` -/
  | objRel (object relation : String)
  /-- `InvalidIteratorByUserObjectTypeCacheKey(store, user, objectType)` -/
  | userType (user objectType : String)
  deriving DecidableEq, Repr

structure TupleKey where
  object : String
  relation : String
  user : String
  deriving DecidableEq, Repr

/-- `tuple.GetType` on a well-formed object: the text before the first ':' -/
def typeOfObject (o : String) : String := (o.splitOn ":").headD ""

/-- the two markers `findChangesAndInvalidateIfNecessary` writes for a changed tuple -/
def changeKeys (t : TupleKey) : List MKey :=
  [.objRel t.object t.relation, .userType t.user (typeOfObject t.object)]

/-- the three cached read shapes -/
inductive ReadKey where
  | read (object relation : String) (user : Option String)
  | usersets (object relation : String)
  | startingWithUser (objectType relation : String) (users : List String)

/-- `newCachedIteratorByObjectRelation` / `newCachedIteratorByUserObjectType` -/
def readDeps : ReadKey → List MKey
  | .read o r _ => [.objRel o r]
  | .usersets o r => [.objRel o r]
  | .startingWithUser ot _ us => us.map (fun u => .userType u ot)

/-- a tuple can appear in the result of the read (necessary condition) -/
def readMatches : ReadKey → TupleKey → Prop
  | .read o r u, t => t.object = o ∧ t.relation = r ∧ (∀ x, u = some x → t.user = x)
  | .usersets o r, t => t.object = o ∧ t.relation = r
  | .startingWithUser ot r us, t => typeOfObject t.object = ot ∧ t.relation = r ∧ t.user ∈ us

end OpenFGAVerif.CacheTimeline
