/-
The default Check engine with the planner's choice made explicit (driver side of the C02
correspondence): the expression of `CheckV1.ruleOf` in which a userset / tuple-to-userset handler that the
planner resolves with the weight-two or the recursive strategy is a `fast` leaf, evaluated by
`Model/Weight2.lean` / `Model/RecursiveV1.lean`, and in which the strategy selected at a planned handler is
inherited by the requests it dispatches (`ResolveCheckRequest.SelectedStrategy`):

  checkDirectUsersetTuples → `usersetsP`  (recursive-capable relation: one handler for all userset
                                           restrictions, `SelectedStrategy` honoured when it is `default` /
                                           `recursive`; otherwise one handler per weight-two-capable
                                           restriction, `SelectedStrategy` honoured when `default` / `weight2`,
                                           plus one default handler with an empty selection for the rest)
  checkTTU                 → `ttuP`
  the forced planner of the harness (`fgarun.ForcedPlanner{Want}`) → `want` when offered, else `default`

`evalP` is `Dfs.evalS` (breadth limit 1: program order, both arrival orders of `exclusion`) over these
expressions; the path set used for cycle detection contains plain `(object, relation)` pairs.
-/
import OpenFGAVerif.Model.RecursiveV1

namespace OpenFGAVerif.CheckPlan
open OpenFGAVerif.Vocab OpenFGAVerif.CheckV1 OpenFGAVerif.BoolSys OpenFGAVerif.Dfs

inductive Handler where
  | w2u (o r : String) (x : Restr)
  | w2t (o ts cr : String)
  | recu (o r : String)
  | rect (o r ts : String)
  deriving Repr

inductive PE where
  | lit (v : Leaf)
  | node (dispatch : Bool) (n : Node) (sel : String)
  | fast (h : Handler)
  | or (es : List PE)
  | and (es : List PE)
  | diff (b s : PE)
  deriving Repr

structure Cfg where
  want : String                -- what the forced planner answers when it is offered
  w2 : Weight2.Cfg := {}
  strictU : RecursiveV1.Strict := .code      -- recursive userset: follow every userset restriction (S1)
  strictT : RecursiveV1.Strict := .code      -- recursive TTU: expand parents of every type (S2)
  maxDepth : Nat := 25
  /-- a fast path that can answer `true` or fail (schedule dependent) is taken to fail -/
  pessimistic : Bool := false
  deriving Repr

/-- a default handler: the expression of `CheckV1`, its dispatched children carrying `sel` -/
def toPE (sel : String) : Expr Node → PE
  | .lit v => .lit v
  | .node d n => .node d n sel
  | .or es => .or (toPEs sel es)
  | .and es => .and (toPEs sel es)
  | .diff b s => .diff (toPE sel b) (toPE sel s)
where
  toPEs (sel : String) : List (Expr Node) → List PE
    | [] => []
    | e :: es => toPE sel e :: toPEs sel es

def choose (pc : Cfg) (sel : String) (fastName : String) : String :=
  if sel = "default" || sel = fastName then sel
  else if pc.want = fastName then fastName else "default"

def usersetsP (w : World) (pc : Cfg) (o r : String) (restrs : List Restr) (sel : String) : PE :=
  let typ := typeOf o
  let us := restrs.filter (fun x => x.rel ≠ "")
  if isUserset w.req.user then toPE "" (usersetHandler w o r us)
  else if w.aux.get s!"urec:{typ}#{r}" false then
    let c := choose pc sel "recursive"
    if c = "recursive" then .fast (.recu o r) else toPE c (usersetHandler w o r us)
  else
    let w2 := us.filter (fun x => w.aux.get s!"w2:{typ}#{r}:{x.typ}#{x.rel}" false)
    let rest := us.filter (fun x => !(w.aux.get s!"w2:{typ}#{r}:{x.typ}#{x.rel}" false))
    .or (w2.map (fun x =>
          let c := choose pc sel "weight2"
          if c = "weight2" then PE.fast (.w2u o r x) else toPE c (usersetHandler w o r [x])) ++
         (if rest.isEmpty then [] else [toPE "" (usersetHandler w o r rest)]))

def directP (w : World) (pc : Cfg) (o r : String) (restrs : List Restr) (sel : String) : PE :=
  let u := w.req.user
  let direct := restrs.any (fun x =>
    x.typ = userType u && (if isUserset u then x.rel = userRel u && !x.wild
                           else if isTypedWildcard u then x.wild
                           else x.rel = "" && !x.wild))
  let pub := !isUserset u && restrs.any (fun x => x.typ = userType u && x.wild)
  let us := restrs.any (fun x => x.rel ≠ "")
  .or ((if direct then [toPE sel (directLeaf w o r)] else []) ++ (if pub then [toPE sel (publicLeaf w o r)] else []) ++
       (if us then [usersetsP w pc o r restrs sel] else []))

def ttuP (w : World) (pc : Cfg) (o r ts cr : String) (sel : String) : PE :=
  let typ := typeOf o
  if isUserset w.req.user then toPE "" (ttuExpr w o ts cr)
  else if w.aux.get s!"tw2:{typ}#{r}:{ts}:{cr}" false then
    let c := choose pc sel "weight2"
    if c = "weight2" then .fast (.w2t o ts cr) else toPE c (ttuExpr w o ts cr)
  else if w.aux.get s!"trec:{typ}#{r}:{ts}:{cr}" false then
    let c := choose pc sel "recursive"
    if c = "recursive" then .fast (.rect o r ts) else toPE c (ttuExpr w o ts cr)
  else toPE "" (ttuExpr w o ts cr)

def rewriteP (w : World) (pc : Cfg) (o r : String) (restrs : List Restr) (sel : String) : Rewrite → PE
  | .this => directP w pc o r restrs sel
  | .computed r' => .node false (o, r') sel
  | .ttu ts cr => ttuP w pc o r ts cr sel
  | .union cs => .or (cs.map (rewriteP w pc o r restrs sel))
  | .inter cs => .and (cs.map (rewriteP w pc o r restrs sel))
  | .diff b s => .diff (rewriteP w pc o r restrs sel b) (rewriteP w pc o r restrs sel s)

def ruleP (w : World) (pc : Cfg) (n : Node) (sel : String) : PE :=
  let (o, r) := n
  if splitUserset w.req.user = (o, r) then .lit .tt
  else match w.model.findRel (typeOf o) r with
    | none => .lit .err
    | some rd =>
      if !(w.aux.get s!"path:{typeOf o}#{r}" true) then .lit .ff
      else rewriteP w pc o r rd.restrs sel rd.rewrite

def ansOut (tainted : Bool) : Weight2.Ans → Out
  | .T => .ok true false tainted
  | .F => .ok false false tainted
  | .E => .err .cond
  | .cancelled => .err .abort

def pick (pc : Cfg) (outs : List Out) : List Out :=
  match outs with
  | [a, b] => if pc.pessimistic then [b] else [a]
  | l => l

def fastOuts (w : World) (pc : Cfg) (d : Nat) : Handler → List Out
  | .w2u o r x =>
    let res := Weight2.weight2Userset w pc.w2 o r x
    pick pc (res.answers.map (ansOut res.tainted))
  | .w2t o ts cr =>
    let res := Weight2.weight2TTU w pc.w2 o ts cr
    pick pc (res.answers.map (ansOut res.tainted))
  | .recu o r => pick pc (RecursiveV1.recursive w { w2 := pc.w2, strict := pc.strictU } .userset o r pc.maxDepth d)
  | .rect o r ts => pick pc (RecursiveV1.recursive w { w2 := pc.w2, strict := pc.strictT } (.ttu ts) o r pc.maxDepth d)

def evalP (w : World) (pc : Cfg) : Nat → Nat → List Node → PE → List Out
  | 0, _, _, _ => [.err .abort]
  | fuel + 1, d, V, e =>
    match e with
    | .lit v => [leafOut v]
    | .fast h =>
      match fastOuts w pc d h with
      | [] => [.err .abort]
      | l => l
    | .node dispatch n sel =>
      let d' := if dispatch then d + 1 else d
      if d' = pc.maxDepth then [.err .depth]
      else if n ∈ V then [.ok false true false]
      else evalP w pc fuel d' (n :: V) (ruleP w pc n sel)
    | .or es => unionSet (es.map (evalP w pc fuel d V))
    | .and es => interSet (es.map (evalP w pc fuel d V))
    | .diff b s =>
      let ob := evalP w pc fuel d V b
      let os := evalP w pc fuel d V s
      dedup (ob.flatMap (fun x => os.flatMap (fun y => [exclR true x y, exclR false x y])))

/-- every outcome of `Check` at breadth limit 1 with the forced planner -/
def checkP (w : World) (pc : Cfg) (fuel : Nat := 4000) : List Out :=
  evalP w pc fuel 0 [] (.node false (w.req.obj, w.req.rel) "")

end OpenFGAVerif.CheckPlan
