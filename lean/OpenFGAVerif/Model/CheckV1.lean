/-
Model of the default Check engine (`internal/graph`: LocalChecker with the *default* strategy), as an
equation system for `Model.Dfs`:  one node per sub-problem `(object, relation)` (the subject of a Check
never changes along the recursion), `ruleOf` = one step of `ResolveCheck` → `CheckRewrite`.

Mirrors, in the code's order:
  ResolveCheck            self-defining shortcut, relation lookup, `PathExists` pruning (table dumped from
                          the real typesystem, `Aux`), then `CheckRewrite`
  checkDirect             union of up to three handlers: direct tuple (`ReadUserTuple`, contextual tuples
                          first), public wildcard (`ReadUsersetTuples` restricted to the wildcard
                          reference), userset tuples
  checkDirectUsersetTuples  grouping of the userset restrictions into one handler per weight-two-eligible
                          restriction plus one for the rest (`Aux` says which), each with its own iterator
  produceUsersetDispatches / produceTTUDispatches   one dispatched child per tuple that passes the filters
  ConditionsFilteredTupleKeyIterator   tuples whose condition is false are skipped; evaluation errors are
                          remembered and **only reported if no tuple passed at all** — otherwise swallowed
                          (modelled by an `errSw` leaf so that the result is tainted, finding F12)
  validation.ValidateTupleForRead      tuples that are not valid for the model are ignored
-/
import OpenFGAVerif.Spec.Vocab
import OpenFGAVerif.Model.Dfs

namespace OpenFGAVerif.CheckV1
open OpenFGAVerif.Vocab OpenFGAVerif.BoolSys

abbrev Node := String × String   -- (object, relation)

/-- facts about the model that the real typesystem / weighted graph computes (dumped by the harness):
`path:<type>#<rel>`, `w2:<type>#<rel>:<utype>#<urel>`, `urec:<type>#<rel>`, … -/
abbrev Aux := List (String × Bool)

def Aux.get (a : Aux) (k : String) (dflt : Bool) : Bool :=
  match a.find? (·.1 = k) with
  | some p => p.2
  | none => dflt

structure World where
  model : Model
  aux : Aux
  stored : List Tuple        -- in datastore iteration order
  ctxTuples : List Tuple     -- contextual tuples, already ordered as `NewCombinedTupleReader` orders them
  req : Req
  /-- `true`: the rules of the reference semantics (a tuple whose condition cannot be evaluated is an
  edge that *may* exist: `and [lit err, child]`); `false`: the rules as the code evaluates them (such
  tuples are dropped by the iterator and at most one error is reported or swallowed at the end). -/
  ideal : Bool := false
  deriving Inhabited

/-! ### validation.ValidateTupleForRead -/

def restrMatchesUser (r : Restr) (user : String) : Bool :=
  if isUserset user then r.typ = userType user && r.rel = userRel user && !r.wild
  else if isTypedWildcard user then r.typ = userType user && r.wild
  else r.typ = userType user && !r.wild && r.rel = ""

/-- `validateCondition` (the tuple's condition against the relation's type restrictions) -/
def validCondition (m : Model) (restrs : List Restr) (t : Tuple) : Bool :=
  if t.cond = "" then
    restrs.any (fun r =>
      r.cond = "" && r.typ = userType t.user &&
      (if r.rel ≠ "" || r.wild then
         (r.rel = "" || r.rel = userRel t.user) && (!r.wild || isTypedWildcard t.user)
       else !isTypedWildcard t.user))
  else
    match m.findCond t.cond with
    | none => false
    | some cd =>
      restrs.any (fun r => r.typ = userType t.user && r.cond = t.cond) &&
      t.ctx.all (fun kv => kv.1 = cd.param)

def validForRead (m : Model) (t : Tuple) : Bool :=
  let typ := typeOf t.obj
  match m.findRel typ t.rel with
  | none => false
  | some rd =>
    -- validateTuplesetRestrictions
    (if m.isTuplesetRelation typ t.rel then
       (match rd.rewrite with | .this => true | _ => false) &&
       !isTypedWildcard t.user && !isUserset t.user
     else true) &&
    -- validateTypeRestrictions
    rd.restrs.any (fun r => restrMatchesUser r t.user) &&
    validCondition m rd.restrs t

/-! ### reads -/

def World.all (w : World) : List Tuple := w.ctxTuples ++ w.stored

/-- outcome of a filtered iteration: tuples that passed, and whether an evaluation error was seen -/
structure Filtered where
  passed : List Tuple
  sawErr : Bool
  /-- valid tuples whose condition could not be evaluated (only used by the reference rules) -/
  errs : List Tuple

def filterIter (w : World) (ts : List Tuple) : Filtered :=
  let valid := ts.filter (validForRead w.model)
  { passed := valid.filter (fun t => evalCond w.model w.req.ctx t = .tt),
    sawErr := valid.any (fun t => evalCond w.model w.req.ctx t = .err),
    errs := valid.filter (fun t => evalCond w.model w.req.ctx t = .err) }

/-- what `ConditionsFilteredTupleKeyIterator` adds at the end of the stream of children -/
def errTail {N : Type} (f : Filtered) : List (Expr N) :=
  if f.sawErr then (if f.passed.isEmpty then [.lit .err] else [.lit .errSw]) else []

/-- children of a userset / tuple-to-userset handler: one per passing tuple, then the iterator's error
tail (code) or one guarded child per unevaluable tuple (reference semantics) -/
def kidsOf (w : World) (f : Filtered) (child : Tuple → Option (Expr Node)) : List (Expr Node) :=
  if w.ideal then
    f.passed.filterMap child ++ f.errs.filterMap (fun t => (child t).map (fun c => .and [.lit .err, c]))
  else f.passed.filterMap child ++ errTail f

/-! ### checkDirect -/

def directLeaf (w : World) (o r : String) : Expr Node :=
  match w.all.find? (fun t => t.obj = o && t.rel = r && t.user = w.req.user) with
  | none => .lit .ff
  | some t =>
    if !validForRead w.model t then .lit .ff
    else match evalCond w.model w.req.ctx t with
      | .tt => .lit .tt
      | .ff => .lit .ff
      | .err => .lit .err

def publicLeaf (w : World) (o r : String) : Expr Node :=
  let ut := userType w.req.user
  let ts := w.all.filter (fun t => t.obj = o && t.rel = r && isTypedWildcard t.user && userType t.user = ut)
  let f := filterIter w ts
  if !f.passed.isEmpty then .lit .tt else if f.sawErr then .lit .err else .lit .ff

/-- tuples an iterator over the userset restrictions `rs` yields (before validity/condition filters).
The memory store appends a tuple once per matching restriction (duplicated restrictions duplicate it). -/
def usersetTuples (w : World) (o r : String) (rs : List Restr) : List Tuple :=
  let c := w.ctxTuples.filter (fun t => t.obj = o && t.rel = r && isUserset t.user &&
    rs.any (fun x => x.typ = userType t.user && x.rel = userRel t.user))
  let s := (w.stored.filter (fun t => t.obj = o && t.rel = r && (isUserset t.user || isTypedWildcard t.user))).flatMap
    (fun t => (rs.filter (fun x => x.typ = userType t.user && x.rel = userRel t.user)).map (fun _ => t))
  c ++ s

def usersetHandler (w : World) (o r : String) (rs : List Restr) : Expr Node :=
  let f := filterIter w (usersetTuples w o r rs)
  .or (kidsOf w f (fun t => some (.node true (splitUserset t.user))))

def usersetsExpr (w : World) (o r : String) (restrs : List Restr) : Expr Node :=
  let typ := typeOf o
  let us := restrs.filter (fun x => x.rel ≠ "")
  if isUserset w.req.user || w.aux.get s!"urec:{typ}#{r}" false then
    usersetHandler w o r us
  else
    let w2 := us.filter (fun x => w.aux.get s!"w2:{typ}#{r}:{x.typ}#{x.rel}" false)
    let rest := us.filter (fun x => !(w.aux.get s!"w2:{typ}#{r}:{x.typ}#{x.rel}" false))
    .or (w2.map (fun x => usersetHandler w o r [x]) ++ (if rest.isEmpty then [] else [usersetHandler w o r rest]))

def directExpr (w : World) (o r : String) (restrs : List Restr) : Expr Node :=
  let u := w.req.user
  let direct := restrs.any (fun x =>
    x.typ = userType u && (if isUserset u then x.rel = userRel u && !x.wild
                           else if isTypedWildcard u then x.wild   -- `RelationEquals` on the wildcard form
                           else x.rel = "" && !x.wild))
  let pub := !isUserset u && restrs.any (fun x => x.typ = userType u && x.wild)
  let us := restrs.any (fun x => x.rel ≠ "")
  .or ((if direct then [directLeaf w o r] else []) ++ (if pub then [publicLeaf w o r] else []) ++
       (if us then [usersetsExpr w o r restrs] else []))

/-! ### checkTTU -/

def ttuExpr (w : World) (o : String) (tupleset computed : String) : Expr Node :=
  let ts := w.all.filter (fun t => t.obj = o && t.rel = tupleset)
  let f := filterIter w ts
  .or (kidsOf w f (fun t =>
    let uo := (splitUserset t.user).1
    match w.model.findRel (typeOf uo) computed with
    | none => none
    | some _ => some (Expr.node true (uo, computed))))

/-! ### CheckRewrite -/

def rewriteExpr (w : World) (o r : String) (restrs : List Restr) : Rewrite → Expr Node
  | .this => directExpr w o r restrs
  | .computed r' => .node false (o, r')
  | .ttu ts cr => ttuExpr w o ts cr
  | .union cs => .or (cs.map (rewriteExpr w o r restrs))
  | .inter cs => .and (cs.map (rewriteExpr w o r restrs))
  | .diff b s => .diff (rewriteExpr w o r restrs b) (rewriteExpr w o r restrs s)

/-- one step of `ResolveCheck` after the depth and cycle tests -/
def ruleOf (w : World) (n : Node) : Expr Node :=
  let (o, r) := n
  if splitUserset w.req.user = (o, r) then .lit .tt           -- tuple.IsSelfDefining
  else match w.model.findRel (typeOf o) r with
    | none => .lit .err                                        -- "relation undefined" (not reachable for validated input)
    | some rd =>
      if !(w.aux.get s!"path:{typeOf o}#{r}" true) then .lit .ff   -- typesys.PathExists = false
      else rewriteExpr w o r rd.restrs rd.rewrite

def sysOf (w : World) : Sys Node := { rule := ruleOf w }

/-- the root request as an expression: `ResolveCheck` on `(object, relation)` at depth 0 -/
def rootExpr (w : World) : Expr Node := .node false (w.req.obj, w.req.rel)

/-- the model of `LocalChecker.ResolveCheck` for one schedule -/
def check (w : World) (maxDepth : Nat) (sc : Dfs.Sched) (fuel : Nat := 4000)
    (cache : Node → Option Bool := Dfs.noCache) : Dfs.Out :=
  Dfs.evalF (sysOf w) maxDepth sc cache fuel 0 [] (rootExpr w)

/-! ### the reference semantics: the same one-step rules with exact three-valued edges -/

def idealSys (w : World) : Sys Node := { rule := ruleOf { w with ideal := true } }

/-- every possible outcome of the engine for breadth limit 1 (exclusion goroutines race) -/
def checkSet (w : World) (maxDepth : Nat) (fuel : Nat := 4000) : List Dfs.Out :=
  Dfs.evalS (sysOf w) maxDepth fuel 0 [] (rootExpr w)

end OpenFGAVerif.CheckV1
