/-
Model of the weighted-graph Check engine (`internal/check`: Resolver with the *default* strategy) over
the weighted authorization-model graph of `github.com/openfga/language`, which is taken as data (dumped
per case from the real library by harness/c03/graph.go).  One sub-problem = one call of `ResolveUnion`:
`(object, relation of the request, graph node)`; `rule` is one step of `ResolveUnion`, expressed as a
`DfsG.VExpr` and evaluated by `DfsG.evalG` (shared visited set, receive loops).

Mirrors, in the code's order:
  ResolveCheck            node lookup, pruning by node weight for the user type, wildcard pruning, `ResolveUnion`
  ResolveUnion            creation of the visited set at a recursive / tuple-cycle relation (`seed`),
                          `CanApplyRecursion` → `ResolveRecursive`, else `FlattenNode` → `ResolveUnionEdges`
  FlattenNode             computed / logical / rewrite-to-relation / rewrite-to-union edges are inlined; edges
                          without weight for the user type (or without wildcard path for a wildcard request) are pruned
  ResolveEdge             the visited set is handed down only along edges that are part of a cycle
  ResolveRewrite          intersection, exclusion (`ErrWildcardInvalidRequest` for a wildcard request)
  ResolveIntersection     wildcard short cut, `ErrPanicRequest` on an edge without weight, operands without visited set
  ResolveExclusion        `ErrUsersetInvalidRequest` (userset request, subtract edge without weight), subtract edge
                          not scheduled when it has no weight
  specificType            contextual tuple (index by user, sorted by object) before `ReadUserTuple`; `evaluateCondition`
  specificTypeWildcard    contextual wildcard tuple before `ReadUsersetTuples(type:*)`; first tuple only
  specificTypeAndRelation userset request: `specificType` first; `ReadUsersetTuples` + `buildIterator`
  ttu                     `GetDirectEdgeFromNodeForUserType`, `Read` with the user-type prefix filter, `buildIterator`
  buildIterator           contextual tuples (index by object, sorted by user, de-duplicated) concatenated before the
                          stored ones; condition filter (skipped when the edge has no condition), then visited filter
                          keyed by `tuple.user` (usersets) / `tuple.user#computed` (tuple-to-userset) — commit 1d97cee
Unlike the default engine no tuple is validated against the model on read: the storage filters (object,
relation, user type / prefix, condition names of the edge) are all there is.
-/
import OpenFGAVerif.Spec.Vocab
import OpenFGAVerif.Model.DfsG

namespace OpenFGAVerif.CheckV2
open OpenFGAVerif.Vocab OpenFGAVerif.BoolSys OpenFGAVerif.DfsG

/-! ### the dumped weighted graph -/

structure GNode where
  name : String
  /-- 0 SpecificType, 1 SpecificTypeAndRelation, 2 OperatorNode, 3 SpecificTypeWildcard,
  4 LogicalDirectGrouping, 5 LogicalTTUGrouping -/
  ntype : Nat
  label : String
  recRel : String
  tc : Bool
  /-- `GetNodeWeight(node, userType)` for the user type of the request -/
  weight : Option Nat
  wildcards : List String
  deriving Repr, Inhabited

structure GEdge where
  src : String
  dst : String
  /-- 0 DirectEdge, 1 RewriteEdge, 2 TTUEdge, 3 ComputedEdge, 4 DirectLogicalEdge, 5 TTULogicalEdge -/
  etype : Nat
  tupleset : String
  reldef : String
  recRel : String
  tc : Bool
  /-- `GetEdgeWeight(edge, userType)` -/
  weight : Option Nat
  conds : List String
  wildcards : List String
  deriving Repr, Inhabited

structure Graph where
  nodes : List GNode
  edges : List GEdge
  deriving Repr, Inhabited

def Graph.node? (g : Graph) (name : String) : Option GNode := g.nodes.find? (·.name = name)
def Graph.out (g : Graph) (name : String) : List GEdge := g.edges.filter (·.src = name)

structure World where
  model : Model
  graph : Graph
  stored : List Tuple
  /-- contextual tuples in request order -/
  ctxTuples : List Tuple
  req : Req
  /-- strategy forced through the planner: "default" | "weight2" | "recursive" -/
  strategy : String := "default"
  deriving Inhabited

/-- sub-problem: a `ResolveUnion` call -/
structure VNode where
  obj : String
  rel : String
  g : String
  deriving DecidableEq, Repr, Inhabited

/-- `Request.GetUserType`: the type, or `type#relation` for a userset -/
def userTypeOf (u : String) : String :=
  if isUserset u then typeOf (splitUserset u).1 ++ "#" ++ (splitUserset u).2 else typeOf u

def World.ut (w : World) : String := userTypeOf w.req.user
def World.wild (w : World) : Bool := isTypedWildcard w.req.user

def relOf (s : String) : String := (splitUserset s).2
def typOf (s : String) : String := (splitUserset s).1

/-! ### FlattenNode, CanApplyRecursion -/

def canFlatten (g : Graph) (e : GEdge) : Bool :=
  e.etype = 3 || e.etype = 4 || e.etype = 5 ||
  (e.etype = 1 && (match g.node? e.dst with
    | some t => t.ntype = 1 || (t.ntype = 2 && t.label = "union")
    | none => false))

/-- `none`: `ErrGraphError` (a node without edges) -/
def flatten (g : Graph) (ut : String) (wild recPath : Bool) : Nat → String → Option (List GEdge)
  | 0, _ => none
  | f + 1, name =>
    let es := g.out name
    if es.isEmpty then none
    else es.foldl (fun (acc : Option (List GEdge)) e =>
      match acc with
      | none => none
      | some l =>
        if e.weight.isNone || (wild && !e.wildcards.contains ut) then some l
        else if canFlatten g e then
          match flatten g ut wild recPath f e.dst with
          | none => none
          | some r => some (l ++ r)
        else if !recPath || e.recRel = "" then some (l ++ [e])
        else some l) (some [])

/-- `canApplyRecursiveOptimization`: the recursive edge (if any) and whether every other edge has weight 1 -/
def recursiveOpt (g : Graph) (recRel : String) : Nat → String → Option GEdge × Bool
  | 0, _ => (none, false)
  | f + 1, name =>
    let es := g.out name
    if es.isEmpty then (none, false)
    else es.foldl (fun (acc : Option GEdge × Bool) e =>
      if e.recRel ≠ recRel then
        (match e.weight with
         | some w => if w > 1 then (acc.1, false) else acc
         | none => acc)
      else if e.etype = 0 || e.etype = 2 then (some e, acc.2)
      else
        let r := recursiveOpt g recRel f e.dst
        ((match r.1 with | some x => some x | none => acc.1), acc.2 && r.2)) (none, true)

/-- `CanApplyRecursion` -/
def canApplyRecursion (g : Graph) (ut : String) (gn : GNode) (newStrategy : Bool) : Option GEdge × Bool :=
  if relOf ut = "" && gn.recRel = gn.name && !gn.tc then
    let r := recursiveOpt g gn.recRel 32 gn.name
    (r.1, r.2 && newStrategy)
  else (none, false)

/-! ### well-formedness of the dumped graph (what the pruning steps rely on; evaluated per case by the driver) -/

/-- nodes whose edges are alternatives: relations, logical groupings, union operators -/
def GNode.unionLike (n : GNode) : Bool := n.ntype = 1 || n.ntype = 4 || n.ntype = 5 || (n.ntype = 2 && n.label = "union")

/-- *Local weight consistency*: a node has a weight for the user type exactly when its edges justify it
(some edge for alternatives, every edge for an intersection, the base edge for an exclusion); an edge into a
relation / operator / grouping node has one exactly when that node has one (a direct or tuple-to-userset edge
whose target *is* the userset of the request always has one); edges and nodes exist; an exclusion has two operands. -/
def wfWeights (g : Graph) (ut : String) : Bool :=
  g.nodes.all (fun n =>
    let es := g.out n.name
    if n.ntype = 0 || n.ntype = 3 then true
    else if es.isEmpty then false
    else if n.name = ut then true    -- the userset of the request itself: the graph records weight 1 / infinite for it
    else if n.unionLike then n.weight.isSome = es.any (fun e => e.weight.isSome)
    else if n.ntype = 2 && n.label = "intersection" then n.weight.isSome = es.all (fun e => e.weight.isSome)
    else if n.ntype = 2 && n.label = "exclusion" then
      (match es with
       | [b, _] => n.weight.isSome = b.weight.isSome
       | _ => false)
    else false) &&
  g.edges.all (fun e =>
    match g.node? e.src, g.node? e.dst with
    | some _, some t =>
      if t.ntype = 0 then e.weight.isSome = (t.name = ut)
      else if t.ntype = 3 then e.weight.isSome = (t.name = ut ++ ":*")
      else if (e.etype = 0 || e.etype = 2) && e.dst = ut then e.weight.isSome
      else e.weight.isSome = t.weight.isSome
    | _, _ => false)

/-- *Wildcard consistency*: the wildcard set of a node contains that of each of its edges; an edge into a typed
wildcard carries its type, any other edge the wildcard set of its target. -/
def wfWildcards (g : Graph) : Bool :=
  g.edges.all (fun e =>
    match g.node? e.src, g.node? e.dst with
    | some s, some t =>
      e.wildcards.all (fun x => s.wildcards.contains x) &&
      (if t.ntype = 3 then e.wildcards.contains (t.name.dropEnd 2).toString
       else t.wildcards.all (fun x => e.wildcards.contains x) && e.wildcards.all (fun x => t.wildcards.contains x))
    | _, _ => false)

def wfGraph (g : Graph) (ut : String) : Bool := wfWeights g ut && wfWildcards g

/-! ### reads -/

/-- `evaluateCondition` -/
def evalCondV2 (w : World) (conds : List String) (t : Tuple) : Leaf :=
  if !conds.contains t.cond then .ff
  else match evalCond w.model w.req.ctx t with
    | .tt => .tt
    | .ff => .ff
    | .err => .err

/-- the condition filter of `buildIterator`: absent when the edge carries no condition -/
def iterCond (w : World) (conds : List String) (t : Tuple) : Leaf :=
  if conds = [""] then .tt else evalCondV2 w conds t

/-- user type under which `buildContextualTupleMaps` files a contextual tuple -/
def tupUserType (u : String) : String := userTypeOf u

/-- `insertSortedTuple(…, "user")`: sorted by user, an equal key is not inserted again -/
def insertByUser (t : Tuple) : List Tuple → List Tuple
  | [] => [t]
  | x :: xs => if x.user < t.user then x :: insertByUser t xs else if x.user = t.user then x :: xs else t :: x :: xs

/-- `GetContextualTuplesByObjectID(object, relation, userType)` -/
def ctxByObject (w : World) (obj rel ut : String) : List Tuple :=
  (w.ctxTuples.filter (fun t => t.obj = obj && t.rel = rel && tupUserType t.user = ut)).foldl
    (fun acc t => insertByUser t acc) []

/-- `specificType` -/
def specificType (w : World) (obj : String) (e : GEdge) : Leaf :=
  let rel := relOf e.reldef
  let p := fun (t : Tuple) => t.obj = obj && t.rel = rel && t.user = w.req.user
  match (w.ctxTuples.find? p).orElse (fun _ => w.stored.find? p) with
  | none => .ff
  | some t => evalCondV2 w e.conds t

/-- `specificTypeWildcard` -/
def specificTypeWildcard (w : World) (obj : String) (e : GEdge) : Leaf :=
  let rel := relOf e.reldef
  let wc := w.ut ++ ":*"
  match (ctxByObject w obj rel w.ut).find? (fun t => isTypedWildcard t.user) with
  | some t => evalCondV2 w e.conds t
  | none =>
    match w.stored.find? (fun t => t.obj = obj && t.rel = rel && t.user = wc && e.conds.contains t.cond) with
    | none => .ff
    | some t => evalCondV2 w e.conds t

def childNode (g : Graph) (o r : String) : Option VNode :=
  let name := typeOf o ++ "#" ++ r
  match g.node? name with
  | some _ => some { obj := o, rel := r, g := name }
  | none => none

/-- tuples of a userset edge, as the filtered iterator sees them (`rel`: relation read) -/
def usersetItems (w : World) (obj rel : String) (e : GEdge) : List (Item VNode) :=
  let toType := typOf e.dst
  let toRel := relOf e.dst
  let ctx := ctxByObject w obj rel e.dst
  let st := w.stored.filter (fun t => t.obj = obj && t.rel = rel && isUserset t.user &&
    e.conds.contains t.cond && userType t.user = toType && userRel t.user = toRel)
  ((ctx ++ st).map (fun t =>
    ({ key := t.user, cond := iterCond w e.conds t,
       child := childNode w.graph (splitUserset t.user).1 (splitUserset t.user).2 } : Item VNode)))

/-- `GetDirectEdgeFromNodeForUserType(tupleset, subjectType)` -/
def tuplesetEdge (g : Graph) (tupleset subjectType : String) : Option GEdge :=
  (g.out tupleset).find? (fun x => match g.node? x.dst with
    | some t => t.label = subjectType
    | none => false)

def ttuItems (w : World) (obj : String) (e : GEdge) (ts : GEdge) : List (Item VNode) :=
  let tsRel := relOf e.tupleset
  let subjectType := typOf e.dst
  let computed := relOf e.dst
  let ctx := ctxByObject w obj tsRel subjectType
  let st := w.stored.filter (fun t => t.obj = obj && t.rel = tsRel && t.user.startsWith (subjectType ++ ":") &&
    ts.conds.contains t.cond)
  ((ctx ++ st).map (fun t =>
    -- the visited key of a tuple-to-userset child: parent object + computed relation (commit 1d97cee; the parent
    -- object alone before: finding V2-A)
    ({ key := t.user ++ "#" ++ computed,
       cond := iterCond w ts.conds t,
       child := some { obj := (splitUserset t.user).1, rel := computed, g := e.dst } } : Item VNode)))

/-! ### ResolveEdge / ResolveRewrite / ResolveIntersection / ResolveExclusion -/

def edgeExpr (w : World) (obj rel : String) : Nat → GEdge → VExpr VNode
  | 0, _ => .fail .abort
  | f + 1, e =>
    let g := w.graph
    let share := e.tc || e.recRel ≠ ""
    match e.etype with
    | 0 =>
      match g.node? e.dst with
      | none => .fail .panic
      | some t =>
        if t.ntype = 0 then .lit (specificType w obj e)
        else if t.ntype = 3 then .lit (specificTypeWildcard w obj e)
        else if t.ntype = 1 then
          let it := VExpr.iter share (usersetItems w obj (relOf e.reldef) e)
          if e.dst = w.ut then
            (if e.recRel = "" && !e.tc then .lit (specificType w obj e) else .gate (specificType w obj e) it)
          else it
        else .fail .panic
    | 2 =>
      match tuplesetEdge g e.tupleset (typOf e.dst) with
      | none => .fail .panic
      | some ts => .iter share (ttuItems w obj e ts)
    | 1 =>
      match g.node? e.dst with
      | none => .fail .panic
      | some t =>
        if t.ntype = 1 then .sub share { obj := obj, rel := rel, g := e.dst }
        else if t.ntype = 2 then
          if t.label = "union" then .sub share { obj := obj, rel := rel, g := e.dst }
          else if t.label = "intersection" then
            let es := g.out e.dst
            if es.isEmpty then .fail .panic
            else if w.wild && es.any (fun x => !x.wildcards.contains w.ut) then .lit .ff
            else if es.any (fun x => x.weight.isNone) then .fail .panic
            else .and (es.map (edgeExpr w obj rel f))
          else if t.label = "exclusion" then
            if w.wild then .fail .shapeWildcard
            else
              match g.out e.dst with
              | [b, s] =>
                if b.weight.isNone then .fail .panic
                else if s.weight.isNone then
                  (if isUserset w.req.user then .fail .shapeUserset else .diff1 (edgeExpr w obj rel f b))
                else .diff (edgeExpr w obj rel f b) (edgeExpr w obj rel f s)
              | _ => .fail .panic
          else .fail .panic
        else .fail .panic
    | 3 => .sub share { obj := obj, rel := rel, g := e.dst }
    | 4 => .sub share { obj := obj, rel := rel, g := e.dst }
    | 5 => .sub share { obj := obj, rel := rel, g := e.dst }
    | _ => .fail .panic

/-! ### ResolveUnion -/

def graphFuel : Nat := 48

/-- the recursive edge of `ResolveRecursive` (`resolveRecursiveUserset` / `resolveRecursiveTTU`), default strategy -/
def recEdgeExpr (w : World) (obj : String) (e : GEdge) : VExpr VNode :=
  let share := e.tc || e.recRel ≠ ""
  if e.etype = 0 then .iter share (usersetItems w obj (relOf e.dst) e)
  else if e.etype = 2 then
    match tuplesetEdge w.graph e.tupleset (typOf e.dst) with
    | none => .fail .panic
    | some ts => .iter share (ttuItems w obj e ts)
  else .fail .panic

/-- one step of `ResolveUnion` on sub-problem `n` -/
def rule (w : World) (emptyCycle : Bool) (n : VNode) : VExpr VNode :=
  match w.graph.node? n.g with
  | none => .fail .panic
  | some gn =>
    match (canApplyRecursion w.graph w.ut gn emptyCycle).1 with
    | some e =>
      match flatten w.graph w.ut w.wild true graphFuel e.dst with
      | none => .fail .panic
      | some nonRec => .or2 (.or (nonRec.map (edgeExpr w n.obj n.rel graphFuel))) (recEdgeExpr w n.obj e)
    | none =>
      match flatten w.graph w.ut w.wild false graphFuel n.g with
      | none => .fail .panic
      | some es => .or (es.map (edgeExpr w n.obj n.rel graphFuel))

/-- the key `ResolveUnion` stores when it creates the visited set -/
def seed (w : World) (n : VNode) : Option String :=
  match w.graph.node? n.g with
  | some gn => if gn.ntype = 1 && (gn.recRel = gn.name || gn.tc) then some (n.obj ++ "#" ++ n.rel) else none
  | none => none

/-- `GetDirectEdgeForUserType`: the direct edge of a relation to a user type, searched through operator and
logical-grouping nodes (breadth first in the library; the edge is unique, so the order does not matter) -/
def directEdgeFor (g : Graph) (ut : String) : Nat → List GEdge → Option GEdge
  | 0, _ => none
  | f + 1, es =>
    if es.isEmpty then none
    else match es.find? (fun e => e.etype = 0 && e.dst = ut) with
      | some e => some e
      | none => directEdgeFor g ut f (es.flatMap (fun e => match g.node? e.dst with
          | some t => if t.ntype = 2 || t.ntype = 4 then g.out e.dst else []
          | none => []))

/-- `validateCtxTupleInModel` -/
def validCtxTuple (w : World) (t : Tuple) : Bool :=
  let name := typeOf t.obj ++ "#" ++ t.rel
  match w.graph.node? name with
  | none => false
  | some _ =>
    let ut := if isUserset t.user then userTypeOf t.user else if isTypedWildcard t.user then t.user else typeOf t.user
    match directEdgeFor w.graph ut 16 (w.graph.out name) with
    | none => false
    | some e => e.conds.contains t.cond

/-- `NewRequest` + `ResolveCheck` -/
def rootExpr (w : World) : VExpr VNode :=
  let name := typeOf w.req.obj ++ "#" ++ w.req.rel
  match w.graph.node? name with
  | none => .fail .invalid
  | some gn =>
    if (w.graph.node? w.ut).isNone then .fail .invalid
    else if !w.ctxTuples.all (validCtxTuple w) then .fail .invalid
    else if gn.weight.isNone then .lit .ff
    else if w.wild && !gn.wildcards.contains w.ut then .lit .ff
    else .sub false { obj := w.req.obj, rel := w.req.rel, g := name }

/-- every possible outcome of the engine with concurrency limit 1 (`look`: producer look-ahead) -/
def checkSet (w : World) (look : Nat := 2) (fuel : Nat := 400) : List VOut :=
  (evalG (rule w) (seed w) (lookAhead look) fuel none (rootExpr w)).1

end OpenFGAVerif.CheckV2
