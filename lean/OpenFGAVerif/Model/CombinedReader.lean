/-
Model of `storagewrappers.CombinedTupleReader` (pkg/storage/storagewrappers/combinedtuplereader.go)
over the memory datastore's iteration order (`World.stored` = insertion order).

  NewCombinedTupleReader   copies the contextual tuples and sorts them by object (`slices.SortFunc` with
                           `strings.Compare` on the object; pdqsort = insertion sort for ≤ 12 elements,
                           hence stable there; theorems only use "some permutation")
  filterTuples             object / relation / user-list filter, "" and the empty list match everything
  Read                     contextual side: filter by object and relation **only** (`filter.User` is not
                           passed), then the datastore's Read; contextual tuples first
  ReadUserTuple            a contextual tuple with that object, relation and user wins; else the datastore
  ReadUsersetTuples        contextual side: object/relation filter + `tupleMatchesAllowedUserTypeRestrictions`
                           (only usersets `type:id#rel` and typed wildcards, matched against the allowed
                           references; with no reference nothing is returned); `filter.Conditions` ignored
  ReadStartingWithUser     contextual side: relation, user list, object type; **`ObjectIDs` and
                           `Conditions` are ignored**; ordered merge (duplicates by object dropped) when
                           `WithResultsSortedAscending`, concatenation otherwise

Core Lean only.
-/
import OpenFGAVerif.Spec.Vocab

namespace OpenFGAVerif.Model.CombinedReader
open OpenFGAVerif.Vocab

/-! ### contextual tuple order -/

/-- insertion into a list sorted by object; equal objects keep their arrival order (stable) -/
def insertByObj (t : Tuple) : List Tuple → List Tuple
  | [] => [t]
  | x :: xs => if t.obj < x.obj then t :: x :: xs else x :: insertByObj t xs

/-- `slices.SortFunc(cu, strings.Compare(a.Object, b.Object))` for up to 12 contextual tuples -/
def orderCtx (ts : List Tuple) : List Tuple := ts.foldl (fun acc t => insertByObj t acc) []

/-! ### filters -/

/-- `filterTuples(tuples, targetObject, targetRelation, targetUsers)` -/
def filterTuples (ts : List Tuple) (o r : String) (users : List String) : List Tuple :=
  ts.filter (fun t => (o = "" || t.obj = o) && (r = "" || t.rel = r) && (users.isEmpty || users.contains t.user))

/-- the memory store's `match` for a well-formed `type:id` object with a non-empty id, a relation and a
full user string ("" = any) -/
def storeMatch (o r u : String) (t : Tuple) : Bool :=
  (o = "" || t.obj = o) && (r = "" || t.rel = r) && (u = "" || t.user = u)

/-- datastore `Read` (memory: insertion order) -/
def storeRead (stored : List Tuple) (o r u : String) : List Tuple := stored.filter (storeMatch o r u)

/-- `CombinedTupleReader.Read`: contextual tuples (user filter **not** applied) then stored tuples -/
def read (ctxO stored : List Tuple) (o r u : String) : List Tuple :=
  filterTuples ctxO o r [] ++ storeRead stored o r u

/-- `CombinedTupleReader.ReadUserTuple`; `none` = storage.ErrNotFound -/
def readUserTuple (ctxO stored : List Tuple) (o r u : String) : Option Tuple :=
  match (filterTuples ctxO o r [u]).find? (fun t => t.user = u) with
  | some t => some t
  | none => stored.find? (storeMatch o r u)

/-- `tupleMatchesAllowedUserTypeRestrictions` -/
def matchesAllowed (t : Tuple) (rs : List Restr) : Bool :=
  -- GetUserTypeFromUser(user) == UserSet : `type:id#rel` or a typed wildcard
  (isUserset t.user || isTypedWildcard t.user) &&
  rs.any (fun x =>
    (x.wild && isTypedWildcard t.user && userType t.user = x.typ) ||
    (x.rel ≠ "" && !x.wild && isUserset t.user && userType t.user = x.typ && userRel t.user = x.rel))

/-- memory `ReadUsersetTuples`: usersets and typed wildcards on (o, r), one copy per tuple (first
matching reference; `break`), reference matched on type and relation ("" for a wildcard) -/
def storeReadUsersets (stored : List Tuple) (o r : String) (rs : List Restr) : List Tuple :=
  stored.filter (fun t => t.obj = o && t.rel = r && (isUserset t.user || isTypedWildcard t.user) &&
    (rs.isEmpty || rs.any (fun x => x.typ = userType t.user && x.rel = userRel t.user)))

def readUsersetTuples (ctxO stored : List Tuple) (o r : String) (rs : List Restr) : List Tuple :=
  (filterTuples ctxO o r []).filter (fun t => matchesAllowed t rs) ++ storeReadUsersets stored o r rs

/-- object id of `type:id` -/
def objId (s : String) : String :=
  match s.splitOn ":" with
  | _ :: rest@(_ :: _) => ":".intercalate rest
  | _ => ""

/-- stable insertion sort by object id (memory: `sort.Slice` by ObjectID — not stable in general; equal
ids only occur for equal objects here because the object type is fixed) -/
def insertById (t : Tuple) : List Tuple → List Tuple
  | [] => [t]
  | x :: xs => if objId t.obj < objId x.obj then t :: x :: xs else x :: insertById t xs

def sortById (ts : List Tuple) : List Tuple := ts.foldl (fun acc t => insertById t acc) []

/-- memory `ReadStartingWithUser`: object type, relation, optional object-id set, one copy per matching
user filter, sorted by object id -/
def storeReadStartingWithUser (stored : List Tuple) (typ r : String) (users : List String)
    (ids : Option (List String)) : List Tuple :=
  sortById ((stored.filter (fun t => typeOf t.obj = typ && t.rel = r &&
      (match ids with | none => true | some l => l.contains (objId t.obj)))).flatMap
    (fun t => (users.filter (· = t.user)).map (fun _ => t)))

/-- contextual side of `ReadStartingWithUser`: relation + user list + object type, **no** object-id filter -/
def ctxStartingWithUser (ctxO : List Tuple) (typ r : String) (users : List String) : List Tuple :=
  (filterTuples ctxO "" r users).filter (fun t => typeOf t.obj = typ)

/-- `OrderedCombinedIterator` with `ObjectMapper`: merge two object-sorted streams; on equal objects the
first stream's tuple is kept and the second's dropped; duplicates inside a stream are dropped too -/
def mergeByObj : Nat → List Tuple → List Tuple → List Tuple
  | 0, _, _ => []
  | _ + 1, [], ys => ys
  | _ + 1, xs, [] => xs
  | f + 1, x :: xs, y :: ys =>
    if x.obj < y.obj then x :: mergeByObj f xs (y :: ys)
    else if y.obj < x.obj then y :: mergeByObj f (x :: xs) ys
    else x :: mergeByObj f xs ys

def dedupAdjObj : List Tuple → List Tuple
  | [] => []
  | [x] => [x]
  | x :: y :: rest => if x.obj = y.obj then dedupAdjObj (x :: rest) else x :: dedupAdjObj (y :: rest)
termination_by l => l.length

def readStartingWithUser (ctxO stored : List Tuple) (typ r : String) (users : List String)
    (ids : Option (List String)) (sorted : Bool) : List Tuple :=
  let c := ctxStartingWithUser ctxO typ r users
  let s := storeReadStartingWithUser stored typ r users ids
  if sorted then dedupAdjObj (mergeByObj (c.length + s.length + 1) c s) else c ++ s

/-! ### the weighted-graph engine's per-request indexes (internal/check/request.go)

`buildContextualTupleMaps` files every contextual tuple under `(user, relation, objectType)` sorted by
object and under `(object, relation, userType)` sorted by user; `insertSortedTuple` finds the first
position whose key is `>=` the new key (`sort.Search` on the sorted slice), skips the tuple if the key at
that position is equal, and inserts it there otherwise. -/

def insertSortedBy (key : Tuple → String) (t : Tuple) : List Tuple → List Tuple
  | [] => [t]
  | x :: xs =>
    if key x < key t then x :: insertSortedBy key t xs
    else if key x = key t then x :: xs            -- duplicate: skipped
    else t :: x :: xs

/-- user type as the index spells it: `type` or `type#relation` -/
def indexUserType (u : String) : String :=
  if isUserset u then userType u ++ "#" ++ userRel u else userType u

/-- `ctxTuplesByObjectID[(object, relation, userType)]` -/
def ctxByObject (ctx : List Tuple) (o r ut : String) : List Tuple :=
  (ctx.filter (fun t => t.obj = o && t.rel = r && indexUserType t.user = ut)).foldl
    (fun acc t => insertSortedBy (·.user) t acc) []

/-- `ctxTuplesByUserID[(user, relation, objectType)]` -/
def ctxByUser (ctx : List Tuple) (u r ot : String) : List Tuple :=
  (ctx.filter (fun t => t.user = u && t.rel = r && typeOf t.obj = ot)).foldl
    (fun acc t => insertSortedBy (·.obj) t acc) []

/-- the contextual part of `specificTypeWildcard` (internal/check/check.go): the bucket
`ctxTuplesByObjectID[(object, relation, userType)]` is walked from the start until the first typed wildcard
(`for _, ct := range ctxTuples { if tuple.IsTypedWildcard(ct.GetUser()) { …; break } }`); `none` = fall through
to the datastore's `ReadUsersetTuples(type:*)`.  The bucket is sorted by user and `type:*` does NOT sort
first: ids may start with `!`, `"`, `$`, `%`, `&`, `'`, `(`, `)` (all accepted by pkg/tuple), which sort before `*`. -/
def ctxWildcardLookup (bucket : List Tuple) : Option Tuple := bucket.find? (fun t => isTypedWildcard t.user)

/-- the index-0 shortcut ("the wildcard can only be the first entry") — NOT what the code does -/
def ctxWildcardHeadOnly (bucket : List Tuple) : Option Tuple :=
  match bucket with
  | t :: _ => if isTypedWildcard t.user then some t else none
  | [] => none

/-! ### the wrapper stack of `NewRequestStorageWrapperWithCache`

bounded reader → iterator cache (`CachedDatastore`) → shared iterators → `CombinedTupleReader`.  The
contextual tuples are merged ABOVE the caches: a cached iterator is keyed by the read filter and holds
stored tuples only.  `K` is the filter (= cache key by C24), `rd` the datastore read. -/

abbrev IterCache (K : Type) := List (K × List Tuple)

def cacheGet {K : Type} [DecidableEq K] (c : IterCache K) (k : K) : Option (List Tuple) :=
  (c.find? (fun p => p.1 = k)).map (·.2)

/-- a read through the cached datastore: hit → cached value, miss → datastore read, stored in the cache -/
def cachedRead {K : Type} [DecidableEq K] (rd : K → List Tuple) (c : IterCache K) (k : K) : List Tuple × IterCache K :=
  match cacheGet c k with
  | some v => (v, c)
  | none => (rd k, c ++ [(k, rd k)])

/-- one read of a request carrying the contextual tuples `ctx` (already filtered for this read by `sel`) -/
def requestRead {K : Type} [DecidableEq K] (rd : K → List Tuple) (sel : List Tuple → K → List Tuple)
    (ctx : List Tuple) (c : IterCache K) (k : K) : List Tuple × IterCache K :=
  let (v, c') := cachedRead rd c k
  (sel ctx k ++ v, c')

/-- a history of reads, each belonging to a request with its own contextual tuples -/
def runReads {K : Type} [DecidableEq K] (rd : K → List Tuple) (sel : List Tuple → K → List Tuple) :
    IterCache K → List (List Tuple × K) → List (List Tuple) × IterCache K
  | c, [] => ([], c)
  | c, (ctx, k) :: rest =>
    let (v, c') := requestRead rd sel ctx c k
    let (vs, c'') := runReads rd sel c' rest
    (v :: vs, c'')

/-! ### one command, several `Execute` calls

`Server.BatchCheck` hands ONE `CheckQuery` to the batch command, which calls its `Execute` once per item,
each time with that item's contextual tuples.  `perExecute = true` is the code: the request wrapper is
built inside `Execute` from the params of that call (`Gen.ReqScope`); `false` is a wrapper built once per
command (memoised in the struct): every call then reads through the contextual tuples of the call that
built it. -/
def serveCalls {K : Type} [DecidableEq K] (rd : K → List Tuple) (sel : List Tuple → K → List Tuple) (perExecute : Bool)
    (c : IterCache K) (calls : List (List Tuple × K)) : List (List Tuple) × IterCache K :=
  if perExecute then runReads rd sel c calls
  else match calls with
    | [] => ([], c)
    | (ctx0, _) :: _ => runReads rd sel c (calls.map (fun p => (ctx0, p.2)))

end OpenFGAVerif.Model.CombinedReader
