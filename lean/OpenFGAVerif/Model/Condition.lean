/-
Model of condition evaluation (internal/condition, internal/condition/eval, internal/condition/types).
Core Lean only.

  structpb.Value.AsInterface                                   → `asInterface`
  types.DecodeParameterType (+ the registration table)          → `decode`
  primitiveTypeConverterFunc / numericTypeConverterFunc / …     → `convert` (with math/big's
      ParseFloat(s, 10, 64, ToNearestEven), Float.IsInt, Float.Int64, Float.Float64 modelled
      on exact integers: `parseBF`, `BF.isInt`, `BF.int64`, `BF.float64Exact`)
  EvaluableCondition.CastContextToTypedParameters               → `castContext`
  EvaluableCondition.Evaluate                                   → `evaluate`
  eval.EvaluateTupleCondition                                   → `evalTuple`

Trusted and abstract: cel-go (`Cel`: compile + eval over a typed environment) and the standard
library parsers time.ParseDuration, time.Parse(RFC3339), netip.ParseAddr (`Std`).

Go maps are lists of bindings read with *last binding wins* (`getLast`): a map built by a sequence
of assignments; `maps.Copy(dst, src)` is then `dst ++ src`.
-/
namespace OpenFGAVerif.Model.Condition

abbrev Bytes := List UInt8

/-! ## maps as binding lists -/

/-- lookup with "last binding wins" (a Go map after the assignments `m[k] = v` in list order) -/
def getLast {α : Type} : List (String × α) → String → Option α
  | [], _ => none
  | (k', v) :: rest, k =>
    match getLast rest k with
    | some w => some w
    | none => if k' = k then some v else none

/-! ## values -/

/-- `structpb.Value` (a kind-less value behaves like null) -/
inductive PVal where
  | null
  | num (bits : Nat)          -- float64 as IEEE-754 bits
  | str (s : Bytes)
  | bool (b : Bool)
  | list (xs : List PVal)
  | struct (fs : List (String × PVal))
  deriving Repr, Inhabited

/-- Go `any` as produced by `AsInterface`: nil, float64, string, bool, []any, map[string]any -/
inductive JVal where
  | null
  | num (bits : Nat)
  | str (s : Bytes)
  | bool (b : Bool)
  | list (xs : List JVal)
  | obj (fs : List (String × JVal))
  deriving Repr, Inhabited

/-- a request / tuple context: `map[string]*structpb.Value` -/
abbrev Ctx := List (String × PVal)

/-! ## float64 bit patterns -/
namespace F64
def signBit (b : Nat) : Bool := (b / 2 ^ 63) % 2 == 1
def expField (b : Nat) : Nat := (b / 2 ^ 52) % 2048
def frac (b : Nat) : Nat := b % 2 ^ 52
def isNaN (b : Nat) : Bool := expField b == 2047 && frac b != 0
def isInf (b : Nat) : Bool := expField b == 2047 && frac b == 0
/-- finite values: |x| = mant × 2^exp2 -/
def mant (b : Nat) : Nat := if expField b == 0 then frac b else 2 ^ 52 + frac b
def exp2 (b : Nat) : Int := if expField b == 0 then -1074 else (expField b : Int) - 1075
def posInf : Nat := 2047 * 2 ^ 52
def negInf : Nat := 2 ^ 63 + 2047 * 2 ^ 52
end F64

def strNaN : Bytes := [78, 97, 78]                                   -- "NaN"
def strInfinity : Bytes := [73, 110, 102, 105, 110, 105, 116, 121]   -- "Infinity"
def strNegInfinity : Bytes := 45 :: strInfinity                      -- "-Infinity"

/-- `structpb.Value.AsInterface`: NaN and ±Inf numbers become the strings "NaN", "Infinity",
"-Infinity"; everything else maps kind by kind. -/
def asInterface : PVal → JVal
  | .null => .null
  | .num b =>
    if F64.isNaN b then .str strNaN
    else if F64.isInf b then (if F64.signBit b then .str strNegInfinity else .str strInfinity)
    else .num b
  | .str s => .str s
  | .bool b => .bool b
  | .list xs => .list (asInterfaceList xs)
  | .struct fs => .obj (asInterfaceFields fs)
where
  asInterfaceList : List PVal → List JVal
    | [] => []
    | x :: xs => asInterface x :: asInterfaceList xs
  asInterfaceFields : List (String × PVal) → List (String × JVal)
    | [] => []
    | (k, x) :: xs => (k, asInterface x) :: asInterfaceFields xs

/-! ## math/big.Float, as far as the converters use it -/

def bitlen (n : Nat) : Nat := if n = 0 then 0 else Nat.log2 n + 1

def minExp : Int := -2147483648
def maxExp : Int := 2147483647

/-- a `big.Float`: ±0, ±Inf or ±m·2^e with m > 0 (not necessarily normalised) -/
inductive BF where
  | zero (neg : Bool)
  | inf (neg : Bool)
  | fin (neg : Bool) (m : Nat) (e : Int)
  deriving Repr, DecidableEq, Inhabited

/-- round `m` (with a sticky bit for discarded non-zero digits below it) to at most `prec`
significant bits, to nearest even; result `(m', k)` stands for m'·2^k -/
def roundNE (prec : Nat) (m : Nat) (sticky : Bool) : Nat × Nat :=
  let l := bitlen m
  if l ≤ prec then (m, 0)
  else
    let k := l - prec
    let q := m / 2 ^ k
    let rbit := (m / 2 ^ (k - 1)) % 2 == 1
    let sbit := sticky || (m % 2 ^ (k - 1) != 0)
    let inc := rbit && (sbit || q % 2 == 1)
    (if inc then q + 1 else q, k)

/-- `Float.setExpAndRound`: underflow to 0, overflow to Inf, otherwise round to `prec` bits -/
def BF.mk (prec : Nat) (neg : Bool) (m : Nat) (e : Int) (sticky : Bool) : BF :=
  if m = 0 then .zero neg
  else
    let gexp : Int := e + bitlen m
    if gexp < minExp then .zero neg
    else if gexp > maxExp then .inf neg
    else
      let (m', k) := roundNE prec m sticky
      if e + k + bitlen m' > maxExp then .inf neg else .fin neg m' (e + k)

/-- `z.Mul(x, y)` with `z.prec = prec` (0·Inf does not occur on the paths modelled: it panics in Go) -/
def BF.mul (prec : Nat) : BF → BF → BF
  | .fin n1 m1 e1, .fin n2 m2 e2 => BF.mk prec (n1 != n2) (m1 * m2) (e1 + e2) false
  | .fin n1 _ _, .inf n2 => .inf (n1 != n2)
  | .inf n1, .fin n2 _ _ => .inf (n1 != n2)
  | .inf n1, .inf n2 => .inf (n1 != n2)
  | .zero n1, .fin n2 _ _ => .zero (n1 != n2)
  | .fin n1 _ _, .zero n2 => .zero (n1 != n2)
  | .zero n1, .zero n2 => .zero (n1 != n2)
  | .zero n1, .inf n2 => .zero (n1 != n2)   -- unreachable (Go panics)
  | .inf n1, .zero n2 => .zero (n1 != n2)   -- unreachable (Go panics)

/-- `z.Quo(x, y)`: the exact quotient, correctly rounded (quotient bits + sticky remainder) -/
def BF.quo (prec : Nat) : BF → BF → BF
  | .fin n1 m1 e1, .fin n2 m2 e2 =>
    let s := prec + 2 + bitlen m2
    let num := m1 * 2 ^ s
    BF.mk prec (n1 != n2) (num / m2) (e1 - e2 - s) (num % m2 != 0)
  | .fin n1 _ _, .inf n2 => .zero (n1 != n2)
  | .zero n1, .fin n2 _ _ => .zero (n1 != n2)
  | .zero n1, .inf n2 => .zero (n1 != n2)
  | .inf n1, .fin n2 _ _ => .inf (n1 != n2)
  | .fin n1 _ _, .zero n2 => .inf (n1 != n2)
  | .inf n1, .zero n2 => .inf (n1 != n2)
  | .zero n1, .zero n2 => .zero (n1 != n2)  -- unreachable (Go panics)
  | .inf n1, .inf n2 => .inf (n1 != n2)     -- unreachable (Go panics)

/-- the loop of `Float.pow5` for n > 27: z has 128 bits, f has 192 bits -/
def pow5Loop : Nat → Nat → BF → BF → BF
  | 0, _, z, _ => z
  | fuel + 1, n, z, f =>
    if n = 0 then z
    else pow5Loop fuel (n / 2) (if n % 2 = 1 then BF.mul 128 z f else z) (BF.mul 192 f f)

/-- `p.pow5(n)` with `p.prec = 128` -/
def pow5 (n : Nat) : BF :=
  if n ≤ 27 then .fin false (5 ^ n) 0
  else pow5Loop 64 (n - 27) (.fin false (5 ^ 27) 0) (.fin false 5 0)

def isDigit (c : UInt8) : Bool := 48 ≤ c && c ≤ 57

/-- `nat.scan(r, 10, fracOk = true)`: digits with at most one '.', returns
(value of all digits, number of digits, digits after the point, rest) -/
def scanMant : Bytes → Nat → Nat → Option Nat → Nat × Nat × Nat × Bytes
  | [], acc, cnt, dp => (acc, cnt, match dp with | some d => cnt - d | none => 0, [])
  | c :: cs, acc, cnt, dp =>
    if c = 46 ∧ dp = none then scanMant cs acc cnt (some cnt)
    else if isDigit c then scanMant cs (acc * 10 + (c.toNat - 48)) (cnt + 1) dp
    else (acc, cnt, match dp with | some d => cnt - d | none => 0, c :: cs)

/-- leading decimal digits: (value, count, rest) -/
def scanDigits : Bytes → Nat → Nat → Nat × Nat × Bytes
  | [], acc, cnt => (acc, cnt, [])
  | c :: cs, acc, cnt =>
    if isDigit c then scanDigits cs (acc * 10 + (c.toNat - 48)) (cnt + 1) else (acc, cnt, c :: cs)

/-- `scanExponent(r, base2ok = true, sepOk = false)`: (exponent, exponent base is 10?, rest);
`none` = error (no digits, or the exponent does not fit an int64) -/
def scanExp : Bytes → Option (Int × Bool × Bytes)
  | [] => some (0, true, [])
  | c :: cs =>
    if c = 101 ∨ c = 69 ∨ c = 112 ∨ c = 80 then
      let ten := c = 101 ∨ c = 69
      let (neg, ds) := match cs with
        | 43 :: r => (false, r)
        | 45 :: r => (true, r)
        | r => (false, r)
      let (v, cnt, rest) := scanDigits ds 0 0
      if cnt = 0 then none
      else if neg then (if v > 2 ^ 63 then none else some (-(v : Int), ten, rest))
      else (if v > 2 ^ 63 - 1 then none else some ((v : Int), ten, rest))
    else some (0, true, c :: cs)

def strInfU : Bytes := [73, 110, 102]   -- "Inf"
def strInfL : Bytes := [105, 110, 102]  -- "inf"

/-- the end of `Float.scan`: apply the binary exponent (range-checked), then the power of five -/
def assembleBF (neg : Bool) (mant fcount : Nat) (exp : Int) (ten : Bool) : Option BF :=
  let e2 : Int := exp - fcount
  let e5 : Int := (if ten then exp else 0) - fcount
  let gexp : Int := bitlen mant + e2
  if gexp < minExp ∨ gexp > maxExp then none                      -- "exponent overflow"
  else if e5 = 0 then
    let r := roundNE 64 mant false                                 -- z.round(0)
    some (if e2 + r.2 + bitlen r.1 > maxExp then .inf neg else .fin neg r.1 (e2 + r.2))
  else if e5 < 0 then some (BF.quo 64 (.fin neg mant e2) (pow5 e5.natAbs))
  else some (BF.mul 64 (.fin neg mant e2) (pow5 e5.natAbs))

/-- `Float.scan` after the sign, plus `Parse`'s "entire string must have been consumed" -/
def parseUnsigned (neg : Bool) (body : Bytes) : Option BF :=
  match scanMant body 0 0 none with
  | (mant, cnt, fcount, rest) =>
    if cnt = 0 then none                                           -- "number has no digits"
    else match scanExp rest with
      | none => none
      | some (exp, ten, rest2) =>
        if rest2 ≠ [] then none
        else if mant = 0 then some (.zero neg)
        else assembleBF neg mant fcount exp ten

/-- `big.ParseFloat(s, 10, 64, ToNearestEven)`; `none` = error -/
def parseBF (s : Bytes) : Option BF :=
  if s = strInfU ∨ s = strInfL then some (.inf false)
  else if s = 43 :: strInfU ∨ s = 43 :: strInfL then some (.inf false)
  else if s = 45 :: strInfU ∨ s = 45 :: strInfL then some (.inf true)
  else
    match s with
    | [] => none
    | c :: cs =>
      if c = 45 then parseUnsigned true cs
      else if c = 43 then parseUnsigned false cs
      else parseUnsigned false (c :: cs)

/-- `big.NewFloat(x)` for a non-NaN float64 -/
def BF.ofF64 (b : Nat) : BF :=
  if F64.isInf b then .inf (F64.signBit b)
  else if F64.mant b = 0 then .zero (F64.signBit b)
  else .fin (F64.signBit b) (F64.mant b) (F64.exp2 b)

/-- `Float.IsInt` -/
def BF.isInt : BF → Bool
  | .zero _ => true
  | .inf _ => false
  | .fin _ m e =>
    if e ≥ 0 then true
    else if e + bitlen m ≤ 0 then false          -- |x| < 1 (`x.exp <= 0`)
    else m % 2 ^ e.natAbs == 0

def maxInt64 : Int := 9223372036854775807
def minInt64 : Int := -9223372036854775808

/-- `Float.Int64` (value only; the accuracy is ignored by the caller): truncation, saturating -/
def BF.int64 : BF → Int
  | .zero _ => 0
  | .inf neg => if neg then minInt64 else maxInt64
  | .fin neg m e =>
    let gexp : Int := e + bitlen m
    if gexp ≤ 0 then 0
    else if gexp ≤ 63 then
      let t : Nat := if e ≥ 0 then m * 2 ^ e.toNat else m / 2 ^ e.natAbs
      if neg then -(t : Int) else (t : Int)
    else if neg then minInt64 else maxInt64

/-- `Float.Float64` returns accuracy `Exact` iff the value is a float64; then these are its bits.
Characterisation used instead of a step-by-step model of `Float64()` (math/big is trusted;
validated by the correspondence): with E the exponent of the leading bit, all set bits lie at
positions ≥ max(E-52, -1074) and E ≤ 1023. -/
def BF.float64Exact : BF → Option Nat
  | .zero neg => some (if neg then 2 ^ 63 else 0)
  | .inf neg => some (if neg then F64.negInf else F64.posInf)
  | .fin neg m e =>
    let l := bitlen m
    let top : Int := e + l - 1
    if top > 1023 then none
    else if top < -1074 then none                  -- below the smallest denormal
    else
      let lo : Int := if top - 52 ≥ -1074 then top - 52 else -1074
      let shift : Int := e - lo
      let sig : Option Nat :=
        if shift ≥ 0 then some (m * 2 ^ shift.toNat)
        else if m % 2 ^ shift.natAbs == 0 then some (m / 2 ^ shift.natAbs) else none
      match sig with
      | none => none
      | some s =>
        let sign := if neg then 2 ^ 63 else 0
        if top ≥ -1022 then some (sign + (top + 1023).toNat * 2 ^ 52 + (s - 2 ^ 52))
        else some (sign + s)

/-! ## parameter types -/

/-- `openfgav1.ConditionParamTypeRef_TypeName` -/
inductive TypeName where
  | unspecified | any | bool | string | int | uint | double | duration | timestamp | map | list | ipaddress
  | other (n : Nat)
  deriving Repr, DecidableEq, Inhabited

/-- `openfgav1.ConditionParamTypeRef` -/
inductive TypeRef where
  | mk (name : TypeName) (generics : List TypeRef)
  deriving Repr, Inhabited

/-- a decoded `types.ParameterType` -/
inductive PType where
  | any | bool | string | int | uint | double | duration | timestamp | ipaddress
  | list (t : PType) | map (t : PType)
  deriving Repr, DecidableEq, Inhabited

/-- the registration table `paramTypeDefinitions`: type name ↦ number of generic types;
`none` = not registered -/
def genericCount : TypeName → Option Nat
  | .any | .bool | .string | .int | .uint | .double | .duration | .timestamp | .ipaddress => some 0
  | .map | .list => some 1
  | .unspecified | .other _ => none

/-- `types.DecodeParameterType` -/
def decode : TypeRef → Option PType
  | .mk name gens =>
    match genericCount name with
    | none => none
    | some cnt =>
      if gens.length ≠ cnt then none
      else match name, decodeList gens with
        | _, none => none
        | .any, some [] => some .any
        | .bool, some [] => some .bool
        | .string, some [] => some .string
        | .int, some [] => some .int
        | .uint, some [] => some .uint
        | .double, some [] => some .double
        | .duration, some [] => some .duration
        | .timestamp, some [] => some .timestamp
        | .ipaddress, some [] => some .ipaddress
        | .list, some [t] => some (.list t)
        | .map, some [t] => some (.map t)
        | _, _ => none
where
  decodeList : List TypeRef → Option (List PType)
    | [] => some []
    | r :: rs => match decode r, decodeList rs with
      | some t, some ts => some (t :: ts)
      | _, _ => none

/-! ## conversion to typed parameters -/

/-- the standard-library parsers the converters call (trusted, abstract):
`time.ParseDuration` (nanoseconds), `time.Parse(time.RFC3339, ·)` (an instant) and
`netip.ParseAddr` followed by `Unmap` (canonical address bytes) -/
structure Std where
  parseDuration : Bytes → Option Int
  parseRFC3339 : Bytes → Option Int
  parseIP : Bytes → Option Bytes

/-- what `ParameterType.ConvertValue` returns -/
inductive TVal where
  | any (v : JVal)
  | bool (b : Bool)
  | str (s : Bytes)
  | int (i : Int)
  | uint (n : Nat)
  | double (bits : Nat)
  | dur (ns : Int)
  | ts (t : Int)
  | ip (a : Bytes)
  | list (xs : List TVal)
  | map (kvs : List (String × TVal))
  deriving Repr, Inhabited

inductive Res (α : Type) where
  | ok (a : α)
  | typeErr           -- the converter returned an error
  | panic             -- the converter panicked (big.NewFloat(NaN); unreachable through AsInterface)
  deriving Repr, DecidableEq, Inhabited

inductive NumKind where | int64 | uint64 | float64
  deriving Repr, DecidableEq

/-- the `switch any(n).(type)` at the end of `numericTypeConverterFunc` -/
def numFromBF (k : NumKind) (bf : BF) : Res TVal :=
  match k with
  | .int64 => if !bf.isInt then .typeErr else .ok (.int bf.int64)
  | .uint64 =>
    if !bf.isInt then .typeErr
    else
      let v := bf.int64
      if v < 0 then .typeErr else .ok (.uint v.toNat)
  | .float64 =>
    match bf.float64Exact with
    | none => .typeErr       -- accuracy Above / Below
    | some bits => .ok (.double bits)

/-- `numericTypeConverterFunc[T]` on the values `AsInterface` can produce (and NaN/Inf float64,
which only a direct caller can pass) -/
def numericConv (k : NumKind) : JVal → Res TVal
  | .num b =>
    if k = .float64 then .ok (.double b)            -- `value.(T)` succeeds
    else if F64.isNaN b then .panic                  -- big.NewFloat(NaN)
    else numFromBF k (BF.ofF64 b)
  | .str s =>
    match parseBF s with
    | none => .typeErr
    | some bf => numFromBF k bf
  | _ => .typeErr

mutual
/-- `ParameterType.ConvertValue` -/
def convert (std : Std) : PType → JVal → Res TVal
  | .any, v => .ok (.any v)
  | .bool, .bool b => .ok (.bool b)
  | .bool, _ => .typeErr
  | .string, .str s => .ok (.str s)
  | .string, _ => .typeErr
  | .int, v => numericConv .int64 v
  | .uint, v => numericConv .uint64 v
  | .double, v => numericConv .float64 v
  | .duration, .str s => (match std.parseDuration s with | some d => .ok (.dur d) | none => .typeErr)
  | .duration, _ => .typeErr
  | .timestamp, .str s => (match std.parseRFC3339 s with | some t => .ok (.ts t) | none => .typeErr)
  | .timestamp, _ => .typeErr
  | .ipaddress, .str s => (match std.parseIP s with | some a => .ok (.ip a) | none => .typeErr)
  | .ipaddress, _ => .typeErr
  | .list t, .list xs => (match convertList std t xs with
      | .ok ys => .ok (.list ys) | .typeErr => .typeErr | .panic => .panic)
  | .list _, _ => .typeErr
  | .map t, .obj fs => (match convertFields std t fs with
      | .ok ys => .ok (.map ys) | .typeErr => .typeErr | .panic => .panic)
  | .map _, _ => .typeErr
/-- the element loop of the list converter (first failure wins) -/
def convertList (std : Std) : PType → List JVal → Res (List TVal)
  | _, [] => .ok []
  | t, x :: xs =>
    match convert std t x with
    | .typeErr => .typeErr
    | .panic => .panic
    | .ok y =>
      match convertList std t xs with
      | .ok ys => .ok (y :: ys)
      | .typeErr => .typeErr
      | .panic => .panic
/-- the entry loop of the map converter -/
def convertFields (std : Std) : PType → List (String × JVal) → Res (List (String × TVal))
  | _, [] => .ok []
  | t, (k, x) :: xs =>
    match convert std t x with
    | .typeErr => .typeErr
    | .panic => .panic
    | .ok y =>
      match convertFields std t xs with
      | .ok ys => .ok ((k, y) :: ys)
      | .typeErr => .typeErr
      | .panic => .panic
end

/-! ## cel-go, abstract -/

inductive CelOut where
  | err                 -- ContextEval returned an error
  | unknown             -- types.IsUnknown(out)
  | bool (b : Bool)
  | other               -- a value that does not convert to a Go bool
  deriving Repr, DecidableEq, Inhabited

/-- cel-go as used by the package: `compile` stands for env.Extend + CompileSource + Program +
"output type is bool"; `eval` for `Program.ContextEval` over the partial activation built from the
typed parameters (absent variables are unknown attribute patterns). No law is assumed. -/
structure Cel (E : Type) where
  compile : List (String × PType) → E → Bool
  eval : E → (String → Option TVal) → CelOut

/-- `openfgav1.Condition` with an abstract expression -/
structure Cond (E : Type) where
  name : String
  params : List (String × TypeRef)
  expr : E

inductive Err where
  | notFound                       -- "condition was not found"
  | compile                        -- CompilationError (wrapped in an EvaluationError)
  | paramType                      -- ParameterTypeError
  | celEval                        -- "failed to evaluate condition expression" / output not a bool
  | missing (ps : List String)     -- "tuple … is missing context parameters"
  | panic
  deriving Repr, DecidableEq, Inhabited

structure EvalResult where
  met : Bool
  missing : List String
  deriving Repr, DecidableEq

def decodeParams : List (String × TypeRef) → Option (List (String × PType))
  | [] => some []
  | (k, r) :: rest =>
    match decode r, decodeParams rest with
    | some t, some ts => some ((k, t) :: ts)
    | _, _ => none

/-- `EvaluableCondition.compile` (first call) -/
def compileOk {E : Type} (cel : Cel E) (c : Cond E) : Bool :=
  match decodeParams c.params with
  | none => false
  | some ps => cel.compile ps c.expr

/-- the loop of `CastContextToTypedParameters` over the declared parameters -/
def castLoop (std : Std) (merged : Ctx) : List (String × TypeRef) → Res (List (String × TVal))
  | [] => .ok []
  | (k, r) :: rest =>
    match getLast merged k with
    | none => castLoop std merged rest                      -- `continue`
    | some pv =>
      match decode r with
      | none => .typeErr
      | some t =>
        match convert std t (asInterface pv) with
        | .typeErr => .typeErr
        | .panic => .panic
        | .ok tv =>
          match castLoop std merged rest with
          | .ok tvs => .ok ((k, tv) :: tvs)
          | .typeErr => .typeErr
          | .panic => .panic

/-- `CastContextToTypedParameters`: an empty context gives the nil map; a non-empty context for a
condition without parameters is a ParameterTypeError; undeclared keys are ignored -/
def castContext (std : Std) (params : List (String × TypeRef)) (merged : Ctx) : Res (List (String × TVal)) :=
  if merged.isEmpty then .ok []
  else if params.isEmpty then .typeErr
  else
    -- `converted[k] = …` in iteration order; `getLast` reads the list as that map
    castLoop std merged params

/-- the merge of `Evaluate`: clone the first map, `maps.Copy` every later one over it -/
def mergeCtx (first : Ctx) (rest : List Ctx) : Ctx := rest.foldl (· ++ ·) first

/-- `EvaluableCondition.Evaluate(ctx, first, rest...)` on a condition that was not compiled before -/
def evaluate {E : Type} (std : Std) (cel : Cel E) (c : Cond E) (first : Ctx) (rest : List Ctx) :
    Except Err EvalResult :=
  if !compileOk cel c then .error .compile
  else
    let merged := mergeCtx first rest
    match castContext std c.params merged with
    | .typeErr => .error .paramType
    | .panic => .error .panic
    | .ok typed =>
      let missing := (c.params.map (·.1)).filter (fun k => (getLast typed k).isNone)
      match cel.eval c.expr (getLast typed) with
      | .err => .error .celEval
      | .other => .error .celEval
      | .unknown => .ok { met := false, missing := missing }
      | .bool b => .ok { met := b, missing := missing }

/-- a second `Evaluate` on an object whose first `Compile()` failed: `compileOnce` has already run, so
`Compile()` now returns nil; the cast runs, then the nil `e.celEnv` is dereferenced (a panic).
Not reachable through the server (models with uncompilable conditions are rejected on write). -/
def evaluateAfterFailedCompile {E : Type} (std : Std) (c : Cond E) (first : Ctx) (rest : List Ctx) :
    Except Err EvalResult :=
  match castContext std c.params (mergeCtx first rest) with
  | .typeErr => .error .paramType
  | _ => .error .panic

/-- `eval.EvaluateTupleCondition(ctx, tupleKey, evaluableCondition, context)`:
`condName`/`tupleCtx` are the tuple's condition name and stored context, `ec` the condition handed
in (nil = `none`), `req` the request context (nil = `none`). -/
def evalTuple {E : Type} (std : Std) (cel : Cel E) (condName : String) (tupleCtx : Option Ctx)
    (ec : Option (Cond E)) (req : Option Ctx) : Except Err Bool :=
  if condName = "" then .ok true
  else
    match ec with
    | none => .error .notFound
    | some c =>
      if condName ≠ c.name then .error .notFound
      else
        -- contextFields = [request fields (or {})], then the tuple's stored fields appended if present
        match evaluate std cel c (req.getD []) tupleCtx.toList with
        | .error e => .error e
        | .ok r => if r.missing.length > 0 then .error (.missing r.missing) else .ok r.met

end OpenFGAVerif.Model.Condition
