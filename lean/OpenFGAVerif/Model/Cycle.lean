/-
Model of the cycle-group protocol of the streaming ListObjects pipeline (C21), protocol level.

Go sources mirrored (internal/listobjects/pipeline):
  internal/track/reporting.go   StatusPool: `Register`, `inc`, `dec` (Add(-1); `if value == 0 { if !zero.Swap(true) { close(quiescence) } }`),
                                `set` (Report, under the mutex; closes `ready` when no source is pending), `Wait`
  internal/worker/cycle.go      CycleGroup.Join (ring construction; `m.reporter.Inc()`), Membership.SignalReady (= Report; Dec),
                                WaitForAllReady, Sleep, Wake (`if !awake.Swap(true) { close(wake) }`), Next (= prev), IsLeader
  internal/worker/basic.go      Basic.Execute: wgStandard.Wait(); SignalReady; WaitForAllReady(Background);
                                leader: Cleanup; Next().Wake()  |  others: Sleep(Background); Cleanup; Next().Wake();
                                deferred wgRecursive.Wait()
  internal/worker/core.go       Core.send (MsgFunc before listener.Send; failed Send => msg.Done()), ProcessSender (ProcessMessage, then msg.Done())
  pipeline.go                   MsgFunc of Basic workers: cyclical edge => Membership.Inc(), Callback => Membership.Dec()

The model is a labelled transition system `step : Topo → Nat → St → Act → Option St` whose actions are the atomic
operations of that code.  A schedule (interleaving) is an explicit `List Act`; `run` folds `step` over it.  The
number of members, of listeners per member and of messages is unbounded.

Members are numbered in `Join` order `0 … n-1`; `Model.Cycle.Ring` (below) models the pointer manipulation of `Join`
and `Props.C21.ring_shape` proves that it yields `leader = n-1`, `Next(i) = i-1` (and `Next(0) = n-1`).

Core Lean only.
-/
namespace OpenFGAVerif.Model.Cycle

/-- point update of a function (state components indexed by member are functions `Nat → α`) -/
def upd {α : Type} (f : Nat → α) (i : Nat) (v : α) : Nat → α := fun j => if j = i then v else f j

@[simp] theorem upd_same {α : Type} (f : Nat → α) (i : Nat) (v : α) : upd f i v i = v := by simp [upd]
theorem upd_other {α : Type} (f : Nat → α) (i j : Nat) (v : α) (h : j ≠ i) : upd f i v j = f j := by simp [upd, h]

/-! ## StatusPool (reporting.go) -/

/-- `track.StatusPool`.  `pend i` is `sp.pool[i]` (`true` = registered and not yet reported). -/
structure Pool where
  regs : Nat := 0
  pend : Nat → Bool := fun _ => false
  readyClosed : Bool := false
  inflight : Int := 0
  total : Nat := 0
  zero : Bool := false
  qClosed : Bool := false

namespace Pool

/-- `Register`: `sp.pool = append(sp.pool, true)` -/
def register (p : Pool) : Pool := { p with regs := p.regs + 1, pend := upd p.pend p.regs true }

/-- `inc`: `sp.total.Add(1); return sp.inflight.Add(1)` -/
def inc (p : Pool) : Pool := { p with total := p.total + 1, inflight := p.inflight + 1 }

/-- first half of `dec`: `value := sp.inflight.Add(-1)`; the returned Bool is `value == 0` -/
def decAdd (p : Pool) : Pool × Bool := ({ p with inflight := p.inflight - 1 }, p.inflight - 1 == 0)

/-- second half of `dec` (only executed when `value == 0`): `if !sp.zero.Swap(true) { close(sp.quiescence) }` -/
def latchSwap (p : Pool) : Pool := if p.zero then p else { p with zero := true, qClosed := true }

/-- is some registered source still pending? (`for _, value := range sp.pool { if value { return } }`) -/
def anyPending (p : Pool) : Bool := (List.range p.regs).any p.pend

/-- `set(index)` under the mutex: `if sp.pool[index] { sp.pool[index] = false; if none pending { close(sp.ready) } }` -/
def set (p : Pool) (i : Nat) : Pool :=
  if p.pend i then
    { p with pend := upd p.pend i false,
             readyClosed := p.readyClosed || !({ p with pend := upd p.pend i false } : Pool).anyPending }
  else p

/-- `Wait(ctx)` with a context that is never cancelled can return (`true`) exactly in these states -/
def waitPassable (p : Pool) : Bool :=
  (p.regs == 0 || p.readyClosed) && (p.total == 0 || p.qClosed)

end Pool

/-! ## The ring built by `CycleGroup.Join` (cycle.go) -/

/-- pointer structure of a `CycleGroup`: `prev[i]`, `leader[i]` per member (index = join order), `head`, `tail` -/
structure Ring where
  prev : List Nat := []
  leader : List Bool := []
  head : Option Nat := none
  tail : Option Nat := none

/-- `Join`, statement by statement (the new member has index `prev.length`):
```
if g.head == nil { g.head = &m };  if g.tail == nil { g.tail = &m }
g.tail.prev = &m;  m.prev = g.head
g.head.leader = false;  g.head.next = &m;  g.head = &m;  g.head.leader = true
``` -/
def Ring.join (r : Ring) : Ring :=
  let m := r.prev.length
  let head := r.head.getD m
  let tail := r.tail.getD m
  let prev := r.prev ++ [m]              -- slot of the new member (value overwritten below)
  let leader := r.leader ++ [false]
  let prev := prev.set tail m            -- g.tail.prev = &m
  let prev := prev.set m head            -- m.prev = g.head
  let leader := leader.set head false    -- g.head.leader = false
  let leader := leader.set m true        -- g.head = &m; g.head.leader = true
  { prev := prev, leader := leader, head := some m, tail := some tail }

def Ring.joinN : Nat → Ring
  | 0 => {}
  | k + 1 => (Ring.joinN k).join

/-! ## Topology and state of one cycle group -/

/-- `n` members; `outs i` lists, in listener order, the consumer (member index) of every *cyclical* listener of
member `i` (`Core.listeners` restricted to edges with `IsCyclical`). -/
structure Topo where
  n : Nat
  outs : Nat → List Nat

def Topo.nl (t : Topo) (i : Nat) : Nat := (t.outs i).length
/-- `IsLeader`: the member that joined last -/
def Topo.leader (t : Topo) : Nat := t.n - 1
/-- `Membership.Next()` (= `prev`) -/
def Topo.next (t : Topo) (i : Nat) : Nat := if i = 0 then t.n - 1 else i - 1

/-- program counter of `Basic.Execute` of one member -/
inductive PC
  | running    -- standard (non-cyclical) senders still being processed (before `wgStandard.Wait()` returns)
  | reported   -- inside SignalReady: after `Report()`, before `Dec()`
  | waiting    -- inside WaitForAllReady
  | passed     -- WaitForAllReady returned (leader: about to Cleanup; others: in Sleep)
  | cleaning   -- inside Cleanup (closing listeners one by one)
  | done       -- `Next().Wake()` executed; waiting in the deferred `wgRecursive.Wait()`
  | exited     -- Execute returned
  deriving DecidableEq, Repr, Inhabited

/-- a cyclical message between its `Inc` (MsgFunc) and its `Dec` (Done): produced by `src` on its `k`-th cyclical listener -/
structure Msg where
  src : Nat
  k : Nat
  deriving DecidableEq, Repr

def Topo.dst (t : Topo) (m : Msg) : Option Nat := (t.outs m.src)[m.k]?

structure St where
  pc : Nat → PC
  pool : Pool
  /-- goroutines whose `Add(-1)` returned 0 and that have not executed the `Swap` yet -/
  pendingLatch : Nat
  msgs : List Msg
  /-- `awake` flag / `wake` channel closed -/
  woken : Nat → Bool
  /-- number of (cyclical) listeners already closed by `Cleanup` of member `i` (a prefix of the listener list) -/
  closed : Nat → Nat

/-- state after `n` calls of `Join`, each of which performs `incPerJoin` increments (the code: 1) -/
def init (t : Topo) (incPerJoin : Nat := 1) : St :=
  { pc := fun _ => .running
    pool := { regs := t.n, pend := fun i => decide (i < t.n), inflight := (t.n * incPerJoin : Nat), total := t.n * incPerJoin }
    pendingLatch := 0
    msgs := []
    woken := fun _ => false
    closed := fun _ => 0 }

inductive Act
  | msgInc (i k : Nat)     -- MsgFunc on cyclical listener k of member i: `Membership.Inc()`
  | msgDone (i k : Nat)    -- `Message.Done` → Callback → `Membership.Dec()` (the `Add(-1)`)
  | report (i : Nat)       -- SignalReady, part 1: `reporter.Report()`
  | srDec (i : Nat)        -- SignalReady, part 2: `reporter.Dec()` (the `Add(-1)`)
  | latch                  -- `if !sp.zero.Swap(true) { close(sp.quiescence) }` of a goroutine that read value == 0
  | waitDone (i : Nat)     -- `WaitForAllReady(context.Background())` returns
  | beginCleanup (i : Nat) -- leader: `w.Cleanup()` starts
  | sleepDone (i : Nat)    -- non-leader: `Sleep(context.Background())` returns, `w.Cleanup()` starts
  | closeNext (i : Nat)    -- `listener.Close()` of the next listener
  | wake (i : Nat)         -- `w.Membership.Next().Wake()`
  | exit (i : Nat)         -- deferred `wgRecursive.Wait()` returns (all cyclical senders closed and drained)
  deriving DecidableEq, Repr

/-- member `i` may create cyclical messages: it is still processing standard input, or it holds
(has been sent) a cyclical message whose `Done` has not run yet -/
def active (t : Topo) (s : St) (i : Nat) : Bool :=
  s.pc i == .running || s.msgs.any (fun m => t.dst m == some i)

/-- every cyclical sender of `i` has been closed by its producer -/
def inEdgesClosed (t : Topo) (s : St) (i : Nat) : Bool :=
  (List.range t.n).all fun j => (List.range (t.nl j)).all fun k => (t.outs j)[k]? != some i || decide (k < s.closed j)

/-- the `Add(-1)` of `dec`, remembering a pending `Swap` when the result is 0 -/
def decStep (s : St) : St :=
  let (p, z) := s.pool.decAdd
  { s with pool := p, pendingLatch := if z then s.pendingLatch + 1 else s.pendingLatch }

def step (t : Topo) (s : St) : Act → Option St
  | .msgInc i k =>
    if i < t.n ∧ k < t.nl i ∧ active t s i then
      some { s with pool := s.pool.inc, msgs := ⟨i, k⟩ :: s.msgs }
    else none
  | .msgDone i k =>
    if (⟨i, k⟩ : Msg) ∈ s.msgs then
      some (decStep { s with msgs := s.msgs.erase ⟨i, k⟩ })
    else none
  | .report i =>
    if i < t.n ∧ s.pc i = .running then
      some { s with pc := upd s.pc i .reported, pool := s.pool.set i }
    else none
  | .srDec i =>
    if i < t.n ∧ s.pc i = .reported then
      some (decStep { s with pc := upd s.pc i .waiting })
    else none
  | .latch =>
    if 0 < s.pendingLatch then
      some { s with pendingLatch := s.pendingLatch - 1, pool := s.pool.latchSwap }
    else none
  | .waitDone i =>
    if i < t.n ∧ s.pc i = .waiting ∧ s.pool.waitPassable then
      some { s with pc := upd s.pc i .passed }
    else none
  | .beginCleanup i =>
    if i < t.n ∧ s.pc i = .passed ∧ i = t.leader then
      some { s with pc := upd s.pc i .cleaning }
    else none
  | .sleepDone i =>
    if i < t.n ∧ s.pc i = .passed ∧ i ≠ t.leader ∧ s.woken i then
      some { s with pc := upd s.pc i .cleaning }
    else none
  | .closeNext i =>
    if i < t.n ∧ s.pc i = .cleaning ∧ s.closed i < t.nl i then
      some { s with closed := upd s.closed i (s.closed i + 1) }
    else none
  | .wake i =>
    if i < t.n ∧ s.pc i = .cleaning ∧ s.closed i = t.nl i then
      some { s with pc := upd s.pc i .done, woken := upd s.woken (t.next i) true }
    else none
  | .exit i =>
    if i < t.n ∧ s.pc i = .done ∧ inEdgesClosed t s i then
      some { s with pc := upd s.pc i .exited }
    else none

/-- run a schedule; `none` when some action is not enabled where the schedule wants it -/
def run (t : Topo) (s : St) : List Act → Option St
  | [] => some s
  | a :: as => (step t s a).bind (fun s' => run t s' as)

/-- states reachable from the initial state of the code (one `Inc` per `Join`) -/
def Reachable (t : Topo) (s : St) : Prop := ∃ acts, run t (init t 1) acts = some s

/-- all members have signalled ready (non-cyclical inputs exhausted, `Dec` of SignalReady done) and no cyclical message exists -/
def quiescent (t : Topo) (s : St) : Prop :=
  (∀ i, i < t.n → s.pc i ≠ .running ∧ s.pc i ≠ .reported) ∧ s.msgs = []

def quiescentB (t : Topo) (s : St) : Bool :=
  (List.range t.n).all (fun i => s.pc i != .running && s.pc i != .reported) && s.msgs.isEmpty

def final (t : Topo) (s : St) : Prop := ∀ i, i < t.n → s.pc i = .exited

def finalB (t : Topo) (s : St) : Bool := (List.range t.n).all (fun i => s.pc i == .exited)

/-- all actions that can possibly be enabled in `s` (used by the bounded search and by the progress check of the driver) -/
def candidates (t : Topo) : List Act :=
  (List.range t.n).flatMap (fun i =>
    [Act.report i, .srDec i, .waitDone i, .beginCleanup i, .sleepDone i, .closeNext i, .wake i, .exit i]
    ++ (List.range (t.nl i)).flatMap (fun k => [Act.msgInc i k, .msgDone i k]))
  ++ [Act.latch]

def enabled (t : Topo) (s : St) : List Act := (candidates t).filter (fun a => (step t s a).isSome)

/-- member count of members that still hold their initial increment -/
def notReadyCount (t : Topo) (s : St) : Nat :=
  ((List.range t.n).filter (fun i => s.pc i == .running || s.pc i == .reported)).length

/-! ## Bounded search for a bad interleaving (never a proof; used to produce a replay when something broke) -/

/-- a protocol state is bad when the latch is closed (or a cleanup has begun) although the group is not quiescent -/
def badState (t : Topo) (s : St) : Bool :=
  (s.pool.qClosed || (List.range t.n).any (fun i => s.pc i == .cleaning || s.pc i == .done || s.pc i == .exited))
    && !quiescentB t s

/-- depth-first search (depth `fuel`) from `s` for a schedule reaching a bad state; message creations are capped by `incs` -/
def searchBad (t : Topo) : Nat → Nat → St → Option (List Act)
  | 0, _, s => if badState t s then some [] else none
  | fuel + 1, incs, s =>
    if badState t s then some [] else
    (enabled t s).firstM (fun a =>
      match a, incs with
      | .msgInc _ _, 0 => none
      | _, _ =>
        match step t s a with
        | none => none
        | some s' =>
          let incs' := match a with | .msgInc _ _ => incs - 1 | _ => incs
          (searchBad t fuel incs' s').map (a :: ·))

end OpenFGAVerif.Model.Cycle
