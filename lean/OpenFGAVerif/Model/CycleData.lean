/-
Model of the cycle group of the streaming ListObjects pipeline (C21), dataflow level.

The protocol state of `Model.Cycle` (`St`) is embedded unchanged; on top of it the state carries what flows:
the per-worker output buffer (`Basic.outputBuffer`, de-duplicating), the per-sender input de-duplication
(`DeduplicatingProcessor` of cyclical senders), the values already handed to the non-cyclical listeners, and the
*tasks*: a task is one message between its creation and its `Done` —

  * a standard task: a message received over a non-cyclical sender of its owner (created by `stdRecv`);
  * a cyclical task: a message sent over a cyclical listener `k` of member `j` to its consumer (the owner).  It is
    created by `sendCyc` at the instant of the `Inc` in `MsgFunc` (in the code the message becomes receivable a little
    later, at `listener.Send`; making it available early only adds behaviours) and it ends with `taskDone`
    (`Message.Done` → `Dec`).

Inside a task the steps of `Basic.ProcessMessage` are separate actions: `dedupIn` (one `LoadOrStore` of the input
de-duplication followed by the interpretation of that value), `claim` (one `LoadOrStore` on the output buffer in
`DeduplicatingReceiver.Recv`), `flush` (a chunk is handed to `Core.send`; any chunk size), `sendExt` / `sendCyc` (one
listener of `Core.send`), `taskDone` (`msg.Done()` in `ProcessSender`).  Every protocol action of `Model.Cycle` is lifted
by `proto`; `report` is additionally guarded by `wgStandard.Wait()` (no standard message left or in progress).
Cancellation (`cancel`, then `abort`, `stdDrop`, dropped sends) may lose work; the completeness theorem is about
uncancelled runs.

`f j k v` are the results of interpreting value `v` over the edge of cyclical listener `k` of member `j` (a fixed
function: the store does not change during the query); `stdIn i` are the result batches of the standard messages
member `i` will receive.

Core Lean only.
-/
import OpenFGAVerif.Model.Cycle

namespace OpenFGAVerif.Model.CycleData
open OpenFGAVerif.Model.Cycle

abbrev Val := Nat

structure Cfg where
  topo : Topo
  f : Nat → Nat → Val → List Val
  stdIn : Nat → List (List Val)

structure Task where
  owner : Nat
  /-- `some (j, k)`: arrived over cyclical listener `k` of member `j`; `none`: over a standard sender -/
  src : Option (Nat × Nat)
  /-- values of the message not yet through the per-sender de-duplication -/
  rawIn : List Val
  /-- interpreted results not yet looked up in the output buffer -/
  results : List Val
  /-- values newly stored in the output buffer and not yet handed to `send` -/
  buf : List Val
  /-- listeners still to be served for the current chunk: `none` = the non-cyclical listeners, `some k` = cyclical listener k -/
  pend : List (Option Nat × List Val)
  deriving DecidableEq, Repr

structure DSt where
  p : St
  out : Nat → List Val
  extOut : Nat → List Val
  seen : Nat → Nat → List Val
  tasks : List Task
  stdTodo : Nat → List (List Val)
  cancelled : Bool

def dinit (c : Cfg) : DSt :=
  { p := init c.topo 1, out := fun _ => [], extOut := fun _ => [], seen := fun _ _ => [], tasks := [],
    stdTodo := c.stdIn, cancelled := false }

inductive DAct
  | stdRecv (i : Nat)
  | dedupIn (T : Task)
  | claim (T : Task)
  | flush (T : Task)
  | sendExt (T : Task)
  | sendCyc (T : Task)
  | taskDone (T : Task)
  | proto (a : Act)
  | cancel
  | abort (T : Task)
  | stdDrop (i : Nat)
  deriving Repr

def upd2 (f : Nat → Nat → List Val) (j k : Nat) (v : List Val) : Nat → Nat → List Val :=
  fun a b => if a = j ∧ b = k then v else f a b

/-- replace task `T` by `T'` -/
def replace (ts : List Task) (T T' : Task) : List Task := T' :: ts.erase T

def cycTok (T : Task) : Option Msg := T.src.map fun p => ⟨p.1, p.2⟩

/-- protocol actions that may be lifted directly (message accounting goes through `sendCyc` / `taskDone` / `abort`) -/
def liftable : Act → Bool
  | .msgInc _ _ => false
  | .msgDone _ _ => false
  | _ => true

def dstep (c : Cfg) (s : DSt) : DAct → Option DSt
  | .stdRecv i =>
    match s.stdTodo i with
    | b :: rest =>
      if i < c.topo.n ∧ s.p.pc i = .running ∧ ¬ s.cancelled then
        some { s with stdTodo := upd s.stdTodo i rest,
                      tasks := ⟨i, none, [], b, [], []⟩ :: s.tasks }
      else none
    | [] => none
  | .dedupIn T =>
    if T ∈ s.tasks then
      match T.src, T.rawIn with
      | some (j, k), v :: rest =>
        if v ∈ s.seen j k then some { s with tasks := replace s.tasks T { T with rawIn := rest } }
        else some { s with seen := upd2 s.seen j k (v :: s.seen j k),
                           tasks := replace s.tasks T { T with rawIn := rest, results := T.results ++ c.f j k v } }
      | _, _ => none
    else none
  | .claim T =>
    if T ∈ s.tasks then
      match T.results with
      | r :: rest =>
        if r ∈ s.out T.owner then some { s with tasks := replace s.tasks T { T with results := rest } }
        else some { s with out := upd s.out T.owner (r :: s.out T.owner),
                           tasks := replace s.tasks T { T with results := rest, buf := T.buf ++ [r] } }
      | [] => none
    else none
  | .flush T =>
    if T ∈ s.tasks ∧ T.buf ≠ [] ∧ T.pend = [] then
      let T' : Task := { T with buf := [], pend := (none, T.buf) :: (List.range (c.topo.nl T.owner)).map (fun k => (some k, T.buf)) }
      some { s with tasks := replace s.tasks T T' }
    else none
  | .sendExt T =>
    if T ∈ s.tasks then
      match T.pend with
      | (none, vs) :: rest =>
        some { s with extOut := upd s.extOut T.owner (s.extOut T.owner ++ vs),
                      tasks := replace s.tasks T { T with pend := rest } }
      | _ => none
    else none
  | .sendCyc T =>
    if T ∈ s.tasks then
      match T.pend with
      | (some k, vs) :: rest =>
        if s.cancelled ∨ k < s.p.closed T.owner then
          -- `listener.Send` fails (context cancelled / queue closed): `Inc`, then `Done` → `Dec`, the payload is dropped
          some { s with tasks := replace s.tasks T { T with pend := rest } }
        else
          match step c.topo s.p (.msgInc T.owner k), (c.topo.outs T.owner)[k]? with
          | some p', some d =>
            some { s with p := p',
                          tasks := ⟨d, some (T.owner, k), vs, [], [], []⟩ :: replace s.tasks T { T with pend := rest } }
          | _, _ => none
      | _ => none
    else none
  | .taskDone T =>
    if T ∈ s.tasks ∧ T.rawIn = [] ∧ T.results = [] ∧ T.buf = [] ∧ T.pend = [] then
      match T.src with
      | none => some { s with tasks := s.tasks.erase T }
      | some (j, k) =>
        match step c.topo s.p (.msgDone j k) with
        | some p' => some { s with p := p', tasks := s.tasks.erase T }
        | none => none
    else none
  | .proto a =>
    if liftable a then
      match step c.topo s.p a with
      | some p' =>
        match a with
        | .report i =>
          -- `wgStandard.Wait()` returned: nothing left on the standard senders, no standard message in progress
          if s.stdTodo i = [] ∧ s.tasks.all (fun T => !(T.owner == i && T.src.isNone)) then some { s with p := p' } else none
        | _ => some { s with p := p' }
      | none => none
    else none
  | .cancel => some { s with cancelled := true }
  | .abort T =>
    if T ∈ s.tasks ∧ s.cancelled then
      match T.src with
      | none => some { s with tasks := s.tasks.erase T }
      | some (j, k) =>
        match step c.topo s.p (.msgDone j k) with
        | some p' => some { s with p := p', tasks := s.tasks.erase T }
        | none => none
    else none
  | .stdDrop i =>
    if s.cancelled then some { s with stdTodo := upd s.stdTodo i (s.stdTodo i).tail } else none

def drun (c : Cfg) (s : DSt) : List DAct → Option DSt
  | [] => some s
  | a :: as => (dstep c s a).bind (fun s' => drun c s' as)

def DReachable (c : Cfg) (s : DSt) : Prop := ∃ acts, drun c (dinit c) acts = some s

/-- **Specification.** The least solution of the dataflow equations of the group
`X_i = ⋃ stdIn i  ∪  ⋃ { f j k v | v ∈ X_j, listener k of j leads to i }`, as an inductive predicate. -/
inductive Derivable (c : Cfg) : Nat → Val → Prop
  | base (i : Nat) (b : List Val) (r : Val) : i < c.topo.n → b ∈ c.stdIn i → r ∈ b → Derivable c i r
  | step (j k i : Nat) (v r : Val) : j < c.topo.n → Derivable c j v → (c.topo.outs j)[k]? = some i → r ∈ c.f j k v →
      Derivable c i r

/-- no listener leads outside the group -/
def Cfg.closedTopo (c : Cfg) : Prop := ∀ j, j < c.topo.n → ∀ d, d ∈ c.topo.outs j → d < c.topo.n

end OpenFGAVerif.Model.CycleData
