/-
Model of the depth-first, path-cutting evaluation that `internal/graph` (LocalChecker) performs,
over the abstract equation systems of `Spec.BoolSys`.

  ResolveCheck        → `node` rule of `Eval`/`evalF`: depth test (`Depth == maxResolutionDepth`),
                         `hasCycle` (VisitedPaths = the path `V`, cloned per child), then the rule of
                         the node (`CheckRewrite`)
  union / consumeDispatches → `unionR`   (receive loop over the *arrival sequence* of child outcomes)
  intersection        → `interR`
  exclusion           → `exclR`    (two unpooled goroutines: `baseFirst` says which one arrives first)

Non-determinism (goroutine scheduling) is explicit: `Eval` is a relation — a reducer may see the
outcomes of its children in any order (`List.Perm`) and `exclusion` in either order; theorems
quantify over every derivation.  `evalF` is the executable instance for one schedule (identity or
reversed arrival order), used by the drivers.

An outcome carries, besides `allowed` and the `CycleDetected` flag that the Go code returns, a ghost
bit `taint` that exists only in the model: it is set when the result relies on one of the two steps
that the proofs cannot justify (and that are wrong in the code, findings F1 and F12):
  * `exclusion` denies because the subtracted operand came back `false` **with** the cycle flag;
  * a leaf whose condition error was swallowed by `ConditionsFilteredTupleKeyIterator` (`errSw`)
    is treated as `false`.
Untainted results are proved sound in `Proofs/DfsSound.lean`.
-/
import OpenFGAVerif.Spec.BoolSys

namespace OpenFGAVerif.Dfs
open OpenFGAVerif.BoolSys

inductive ErrKind where
  | depth   -- ErrResolutionDepthExceeded
  | cond    -- condition evaluation error reported by an iterator / direct tuple check
  | shape   -- reducer called with the wrong number of operands (ErrUnknown)
  | abort   -- the evaluation of a sub-expression was abandoned: deadline / cancellation in the code,
            -- fuel exhaustion in the executable model
  deriving DecidableEq, Repr

inductive Out where
  | ok (allowed cycle taint : Bool)
  | err (k : ErrKind)
  deriving DecidableEq, Repr

/-! ### reducers: folds over the arrival sequence, literally following the receive loops -/

/-- `union` and `consumeDispatches`: an error is remembered (the last one wins) and the loop goes on
looking for `true`; a `true` outcome is returned as it is; `false` outcomes accumulate the cycle flag. -/
def unionGo : List Out → Option ErrKind → Bool → Bool → Out
  | [], some e, _, _ => .err e
  | [], none, cyc, tnt => .ok false cyc tnt
  | .err e :: rest, _, cyc, tnt => unionGo rest (some e) cyc tnt
  | .ok a c t :: rest, fe, cyc, tnt =>
      if a then .ok true c t else unionGo rest fe (cyc || c) (tnt || t)

def unionR (arr : List Out) : Out := unionGo arr none false false

/-- `intersection`: the first error is remembered; an outcome that is `false` *or carries the cycle flag*
ends the loop with `false` and the flag of that outcome. -/
def interGo : List Out → Option ErrKind → Bool → Out
  | [], some e, _ => .err e
  | [], none, tnt => .ok true false tnt
  | .err e :: rest, fe, tnt => interGo rest (fe.orElse fun _ => some e) tnt
  | .ok a c t :: rest, fe, tnt =>
      if c || !a then .ok false c t else interGo rest fe (tnt || t)

def interR (arr : List Out) : Out :=
  if arr.length < 2 then .err .shape else interGo arr none false

/-- what the `exclusion` loop does with the base outcome: `none` = keep waiting -/
def exclBase : Out → Option Out × Option ErrKind × Bool
  | .err e => (none, some e, false)
  | .ok a c t => if c || !a then (some (.ok false c t), none, false) else (none, none, t)

/-- … and with the subtract outcome.  A subtract result that is `false` with the cycle flag denies
(finding F1): the model follows the code and marks the result tainted. -/
def exclSub : Out → Option Out × Option ErrKind × Bool
  | .err e => (none, some e, false)
  | .ok a c t => if c || a then (some (.ok false c (if a then t else true)), none, false) else (none, none, t)

def exclR (baseFirst : Bool) (b s : Out) : Out :=
  let rb := exclBase b
  let rs := exclSub s
  let first := if baseFirst then rb else rs
  let second := if baseFirst then rs else rb
  match first.1 with
  | some o => o
  | none =>
    match second.1 with
    | some o => o
    | none =>
      match rb.2.1 with
      | some e => .err e
      | none =>
        match rs.2.1 with
        | some e => .err e
        | none => .ok true false (rb.2.2 || rs.2.2)

/-- the oracle's view of a subtract outcome evaluated on a fresh path: its cycle flag is meaningless -/
def clearFlag : Out → Out
  | .ok false _ t => .ok false false t
  | o => o

def leafOut : Leaf → Out
  | .tt => .ok true false false
  | .ff => .ok false false false
  | .err => .err .cond
  | .errSw => .ok false false true

/-! ### the evaluation relation (all schedules) -/

/-- `facts n b`: the sub-problem cache (CachedCheckResolver) may answer node `n` with `b`.  The
uncached engine is `facts = noFacts`. -/
abbrev Facts (N : Type) := N → Bool → Prop
def noFacts {N : Type} : Facts N := fun _ _ => False

inductive Eval {N : Type} (sys : Sys N) (facts : Facts N) (maxDepth : Nat) : Nat → List N → Expr N → Out → Prop
  | abort {d V} (e : Expr N) : Eval sys facts maxDepth d V e (.err .abort)
  | lit {d V} (v : Leaf) : Eval sys facts maxDepth d V (.lit v) (leafOut v)
  /-- cache hit: looked up before the depth and cycle tests, returned without the cycle flag -/
  | node_hit {d V} (dispatch : Bool) (n : N) (b : Bool) :
      facts n b → Eval sys facts maxDepth d V (.node dispatch n) (.ok b false false)
  | node_depth {d V} (dispatch : Bool) (n : N) :
      (if dispatch then d + 1 else d) = maxDepth → Eval sys facts maxDepth d V (.node dispatch n) (.err .depth)
  | node_cycle {d V} (dispatch : Bool) (n : N) :
      (if dispatch then d + 1 else d) ≠ maxDepth → n ∈ V →
      Eval sys facts maxDepth d V (.node dispatch n) (.ok false true false)
  | node_eval {d V} (dispatch : Bool) (n : N) (o : Out) :
      (if dispatch then d + 1 else d) ≠ maxDepth → n ∉ V →
      Eval sys facts maxDepth (if dispatch then d + 1 else d) (n :: V) (sys.rule n) o →
      Eval sys facts maxDepth d V (.node dispatch n) o
  | or {d V} (es : List (Expr N)) (outs arr : List Out) :
      outs.length = es.length →
      (∀ i (h1 : i < es.length) (h2 : i < outs.length), Eval sys facts maxDepth d V es[i] outs[i]) →
      arr.Perm outs → Eval sys facts maxDepth d V (.or es) (unionR arr)
  | and {d V} (es : List (Expr N)) (outs arr : List Out) :
      outs.length = es.length →
      (∀ i (h1 : i < es.length) (h2 : i < outs.length), Eval sys facts maxDepth d V es[i] outs[i]) →
      arr.Perm outs → Eval sys facts maxDepth d V (.and es) (interR arr)
  | diff {d V} (b s : Expr N) (ob os : Out) (baseFirst : Bool) :
      Eval sys facts maxDepth d V b ob → Eval sys facts maxDepth d V s os →
      Eval sys facts maxDepth d V (.diff b s) (exclR baseFirst ob os)
  /-- not what the code does: the subtracted operand is evaluated on a fresh path and its cycle flag is
  ignored.  Used by the reference oracle (and it is the repair suggested for finding F1). -/
  | diff_ideal {d V} (b s : Expr N) (ob os : Out) (baseFirst : Bool) :
      Eval sys facts maxDepth d V b ob → Eval sys facts maxDepth d [] s os →
      Eval sys facts maxDepth d V (.diff b s) (exclR baseFirst ob (clearFlag os))

/-! ### executable instance -/

/-- schedule used by the executable evaluator: children arrive in program order or reversed;
`exclusion` sees base first or subtract first. -/
structure Sched where
  reverse : Bool := false
  baseFirst : Bool := true
  /-- oracle mode: subtract operands on a fresh path, flag ignored (see `Eval.diff_ideal`) -/
  ideal : Bool := false

def arrange (sc : Sched) (l : List Out) : List Out := if sc.reverse then l.reverse else l

def evalF {N : Type} [DecidableEq N] (sys : Sys N) (maxDepth : Nat) (sc : Sched)
    (cache : N → Option Bool) :
    Nat → Nat → List N → Expr N → Out
  | 0, _, _, _ => .err .abort
  | fuel + 1, d, V, e =>
    match e with
    | .lit v => leafOut v
    | .node dispatch n =>
      match (if dispatch then cache n else none) with
      | some b => .ok b false false
      | none =>
        let d' := if dispatch then d + 1 else d
        if d' = maxDepth then .err .depth
        else if n ∈ V then .ok false true false
        else evalF sys maxDepth sc cache fuel d' (n :: V) (sys.rule n)
    | .or es => unionR (arrange sc (es.map (evalF sys maxDepth sc cache fuel d V)))
    | .and es => interR (arrange sc (es.map (evalF sys maxDepth sc cache fuel d V)))
    | .diff b s =>
      if sc.ideal then
        exclR sc.baseFirst (evalF sys maxDepth sc cache fuel d V b) (clearFlag (evalF sys maxDepth sc cache fuel d [] s))
      else exclR sc.baseFirst (evalF sys maxDepth sc cache fuel d V b) (evalF sys maxDepth sc cache fuel d V s)

/-! ### executable outcome *sets*: every arrival order of the two `exclusion` goroutines, children of the
pooled reducers in program order (breadth limit 1).  Used by drivers to compare with an implementation
whose `exclusion` races. -/

def dedup (l : List Out) : List Out := l.foldl (fun acc o => if acc.contains o then acc else acc ++ [o]) []

/-- all results of `reducer` over one choice of outcome per child (children in program order) -/
def combos : List (List Out) → List (List Out)
  | [] => [[]]
  | os :: rest => (combos rest).flatMap (fun tail => os.map (fun o => o :: tail))

/-- state-set version of the `union` loop, to avoid enumerating combinations -/
def unionSetGo : List (List Out) → List (Option ErrKind × Bool × Bool) → List Out → List Out
  | [], states, acc =>
      dedup (acc ++ states.map (fun (fe, cyc, tnt) => match fe with | some e => .err e | none => .ok false cyc tnt))
  | os :: rest, states, acc =>
      let step := states.flatMap (fun (fe, cyc, tnt) => os.map (fun o =>
        match o with
        | .err e => (some (some e, cyc, tnt), none)
        | .ok a c t => if a then (none, some (Out.ok true c t)) else (some (fe, cyc || c, tnt || t), none)))
      let states' := (step.filterMap (·.1)).foldl (fun acc s => if acc.contains s then acc else acc ++ [s]) []
      unionSetGo rest states' (dedup (acc ++ step.filterMap (·.2)))

def unionSet (children : List (List Out)) : List Out := unionSetGo children [(none, false, false)] []

def interSet (children : List (List Out)) : List Out :=
  if children.length ≤ 6 then dedup ((combos children).map interR)
  else dedup ((combos (children.map (fun os => os.take 1))).map interR)

def evalS {N : Type} [DecidableEq N] (sys : Sys N) (maxDepth : Nat) :
    Nat → Nat → List N → Expr N → List Out
  | 0, _, _, _ => [.err .abort]
  | fuel + 1, d, V, e =>
    match e with
    | .lit v => [leafOut v]
    | .node dispatch n =>
      let d' := if dispatch then d + 1 else d
      if d' = maxDepth then [.err .depth]
      else if n ∈ V then [.ok false true false]
      else evalS sys maxDepth fuel d' (n :: V) (sys.rule n)
    | .or es => unionSet (es.map (evalS sys maxDepth fuel d V))
    | .and es => interSet (es.map (evalS sys maxDepth fuel d V))
    | .diff b s =>
      let ob := evalS sys maxDepth fuel d V b
      let os := evalS sys maxDepth fuel d V s
      dedup (ob.flatMap (fun x => os.flatMap (fun y => [exclR true x y, exclR false x y])))

/-- The executable evaluator is one of the evaluations the relation allows. -/
theorem evalF_eval {N : Type} [DecidableEq N] (sys : Sys N) (maxDepth : Nat) (sc : Sched) (cache : N → Option Bool) :
    ∀ (fuel d : Nat) (V : List N) (e : Expr N),
      Eval sys (fun n b => cache n = some b) maxDepth d V e (evalF sys maxDepth sc cache fuel d V e) := by
  intro fuel
  induction fuel with
  | zero => intro d V e; exact .abort e
  | succ fuel ih =>
    intro d V e
    cases e with
    | lit v => exact .lit v
    | node dispatch n =>
      show Eval sys _ maxDepth d V (.node dispatch n)
        (match (if dispatch then cache n else none) with
         | some b => .ok b false false
         | none =>
           if (if dispatch then d + 1 else d) = maxDepth then .err .depth
           else if n ∈ V then .ok false true false
           else evalF sys maxDepth sc cache fuel (if dispatch then d + 1 else d) (n :: V) (sys.rule n))
      cases hcache : (if dispatch then cache n else none) with
      | some b =>
        have : cache n = some b := by
          cases dispatch <;> simp at hcache
          exact hcache
        exact .node_hit dispatch n b this
      | none =>
        simp only
        by_cases hd : (if dispatch then d + 1 else d) = maxDepth
        · rw [if_pos hd]; exact .node_depth dispatch n hd
        · rw [if_neg hd]
          by_cases hm : n ∈ V
          · rw [if_pos hm]; exact .node_cycle dispatch n hd hm
          · rw [if_neg hm]; exact .node_eval dispatch n _ hd hm (ih _ _ _)
    | or es =>
      simp only [evalF]
      refine .or es (es.map (evalF sys maxDepth sc cache fuel d V)) _ (by simp) ?_ ?_
      · intro i h1 h2; simp only [List.getElem_map]; exact ih _ _ _
      · unfold arrange; split
        · exact List.reverse_perm _
        · exact List.Perm.refl _
    | and es =>
      simp only [evalF]
      refine .and es (es.map (evalF sys maxDepth sc cache fuel d V)) _ (by simp) ?_ ?_
      · intro i h1 h2; simp only [List.getElem_map]; exact ih _ _ _
      · unfold arrange; split
        · exact List.reverse_perm _
        · exact List.Perm.refl _
    | diff b s =>
      simp only [evalF]
      split
      · exact .diff_ideal b s _ _ sc.baseFirst (ih _ _ _) (ih _ _ _)
      · exact .diff b s _ _ sc.baseFirst (ih _ _ _) (ih _ _ _)

/-- the empty cache -/
def noCache {N : Type} : N → Option Bool := fun _ => none

end OpenFGAVerif.Dfs
