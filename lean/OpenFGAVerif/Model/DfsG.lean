/-
Generic model of the evaluation performed by the weighted-graph Check engine (`internal/check`):
a depth-first evaluation of an equation system in which cycles are cut by one **shared, global
visited set** (a `sync.Map` created at the first cyclic relation and handed down through union edges,
`internal/check/filters.go` BuildUniqueTupleKeyFilter) instead of the per-path set of `internal/graph`.

  ResolveUnionEdges / DefaultStrategy.execute  → `unionV2`   (receive loop: remember the last error, return the first `true`)
  ResolveIntersection                          → `interV2`   ("first error or false wins": the first message that is
                                                              not `true` is returned as it is)
  ResolveExclusion                             → `exclV2`    (two unpooled goroutines; a base error wins over a subtract
                                                              `true` when it arrives first, and the other way round)
  ResolveRecursive                             → `unionV2` over both arrival orders of its two goroutines
  iterator.NewFilteredIterator(cond, visited)  → `VExpr.iter`: condition filter, then visited filter (the order since
                                                              commit 1d97cee), errors remembered and reported only if no
                                                              tuple passed

The engine is run with concurrency limit 1 in the exact correspondence: pooled handlers then run one
after the other in submission order, so the arrival order at `union` / `intersection` is the program
order; the two goroutines of `exclusion` and of `ResolveRecursive` are not pooled and race, therefore the
evaluator returns the *set* of possible outcomes.  The visited set does not depend on outcomes (the model
does not short-circuit; a `true` dominates every union on the way up to the creator of the set), so it is
threaded deterministically.

Ghost state (exists only in the model, used by the soundness proof and by the diagnosis of the driver):
  * an outcome carries a `taint` bit, set when the result relies on a step that is not justified by the
    semantics: an evaluation error swallowed by the filtered iterator, a tuple skipped because its *key*
    was in the visited set although the *sub-problem* behind the key is a different one (before commit
    1d97cee tuple-to-userset keys were parent objects, not `object#relation`: finding V2-A);
  * a visited entry remembers the sub-problem it was placed for and whether that sub-problem is evaluated.
-/
import OpenFGAVerif.Spec.BoolSys

namespace OpenFGAVerif.DfsG
open OpenFGAVerif.BoolSys

inductive VErr where
  | cond            -- condition evaluation error
  | shapeWildcard   -- ErrWildcardInvalidRequest
  | shapeUserset    -- ErrUsersetInvalidRequest
  | panic           -- ErrPanicRequest (graph inconsistency)
  | other           -- modelgraph.ErrGraphError and the like
  | invalid         -- request validation (ErrValidation, ErrInvalidUser, invalid contextual tuple): terminal
  | abort           -- fuel exhausted (model only)
  deriving DecidableEq, Repr

inductive VOut where
  | ok (allowed taint : Bool)
  | err (k : VErr)
  deriving DecidableEq, Repr

def leafOut : Leaf → VOut
  | .tt => .ok true false
  | .ff => .ok false false
  | .err => .err .cond
  | .errSw => .ok false true

/-! ### receive loops as folds over the arrival sequence -/

/-- `ResolveUnionEdges`, `DefaultStrategy.execute`, `ResolveRecursive`: `if msg.Err != nil { err = msg.Err; continue }`,
`if msg.Res.GetAllowed() { return msg.Res }`; after the loop the remembered error, else `false`. -/
def unionGo : List VOut → Option VErr → Bool → VOut
  | [], some e, _ => .err e
  | [], none, tnt => .ok false tnt
  | .err e :: rest, _, tnt => unionGo rest (some e) tnt
  | .ok a t :: rest, fe, tnt => if a then .ok true t else unionGo rest fe (tnt || t)

def unionV2 (arr : List VOut) : VOut := unionGo arr none false

/-- `ResolveIntersection`: `if msg.Err != nil || !msg.Res.GetAllowed() { return msg.Res, msg.Err }`. -/
def interGo : List VOut → Bool → VOut
  | [], tnt => .ok true tnt
  | .err e :: _, _ => .err e
  | .ok a t :: rest, tnt => if a then interGo rest (tnt || t) else .ok false t

def interV2 (arr : List VOut) : VOut := interGo arr false

/-- `ResolveExclusion`.  `s = none`: the subtract edge has no weight for the user type and is not scheduled. -/
def exclV2 (baseFirst : Bool) (b : VOut) (s : Option VOut) : VOut :=
  match s with
  | none =>
    match b with
    | .err e => .err e
    | .ok a t => .ok a t
  | some s =>
    if baseFirst then
      match b with
      | .err e => .err e
      | .ok false t => .ok false t
      | .ok true tb =>
        match s with
        | .err e => .err e
        | .ok true ts => .ok false ts
        | .ok false ts => .ok true (tb || ts)
    else
      match s with
      | .err e => .err e
      | .ok true ts => .ok false ts
      | .ok false ts =>
        match b with
        | .err e => .err e
        | .ok false tb => .ok false tb
        | .ok true tb => .ok true (tb || ts)

/-! ### outcome sets -/

def dedup (l : List VOut) : List VOut := l.foldl (fun acc o => if acc.contains o then acc else acc ++ [o]) []

/-- one choice of outcome per child, children in program order -/
def combos : List (List VOut) → List (List VOut)
  | [] => [[]]
  | os :: rest => os.flatMap (fun o => (combos rest).map (fun tail => o :: tail))

def unionSet (children : List (List VOut)) : List VOut := dedup ((combos children).map unionV2)
def interSet (children : List (List VOut)) : List VOut := dedup ((combos children).map interV2)

def exclSet (bs : List VOut) (ss : Option (List VOut)) : List VOut :=
  match ss with
  | none => dedup (bs.map (fun b => exclV2 true b none))
  | some ss => dedup (bs.flatMap (fun b => ss.flatMap (fun s => [exclV2 true b (some s), exclV2 false b (some s)])))

/-- the two goroutines of `ResolveRecursive` arrive in either order -/
def union2Set (as bs : List VOut) : List VOut :=
  dedup (as.flatMap (fun a => bs.flatMap (fun b => [unionV2 [a, b], unionV2 [b, a]])))

/-! ### expressions -/

/-- one tuple of a filtered iterator: the key the visited filter looks at (`tuple.user`), the outcome
of the condition filter, and the sub-problem dispatched for it (`none`: no such node in the graph) -/
structure Item (N : Type) where
  key : String
  cond : Leaf
  child : Option N

inductive VExpr (N : Type) where
  /-- `specificType` / `specificTypeWildcard`: a direct tuple and the outcome of its condition -/
  | lit (v : Leaf)
  | fail (e : VErr)
  /-- `ResolveUnion` on another graph node for the *same* request (computed / rewrite / logical edges);
  `share`: the edge is part of a cycle, the caller's visited set is handed down -/
  | sub (share : Bool) (n : N)
  /-- `specificTypeAndRelation` for a userset request that is directly assignable: `specificType` first,
  the expansion only when that is `false` -/
  | gate (v : Leaf) (e : VExpr N)
  /-- userset / tuple-to-userset edge resolved by the default strategy -/
  | iter (share : Bool) (items : List (Item N))
  | or (es : List (VExpr N))
  | and (es : List (VExpr N))
  | diff (b s : VExpr N)
  /-- exclusion whose subtract edge is not scheduled -/
  | diff1 (b : VExpr N)
  /-- `ResolveRecursive`: the non-recursive edges and the recursive edge, two racing goroutines -/
  | or2 (a b : VExpr N)

/-- visited entry: key, the sub-problem it was placed for, whether that sub-problem is (being) evaluated -/
abbrev Vis (N : Type) := List (String × N × Bool)

def visKeys {N : Type} (V : Vis N) : List String := V.map (·.1)

structure IterSt (N : Type) where
  vis : Option (Vis N)
  onceValid : Bool := false
  lastErr : Bool := false
  acc : List (List VOut) := []

section
variable {N : Type} [DecidableEq N]

/-- `visited.LoadOrStore(key)` for a key that was not there; the ghost part: the sub-problem behind the
key and whether it is going to be evaluated (always, since commit 1d97cee: only tuples that passed the
condition filter reach the visited filter) -/
def mark (it : Item N) (V : Vis N) : Vis N :=
  match it.child with
  | some n => (it.key, n, decide (it.cond = .tt)) :: V
  | none => V

/-- `filter.Next`: pull raw tuples until one passes both filters — the condition filter first, then the
visited filter (`buildIterator` since commit 1d97cee; before it the visited filter ran first, so that a
tuple dropped by its condition had already claimed its key: finding V2-B).  Returns the passed
sub-problem (if any), the remaining raw tuples and the new state. -/
def pull (active : Bool) : List (Item N) → IterSt N → Option (Option N) × List (Item N) × IterSt N
  | [], st => (none, [], st)
  | it :: rest, st =>
    match it.cond with
    | .tt =>
      match (if active then st.vis else none) with
      | some V =>
        match V.find? (fun e => e.1 = it.key) with
        | some e =>
          -- seen: skipped.  Unjustified when the mark belongs to another sub-problem.
          let bad := !(e.2.2 && it.child = some e.2.1)
          pull active rest (if bad then { st with acc := st.acc ++ [[.ok false true]] } else st)
        | none => (some it.child, rest, { st with vis := some (mark it V), onceValid := true })
      | none => (some it.child, rest, { st with onceValid := true })
    | .ff => pull active rest st
    | _ => pull active rest { st with lastErr := true }

/-- The producer/consumer loop of `DefaultStrategy.execute` with concurrency limit 1: the producer
(`userset` / `ttu` handler) pulls tuples through the filters and runs ahead of the consumer, which
resolves the dispatched sub-problems one after the other (`nodeF`).  How far ahead is a scheduling
matter: `policy rawLeft pendingCount` says whether the producer moves next (it must when nothing is
pending); the theorems hold for every policy, the driver uses "at most `look` pending".  `iterStep` is one
move of either side, `iterLoop` repeats it; `steps` bounds the loop (every step consumes a raw tuple or a
pending child). -/
def iterStep (nodeF : Option (Vis N) → N → List VOut × Option (Vis N)) (active : Bool) (policy : Nat → Nat → Bool)
    (raw : List (Item N)) (pending : List (Option N)) (st : IterSt N) :
    Option (List (Item N) × List (Option N) × IterSt N) :=
  if !raw.isEmpty && (pending.isEmpty || policy raw.length pending.length) then
    match pull active raw st with
    | (some c, raw', st') => some (raw', pending ++ [c], st')
    | (none, _, st') => some ([], pending, st')
  else
    match pending with
    | [] => none
    | none :: pending' => some (raw, pending', { st with acc := st.acc ++ [[.err .other]] })
    | some n :: pending' =>
      if active then
        some (raw, pending', { st with vis := (nodeF st.vis n).2, acc := st.acc ++ [(nodeF st.vis n).1] })
      else
        some (raw, pending', { st with acc := st.acc ++ [(nodeF none n).1] })

def iterLoop (nodeF : Option (Vis N) → N → List VOut × Option (Vis N)) (active : Bool) (policy : Nat → Nat → Bool) :
    Nat → List (Item N) → List (Option N) → IterSt N → IterSt N
  | 0, raw, pending, st =>
    if raw.isEmpty && pending.isEmpty then st else { st with acc := st.acc ++ [[.err .abort]] }
  | steps + 1, raw, pending, st =>
    match iterStep nodeF active policy raw pending st with
    | none => st
    | some (raw', pending', st') => iterLoop nodeF active policy steps raw' pending' st'

/-- what the filtered iterator reports at its end: the remembered error if no tuple passed, nothing
otherwise (the error is swallowed: the model adds a tainted `false`) -/
def iterTail (st : IterSt N) : List (List VOut) :=
  if st.lastErr then (if st.onceValid then [[.ok false true]] else [[.err .cond]]) else []

/-- The evaluator.  `rule emptyCycle n`: one step of `ResolveUnion` on sub-problem `n`; `seed n`: the key
stored when `ResolveUnion` creates the visited set at `n` (`none`: `n` is not a cyclic relation);
`look`: the producer/consumer policy of `iterLoop`. -/
def evalG (rule : Bool → N → VExpr N) (seed : N → Option String) (look : Nat → Nat → Bool) :
    Nat → Option (Vis N) → VExpr N → List VOut × Option (Vis N)
  | 0, vis, _ => ([.err .abort], vis)
  | fuel + 1, vis, e =>
    let node (vis : Option (Vis N)) (n : N) : List VOut × Option (Vis N) :=
      match vis with
      | some V => evalG rule seed look fuel (some V) (rule false n)
      | none => evalG rule seed look fuel ((seed n).map (fun k => [(k, n, true)])) (rule true n)
    match e with
    | .lit v => ([leafOut v], vis)
    | .fail k => ([.err k], vis)
    | .sub share n =>
      match (if share then vis else none) with
      | some V => node (some (("", n, true) :: V)) n
      | none => ((node none n).1, vis)
    | .gate v e =>
      match v with
      | .tt => ([.ok true false], vis)
      | .ff => evalG rule seed look fuel vis e
      | _ => ([.err .cond], vis)
    | .or es =>
      let r := es.foldl (fun (acc : List (List VOut) × Option (Vis N)) e =>
        let x := evalG rule seed look fuel acc.2 e
        (acc.1 ++ [x.1], x.2)) ([], vis)
      (unionSet r.1, r.2)
    | .or2 a b =>
      let x := evalG rule seed look fuel vis a
      let y := evalG rule seed look fuel x.2 b
      (union2Set x.1 y.1, y.2)
    | .and es => (interSet (es.map (fun e => (evalG rule seed look fuel none e).1)), vis)
    | .diff b s => (exclSet (evalG rule seed look fuel none b).1 (some (evalG rule seed look fuel none s).1), vis)
    | .diff1 b => (exclSet (evalG rule seed look fuel none b).1 none, vis)
    | .iter share items =>
      let active := share && vis.isSome
      let st := iterLoop node active look (2 * items.length + 2) items [] { vis := vis }
      (unionSet (st.acc ++ iterTail st), if active then st.vis else vis)

/-- the policy used in the correspondence: the producer is at most `k` tuples ahead -/
def lookAhead (k : Nat) : Nat → Nat → Bool := fun _ pending => pending ≤ k

end

/-! ### the equation system the evaluation is about -/

def itemExpr {N : Type} (it : Item N) : Expr N :=
  .and [.lit it.cond, match it.child with | some n => .node true n | none => .lit .err]

/-- what an expression means: errors are unknowns (`lit err`), a gate is a union, an exclusion whose
subtracted edge is pruned is its base -/
def toExpr {N : Type} : VExpr N → Expr N
  | .lit v => .lit v
  | .fail _ => .lit .err
  | .sub _ n => .node false n
  | .gate v e => .or [.lit v, toExpr e]
  | .iter _ items => .or (items.map itemExpr)
  | .or es => .or (es.map toExpr)
  | .and es => .and (es.map toExpr)
  | .diff b s => .diff (toExpr b) (toExpr s)
  | .diff1 b => toExpr b
  | .or2 a b => .or [toExpr a, toExpr b]

end OpenFGAVerif.DfsG
