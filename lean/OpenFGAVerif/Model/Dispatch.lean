/-
Transition-system model of the dispatch pipeline of the default resolver
(internal/graph/default_resolver.go: `defaultUserset` / `defaultTTU`, `produce…Dispatches`,
`processDispatches`, `consumeDispatches`):

    H  (the handler)   dispatchChan := make(chan dispatchMsg, L)
                       cancellableCtx, cancelFunc := WithCancel(ctx);  pool := NewPool(cancellableCtx, 1)
                       defer { cancelFunc(); pool.Wait() }            -- waits for P
                       pool.Go(P);  return consumeDispatches(ctx, L, dispatchChan)
    P  (producer)      defer close(dispatchChan);  for each tuple: TrySend(ctxP, msg, dispatchChan)
    C  (consumer = H)  ctxQ, cancel := WithCancel(ctx);  outcomes := processDispatches(ctxQ, …)
                       loop: select { ctx.Done → break | outcome → maybe break | closed → break };  cancel()
    Q  (processor)     outcomes := make(chan checkOutcome, L);  dispatchPool := NewPool(ctxQ, L)
                       defer { dispatchPool.Wait(); close(outcomes) }
                       loop: select { ctxQ.Done → return | msg → err/shortCircuit: TrySend(ctxQ, …, outcomes)
                                                              | dispatch: dispatchPool.Go(W) (blocks while L workers) }
    W  (worker)        resp := dispatch(…);  TrySend(ctxQ, outcome, outcomes)

Unlike the reducers the channels are *smaller* than the number of messages, so a sender can be blocked for a
while; what keeps it from being blocked forever is (1) every send goes through `TrySendThroughChannel` and
(2) the consumer cancels `ctxQ` right after its loop and `ctxP` in the deferred function.  These are the
parameters `trySend`, `cancelAfterLoop`, `deferCancel` (facts extracted from the source).

Workers and messages are counted (they are symmetric).  Assumptions: a dispatched sub-check returns
(`wCompute` always enabled — the recursion, C20 a); the tuple iterator is finite (`m` messages).
-/
namespace OpenFGAVerif.Model.Dispatch

structure Cfg where
  m : Nat                 -- tuples the iterator yields
  L : Nat                 -- concurrencyLimit: capacity of both channels and size of the dispatch pool
  trySend : Bool
  cancelAfterLoop : Bool
  deferCancel : Bool
  deriving Repr

inductive QPhase where
  | loop | draining | done
  deriving DecidableEq, Repr

inductive CPhase where
  | loop        -- in the ConsumerLoop
  | left        -- loop left, `cancel()` not yet executed
  | cancelled   -- `cancel()` executed, deferred function not yet run
  | waitP       -- `cancelFunc()` executed, in `pool.Wait()` (waits for the producer)
  | returned
  deriving DecidableEq, Repr

structure St where
  pRem : Nat
  pDone : Bool := false
  dLen : Nat := 0
  dClosed : Bool := false
  qHold : Bool := false
  qPhase : QPhase := .loop
  wComp : Nat := 0
  wSend : Nat := 0
  oLen : Nat := 0
  oClosed : Bool := false
  cPhase : CPhase := .loop
  parent : Bool := false
  ctxQ : Bool := false
  ctxP : Bool := false
  deriving DecidableEq, Repr

def init (c : Cfg) : St := { pRem := c.m }

def St.cancQ (s : St) : Bool := s.parent || s.ctxQ
def St.cancP (s : St) : Bool := s.parent || s.ctxP

inductive IStep (c : Cfg) : St → St → Prop
  -- producer
  | pSend (s : St) : s.pDone = false → 0 < s.pRem → s.dLen < c.L →
      IStep c s { s with pRem := s.pRem - 1, dLen := s.dLen + 1 }
  | pDrop (s : St) : c.trySend = true → s.pDone = false → 0 < s.pRem → s.cancP = true →
      IStep c s { s with pRem := s.pRem - 1 }
  | pClose (s : St) : s.pDone = false → s.pRem = 0 →
      IStep c s { s with pDone := true, dClosed := true }
  -- processor
  | qRecv (s : St) : s.qPhase = .loop → s.qHold = false → 0 < s.dLen →
      IStep c s { s with dLen := s.dLen - 1, qHold := true }
  | qCtxDone (s : St) : s.qPhase = .loop → s.qHold = false → s.cancQ = true →
      IStep c s { s with qPhase := .draining }
  | qClosed (s : St) : s.qPhase = .loop → s.qHold = false → s.dClosed = true → s.dLen = 0 →
      IStep c s { s with qPhase := .draining }
  /-- `return` after a short-circuit message or a malformed dispatch -/
  | qQuit (s : St) : s.qPhase = .loop → s.qHold = false →
      IStep c s { s with qPhase := .draining }
  /-- a dispatch message: `dispatchPool.Go(worker)` needs a free slot -/
  | qSpawn (s : St) : s.qHold = true → s.wComp + s.wSend < c.L →
      IStep c s { s with qHold := false, wComp := s.wComp + 1 }
  /-- an error / short-circuit message: the processor itself sends on `outcomes` -/
  | qDirectSend (s : St) : s.qHold = true → s.oLen < c.L →
      IStep c s { s with qHold := false, oLen := s.oLen + 1 }
  | qDirectDrop (s : St) : c.trySend = true → s.qHold = true → s.cancQ = true →
      IStep c s { s with qHold := false }
  | qFinish (s : St) : s.qPhase = .draining → s.wComp = 0 → s.wSend = 0 →
      IStep c s { s with qPhase := .done, oClosed := true }
  -- workers
  | wCompute (s : St) : 0 < s.wComp →
      IStep c s { s with wComp := s.wComp - 1, wSend := s.wSend + 1 }
  | wSend (s : St) : 0 < s.wSend → s.oLen < c.L →
      IStep c s { s with wSend := s.wSend - 1, oLen := s.oLen + 1 }
  | wDrop (s : St) : c.trySend = true → 0 < s.wSend → s.cancQ = true →
      IStep c s { s with wSend := s.wSend - 1 }
  -- consumer
  | cRecvNext (s : St) : s.cPhase = .loop → 0 < s.oLen →
      IStep c s { s with oLen := s.oLen - 1 }
  | cRecvBreak (s : St) : s.cPhase = .loop → 0 < s.oLen →
      IStep c s { s with oLen := s.oLen - 1, cPhase := .left }
  | cCtxDone (s : St) : s.cPhase = .loop → s.parent = true →
      IStep c s { s with cPhase := .left }
  | cClosed (s : St) : s.cPhase = .loop → s.oClosed = true → s.oLen = 0 →
      IStep c s { s with cPhase := .left }
  | cCancel (s : St) : s.cPhase = .left →
      IStep c s { s with cPhase := .cancelled, ctxQ := s.ctxQ || c.cancelAfterLoop }
  | cDefer (s : St) : s.cPhase = .cancelled →
      IStep c s { s with cPhase := .waitP, ctxP := s.ctxP || c.deferCancel }
  | cWaitDone (s : St) : s.cPhase = .waitP → s.pDone = true →
      IStep c s { s with cPhase := .returned }

inductive EStep : St → St → Prop
  | parentCancel (s : St) : s.parent = false → EStep s { s with parent := true }

def Step (c : Cfg) (s s' : St) : Prop := IStep c s s' ∨ EStep s s'

inductive Reachable (c : Cfg) : St → Prop
  | init : Reachable c (init c)
  | step {s s' : St} : Reachable c s → Step c s s' → Reachable c s'

/-- the handler has returned and nothing it started is left -/
def Final (s : St) : Prop :=
  s.cPhase = .returned ∧ s.pDone = true ∧ s.qPhase = .done ∧ s.qHold = false ∧ s.wComp = 0 ∧ s.wSend = 0

def qWeight : QPhase → Nat
  | .loop => 2 | .draining => 1 | .done => 0

def cWeight : CPhase → Nat
  | .loop => 4 | .left => 3 | .cancelled => 2 | .waitP => 1 | .returned => 0

def mu (s : St) : Nat :=
  6 * s.pRem + 5 * s.dLen + (if s.qHold then 4 else 0) + 3 * s.wComp + 2 * s.wSend + s.oLen +
  (if s.pDone then 0 else 1) + qWeight s.qPhase + cWeight s.cPhase + (if s.parent then 0 else 1)

end OpenFGAVerif.Model.Dispatch
