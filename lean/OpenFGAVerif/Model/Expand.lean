/-
Model of `commands.ExpandQuery` (pkg/server/commands/expand.go).

  Execute                  empty object/relation → invalid_expand_input; every contextual tuple through
                           `validation.ValidateTupleForWrite` (first failure is returned); `ValidateObject`,
                           `ValidateRelation` on the target; `NewCombinedTupleReader`; `resolveUserset` on the
                           relation's rewrite with the **same** tuple key all the way down
  resolveUserset           structural recursion on the rewrite (`nil`/This, ComputedUserset, TupleToUserset,
                           Union, Difference, Intersection)
  resolveThis              `Read{Object, Relation, User: ""}` → `FilterInvalidTuples` (= ValidateTupleForRead;
                           **conditions are not evaluated**) → set of users → `slices.Sort`
  resolveComputedUserset   leaf `object#computedRelation`
  resolveTupleToUserset    tupleset relation must exist; `Read{Object, tupleset}` → valid tuples → for each
                           user `SplitObjectRelation`, empty relation replaced by the computed relation,
                           first occurrence kept, **read order preserved**
  resolveUsersets          children in the rewrite's order (`out[i]`), any child error fails the node

Strings are the well-formed ones of the generated vocabulary (`type:id`, `type:*`, `type:id#rel`);
the character-level format checks (`IsValidObject`, …) are C29/C18's business.
Core Lean only.
-/
import OpenFGAVerif.Spec.Vocab
import OpenFGAVerif.Model.CheckV1
import OpenFGAVerif.Model.CombinedReader

namespace OpenFGAVerif.Model.Expand
open OpenFGAVerif.Vocab OpenFGAVerif.CheckV1 OpenFGAVerif.Model

/-- `openfgav1.UsersetTree_Node` -/
inductive Tree where
  | users (name : String) (us : List String)
  | computed (name userset : String)
  | ttu (name tupleset : String) (computed : List String)
  | union (name : String) (kids : List Tree)
  | inter (name : String) (kids : List Tree)
  | diff (name : String) (base sub : Tree)
  deriving Repr, Inhabited

/-- `tuple.ToObjectRelationString` -/
def objRel (o r : String) : String := o ++ "#" ++ r

/-! ### the sorted set of users (`distinctUsers` map + `slices.Sort`) -/

/-- insert into a strictly ascending list (no duplicates) -/
def insertU (u : String) : List String → List String
  | [] => [u]
  | x :: xs => if u < x then u :: x :: xs else if u = x then x :: xs else x :: insertU u xs

def sortedSet (us : List String) : List String := us.foldr insertU []

/-- first occurrences, order kept (`seen` map + append) -/
def dedupKeep : List String → List String → List String
  | _, [] => []
  | seen, x :: xs => if seen.contains x then dedupKeep seen xs else x :: dedupKeep (x :: seen) xs

/-! ### leaves -/

/-- what a `Read{Object: o, Relation: r}` through the combined reader yields, after `FilterInvalidTuples` -/
def validRead (m : Model) (ctxO stored : List Tuple) (o r : String) : List Tuple :=
  (CombinedReader.read ctxO stored o r "").filter (validForRead m)

def thisLeaf (m : Model) (ctxO stored : List Tuple) (o r : String) : Tree :=
  .users (objRel o r) (sortedSet ((validRead m ctxO stored o r).map (·.user)))

def computedLeaf (o r cr : String) : Tree :=
  .computed (objRel o r) (objRel o (if cr = "" then r else cr))

/-- the userset a tupleset tuple's user stands for -/
def ttuTarget (cr : String) (user : String) : String :=
  let (uo, ur) := splitUserset user
  objRel uo (if ur = "" then cr else ur)

/-- `none`: the tupleset relation is not defined on the object's type (relation_not_found) -/
def ttuLeaf (m : Model) (ctxO stored : List Tuple) (o r ts cr : String) : Option Tree :=
  match m.findRel (typeOf o) ts with
  | none => none
  | some _ =>
    let tsRel := if ts = "" then r else ts
    some (.ttu (objRel o r) (objRel o tsRel)
      (dedupKeep [] ((validRead m ctxO stored o tsRel).map (fun t => ttuTarget cr t.user))))

/-! ### resolveUserset -/

mutual
def expandRw (m : Model) (ctxO stored : List Tuple) (o r : String) : Rewrite → Option Tree
  | .this => some (thisLeaf m ctxO stored o r)
  | .computed cr => some (computedLeaf o r cr)
  | .ttu ts cr => ttuLeaf m ctxO stored o r ts cr
  | .union cs => (expandList m ctxO stored o r cs).map (Tree.union (objRel o r))
  | .inter cs => (expandList m ctxO stored o r cs).map (Tree.inter (objRel o r))
  | .diff b s =>
    match expandRw m ctxO stored o r b, expandRw m ctxO stored o r s with
    | some tb, some tsub => some (.diff (objRel o r) tb tsub)
    | _, _ => none
def expandList (m : Model) (ctxO stored : List Tuple) (o r : String) : List Rewrite → Option (List Tree)
  | [] => some []
  | c :: cs =>
    match expandRw m ctxO stored o r c, expandList m ctxO stored o r cs with
    | some t, some ts => some (t :: ts)
    | _, _ => none
end

/-! ### Execute -/

/-- the error codes `Execute` can produce on well-formed strings -/
inductive Err where
  | invalidInput      -- invalid_expand_input
  | invalidTuple      -- invalid_tuple (contextual tuple)
  | validation        -- validation_error
  | typeNotFound      -- type_not_found
  | relationNotFound  -- relation_not_found
  deriving Repr, DecidableEq, Inhabited

def Model.hasType (m : Model) (t : String) : Bool := m.types.any (·.name = t)

/-- `ValidateUserObjectRelation` on well-formed strings: user type defined, userset relation defined,
object not a wildcard and of a defined type, relation defined -/
def userObjectRelationOk (m : Model) (t : Tuple) : Bool :=
  Model.hasType m (userType t.user) &&
  (!isUserset t.user || (m.findRel (userType t.user) (userRel t.user)).isSome) &&
  !isTypedWildcard t.obj && Model.hasType m (typeOf t.obj) &&
  (m.findRel (typeOf t.obj) t.rel).isSome

/-- the three stages of `ValidateTupleForRead`, to tell the error classes apart -/
def tuplesetAndTypeOk (m : Model) (t : Tuple) : Bool :=
  let typ := typeOf t.obj
  match m.findRel typ t.rel with
  | none => false
  | some rd =>
    (if m.isTuplesetRelation typ t.rel then
       (match rd.rewrite with | .this => true | _ => false) &&
       !isTypedWildcard t.user && !isUserset t.user
     else true) &&
    rd.restrs.any (fun r => restrMatchesUser r t.user)

/-- `ValidateTupleForWrite` followed by `HandleTupleValidateError` -/
def writeErr (m : Model) (t : Tuple) : Option Err :=
  if !userObjectRelationOk m t then some .invalidTuple
  else if !tuplesetAndTypeOk m t then some .invalidTuple
  else if !validForRead m t then some .validation     -- only `validateCondition` is left
  else none

inductive Res where
  | ok (t : Tree)
  | err (e : Err)
  deriving Repr, Inhabited

def execute (m : Model) (stored ctx : List Tuple) (o r : String) : Res :=
  if o = "" || r = "" then .err .invalidInput
  else match ctx.findSome? (writeErr m) with
    | some e => .err e
    | none =>
      -- ValidateObject / ValidateRelation, both wrapped by `ValidationError`
      if isTypedWildcard o || !Model.hasType m (typeOf o) then .err .validation
      else match m.findRel (typeOf o) r with
        | none => .err .validation
        | some rd =>
          match expandRw m (CombinedReader.orderCtx ctx) stored o r rd.rewrite with
          | some t => .ok t
          | none => .err .relationNotFound

/-! ### the property as an executable check (used by the driver on the *implementation's* tree, and
proved of the model's tree in Props/C30) -/

def strictAsc : List String → Bool
  | [] => true
  | [_] => true
  | a :: b :: rest => decide (a < b) && strictAsc (b :: rest)

def nodupB : List String → Bool
  | [] => true
  | a :: rest => !rest.contains a && nodupB rest

/-- the valid tuples on `object#relation` among all (stored and contextual) tuples -/
def validOn (m : Model) (all : List Tuple) (o r : String) : List Tuple :=
  all.filter (fun t => t.obj = o && t.rel = r && validForRead m t)

def sameSet (xs ys : List String) : Bool := xs.all ys.contains && ys.all xs.contains

mutual
/-- `conforms m all o r rw t`: the tree `t` mirrors the rewrite `rw` (kinds, child order, every node named
`o#r`), its direct leaves list exactly the users of the valid tuples on `o#r` strictly ascending, its
computed leaves name `o#computed`, its tuple-to-userset leaves name `o#tupleset` and list, without
duplicates, exactly the usersets the valid tupleset tuples point to. -/
def conforms (m : Model) (all : List Tuple) (o r : String) : Rewrite → Tree → Bool
  | .this, .users n us =>
    n = objRel o r && strictAsc us && sameSet us ((validOn m all o r).map (·.user))
  | .computed cr, .computed n u => n = objRel o r && u = objRel o (if cr = "" then r else cr)
  | .ttu ts cr, .ttu n tsn cs =>
    let tsRel := if ts = "" then r else ts
    n = objRel o r && tsn = objRel o tsRel && nodupB cs &&
    sameSet cs ((validOn m all o tsRel).map (fun t => ttuTarget cr t.user))
  | .union cs, .union n ks => n = objRel o r && conformsList m all o r cs ks
  | .inter cs, .inter n ks => n = objRel o r && conformsList m all o r cs ks
  | .diff b s, .diff n tb tsub => n = objRel o r && conforms m all o r b tb && conforms m all o r s tsub
  | _, _ => false
def conformsList (m : Model) (all : List Tuple) (o r : String) : List Rewrite → List Tree → Bool
  | [], [] => true
  | c :: cs, k :: ks => conforms m all o r c k && conformsList m all o r cs ks
  | _, _ => false
end

/-! ### canonical rendering (same grammar as harness/c30) -/

mutual
def render : Tree → String
  | .users n us => s!"users {n} {us.length}" ++ String.join (us.map (" " ++ ·))
  | .computed n u => s!"computed {n} {u}"
  | .ttu n ts cs => s!"ttu {n} {ts} {cs.length}" ++ String.join (cs.map (" " ++ ·))
  | .union n ks => s!"union {n} {ks.length}" ++ renderList ks
  | .inter n ks => s!"inter {n} {ks.length}" ++ renderList ks
  | .diff n b s => s!"diff {n} " ++ render b ++ " " ++ render s
def renderList : List Tree → String
  | [] => ""
  | t :: ts => " " ++ render t ++ renderList ts
end

def Err.render : Err → String
  | .invalidInput => "E invalid_expand_input"
  | .invalidTuple => "E invalid_tuple"
  | .validation => "E validation_error"
  | .typeNotFound => "E type_not_found"
  | .relationNotFound => "E relation_not_found"

def Res.render : Res → String
  | .ok t => Expand.render t
  | .err e => e.render

end OpenFGAVerif.Model.Expand
