/-
Model of the tuple-iterator adapters (core Lean only).

  pkg/storage/tuple_iterators.go      StaticIterator, combinedIterator, filteredTupleKeyIterator,
                                      ConditionsFilteredTupleKeyIterator, OrderedCombinedIterator
  internal/iterator                   Concat, Merge, filter (NewFilteredIterator), Validate, SkipTo

Every adapter is a state machine `Machine σ α` with `next / head / stop`; `next` and `head` take the
state of the caller's context (`c = true`: the context is already cancelled).  The inputs of an adapter
are *scripted iterators* `SIter`: a finite script of items and errors followed by `Done` for ever.

Conventions of the scripted iterator (the Go harness implements exactly this iterator):
  * a call with a cancelled context returns `cancelled` and changes nothing (as `StaticIterator`,
    the memory and the SQL iterators do: they test `ctx.Err()` first);
  * `Next` on an error element returns the error and consumes it; `Head` returns it and does not
    (`Head` never changes the script);
  * `Stop` drops the rest of the script (as `StaticIterator.Stop`), so `Next` after `Stop` is `Done`;
    the number of `Stop` calls is counted (observable: released exactly once / not at all).
-/
namespace OpenFGAVerif.Model.Iter

/-- error kinds that can come out of an iterator call -/
inductive Err where
  | done                      -- storage.ErrIteratorDone
  | cancelled                 -- ctx.Err() of the caller's context
  | fail (id : Nat)           -- any other error (scripted: id of the error; predicate errors: their id)
  | headUnsupported           -- "head() not supported on … iterator"
  | notAscending (idx : Nat)  -- OrderedCombinedIterator: "iterator %d is not in ascending order"
  | zeroValue                 -- a zero value would be returned with a nil error (unreachable, see `Merge`)
  deriving DecidableEq, Repr

/-- result of `Next`/`Head`: a value, or an error possibly returned *together with* a value -/
inductive Res (α : Type) where
  | ok (a : α)
  | err (e : Err) (v : Option α)
  deriving DecidableEq, Repr

@[reducible] def Res.done {α : Type} : Res α := .err .done none
@[reducible] def Res.cancelled {α : Type} : Res α := .err .cancelled none

/-- `storage.IterIsDoneOrCancelled` (context.Canceled and DeadlineExceeded are both `cancelled`) -/
def Err.isDoneOrCancelled : Err → Bool
  | .done => true
  | .cancelled => true
  | _ => false

/-- one element of a script -/
inductive El (α : Type) where
  | item (a : α)
  | fail (id : Nat)
  deriving DecidableEq, Repr

/-- what a live `Next` on a script element returns -/
def El.res {α : Type} : El α → Res α
  | .item a => .ok a
  | .fail e => .err (.fail e) none

/-- scripted iterator -/
structure SIter (α : Type) where
  id : Nat
  rem : List (El α)
  stops : Nat := 0
  deriving Repr

namespace SIter
variable {α : Type}

def next (s : SIter α) (c : Bool) : Res α × SIter α :=
  if c then (.cancelled, s) else
  match s.rem with
  | [] => (.done, s)
  | e :: r => (e.res, { s with rem := r })

def head (s : SIter α) (c : Bool) : Res α :=
  if c then .cancelled else
  match s.rem with
  | [] => .done
  | e :: _ => e.res

def stop (s : SIter α) : SIter α := { s with rem := [], stops := s.stops + 1 }

end SIter

/-- an iterator as a state machine -/
structure Machine (σ α : Type) where
  next : σ → Bool → Res α × σ
  head : σ → Bool → Res α × σ
  stop : σ → σ

inductive Op where
  | next (c : Bool)
  | head (c : Bool)
  | stop
  deriving DecidableEq, Repr

/-- run a scripted call sequence; `Stop` contributes no result -/
def Machine.run {σ α : Type} (m : Machine σ α) : List Op → σ → List (Res α) × σ
  | [], s => ([], s)
  | .next c :: ops, s => let (r, s') := m.next s c; let (rs, s'') := m.run ops s'; (r :: rs, s'')
  | .head c :: ops, s => let (r, s') := m.head s c; let (rs, s'') := m.run ops s'; (r :: rs, s'')
  | .stop :: ops, s => m.run ops (m.stop s)

/-- results of `n` consecutive live `Next` calls -/
def Machine.nexts {σ α : Type} (m : Machine σ α) : Nat → σ → List (Res α)
  | 0, _ => []
  | n + 1, s => (m.next s false).1 :: m.nexts n (m.next s false).2

/-- the first `n` elements of the infinite stream `l ++ Done ++ Done ++ …` -/
def stream {α : Type} : List (Res α) → Nat → List (Res α)
  | _, 0 => []
  | [], n + 1 => Res.done :: stream [] n
  | r :: l, n + 1 => r :: stream l n

/-! ## StaticIterator -/

structure Static (α : Type) where
  items : List α
  deriving Repr

namespace Static
variable {α : Type}

def next (s : Static α) (c : Bool) : Res α × Static α :=
  if c then (.cancelled, s) else
  match s.items with
  | [] => (.done, s)
  | a :: r => (.ok a, ⟨r⟩)

def head (s : Static α) (c : Bool) : Res α × Static α :=
  if c then (.cancelled, s) else
  match s.items with
  | [] => (.done, s)
  | a :: _ => (.ok a, s)

def stop (_ : Static α) : Static α := ⟨[]⟩

def machine : Machine (Static α) α := ⟨next, head, stop⟩
end Static

/-! ## combinedIterator (`NewCombinedIterator`) -/

structure Combined (α : Type) where
  pending : List (SIter α)
  dead : List (SIter α) := []     -- popped iterators (kept only so that their final state can be reported)
  once : Bool := false            -- `sync.Once` of Stop
  deriving Repr

namespace Combined
variable {α : Type}

/-- `Next`: first pending iterator; on `Done` pop it, `Stop` it, retry -/
def nextP : List (SIter α) → List (SIter α) → Bool → Res α × List (SIter α) × List (SIter α)
  | [], dead, _ => (.done, [], dead)
  | it :: rest, dead, c =>
    match it.next c with
    | (.err .done _, it') => nextP rest (it'.stop :: dead) c
    | (r, it') => (r, it' :: rest, dead)

def headP : List (SIter α) → List (SIter α) → Bool → Res α × List (SIter α) × List (SIter α)
  | [], dead, _ => (.done, [], dead)
  | it :: rest, dead, c =>
    match it.head c with
    | .err .done _ => headP rest (it.stop :: dead) c
    | r => (r, it :: rest, dead)

def next (s : Combined α) (c : Bool) : Res α × Combined α :=
  let (r, p, d) := nextP s.pending s.dead c
  (r, { s with pending := p, dead := d })

def head (s : Combined α) (c : Bool) : Res α × Combined α :=
  let (r, p, d) := headP s.pending s.dead c
  (r, { s with pending := p, dead := d })

def stop (s : Combined α) : Combined α :=
  if s.once then s else { s with pending := s.pending.map SIter.stop, once := true }

def machine : Machine (Combined α) α := ⟨next, head, stop⟩
def start (ins : List (SIter α)) : Combined α := { pending := ins }
def inputs (s : Combined α) : List (SIter α) := s.pending ++ s.dead
end Combined

/-! ## Concat (internal/iterator/concat.go) -/

structure Concat (α : Type) where
  cur : SIter α
  nxt : Option (SIter α)
  done : Bool := false
  once : Bool := false
  dead : List (SIter α) := []
  deriving Repr

namespace Concat
variable {α : Type}

def next (s : Concat α) (c : Bool) : Res α × Concat α :=
  if s.done then (.done, s) else
  match s.cur.next c with
  | (.err .done _, cur') =>
    match s.nxt with
    | none => (.done, { s with cur := cur', done := true })
    | some n =>
      -- c.current.Stop(); c.current = c.next; c.next = nil; return c.current.Next(ctx)
      let (r, n') := n.next c
      (r, { s with cur := n', nxt := none, dead := cur'.stop :: s.dead })
  | (.err e _, cur') => (.err e none, { s with cur := cur', done := true })
  | (.ok a, cur') => (.ok a, { s with cur := cur' })

def head (s : Concat α) (_ : Bool) : Res α × Concat α := (.err .headUnsupported none, s)

def stop (s : Concat α) : Concat α :=
  if s.once then s else
  { s with once := true, done := true, cur := s.cur.stop, nxt := s.nxt.map SIter.stop }

def machine : Machine (Concat α) α := ⟨next, head, stop⟩
def start (a b : SIter α) : Concat α := { cur := a, nxt := some b }
def inputs (s : Concat α) : List (SIter α) := s.cur :: (s.nxt.toList ++ s.dead)
end Concat

/-! ## Merge (internal/iterator/merge.go) -/

structure Merge (α : Type) where
  i1 : SIter α
  i2 : SIter α
  cur1 : Option α := none     -- `none` = the zero value
  cur2 : Option α := none
  has1 : Bool := false
  has2 : Bool := false
  init : Bool := false
  deriving Repr

namespace Merge
variable {α : Type}

/-- value returned with a nil error; a zero value here would be a bug in the adapter -/
def okOf : Option α → Res α
  | some a => .ok a
  | none => .err .zeroValue none

/-- `initialize`: returns the error to report, if any -/
def initStep (s : Merge α) (c : Bool) : Option Err × Merge α :=
  if s.init then (none, s) else
  let s := { s with init := true }
  match s.i1.next c with
  | (.err .done _, i1') =>
    let s := { s with i1 := i1', has1 := false, cur1 := none }
    match s.i2.next c with
    | (.err .done _, i2') => (none, { s with i2 := i2', has2 := false, cur2 := none })
    | (.err e _, i2') => (some e, { s with i2 := i2' })
    | (.ok b, i2') => (none, { s with i2 := i2', has2 := true, cur2 := some b })
  | (.err e _, i1') => (some e, { s with i1 := i1' })
  | (.ok a, i1') =>
    let s := { s with i1 := i1', has1 := true, cur1 := some a }
    match s.i2.next c with
    | (.err .done _, i2') => (none, { s with i2 := i2', has2 := false, cur2 := none })
    | (.err e _, i2') => (some e, { s with i2 := i2' })
    | (.ok b, i2') => (none, { s with i2 := i2', has2 := true, cur2 := some b })

def returnFrom1 (s : Merge α) (c : Bool) : Res α × Merge α :=
  match s.i1.next c with
  | (.err .done _, i1') => (okOf s.cur1, { s with i1 := i1', has1 := false })
  | (.err e _, i1') => (.err e s.cur1, { s with i1 := i1' })
  | (.ok a, i1') => (okOf s.cur1, { s with i1 := i1', cur1 := some a })

def returnFrom2 (s : Merge α) (c : Bool) : Res α × Merge α :=
  match s.i2.next c with
  | (.err .done _, i2') => (okOf s.cur2, { s with i2 := i2', has2 := false })
  | (.err e _, i2') => (.err e s.cur2, { s with i2 := i2' })
  | (.ok a, i2') => (okOf s.cur2, { s with i2 := i2', cur2 := some a })

/-- the branch for `cmp == 0`: advance both, return `current1` -/
def returnBoth (s : Merge α) (c : Bool) : Res α × Merge α :=
  let val := s.cur1
  match s.i1.next c with
  | (.err .done _, i1') =>
    let s := { s with i1 := i1', has1 := false }
    match s.i2.next c with
    | (.err .done _, i2') => (okOf val, { s with i2 := i2', has2 := false })
    | (.err e _, i2') => (.err e val, { s with i2 := i2' })
    | (.ok b, i2') => (okOf val, { s with i2 := i2', cur2 := some b })
  | (.err e _, i1') => (.err e val, { s with i1 := i1' })
  | (.ok a, i1') =>
    let s := { s with i1 := i1', cur1 := some a }
    match s.i2.next c with
    | (.err .done _, i2') => (okOf val, { s with i2 := i2', has2 := false })
    | (.err e _, i2') => (.err e val, { s with i2 := i2' })
    | (.ok b, i2') => (okOf val, { s with i2 := i2', cur2 := some b })

def next (cmp : α → α → Ordering) (s : Merge α) (c : Bool) : Res α × Merge α :=
  match initStep s c with
  | (some e, s) => (.err e none, s)
  | (none, s) =>
    if !s.has1 && !s.has2 then (.done, s)
    else if !s.has1 then returnFrom2 s c
    else if !s.has2 then returnFrom1 s c
    else
      match s.cur1, s.cur2 with
      | some a, some b =>
        match cmp a b with
        | .lt => returnFrom1 s c
        | .gt => returnFrom2 s c
        | .eq => returnBoth s c
      | _, _ => (.err .zeroValue none, s)

def head (s : Merge α) (_ : Bool) : Res α × Merge α := (.err .headUnsupported none, s)

def stop (s : Merge α) : Merge α := { s with i1 := s.i1.stop, i2 := s.i2.stop }

def machine (cmp : α → α → Ordering) : Machine (Merge α) α := ⟨next cmp, head, stop⟩
def start (a b : SIter α) : Merge α := { i1 := a, i2 := b }
def inputs (s : Merge α) : List (SIter α) := [s.i1, s.i2]
end Merge

/-! ## three-valued filters: `filter` (internal/iterator/filter.go) and
`ConditionsFilteredTupleKeyIterator` (same `Next`, the latter also supports `Head`) -/

/-- a filter predicate: `ok true` keep, `ok false` drop, `error id` evaluation error -/
abbrev Pred (α : Type) := α → Except Nat Bool

structure CondFilter (α : Type) where
  it : SIter α
  lastErr : Option Nat := none
  onceValid : Bool := false
  once : Bool := false
  deriving Repr

namespace CondFilter
variable {α : Type}

/-- the `for` loop of `Next` over the rest of the script (live context) -/
def nextLoop (p : Pred α) : List (El α) → Option Nat → Bool → Res α × List (El α) × Option Nat × Bool
  | [], le, ov =>
    match le with
    | some e => if ov then (.done, [], le, ov) else (.err (.fail e) none, [], none, ov)
    | none => (.done, [], le, ov)
  | .fail e :: r, le, ov => (.err (.fail e) none, r, le, ov)
  | .item a :: r, le, ov =>
    match p a with
    | .error e => nextLoop p r (some e) ov
    | .ok false => nextLoop p r le ov
    | .ok true => (.ok a, r, le, true)

/-- the `for` loop of `Head` -/
def headLoop (p : Pred α) : List (El α) → Option Nat → Bool → Res α × List (El α) × Option Nat × Bool
  | [], le, ov =>
    match le with
    | some e => if ov then (.done, [], le, ov) else (.err (.fail e) none, [], le, ov)
    | none => (.done, [], le, ov)
  | .fail e :: r, le, ov => (.err (.fail e) none, .fail e :: r, le, ov)
  | .item a :: r, le, ov =>
    match p a with
    | .error e => headLoop p r (some e) ov
    | .ok false => headLoop p r le ov
    | .ok true => (.ok a, .item a :: r, le, true)

def next (p : Pred α) (s : CondFilter α) (c : Bool) : Res α × CondFilter α :=
  if c then (.cancelled, s) else
  let (r, rem, le, ov) := nextLoop p s.it.rem s.lastErr s.onceValid
  (r, { s with it := { s.it with rem := rem }, lastErr := le, onceValid := ov })

def head (p : Pred α) (s : CondFilter α) (c : Bool) : Res α × CondFilter α :=
  if c then (.cancelled, s) else
  let (r, rem, le, ov) := headLoop p s.it.rem s.lastErr s.onceValid
  (r, { s with it := { s.it with rem := rem }, lastErr := le, onceValid := ov })

def headUnsupported (s : CondFilter α) (_ : Bool) : Res α × CondFilter α := (.err .headUnsupported none, s)

def stop (s : CondFilter α) : CondFilter α :=
  if s.once then s else { s with it := s.it.stop, once := true }

/-- storage.ConditionsFilteredTupleKeyIterator -/
def machine (p : Pred α) : Machine (CondFilter α) α := ⟨next p, head p, stop⟩
/-- internal/iterator `filter` (no `Head`) -/
def machineNoHead (p : Pred α) : Machine (CondFilter α) α := ⟨next p, headUnsupported, stop⟩
def start (a : SIter α) : CondFilter α := { it := a }
end CondFilter

/-! ## filteredTupleKeyIterator (two-valued filter; every error, `Done` included, is passed through) -/

structure BoolFilter (α : Type) where
  it : SIter α
  once : Bool := false
  deriving Repr

namespace BoolFilter
variable {α : Type}

def nextLoop (p : α → Bool) : List (El α) → Res α × List (El α)
  | [] => (.done, [])
  | .fail e :: r => (.err (.fail e) none, r)
  | .item a :: r => if p a then (.ok a, r) else nextLoop p r

def headLoop (p : α → Bool) : List (El α) → Res α × List (El α)
  | [] => (.done, [])
  | .fail e :: r => (.err (.fail e) none, .fail e :: r)
  | .item a :: r => if p a then (.ok a, .item a :: r) else headLoop p r

def next (p : α → Bool) (s : BoolFilter α) (c : Bool) : Res α × BoolFilter α :=
  if c then (.cancelled, s) else
  let (r, rem) := nextLoop p s.it.rem
  (r, { s with it := { s.it with rem := rem } })

def head (p : α → Bool) (s : BoolFilter α) (c : Bool) : Res α × BoolFilter α :=
  if c then (.cancelled, s) else
  let (r, rem) := headLoop p s.it.rem
  (r, { s with it := { s.it with rem := rem } })

def stop (s : BoolFilter α) : BoolFilter α :=
  if s.once then s else { s with it := s.it.stop, once := true }

def machine (p : α → Bool) : Machine (BoolFilter α) α := ⟨next p, head p, stop⟩
def start (a : SIter α) : BoolFilter α := { it := a }
end BoolFilter

/-! ## Validate (internal/iterator/validate.go); `none` = nil validator -/

structure Validate (α : Type) where
  it : SIter α
  deriving Repr

namespace Validate
variable {α : Type}

def nextLoop (p : Option (Pred α)) : List (El α) → Res α × List (El α)
  | [] => (.done, [])
  | .fail e :: r => (.err (.fail e) none, r)
  | .item a :: r =>
    match p with
    | none => (.ok a, r)
    | some f =>
      match f a with
      | .error e => (.err (.fail e) none, r)
      | .ok false => nextLoop p r
      | .ok true => (.ok a, r)

def headLoop (p : Option (Pred α)) : List (El α) → Res α × List (El α)
  | [] => (.done, [])
  | .fail e :: r => (.err (.fail e) none, .fail e :: r)
  | .item a :: r =>
    match p with
    | none => (.ok a, .item a :: r)
    | some f =>
      match f a with
      | .error e => (.err (.fail e) none, .item a :: r)
      | .ok false => headLoop p r
      | .ok true => (.ok a, .item a :: r)

def next (p : Option (Pred α)) (s : Validate α) (c : Bool) : Res α × Validate α :=
  if c then (.cancelled, s) else
  let (r, rem) := nextLoop p s.it.rem
  (r, { it := { s.it with rem := rem } })

def head (p : Option (Pred α)) (s : Validate α) (c : Bool) : Res α × Validate α :=
  if c then (.cancelled, s) else
  let (r, rem) := headLoop p s.it.rem
  (r, { it := { s.it with rem := rem } })

def stop (s : Validate α) : Validate α := { it := s.it.stop }

def machine (p : Option (Pred α)) : Machine (Validate α) α := ⟨next p, head p, stop⟩
def start (a : SIter α) : Validate α := { it := a }
end Validate

/-! ## SkipTo (internal/iterator/skip.go): advance until `head >= target` -/

/-- returns the error reported by `SkipTo` (`none` = nil) and the rest of the script -/
def skipToLoop {α : Type} (key : α → Nat) (target : Nat) : List (El α) → Option Err × List (El α)
  | [] => (none, [])
  | .fail e :: r => (some (.fail e), .fail e :: r)
  | .item a :: r => if key a ≥ target then (none, .item a :: r) else skipToLoop key target r

def skipTo {α : Type} (key : α → Nat) (target : Nat) (s : SIter α) (c : Bool) : Option Err × SIter α :=
  if c then (none, s) else
  let (e, rem) := skipToLoop key target s.rem
  (e, { s with rem := rem })

/-! ## OrderedCombinedIterator -/

structure OC (α : Type) where
  pending : List (Option (SIter α))     -- `none` = an entry set to nil by `head()`
  lastHead : Option α := none
  lastYielded : Option α := none
  once : Bool := false
  dead : List (SIter α) := []
  deriving Repr

namespace OC
variable {α : Type}

/-- outcome of looking at one pending iterator inside `head()` -/
inductive Scan (α : Type) where
  | head (a : α) (it : SIter α)      -- current head after de-duplication
  | gone (it : SIter α)              -- Done: stopped, entry set to nil
  | error (e : Err) (it : SIter α)   -- `return -1, err`

/-- the inner loop `for mapper(head) == mapper(lastYielded) { Next; Head }`, entered with the head item
already popped: `r` is the rest of the script *after* the duplicate. -/
def dropDup (key : α → Nat) (lk : Nat) : List (El α) → Option (Res α) × List (El α)
  | [] => (none, [])                                  -- Done
  | .fail e :: r => (some (.err (.fail e) none), .fail e :: r)
  | .item b :: r => if key b = lk then dropDup key lk r else (some (.ok b), .item b :: r)

def scan (key : α → Nat) (last : Option α) (c : Bool) (idx : Nat) (it : SIter α) : Scan α :=
  match it.head c with
  | .err .done _ => .gone it.stop
  | .err e _ => .error e it
  | .ok a =>
    match last with
    | none => .head a it
    | some l =>
      if key a < key l then .error (.notAscending idx) it
      else if key a = key l then
        match dropDup key (key l) it.rem.tail with
        | (none, _) => .gone { it with rem := [] }.stop
        | (some (.ok b), rem) => .head b { it with rem := rem }
        | (some (.err e _), rem) => .error e { it with rem := rem }
      else .head a it

/-- the loop of `head()` over the (nil-free) pending list. Returns the minimum `(index, head)` or the
error, the pending list as the loop leaves it, and the iterators that were stopped. -/
def headGo (key : α → Nat) (last : Option α) (c : Bool) :
    List (SIter α) → Nat → Option (Nat × α) → Except Err (Option (Nat × α)) × List (Option (SIter α)) × List (SIter α)
  | [], _, best => (.ok best, [], [])
  | it :: rest, idx, best =>
    match scan key last c idx it with
    | .gone it' =>
      let (r, p, d) := headGo key last c rest (idx + 1) best
      (r, none :: p, it' :: d)
    | .error e it' => (.error e, some it' :: rest.map some, [])
    | .head a it' =>
      let best' := match best with
        | none => some (idx, a)
        | some (j, b) => if key b > key a then some (idx, a) else some (j, b)
      let (r, p, d) := headGo key last c rest (idx + 1) best'
      (r, some it' :: p, d)

/-- `head()`: clear the nil entries, run the loop -/
def headIdx (key : α → Nat) (s : OC α) (c : Bool) : Except Err (Nat × α) × OC α :=
  let live := s.pending.filterMap id
  let (r, p, d) := headGo key s.lastYielded c live 0 none
  let s' := { s with pending := p, dead := d.reverse ++ s.dead }
  match r with
  | .error e => (.error e, s')
  | .ok none => (.error .done, s')
  | .ok (some ia) => (.ok ia, s')

/-- apply `f` to the `i`-th entry -/
def modifyAt {β : Type} (f : β → β) : List β → Nat → List β
  | [], _ => []
  | x :: xs, 0 => f x :: xs
  | x :: xs, i + 1 => x :: modifyAt f xs i

def next (key : α → Nat) (s : OC α) (c : Bool) : Res α × OC α :=
  match headIdx key s c with
  | (.error e, s') => (.err e none, s')
  | (.ok (i, _), s') =>
    let s' := { s' with lastHead := none }
    match s'.pending[i]? with
    | some (some it) =>
      match it.next c with
      | (.ok t, it') => (.ok t, { s' with pending := modifyAt (fun _ => some it') s'.pending i, lastYielded := some t })
      | (.err e _, it') => (.err e none, { s' with pending := modifyAt (fun _ => some it') s'.pending i })
    | _ => (.err .zeroValue none, s')

def head (key : α → Nat) (s : OC α) (c : Bool) : Res α × OC α :=
  match s.lastHead with
  | some a => (.ok a, s)
  | none =>
    match headIdx key s c with
    | (.error e, s') => (.err e none, s')
    | (.ok (i, _), s') =>
      match s'.pending[i]? with
      | some (some it) =>
        match it.head c with
        | .ok t => (.ok t, { s' with lastHead := some t })
        | .err e _ => (.err e none, { s' with lastHead := none })
      | _ => (.err .zeroValue none, s')

def stop (s : OC α) : OC α :=
  if s.once then s else
  { s with once := true, pending := (s.pending.filterMap id).map (fun it => some it.stop) }

def machine (key : α → Nat) : Machine (OC α) α := ⟨next key, head key, stop⟩
def start (ins : List (SIter α)) : OC α := { pending := ins.map some }
def inputs (s : OC α) : List (SIter α) := s.pending.filterMap id ++ s.dead
end OC

end OpenFGAVerif.Model.Iter
