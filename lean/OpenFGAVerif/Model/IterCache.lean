/-
Model of the V1 iterator cache (pkg/storage/storagewrappers/cached_datastore.go, cached_iterators.go), core Lean only.

  cachedIterator.Next / Head / Stop (+ the goroutine started by Stop, addToBuffer, flush)   → `CIter`, `stop`
  findInCache / isInvalidAt                                                                → `Cache.find`
  addToBuffer's field elision, cachedTupleIterator.buildTuple                              → `elide`, `build`
  a history of reads against one cache key over an unchanged store                         → `Ev`, `runHist`

What is *outside* the code and therefore a parameter (every theorem quantifies over it):
  * the underlying iterator: a script (`UIter`), with the two conventions the proof needs spelled out as flags —
    a call with a cancelled context changes nothing (built in), and whether a failing `Head` consumes the element
    (`headConsumes`; the SQL iterators do when a row fails to scan or unmarshal);
  * when the server context `c.ctx` is cancelled (`Env.cancelAt`: from which step of the Stop goroutine on);
  * what the cache holds when the goroutine looks (`Env.hit`, `Env.invalidated`) — theine may have evicted anything;
  * singleflight: whether another drain for the same key is in flight (`Env.sfShared`: then `fn` is not run).
-/
import OpenFGAVerif.Model.Iter

namespace OpenFGAVerif.Model.IterCache
open OpenFGAVerif.Model.Iter

/-! ## the underlying iterator -/

structure UIter (α : Type) where
  rem : List (El α)
  headConsumes : Bool := false
  stops : Nat := 0
  reads : Nat := 0            -- live `Next` calls (observable in the harness: the scripted datastore counts them)
  deriving Repr

namespace UIter
variable {α : Type}

def next (u : UIter α) (c : Bool) : Res α × UIter α :=
  if c then (.cancelled, u) else
  match u.rem with
  | [] => (.done, { u with reads := u.reads + 1 })
  | e :: r => (e.res, { u with rem := r, reads := u.reads + 1 })

def head (u : UIter α) (c : Bool) : Res α × UIter α :=
  if c then (.cancelled, u) else
  match u.rem with
  | [] => (.done, u)
  | .item a :: _ => (.ok a, u)
  | .fail e :: r => (.err (.fail e) none, if u.headConsumes then { u with rem := r } else u)

def stop (u : UIter α) : UIter α := { u with rem := [], stops := u.stops + 1 }
end UIter

/-! ## cachedIterator -/

structure CIter (α : Type) where
  under : UIter α
  tuples : Option (List α) := some []    -- `none` = nil: "don't store results that are incomplete"
  closing : Bool := false
  maxSize : Nat
  deriving Repr

variable {α ρ : Type}

/-- `Next` -/
def CIter.next (s : CIter α) (c : Bool) : Res α × CIter α :=
  if s.closing then (.done, s) else
  match s.under.next c with
  | (.err e v, u) =>
    (.err e v, { s with under := u, tuples := if e.isDoneOrCancelled then s.tuples else none })
  | (.ok t, u) =>
    let tuples := match s.tuples with
      | none => none
      | some l => if (l ++ [t]).length ≥ s.maxSize then none else some (l ++ [t])
    (.ok t, { s with under := u, tuples := tuples })

/-- `Head` -/
def CIter.head (s : CIter α) (c : Bool) : Res α × CIter α :=
  if s.closing then (.done, s) else
  let (r, u) := s.under.head c
  (r, { s with under := u })

/-- what the goroutine of `Stop` meets -/
structure Env where
  cancelAt : Option Nat := none   -- the server context is cancelled from this step on (step 0 = the test in `Stop`,
                                  -- then one step per underlying call of the goroutine and per test in `flush`)
  hit : Bool := false             -- `findInCache` finds a valid entry: somebody else cached the key meanwhile
  invalidated : Bool := false     -- `isInvalidAt(initializedAt)`: an invalidation newer than the query start
  sfShared : Bool := false        -- singleflight: another drain of the key is in flight, `fn` is not executed
  deriving Repr, DecidableEq

def Env.cancelled (e : Env) (step : Nat) : Bool :=
  match e.cancelAt with
  | none => false
  | some k => k ≤ step

/-- the loop `for _, t := range c.tuples { c.addToBuffer(t) }`: the records, or `none` once `maxResultSize` is reached -/
def bufferRecords (conv : α → ρ) (maxSize : Nat) : List α → List ρ → Option (List ρ)
  | [], recs => some recs
  | t :: ts, recs =>
    if (recs ++ [conv t]).length ≥ maxSize then none else bufferRecords conv maxSize ts (recs ++ [conv t])

/-- the drain loop inside `sf.Do`; `step` numbers the underlying calls (for the cancellation oracle).
Returns what `flush` writes (if it is reached and writes) and the underlying iterator afterwards. -/
def drainLoop (conv : α → ρ) (maxSize : Nat) (env : Env) :
    List (El α) → UIter α → Option (List ρ) → Nat → Option (List ρ) × UIter α
  | [], u, recs, step =>
    if env.cancelled step then (none, u)       -- Next(c.ctx) = cancelled: break
    else
      -- Done: flush, which tests `c.tuples == nil || c.ctx.Err() != nil` first
      let u := { u with reads := u.reads + 1 }
      match recs with
      | none => (none, u)
      | some rs => if env.cancelled (step + 1) then (none, u) else (some rs, u)
  | .fail _ :: r, u, _, step =>
    if env.cancelled step then (none, u) else (none, { u with rem := r, reads := u.reads + 1 })   -- error: break
  | .item a :: r, u, recs, step =>
    if env.cancelled step then (none, u) else
    let u := { u with rem := r, reads := u.reads + 1 }
    match recs with
    | none => (none, u)                          -- addToBuffer returns false: break
    | some rs =>
      if (rs ++ [conv a]).length ≥ maxSize then drainLoop conv maxSize env r u none (step + 1)  -- buffer dropped, loop goes on
      else drainLoop conv maxSize env r u (some (rs ++ [conv a])) (step + 1)

/-- `Stop` together with the goroutine it starts, run to completion.
Result: the entry written to the cache (`none` = nothing written) and the iterator afterwards. -/
def CIter.stop (conv : α → ρ) (s : CIter α) (env : Env) : Option (List ρ) × CIter α :=
  if s.closing then (none, s) else
  let s := { s with closing := true }
  match s.tuples with
  | none => (none, { s with under := s.under.stop })
  | some l =>
    if env.cancelled 0 then (none, { s with under := s.under.stop })
    else if env.hit then (none, { s with under := s.under.stop.stop, tuples := none })
    else if env.invalidated then (none, { s with under := s.under.stop.stop, tuples := none })
    else
      let recs := bufferRecords conv s.maxSize l []
      -- `c.iter.Head(c.ctx)` (step 1)
      let (h, u) := s.under.head (env.cancelled 1)
      match h with
      | .err .done _ =>
        -- flush (its test is step 2)
        let written := match recs with
          | none => none
          | some rs => if env.cancelled 2 then none else some rs
        (written, { s with under := u.stop, tuples := none })
      | _ =>
        if env.sfShared then (none, { s with under := u.stop })
        else
          let (written, u') := drainLoop conv s.maxSize env u.rem u recs 2
          (written, { s with under := u'.stop, tuples := none })

/-- a scripted use of one cachedIterator by its caller, ended by `Stop` -/
def CIter.runOps : List Op → CIter α → List (Res α) × CIter α
  | [], s => ([], s)
  | .next c :: ops, s => let (r, s') := s.next c; let (rs, s'') := runOps ops s'; (r :: rs, s'')
  | .head c :: ops, s => let (r, s') := s.head c; let (rs, s'') := runOps ops s'; (r :: rs, s'')
  | .stop :: ops, s => runOps ops s      -- `Stop` is applied once, at the end, by `useIter`

def CIter.start (script : List (El α)) (headConsumes : Bool) (maxSize : Nat) : CIter α :=
  { under := { rem := script, headConsumes := headConsumes }, maxSize := maxSize }

/-- create, use, stop: results seen by the caller, the entry written, the final state -/
def useIter (conv : α → ρ) (script : List (El α)) (headConsumes : Bool) (maxSize : Nat) (ops : List Op) (env : Env) :
    List (Res α) × Option (List ρ) × CIter α :=
  let (rs, s) := (CIter.start script headConsumes maxSize).runOps ops
  let (w, s') := s.stop conv env
  (rs, w, s')

/-! ## field elision (`addToBuffer`) and reconstruction (`buildTuple`) -/

/-- `storage.TupleRecord`, the fields the cache stores (`payload` = user id, user relation, condition, timestamp) -/
structure Rec where
  objectType : String
  objectID : String
  relation : String
  userType : String
  payload : Nat
  deriving DecidableEq, Repr

/-- the fields the iterator knows from its cache key ("" = not known) -/
structure Known where
  objectType : String := ""
  objectID : String := ""
  relation : String := ""
  userType : String := ""
  deriving DecidableEq, Repr

def elideField (known field : String) : String := if known ≠ "" ∧ known = field then "" else field
def buildField (known field : String) : String := if known ≠ "" then known else field

/-- "Remove any fields that are duplicated and known by iterator" -/
def elide (k : Known) (r : Rec) : Rec :=
  { r with objectID := elideField k.objectID r.objectID, objectType := elideField k.objectType r.objectType,
           relation := elideField k.relation r.relation, userType := elideField k.userType r.userType }

/-- `buildTuple` -/
def build (k : Known) (r : Rec) : Rec :=
  { r with objectType := buildField k.objectType r.objectType, objectID := buildField k.objectID r.objectID,
           relation := buildField k.relation r.relation, userType := buildField k.userType r.userType }

/-- the tuple agrees with everything the key fixes -/
def Matches (k : Known) (r : Rec) : Prop :=
  (k.objectType ≠ "" → r.objectType = k.objectType) ∧ (k.objectID ≠ "" → r.objectID = k.objectID) ∧
  (k.relation ≠ "" → r.relation = k.relation) ∧ (k.userType ≠ "" → r.userType = k.userType)

/-! ## the cache for one key, and histories of reads -/

structure Cache (ρ : Type) where
  entry : Option (List ρ × Nat) := none     -- records, LastModified (= initializedAt of the writer)
  markers : List Nat := []                  -- LastModified of the invalidation entries that apply to the key
  deriving Repr

/-- `findInCache`: the entry is served iff no marker is newer (`ts.Before(invalid.LastModified)`); a stale entry is deleted -/
def Cache.find (c : Cache ρ) : Option (List ρ) × Cache ρ :=
  match c.entry with
  | none => (none, c)
  | some (recs, ts) => if c.markers.any (fun m => ts < m) then (none, { c with entry := none }) else (some recs, c)

/-- `isInvalidAt(initializedAt)` -/
def Cache.invalidAt (c : Cache ρ) (ts : Nat) : Bool := c.markers.any (fun m => ts < m)

inductive Ev (α : Type) where
  /-- one read at time `now`: on a miss the datastore answers with `script`, the caller drives the iterator with
  `ops`, stops it, the goroutine runs under `env` -/
  | read (now : Nat) (script : List (El α)) (headConsumes : Bool) (ops : List Op) (env : Env)
  | evict                                    -- theine drops the entry (TTL, size): arbitrary
  | invalidate (ts : Nat)                    -- the cache controller / a write sets a marker
  | dropMarkers                              -- markers are cache entries too: they can be evicted
  deriving Repr

/-- what a read returned: from the cache (the rebuilt records) or from the datastore (results of the caller's ops) -/
inductive ReadOut (α ρ : Type) where
  | cached (recs : List ρ)
  | direct (rs : List (Res α)) (written : Option (List ρ))
  deriving Repr

def stepHist (conv : α → ρ) (maxSize : Nat) (c : Cache ρ) : Ev α → Option (ReadOut α ρ) × Cache ρ
  | .evict => (none, { c with entry := none })
  | .invalidate ts => (none, { c with markers := ts :: c.markers })
  | .dropMarkers => (none, { c with markers := [] })
  | .read now script hc ops env =>
    match c.find with
    | (some recs, c') => (some (.cached recs), c')
    | (none, c') =>
      -- the goroutine's own look at the cache: `hit` and `invalidated` are what the model's cache says
      let env := { env with hit := false, invalidated := c'.invalidAt now }
      let (rs, w, _) := useIter conv script hc maxSize ops env
      match w with
      | some recs => (some (.direct rs w), { c' with entry := some (recs, now) })
      | none => (some (.direct rs none), c')

def runHist (conv : α → ρ) (maxSize : Nat) : List (Ev α) → Cache ρ → List (Option (ReadOut α ρ)) × Cache ρ
  | [], c => ([], c)
  | e :: es, c =>
    let (o, c') := stepHist conv maxSize c e
    let (os, c'') := runHist conv maxSize es c'
    (o :: os, c'')

end OpenFGAVerif.Model.IterCache
