/-
Model of the V2 iterator cache (pkg/storage/storagewrappers/iterator_cache.go: `CachingIterator`), core Lean only.
Same shape as the V1 model (`Model/IterCache.lean`); the differences are the ones in the source:

  * the size test is `len(tuples) > maxSize` (V1: `>=`);
  * the goroutine of `Stop` only looks whether *some* V2 entry is present (no invalidation test before writing);
  * the drain runs under its own context `context.WithTimeout(context.Background(), drainTimeout)`: no request or
    server context reaches the underlying iterator; the oracle is the step at which the timeout fires;
  * the loop tests `drainCtx.Err()` before every `Next`; any error other than `Done` drops the buffer;
  * `flush` does not write an empty result and tests no context;
  * the records keep object id, user and condition only (`reconstruct` takes object type and relation from the key
    and drops the time stamp).
-/
import OpenFGAVerif.Model.IterCache

namespace OpenFGAVerif.Model.IterCacheV2
open OpenFGAVerif.Model.Iter OpenFGAVerif.Model.IterCache

variable {α ρ : Type}

structure VIter (α : Type) where
  under : UIter α
  tuples : Option (List α) := some []
  closing : Bool := false
  maxSize : Nat
  deriving Repr

def VIter.next (s : VIter α) (c : Bool) : Res α × VIter α :=
  if s.closing then (.done, s) else
  match s.under.next c with
  | (.err e v, u) =>
    (.err e v, { s with under := u, tuples := if e.isDoneOrCancelled then s.tuples else none })
  | (.ok t, u) =>
    let tuples := match s.tuples with
      | none => none
      | some l => if (l ++ [t]).length > s.maxSize then none else some (l ++ [t])
    (.ok t, { s with under := u, tuples := tuples })

def VIter.head (s : VIter α) (c : Bool) : Res α × VIter α :=
  if s.closing then (.done, s) else
  let (r, u) := s.under.head c
  (r, { s with under := u })

structure VEnv where
  timeoutAt : Option Nat := none   -- the drain context is done from this step on (step 1 = `Head`, then per loop turn)
  hit : Bool := false              -- some V2 entry is already stored under the key
  sfShared : Bool := false
  deriving Repr, DecidableEq

def VEnv.timedOut (e : VEnv) (step : Nat) : Bool :=
  match e.timeoutAt with
  | none => false
  | some k => k ≤ step

/-- `flush`: an empty buffer is not written -/
def flushV (conv : α → ρ) : Option (List α) → Option (List ρ)
  | none => none
  | some [] => none
  | some l => some (l.map conv)

/-- the loop inside `sf.Do` -/
def drainLoopV (conv : α → ρ) (maxSize : Nat) (env : VEnv) :
    List (El α) → UIter α → Option (List α) → Nat → Option (List ρ) × UIter α
  | [], u, buf, step =>
    if env.timedOut step then (none, u)                    -- `drainCtx.Err() != nil`: buffer dropped
    else (flushV conv buf, { u with reads := u.reads + 1 })  -- Done: flush
  | .fail _ :: r, u, _, step =>
    if env.timedOut step then (none, u) else (none, { u with rem := r, reads := u.reads + 1 })
  | .item a :: r, u, buf, step =>
    if env.timedOut step then (none, u) else
    let u := { u with rem := r, reads := u.reads + 1 }
    match buf with
    | none => (none, u)                                    -- abandoned
    | some l =>
      if (l ++ [a]).length > maxSize then (none, u)
      else drainLoopV conv maxSize env r u (some (l ++ [a])) (step + 1)

def VIter.stop (conv : α → ρ) (s : VIter α) (env : VEnv) : Option (List ρ) × VIter α :=
  if s.closing then (none, s) else
  let s := { s with closing := true }
  match s.tuples with
  | none => (none, { s with under := s.under.stop })
  | some l =>
    if env.hit then (none, { s with under := s.under.stop, tuples := none })
    else
      let (h, u) := s.under.head (env.timedOut 1)
      match h with
      | .err .done _ => (flushV conv (some l), { s with under := u.stop, tuples := none })
      | _ =>
        if env.sfShared then (none, { s with under := u.stop })
        else
          let (written, u') := drainLoopV conv s.maxSize env u.rem u (some l) 2
          (written, { s with under := u'.stop, tuples := none })

def VIter.runOps : List Op → VIter α → List (Res α) × VIter α
  | [], s => ([], s)
  | .next c :: ops, s => let (r, s') := s.next c; let (rs, s'') := runOps ops s'; (r :: rs, s'')
  | .head c :: ops, s => let (r, s') := s.head c; let (rs, s'') := runOps ops s'; (r :: rs, s'')
  | .stop :: ops, s => runOps ops s

def VIter.start (script : List (El α)) (headConsumes : Bool) (maxSize : Nat) : VIter α :=
  { under := { rem := script, headConsumes := headConsumes }, maxSize := maxSize }

def useIterV (conv : α → ρ) (script : List (El α)) (headConsumes : Bool) (maxSize : Nat) (ops : List Op) (env : VEnv) :
    List (Res α) × Option (List ρ) × VIter α :=
  let (rs, s) := (VIter.start script headConsumes maxSize).runOps ops
  let (w, s') := s.stop conv env
  (rs, w, s')

end OpenFGAVerif.Model.IterCacheV2
