/-
Model of the cache-key builder (pkg/storage/cache/keys) and of the key functions that use it.
Core Lean only.

  Builder.Encode* / types.go WriteTo        → `Val`, `enc` (tags are a parameter `T : Tags`;
                                               the instance `genTags` is regenerated from the source)
  binary.AppendUvarint                      → `uvarint`          (spec-level inverse `decUvarint`)
  binary.LittleEndian.AppendUint64          → `le64`             (inverse `fromLE`)
  (nothing in Go: the builder is one-way)   → `dec`              the decoder that witnesses injectivity
  PbValue.WriteTo (explicit stack)          → `run` / `pbWriteTo`; recursive reading `pbToVal`
  Tuple.WriteTo                             → `encTuple`
  sort.Sort(TupleKeys) for n ≤ 12           → `goSort tupleLess`  (insertion sort of package sort)
  slices.Sort on strings                    → `sortBytes`         (any correct sort: the result is unique)
  CheckCacheKey, ChangelogCacheKey, …       → `encLayout` over a field list parsed from `Gen.Keys.*Ops`
  InvariantCacheKey / ReadKey / ReadUsersetTuplesKey / ReadStartingWithUserKey
                                            → `invariantPre`, `readKeyPre`, `rutPre`, `rswuPre` + layouts
  keys.Digest (xxhash64 with Seed)          → `xxh64` (used by the driver only; theorems take the digest
                                               as an arbitrary function `H`)

Lengths are `Nat`; Go's `uint64(len(x))` never exceeds 2^63, so `uvarint` is exact there.
-/
import OpenFGAVerif.Gen.Keys

namespace OpenFGAVerif.Model.Keys

abbrev Bytes := List UInt8

/-! ## tags -/

structure Tags where
  null : UInt8
  byte : UInt8
  bool : UInt8
  uint64 : UInt8
  string : UInt8
  bytes : UInt8
  array : UInt8
  map : UInt8
  pair : UInt8
  key : UInt8
  value : UInt8
  unset : UInt8

def Tags.toList (T : Tags) : List UInt8 :=
  [T.null, T.byte, T.bool, T.uint64, T.string, T.bytes, T.array, T.map, T.pair, T.key, T.value, T.unset]

/-- the tags of the current source (const block of build.go) -/
def genTags : Tags :=
  { null := Gen.Keys.tagNull, byte := Gen.Keys.tagByte, bool := Gen.Keys.tagBool, uint64 := Gen.Keys.tagUint64,
    string := Gen.Keys.tagString, bytes := Gen.Keys.tagBytes, array := Gen.Keys.tagArray, map := Gen.Keys.tagMap,
    pair := Gen.Keys.tagPair, key := Gen.Keys.tagKey, value := Gen.Keys.tagValue, unset := Gen.Keys.tagUnset }

/-- position of a tag byte in the tag list (12 = not a tag) -/
def kindIdx (T : Tags) (t : UInt8) : Nat := T.toList.idxOf t

/-! ## uvarint, little-endian -/

/-- `binary.AppendUvarint`: 7 bits per byte, least significant first, high bit = "more". -/
def uvarintF : Nat → Nat → Bytes
  | 0, n => [UInt8.ofNat n]
  | f + 1, n => if n < 128 then [UInt8.ofNat n] else UInt8.ofNat (n % 128 + 128) :: uvarintF f (n / 128)

def uvarint (n : Nat) : Bytes := uvarintF n n

def decUvarint : Bytes → Option (Nat × Bytes)
  | [] => none
  | b :: rest =>
    if b.toNat < 128 then some (b.toNat, rest)
    else match decUvarint rest with
      | none => none
      | some (n, r) => some (b.toNat - 128 + 128 * n, r)

def bytesLE : Nat → Nat → Bytes
  | 0, _ => []
  | k + 1, m => UInt8.ofNat (m % 256) :: bytesLE k (m / 256)

/-- `binary.LittleEndian.AppendUint64` -/
def le64 (n : UInt64) : Bytes := bytesLE 8 n.toNat

def fromLE : Bytes → Nat
  | [] => 0
  | b :: bs => b.toNat + 256 * fromLE bs

def takeN (n : Nat) (bs : Bytes) : Option (Bytes × Bytes) :=
  if n ≤ bs.length then some (bs.take n, bs.drop n) else none

/-! ## the Builder grammar -/

inductive Val where
  | null | unset
  | byte (b : UInt8) | bool (b : Bool) | u64 (n : UInt64)
  | str (s : Bytes) | bytes (s : Bytes)
  | arr (xs : List Val)
  | map (es : List (Val × Val))
  | pair (k v : Val)
  deriving Repr, Inhabited

def encStr (T : Tags) (s : Bytes) : Bytes := T.string :: (uvarint s.length ++ s)
def encBytes (T : Tags) (s : Bytes) : Bytes := T.bytes :: (uvarint s.length ++ s)
def encBool (T : Tags) (b : Bool) : Bytes := [T.bool, if b then 1 else 0]
def encU64 (T : Tags) (n : UInt64) : Bytes := T.uint64 :: le64 n
def arrHdr (T : Tags) (n : Nat) : Bytes := T.array :: uvarint n
def mapHdr (T : Tags) (n : Nat) : Bytes := T.map :: uvarint n

mutual
/-- what `v.WriteTo(kb)` appends -/
def enc (T : Tags) : Val → Bytes
  | .null => [T.null]
  | .unset => [T.unset]
  | .byte b => [T.byte, b]
  | .bool b => encBool T b
  | .u64 n => encU64 T n
  | .str s => encStr T s
  | .bytes s => encBytes T s
  | .arr xs => arrHdr T xs.length ++ encList T xs
  | .map es => mapHdr T es.length ++ encEntries T es
  | .pair k v => T.pair :: T.key :: (enc T k ++ T.value :: enc T v)
def encList (T : Tags) : List Val → Bytes
  | [] => []
  | x :: xs => enc T x ++ encList T xs
def encEntries (T : Tags) : List (Val × Val) → Bytes
  | [] => []
  | (k, v) :: es => enc T k ++ (enc T v ++ encEntries T es)
end

mutual
/-- nesting depth (fuel the decoder needs) -/
def depth : Val → Nat
  | .arr xs => depthList xs + 1
  | .map es => depthEntries es + 1
  | .pair k v => max (depth k) (depth v) + 1
  | _ => 1
def depthList : List Val → Nat
  | [] => 0
  | x :: xs => max (depth x) (depthList xs)
def depthEntries : List (Val × Val) → Nat
  | [] => 0
  | (k, v) :: es => max (max (depth k) (depth v)) (depthEntries es)
end

def decListWith (d : Bytes → Option (Val × Bytes)) : Nat → Bytes → Option (List Val × Bytes)
  | 0, r => some ([], r)
  | n + 1, r =>
    match d r with
    | none => none
    | some (x, r1) =>
      match decListWith d n r1 with
      | none => none
      | some (xs, r2) => some (x :: xs, r2)

def decEntriesWith (d : Bytes → Option (Val × Bytes)) : Nat → Bytes → Option (List (Val × Val) × Bytes)
  | 0, r => some ([], r)
  | n + 1, r =>
    match d r with
    | none => none
    | some (k, r1) =>
      match d r1 with
      | none => none
      | some (v, r2) =>
        match decEntriesWith d n r2 with
        | none => none
        | some (es, r3) => some ((k, v) :: es, r3)

/-- The decoder (does not exist in Go: the builder is one-way).  `fuel` bounds the nesting depth. -/
def dec (T : Tags) : Nat → Bytes → Option (Val × Bytes)
  | 0, _ => none
  | _ + 1, [] => none
  | f + 1, t :: rest =>
    match kindIdx T t with
    | 0 => some (.null, rest)
    | 1 => match rest with
      | b :: r => some (.byte b, r)
      | [] => none
    | 2 => match rest with
      | b :: r => if b = 0 then some (.bool false, r) else if b = 1 then some (.bool true, r) else none
      | [] => none
    | 3 => match takeN 8 rest with
      | some (p, r) => some (.u64 (UInt64.ofNat (fromLE p)), r)
      | none => none
    | 4 => match decUvarint rest with
      | some (n, r) => (match takeN n r with
        | some (p, r') => some (.str p, r')
        | none => none)
      | none => none
    | 5 => match decUvarint rest with
      | some (n, r) => (match takeN n r with
        | some (p, r') => some (.bytes p, r')
        | none => none)
      | none => none
    | 6 => match decUvarint rest with
      | some (n, r) => (match decListWith (dec T f) n r with
        | some (xs, r') => some (.arr xs, r')
        | none => none)
      | none => none
    | 7 => match decUvarint rest with
      | some (n, r) => (match decEntriesWith (dec T f) n r with
        | some (es, r') => some (.map es, r')
        | none => none)
      | none => none
    | 8 => match rest with
      | k :: r =>
        if k = T.key then
          match dec T f r with
          | some (kv, r1) => (match r1 with
            | m :: r2 =>
              if m = T.value then
                match dec T f r2 with
                | some (vv, r3) => some (.pair kv vv, r3)
                | none => none
              else none
            | [] => none)
          | none => none
        else none
      | [] => none
    | 11 => some (.unset, rest)
    | _ => none

/-- decode one value from the front of a byte string -/
def decode (T : Tags) (bs : Bytes) : Option (Val × Bytes) := dec T bs.length bs

/-- decode a whole byte string as a sequence of fields (what a key is) -/
def decodeAllF (T : Tags) : Nat → Bytes → Option (List Val)
  | _, [] => some []
  | 0, _ :: _ => none
  | f + 1, b :: bs =>
    match decode T (b :: bs) with
    | none => none
    | some (v, r) =>
      match decodeAllF T f r with
      | none => none
      | some vs => some (v :: vs)

def decodeAll (T : Tags) (bs : Bytes) : Option (List Val) := decodeAllF T bs.length bs

/-! ## byte-string order, sorting -/

/-- lexicographic lift of a strict order (shorter prefix first) -/
def lexLt {α : Type} (lt : α → α → Bool) : List α → List α → Bool
  | [], [] => false
  | [], _ :: _ => true
  | _ :: _, [] => false
  | a :: as, b :: bs => if lt a b then true else if lt b a then false else lexLt lt as bs

def u8Lt (a b : UInt8) : Bool := decide (a.toNat < b.toNat)

/-- Go's `<` on strings: bytewise lexicographic -/
def bytesLt (a b : Bytes) : Bool := lexLt u8Lt a b

def insertBy {α : Type} (le : α → α → Bool) (x : α) : List α → List α
  | [] => [x]
  | y :: ys => if le x y then x :: y :: ys else y :: insertBy le x ys

def isort {α : Type} (le : α → α → Bool) : List α → List α
  | [] => []
  | x :: xs => insertBy le x (isort le xs)

def bytesLe (a b : Bytes) : Bool := !bytesLt b a

/-- `slices.Sort` on strings (the result of any correct sort is the same list) -/
def sortBytes (l : List Bytes) : List Bytes := isort bytesLe l

def keyLe {β : Type} (a b : Bytes × β) : Bool := bytesLe a.1 b.1

def sortByKey {β : Type} (l : List (Bytes × β)) : List (Bytes × β) := isort keyLe l

/-! ## structpb.Value -/

/-- `structpb.Value`; a nil `*Value` and a `Value` without kind are both `unset`; a nil list/struct
wrapper is the empty list/struct; numbers are their IEEE-754 bits (`math.Float64bits`).
A struct is a Go map: its field list is unordered and has pairwise different keys (`pbWF`). -/
inductive PbV where
  | unset | null
  | bool (b : Bool)
  | num (bits : UInt64)
  | str (s : Bytes)
  | list (vs : List PbV)
  | struct (fs : List (Bytes × PbV))
  deriving Repr, Inhabited

mutual
def pbSize : PbV → Nat
  | .list vs => pbSizeList vs + 1
  | .struct fs => pbSizeFields fs + 1
  | _ => 1
def pbSizeList : List PbV → Nat
  | [] => 0
  | v :: vs => pbSize v + pbSizeList vs
def pbSizeFields : List (Bytes × PbV) → Nat
  | [] => 0
  | (_, v) :: fs => pbSize v + pbSizeFields fs
end

def keysOf {β : Type} (fs : List (Bytes × β)) : List Bytes := fs.map (·.1)

/-- no duplicate element (Bool, so that the driver can test it) -/
def nodupB : List Bytes → Bool
  | [] => true
  | x :: xs => !xs.contains x && nodupB xs

mutual
/-- well-formed: every struct has pairwise different keys (it is a Go map) -/
def pbWF : PbV → Bool
  | .list vs => pbWFList vs
  | .struct fs => nodupB (keysOf fs) && pbWFFields fs
  | _ => true
def pbWFList : List PbV → Bool
  | [] => true
  | v :: vs => pbWF v && pbWFList vs
def pbWFFields : List (Bytes × PbV) → Bool
  | [] => true
  | (_, v) :: fs => pbWF v && pbWFFields fs
end

mutual
/-- normal form: fields of every struct sorted by key -/
def pbNorm : PbV → PbV
  | .list vs => .list (pbNormList vs)
  | .struct fs => .struct (sortByKey (pbNormFields fs))
  | v => v
def pbNormList : List PbV → List PbV
  | [] => []
  | v :: vs => pbNorm v :: pbNormList vs
def pbNormFields : List (Bytes × PbV) → List (Bytes × PbV)
  | [] => []
  | (k, v) :: fs => (k, pbNorm v) :: pbNormFields fs
end

mutual
/-- structure-preserving translation to the builder grammar (no sorting) -/
def pbRaw : PbV → Val
  | .unset => .unset
  | .null => .null
  | .bool b => .bool b
  | .num n => .u64 n
  | .str s => .str s
  | .list vs => .arr (pbRawList vs)
  | .struct fs => .map (pbRawFields fs)
def pbRawList : List PbV → List Val
  | [] => []
  | v :: vs => pbRaw v :: pbRawList vs
def pbRawFields : List (Bytes × PbV) → List (Val × Val)
  | [] => []
  | (k, v) :: fs => (.str k, pbRaw v) :: pbRawFields fs
end

/-- the recursive reading of `PbValue.WriteTo`: sort the keys of every struct, then encode -/
def pbToVal (v : PbV) : Val := pbRaw (pbNorm v)

/-- a frame of the explicit stack -/
structure Frame where
  key : Option Bytes
  value : PbV
  deriving Repr

def lookupField (k : Bytes) : List (Bytes × PbV) → PbV
  | [] => .unset
  | (k', v) :: fs => if k' = k then v else lookupField k fs

/-- `keys := …; slices.Sort(keys)`; one frame per key with `fields[key]`, first key on top -/
def pushFields (fs : List (Bytes × PbV)) : List Frame :=
  (sortBytes (keysOf fs)).map (fun k => ⟨some k, lookupField k fs⟩)

def pushValues (vs : List PbV) : List Frame := vs.map (fun v => ⟨none, v⟩)

/-- The loop of `PbValue.WriteTo`.  Head of the list = top of the stack.  `fuel` = iterations. -/
def run (T : Tags) : Nat → List Frame → Bytes → Bytes
  | 0, _, out => out
  | _ + 1, [], out => out
  | f + 1, fr :: stack, out =>
    let out := match fr.key with
      | some k => out ++ encStr T k
      | none => out
    match fr.value with
    | .bool b => run T f stack (out ++ encBool T b)
    | .null => run T f stack (out ++ [T.null])
    | .str s => run T f stack (out ++ encStr T s)
    | .num n => run T f stack (out ++ encU64 T n)
    | .unset => run T f stack (out ++ [T.unset])
    | .list vs => run T f (pushValues vs ++ stack) (out ++ arrHdr T vs.length)
    | .struct fs => run T f (pushFields fs ++ stack) (out ++ mapHdr T (sortBytes (keysOf fs)).length)

/-- `(*PbValue).WriteTo` for a non-nil receiver (a nil receiver writes `tagUnset`, as `unset` does) -/
def pbWriteTo (T : Tags) (v : PbV) : Bytes := run T (pbSize v) [⟨none, v⟩] []

/-! ## tuples -/

structure Cond where
  name : Bytes
  /-- `condition.GetContext()`: nil and the empty struct are the same field list -/
  ctx : List (Bytes × PbV)
  deriving Repr

structure Tup where
  object : Bytes
  relation : Bytes
  user : Bytes
  cond : Option Cond
  deriving Repr

def encCond (T : Tags) : Option Cond → Bytes
  | none => []
  | some c => encStr T c.name ++ enc T (pbToVal (.struct c.ctx))

/-- `(*Tuple).WriteTo` -/
def encTuple (T : Tags) (t : Tup) : Bytes :=
  encStr T t.object ++ (encStr T t.relation ++ (encStr T t.user ++ encCond T t.cond))

def encTuples (T : Tags) : List Tup → Bytes
  | [] => []
  | t :: ts => encTuple T t ++ encTuples T ts

def condName : Option Cond → Bytes
  | none => []
  | some c => c.name

/-- `TupleKeys.Less(i, j)` — note the final `return true` -/
def tupleLess (a b : Tup) : Bool :=
  if a.object ≠ b.object then bytesLt a.object b.object
  else if a.relation ≠ b.relation then bytesLt a.relation b.relation
  else if a.user ≠ b.user then bytesLt a.user b.user
  else if (a.cond.isSome || b.cond.isSome) && condName a.cond ≠ condName b.cond then
    bytesLt (condName a.cond) (condName b.cond)
  else true

/-- inner loop of `insertionSort` of package sort on the reversed sorted prefix:
`for j := i; j > a && less(j, j-1); j-- { swap(j, j-1) }` -/
def insRev {α : Type} (less : α → α → Bool) (x : α) : List α → List α
  | [] => [x]
  | y :: ys => if less x y then y :: insRev less x ys else x :: y :: ys

/-- `sort.Sort` for `n ≤ 12` (pdqsort falls back to `insertionSort`) -/
def goSort {α : Type} (less : α → α → Bool) (l : List α) : List α :=
  (l.foldl (fun acc x => insRev less x acc) []).reverse

/-- the sort key `TupleKeys.Less` looks at -/
def tupleKey (t : Tup) : List Bytes := [t.object, t.relation, t.user, condName t.cond]

/-! ## key layouts (plain sequences of EncodeString / EncodeUint64) -/

inductive Field where
  | lit (b : Bytes)
  | str (arg : String)
  | u64 (arg : String)
  deriving Repr, DecidableEq

structure Env where
  str : String → Bytes
  u64 : String → UInt64

def Field.val (e : Env) : Field → Val
  | .lit b => .str b
  | .str a => .str (e.str a)
  | .u64 a => .u64 (e.u64 a)

def parseField (op : String × String × List UInt8) : Option Field :=
  if op.1 = "lit" then some (.lit op.2.2)
  else if op.1 = "str" then some (.str op.2.1)
  else if op.1 = "u64" then some (.u64 op.2.1)
  else none

def parseFields : List (String × String × List UInt8) → Option (List Field)
  | [] => some []
  | op :: ops =>
    match parseField op, parseFields ops with
    | some f, some fs => some (f :: fs)
    | _, _ => none

def isOp (k : String) (op : String × String × List UInt8) : Bool := op.1 = k

/-- a plain key site: fields followed by `Key()` -/
def parseLayout (ops : List (String × String × List UInt8)) : Option (List Field) :=
  match ops.reverse with
  | last :: revInit => if isOp "key" last then parseFields revInit.reverse else none
  | [] => none

/-- operations after the (single) `Reset()` -/
def afterReset : List (String × String × List UInt8) → List (String × String × List UInt8)
  | [] => []
  | op :: ops => if isOp "reset" op then ops else afterReset ops

/-- operations before the first `Bytes()` -/
def beforeBytes : List (String × String × List UInt8) → List (String × String × List UInt8)
  | [] => []
  | op :: ops => if isOp "bytes" op then [] else op :: beforeBytes ops

def encLayout (T : Tags) (e : Env) (L : List Field) : Bytes := encList T (L.map (Field.val e))

def envOf (ss : List (String × Bytes)) (us : List (String × UInt64)) : Env :=
  { str := fun a => (ss.lookup a).getD [], u64 := fun a => (us.lookup a).getD 0 }

/-! ## the composite keys -/

def strArr (l : List Bytes) : Val := .arr (l.map .str)

/-- `copyConditions` + `EncodeArray` -/
def condArr (conds : List Bytes) : Val := strArr (sortBytes conds)

/-- `ReadKey`: bytes handed to the digest -/
def readKeyPre (T : Tags) (conds : List Bytes) : Bytes := enc T (condArr conds)

/-- `tuple.ToObjectRelationString` when the relation is non-empty, else the object -/
def subjectString (objRel : Bytes × Bytes) : Bytes :=
  if objRel.2 = [] then objRel.1 else objRel.1 ++ [35] ++ objRel.2

/-- `RelationReference`: 0 = plain type, 1 = type#relation, 2 = type:* -/
structure RelRef where
  type : Bytes
  kind : Nat
  relation : Bytes
  deriving Repr

def refString (r : RelRef) : Bytes :=
  if r.kind = 1 then r.type ++ [35] ++ r.relation
  else if r.kind = 2 then r.type ++ [58, 42]
  else r.type

/-- `ReadUsersetTuplesKey`: bytes handed to the digest -/
def rutPre (T : Tags) (refs : List RelRef) (conds : List Bytes) : Bytes :=
  enc T (strArr (sortBytes (refs.map refString))) ++ enc T (condArr conds)

/-- `ReadStartingWithUserKey`: bytes handed to the digest.  `oids` = `filter.ObjectIDs.Values()`
(`none` = nil set); nil and empty give the same array. -/
def rswuPre (T : Tags) (userFilter : List (Bytes × Bytes)) (oids : Option (List Bytes)) (conds : List Bytes) : Bytes :=
  enc T (strArr (sortBytes (userFilter.map subjectString))) ++
    (enc T (strArr (oids.getD [])) ++ enc T (condArr conds))

/-- `InvariantCacheKey`: bytes handed to the digest.  `srt` is what `sort.Sort(TupleKeys)` does. -/
def invariantPre (T : Tags) (srt : List Tup → List Tup) (store model : Bytes) (ctx : List (Bytes × PbV))
    (tuples : List Tup) : Bytes :=
  encStr T store ++ (encStr T model ++ (arrHdr T (srt tuples).length ++ (encTuples T (srt tuples) ++
    enc T (pbToVal (.struct ctx)))))

/-! ## the key functions (layout = field list of the site, parsed from `Gen.Keys.*Ops` by the driver,
pinned by tie lemmas in the proofs); `H` is the digest -/

def checkKey (T : Tags) (L : List Field) (store object relation user : Bytes) (invariant : UInt64) : Bytes :=
  encLayout T (envOf [("storeID", store), ("object", object), ("relation", relation), ("user", user)]
    [("invariant", invariant)]) L

def invariantKey (T : Tags) (H : Bytes → UInt64) (srt : List Tup → List Tup) (store model : Bytes)
    (ctx : List (Bytes × PbV)) (tuples : List Tup) : UInt64 :=
  H (invariantPre T srt store model ctx tuples)

def readKey (T : Tags) (H : Bytes → UInt64) (L : List Field) (store object relation user : Bytes)
    (conds : List Bytes) : Bytes :=
  encLayout T (envOf [("store", store), ("filter.Object", object), ("filter.Relation", relation), ("filter.User", user)]
    [("suffix", H (readKeyPre T conds))]) L

def rutKey (T : Tags) (H : Bytes → UInt64) (L : List Field) (store object relation : Bytes)
    (refs : List RelRef) (conds : List Bytes) : Bytes :=
  encLayout T (envOf [("store", store), ("filter.Object", object), ("filter.Relation", relation)]
    [("suffix", H (rutPre T refs conds))]) L

def rswuKey (T : Tags) (H : Bytes → UInt64) (L : List Field) (store objectType relation : Bytes)
    (userFilter : List (Bytes × Bytes)) (oids : Option (List Bytes)) (conds : List Bytes) : Bytes :=
  encLayout T (envOf [("store", store), ("filter.ObjectType", objectType), ("filter.Relation", relation)]
    [("suffix", H (rswuPre T userFilter oids conds))]) L

/-! ## xxhash64 (github.com/cespare/xxhash/v2, `NewWithSeed`) — driver only -/

namespace XX
def p1 : UInt64 := 11400714785074694791
def p2 : UInt64 := 14029467366897019727
def p3 : UInt64 := 1609587929392839161
def p4 : UInt64 := 9650029242287828579
def p5 : UInt64 := 2870177450012600261

def rotl (x : UInt64) (r : UInt64) : UInt64 := (x <<< r) ||| (x >>> (64 - r))

def rd (n : Nat) (b : Bytes) : UInt64 := UInt64.ofNat (fromLE (b.take n))

def round (acc input : UInt64) : UInt64 := rotl (acc + input * p2) 31 * p1

def mergeRound (acc val : UInt64) : UInt64 := (acc ^^^ round 0 val) * p1 + p4

def stripes : Nat → Bytes → UInt64 × UInt64 × UInt64 × UInt64 → (UInt64 × UInt64 × UInt64 × UInt64) × Bytes
  | 0, b, v => (v, b)
  | f + 1, b, (v1, v2, v3, v4) =>
    if b.length < 32 then ((v1, v2, v3, v4), b)
    else stripes f (b.drop 32)
      (round v1 (rd 8 b), round v2 (rd 8 (b.drop 8)), round v3 (rd 8 (b.drop 16)), round v4 (rd 8 (b.drop 24)))

def tail : Nat → Bytes → UInt64 → UInt64
  | 0, _, h => h
  | f + 1, b, h =>
    if b.length ≥ 8 then tail f (b.drop 8) (rotl (h ^^^ round 0 (rd 8 b)) 27 * p1 + p4)
    else if b.length ≥ 4 then tail f (b.drop 4) (rotl (h ^^^ (rd 4 b * p1)) 23 * p2 + p3)
    else match b with
      | [] => h
      | x :: r => tail f r (rotl (h ^^^ (UInt64.ofNat x.toNat * p5)) 11 * p1)

def avalanche (h : UInt64) : UInt64 :=
  let h := (h ^^^ (h >>> 33)) * p2
  let h := (h ^^^ (h >>> 29)) * p3
  h ^^^ (h >>> 32)

def sum64 (seed : UInt64) (b : Bytes) : UInt64 :=
  let n := b.length
  let (h, r) :=
    if n ≥ 32 then
      let ((v1, v2, v3, v4), r) := stripes n b (seed + p1 + p2, seed + p2, seed, seed - p1)
      let h := rotl v1 1 + rotl v2 7 + rotl v3 12 + rotl v4 18
      (mergeRound (mergeRound (mergeRound (mergeRound h v1) v2) v3) v4, r)
    else (seed + p5, b)
  avalanche (tail (r.length + 1) r (h + UInt64.ofNat n))
end XX

/-- `keys.Digest` with `keys.Seed = seed` -/
def xxh64 (seed : UInt64) (b : Bytes) : UInt64 := XX.sum64 seed b

end OpenFGAVerif.Model.Keys
