/-
Two pieces of the ListObjects engines that the random correspondence reaches too rarely to pin by testing
alone (both found by mutation): each is modelled step for step, parameterised by what the extractor reads off
the source (`Gen.ListObjects`), and proved correct for the source as it is (Proofs/ListObjectsOps, Props/C05).

§1  `worker.Intersection.Execute` of the streaming pipeline (internal/listobjects/pipeline/internal/worker/
    intersection.go).  After every sender has completed, the worker holds one bag (set) per operand.  It scans
    the bags once, keeps the smallest as `output` and appends **every other** bag to `inputs`:

        objMin := len(bags[0]); indexMin := 0
        for i := 1; i < len(bags); i++ {
            bag := bags[i]
            if len(bag) < objMin { inputs = append(inputs, bags[indexMin]); indexMin = i; objMin = len(bag) }
            else                 { inputs = append(inputs, bag) }
        }
        output := bags[indexMin];  delete from output every value missing in some input

    `Push` is the expression appended when a new minimum is found (`pushOfSource` reads it from the extracted
    source text); `Scan.minBag` = `bags[indexMin]` (so `objMin = minBag.length`), `Scan.prev` = `bags[i-1]`.
    A bag that is empty (sender without results and without errors) cancels the worker: nothing is sent.

§2  The error filter of `ReverseExpandQuery.loopOverEdges` (weighted engine,
    pkg/server/commands/reverseexpand/reverse_expand_weighted.go): the candidates of the lowest-weight edge of
    an intersection / exclusion go through a residual Check (`callCheckForCandidate`); a failure is wrapped in
    `*ExecutionError{cause}`; the pool keeps the first error and cancels.  After `pool.Wait()` the function
    turns an ExecutionError into `nil` when the guard of `return nil` holds — in the source: the cause is
    context.Canceled or context.DeadlineExceeded ("partial results on timeout").  `Filter` is that guard as
    extracted (`returnsNil`, `disjuncts`; an unknown disjunct is assumed to elide).  `wResponse` composes the
    residual stage with the consumer loop and the final rule of `Execute` (Model/RevExpand §4): an error that
    leaves `loopOverEdges` ends the call with an error (ExecutionError has no Unwrap: it is neither a
    cancellation nor ErrEvaluationFailed for `evaluate` / `Execute`).
-/
import OpenFGAVerif.Model.RevExpand

namespace OpenFGAVerif.LoOps

/-! ## §1 worker.Intersection: selection of the smallest bag -/

/-- which bag the branch `len(bag) < objMin` appends to `inputs` -/
inductive Push where
  /-- `w.bags[indexMin]`: the minimum so far (the source) -/
  | indexMin
  /-- `w.bags[i-1]`: the bag scanned just before -/
  | prev
  /-- `bag` = `w.bags[i]`: the new minimum itself -/
  | cur
  deriving DecidableEq, Repr

/-- the appended expression as the extractor prints it (`none`: an expression the model does not know) -/
def pushOfSource (s : String) : Option Push :=
  if s = "w.bags[indexMin].Unwrap()" then some .indexMin
  else if s = "w.bags[i-1].Unwrap()" || s = "w.bags[i - 1].Unwrap()" then some .prev
  else if s = "bag" || s = "w.bags[i].Unwrap()" then some .cur
  else none

/-- loop state: `inputs`, `minBag = w.bags[indexMin]` (`objMin` is its length), `prev = w.bags[i-1]` -/
structure Scan (α : Type) where
  inputs : List (List α)
  minBag : List α
  prev : List α

/-- one iteration of `for i := 1; i < len(w.bags); i++` -/
def scanStep {α : Type} (v : Push) (s : Scan α) (bag : List α) : Scan α :=
  if bag.length < s.minBag.length then
    { inputs := s.inputs ++ [match v with | .indexMin => s.minBag | .prev => s.prev | .cur => bag],
      minBag := bag, prev := bag }
  else { inputs := s.inputs ++ [bag], minBag := s.minBag, prev := bag }

def scan {α : Type} (v : Push) (b0 : List α) (rest : List (List α)) : Scan α :=
  rest.foldl (scanStep v) { inputs := [], minBag := b0, prev := b0 }

/-- `OutputLoop`: delete from `output` every value that some input lacks -/
def filterOut {α : Type} [DecidableEq α] (output : List α) (inputs : List (List α)) : List α :=
  output.filter (fun x => inputs.all (fun m => m.contains x))

/-- `Intersection.Execute` once all senders have completed: the values broadcast (a worker without senders
returns at once; an empty bag has cancelled the context: nothing is sent) -/
def interExec {α : Type} [DecidableEq α] (v : Push) : List (List α) → List α
  | [] => []
  | b0 :: rest =>
    if (b0 :: rest).any (·.isEmpty) then []
    else filterOut (scan v b0 rest).minBag (scan v b0 rest).inputs

/-! ## §2 weighted reverse expansion: which errors of the residual-check pool may be elided -/

/-- class of the cause of an error -/
inductive Cause where
  | canceled | deadline | condition | other
  deriving DecidableEq, Repr

/-- what `pool.Wait()` of `loopOverEdges` yields -/
inductive PoolErr where
  /-- `*ExecutionError{cause}`: the residual Check of an intersection / exclusion candidate failed -/
  | exec (c : Cause)
  /-- any other error -/
  | plain (c : Cause)
  deriving DecidableEq, Repr

/-- the guard of `return nil` inside `if errors.As(err, &executionError)`, as extracted: is there such a return,
and the disjuncts of its condition (none = unconditional) -/
structure Filter where
  returnsNil : Bool
  disjuncts : List String
  deriving DecidableEq, Repr

/-- a disjunct the model does not know is assumed to hold (elide) -/
def disjunctElides (d : String) (c : Cause) : Bool :=
  if d = "errors.Is(executionError.cause, context.Canceled)" then c = .canceled
  else if d = "errors.Is(executionError.cause, context.DeadlineExceeded)" then c = .deadline
  else true

def Filter.elides (f : Filter) (c : Cause) : Bool :=
  f.returnsNil && (f.disjuncts.isEmpty || f.disjuncts.any (fun d => disjunctElides d c))

/-- the error `loopOverEdges` returns -/
def loopResult (f : Filter) : Option PoolErr → Option PoolErr
  | some (.exec c) => if f.elides c then none else some (.exec c)
  | e => e

/-- the filter of the source (tied to `Gen.ListObjects` in Props/C05) -/
def codeFilter : Filter :=
  { returnsNil := true,
    disjuncts := ["errors.Is(executionError.cause, context.Canceled)", "errors.Is(executionError.cause, context.DeadlineExceeded)"] }

/-- outcome of the residual Check of one candidate -/
inductive RRes where
  | allow | deny | fail (c : Cause)
  deriving DecidableEq, Repr

def Cause.cancellation : Cause → Bool
  | .canceled | .deadline => true
  | _ => false

/-- the residual-check pool over the candidates in completion order (any order = any schedule): allowed
candidates are sent (status NoFurtherEval), denied ones dropped; the first failure is kept (`WithFirstError`)
and cancels the pool — of the candidates behind it those selected by `late` (a schedule choice) still complete -/
def residual (rchk : String → RRes) (late : String → Bool) : List String → List String × Option PoolErr
  | [] => ([], none)
  | o :: os =>
    match rchk o with
    | .allow => (o :: (residual rchk late os).1, (residual rchk late os).2)
    | .deny => residual rchk late os
    | .fail c => (os.filter (fun o' => late o' && decide (rchk o' = .allow)), some (.exec c))

/-- `evaluate` / `Execute`: a plain cancellation is elided (partial results on deadline), everything else —
an ExecutionError included, it has no `Unwrap` — ends the call with an error -/
def PoolErr.reported : PoolErr → Bool
  | .plain c => !c.cancellation
  | .exec _ => true

open OpenFGAVerif.RevExpand in
/-- the response of ListObjects through the weighted engine for an intersection / exclusion: residual stage,
error filter, consumer loop under schedule `evs`, final rule of `Execute`; `none` = the call returns an error -/
def wResponse (zeroErr : Bool) (f : Filter) (rchk : String → RRes) (late : String → Bool) (cands : List String)
    (limit : Nat) (evs : List Ev) : Option (List String) :=
  match loopResult f (residual rchk late cands).2 with
  | some e =>
    if e.reported then none
    else finalResult zeroErr limit (crun limit (fun _ => .allow) evs (CSt.init ((residual rchk late cands).1.map (fun o => (o, false)))))
  | none => finalResult zeroErr limit (crun limit (fun _ => .allow) evs (CSt.init ((residual rchk late cands).1.map (fun o => (o, false)))))

end OpenFGAVerif.LoOps
