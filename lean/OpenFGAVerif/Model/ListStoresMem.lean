/-
Model of `MemoryBackend.ListStores` (pkg/storage/memory/memory.go) as it is written, statement by statement (C14).
Core Lean only.

```
stores := make(…); for _, t := range s.stores { stores = append(stores, t) }      -- Go map order: unspecified
if len(options.IDs) > 0 { for _, storeID := range options.IDs { for _, store := range stores {
        if store.GetId() == storeID { filteredStores = append(filteredStores, store) } } }; stores = filteredStores }
if options.Name != "" { … store.GetName() == options.Name … ; stores = filteredStores }
sort.SliceStable(stores, func(i, j int) bool { return stores[i].GetId() < stores[j].GetId() })
from = max(0, min(len(stores), from)); to := min(len(stores), from+pageSize); res := stores[from:to]
if len(res) == 0 { return nil, "", nil }
if to != len(stores) { continuationToken = strconv.Itoa(to) }
```

* the map iteration order is an explicit argument: `collected` is the slice the `range s.stores` loop produced for
  THIS call (any permutation of the map's values — a different one on every call);
* the IDs filter rebuilds the slice in the order of the caller's id list (`idsFilter`, two nested loops);
* `sort.SliceStable` with `id <` = a stable sort by id (`sortById`, stable insertion sort; store ids are the map keys,
  hence distinct, so every sorting algorithm gives the same slice — proved, not assumed: `Proofs/ListStoresMem.lean`);
* the cut is `Model.Paging.memClampPage` plus the early return on an empty window (`cutPage`).

Store ids are modelled by their rank (`Nat`) in the bytewise order Go's `<` on strings uses.
`listStoresSortFirst` is the same function with the sort statement moved BEFORE the two filters (the order a
realistic refactoring produces): its result follows the caller's id order (`liststores_sort_before_filter_witness`).
-/
import OpenFGAVerif.Model.Paging

namespace OpenFGAVerif.Model.ListStoresMem
open OpenFGAVerif.Model.Paging

structure Store where
  id : Nat
  name : String
deriving DecidableEq, Repr

/-- `storage.ListStoresOptions` without the pagination part -/
structure Filter where
  /-- `options.IDs`, in the order the caller supplied them -/
  ids : List Nat := []
  /-- `options.Name` (`""` = no name filter) -/
  name : String := ""
deriving Repr

/-- the body of `if len(options.IDs) > 0`: for every id of the caller's list (in the caller's order) every store of
the slice (in slice order) with that id is appended -/
def idsFilter (ids : List Nat) (stores : List Store) : List Store :=
  ids.flatMap (fun i => stores.filter (fun s => s.id == i))

/-- the body of `if options.Name != ""` -/
def nameFilter (name : String) (stores : List Store) : List Store :=
  stores.filter (fun s => s.name == name)

/-- insert before the first element whose id is not smaller (keeps the order of equal ids: stable) -/
def insertById (x : Store) : List Store → List Store
  | [] => [x]
  | y :: ys => if x.id ≤ y.id then x :: y :: ys else y :: insertById x ys

/-- `sort.SliceStable(stores, id <)`: stable insertion sort by id -/
def sortById : List Store → List Store
  | [] => []
  | x :: xs => insertById x (sortById xs)

def applyIds (f : Filter) (stores : List Store) : List Store :=
  if f.ids.length > 0 then idsFilter f.ids stores else stores

def applyName (f : Filter) (stores : List Store) : List Store :=
  if f.name ≠ "" then nameFilter f.name stores else stores

/-- the slice `stores` at the point where the paging tail starts — statement order of today's source:
collect → IDs filter → name filter → sort -/
def filteredSorted (f : Filter) (collected : List Store) : List Store :=
  sortById (applyName f (applyIds f collected))

/-- the same statements with the sort moved in front of the filters (NOT today's source; negative witness) -/
def sortedFiltered (f : Filter) (collected : List Store) : List Store :=
  applyName f (applyIds f (sortById collected))

/-- the tail: clamp, cut, `if len(res) == 0 { return nil, "", nil }`, token -/
def cutPage (stores : List Store) (pageSize : Nat) (frm : Int) : List Store × Option Nat :=
  let r := memClampPage stores pageSize frm
  if r.1.isEmpty then ([], none) else r

/-- `MemoryBackend.ListStores` (`pageSize` is the value after `if options.Pagination.PageSize > 0`, `frm` the parsed
offset token, 0 when there is none) -/
def listStores (f : Filter) (collected : List Store) (pageSize : Nat) (frm : Int) : List Store × Option Nat :=
  cutPage (filteredSorted f collected) pageSize frm

def listStoresSortFirst (f : Filter) (collected : List Store) (pageSize : Nat) (frm : Int) : List Store × Option Nat :=
  cutPage (sortedFiltered f collected) pageSize frm

/-- what a store must satisfy to be listed -/
def keep (f : Filter) (s : Store) : Bool :=
  (f.ids.isEmpty || f.ids.contains s.id) && (f.name == "" || s.name == f.name)

/-- the client: follows the offset tokens; call number `c` is answered from the map order `coll c` and carries the id
list `idsAt c` (with access control the id list is recomputed — in any order — for every page request) -/
def followListStores (pager : Filter → List Store → Nat → Int → List Store × Option Nat)
    (coll : Nat → List Store) (idsAt : Nat → List Nat) (name : String) (pageSize : Nat) :
    Nat → Nat → Nat → Option (List (List Store))
  | 0, _, _ => none
  | fuel + 1, c, k =>
    match pager { ids := idsAt c, name := name } (coll c) pageSize (k : Int) with
    | (xs, none) => some [xs]
    | (xs, some n) => (followListStores pager coll idsAt name pageSize fuel (c + 1) n).map (xs :: ·)

end OpenFGAVerif.Model.ListStoresMem
