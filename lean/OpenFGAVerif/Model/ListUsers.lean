/-
Model of `pkg/server/commands/listusers/list_users_rpc.go`: the forward expansion of `(object, relation)`
into `foundUser` entries, as the code is written.

Two layers, like `Spec.BoolSys` / `Model.Dfs` / `Model.CheckV1` for Check:

* an abstract layer over nodes `N` (sub-problems `(object, relation)`) and user keys `K` (the strings of
  `tuple.UserProtoToString`): `LExpr` = what one `expand` step does after the depth and cycle tests,
  `LSys.rule`; the reducers `unionR` / `interR` / `exclR` follow `expandUnion` / `expandIntersection` /
  `expandExclusion` statement by statement; `expandF` is the executable evaluation for one schedule and
  `Expand` the relation over every schedule;
* the FGA instance `luRule` (`expand` → `expandRewrite` → `expandDirect` / `expandTTU` / computed userset).

What is a *schedule* here.  Every operand writes into a channel; `expandUnion` and `expandIntersection`
only count, so arrival order is irrelevant for them.  Three consumers build a `map[key]foundUser` by
plain assignment — the base map and the subtract map of `expandExclusion` and `foundUsersUnique` of
`ListUsers` — so for a key that arrives more than once the *last* arrival wins.  Which one is last
depends on goroutine scheduling (and on Go's randomised map iteration in the producers), hence the
model takes a chooser: for every key any of the entries with that key may be the survivor.

Ghost state (`Resp.notes`, not in the Go code): the places where the algorithm takes a step the proofs
cannot justify.  A response without notes is proved to be exactly the semantics
(`Proofs/ListUsers*.lean`); the notes name the mechanism of each confirmed defect:
  `status-clash`   a last-write-wins map received one key with both statuses                      (LU-C)
  `excl-wild-has`  exclusion, case "base has the wildcard": a base entry `NoRelationship` is re-issued
                   with the zero status `HasRelationship`                                            (LU-B)
  `excl-cycle`     the subtracted operand reported a cycle ⇒ the exclusion returns nothing and drops
                   the errors of both operands                                                      (F1 analogue)
  `excl-wild-flip` same case: a subtracted entry `NoRelationship` is re-issued `HasRelationship`
                   although the base lists that user as `NoRelationship`                              (LU-B)
  `excl-excluded-unread`  `expandExclusion` never reads `excludedUsers` of its operands               (LU-H)
  `excl-cycle`     the subtracted operand reported a cycle ⇒ the exclusion returns nothing and drops
                   the errors of both operands                                                      (F1 analogue)
  `excl-sub-cut`   (no defect by itself) the subtracted operand was cut by the cycle guard at a sub-problem
                   of the exclusion's own path (negation through recursion) below a rewrite that drops
                   `hasCycle`; its entries are relative to that path
  `union-excl-lost` / `union-excl-overcount`   `expandUnion` keeps an exception from the wildcard only
                   when its `excludedUsers` occurrences, counted per entry, equal the operand count  (LU-E)
  `inter-no-ignored` / `inter-excluded-has`    `expandIntersection` reads `excludedUsers` only        (LU-I)
  `bag-no-vs-wildcard`  producers sharing a channel: a negative entry of one hides a user another
                   covers by its wildcard                                                            (LU-J)
(Two former notes are gone with the fixes of LU-A — exclusion case "user is subtracted" now keeps the base
status — and LU-D — `expandDirect` sends objects / wildcards only for a filter without relation.)
-/
import OpenFGAVerif.Spec.Vocab
import OpenFGAVerif.Model.CheckV1

namespace OpenFGAVerif.ListUsers

/-- `userRelationshipStatus` (iota order: `HasRelationship`, `NoRelationship`) -/
inductive Status where
  | has | no
  deriving DecidableEq, Repr, Inhabited

/-- `foundUser` -/
structure Found (K : Type) where
  user : K
  status : Status := .has
  excluded : List K := []
  deriving Repr, DecidableEq

inductive ErrKind where
  | depth   -- graph.ErrResolutionDepthExceeded
  | cond    -- condition.ErrEvaluationFailed
  | abort   -- fuel exhausted (model only)
  deriving DecidableEq, Repr

/-- `expandResponse` plus what was written to the channel -/
structure Resp (N K : Type) where
  found : List (Found K) := []
  cycle : Bool := false
  /-- ghost: the sub-problems at which the cycle guard cut the expansion below (the Go code forgets
  `hasCycle` in `expandTTU`, `expandUnion`, `expandIntersection`, `expandExclusion`) -/
  cutAt : List N := []
  errs : List ErrKind := []
  /-- ghost: errors dropped by an exclusion that returned early on `subtractHasCycle`.  Under the pools'
  cancel-on-error a sibling may not reach the cycle, in which case the real code reports one of them. -/
  swallowed : List ErrKind := []
  notes : List String := []

inductive LExpr (N K : Type) where
  /-- entries written directly (`HasRelationship`, no exclusions) -/
  | send (ks : List K)
  /-- a tuple whose condition cannot be evaluated: the error is joined, the loop goes on -/
  | fail
  /-- ghost marker (no effect on the entries): the step is one of the unjustified ones -/
  | note (s : String)
  /-- `dispatch` → `expand` of another sub-problem -/
  | node (n : N)
  /-- several producers writing into the *same* channel (`expandDirect`, `expandTTU`, the self entry of
  `expand`); `keep`: whether `hasCycle` of the producers is propagated -/
  | bag (keep : Bool) (es : List (LExpr N K))
  | union (es : List (LExpr N K))
  | inter (es : List (LExpr N K))
  | diff (b s : LExpr N K)

structure LSys (N K : Type) where
  rule : N → LExpr N K
  /-- `tuple.TypedPublicWildcard(req.GetUserFilters()[0].GetType())` -/
  wk : K
  /-- `tuple.IsTypedWildcard` -/
  isWild : K → Bool

section reducers
variable {K : Type} [DecidableEq K]

/-- the keys of a Go map, each once -/
def dedup : List K → List K
  | [] => []
  | a :: l => if a ∈ dedup l then dedup l else a :: dedup l

def keysOf (l : List (Found K)) : List K := dedup (l.map (·.user))

/-- a `map[key]foundUser` filled by assignment from a channel: `lastWins` = arrival in list order -/
def pick (lastWins : Bool) (l : List (Found K)) (k : K) : Option (Found K) :=
  if lastWins then l.reverse.find? (·.user = k) else l.find? (·.user = k)

/-- the map a channel turns into, for one schedule -/
def mapOf (lastWins : Bool) (l : List (Found K)) : List (Found K) :=
  (keysOf l).filterMap (pick lastWins l)

/-- `m` is a map a channel with content `l` can turn into: every key once, each with one of the entries
received for it (which one is the last arrival depends on the schedule) -/
def IsMapOf (l m : List (Found K)) : Prop :=
  (∀ f ∈ m, f ∈ l) ∧ (∀ f ∈ l, ∃ g ∈ m, g.user = f.user) ∧ (m.map (·.user)).Nodup

/-- one key received with both statuses (ghost) -/
def clash (l : List (Found K)) : Bool :=
  l.any (fun f => l.any (fun g => f.user = g.user && f.status ≠ g.status))

def noteIf (b : Bool) (s : String) : List String := if b then [s] else []

def clashNote (l : List (Found K)) : List String := noteIf (clash l) "status-clash"

/-- `expandUnion` after `wg.Wait()` -/
def unionR (chans : List (List (Found K))) : List (Found K) :=
  let all := chans.flatMap id
  let exclAll := all.flatMap (·.excluded)
  let excluded := (dedup exclAll).filter (fun k => exclAll.count k = chans.length)
  let keys := keysOf (all.filter (·.status = .has))
  keys.map (fun k => { user := k, status := .has, excluded := excluded })

/-- per-operand part of `expandIntersection`: the keys with `HasRelationship` -/
def hasKeys (ch : List (Found K)) : List K := keysOf (ch.filter (·.status = .has))

/-- `foundUsersCountMap[key]` after all operands: `++` per operand that found the key, `--` again when
that operand also found the wildcard -/
def interCount (wk : K) (chans : List (List (Found K))) (k : K) : Nat :=
  (chans.filter (fun ch => (hasKeys ch).contains k && !(hasKeys ch).contains wk)).length

def wildcardCount (wk : K) (chans : List (List (Found K))) : Nat :=
  (chans.filter (fun ch => (hasKeys ch).contains wk)).length

/-- `expandIntersection` after `wg.Wait()` -/
def interR (wk : K) (chans : List (List (Found K))) : List (Found K) :=
  let excluded := dedup ((chans.flatMap id).flatMap (·.excluded))
  let keys := dedup (chans.flatMap hasKeys)
  (keys.filter (fun k => !excluded.contains k &&
      interCount wk chans k + wildcardCount wk chans = chans.length)).map
    (fun k => { user := k, status := .has, excluded := excluded })

/-- body of the `for userKey, fu := range baseFoundUsersMap` loop of `expandExclusion` -/
def exclStep (wk : K) (isWild : K → Bool) (baseMap subMap : List (Found K)) (fu : Found K) : List (Found K) :=
  let userKey := fu.user
  let subtracted := subMap.find? (·.user = userKey)
  let userIsSubtracted := subtracted.isSome
  let subStatus : Status := match subtracted with | some s => s.status | none => Status.has   -- zero value
  let baseWild := baseMap.any (·.user = wk)
  let subWild := subMap.any (·.user = wk)
  if baseWild then
    (if !userIsSubtracted && !subWild then [{ user := userKey }] else []) ++
    subMap.flatMap (fun sfu =>
      if isWild sfu.user then
        (if !userIsSubtracted then [({ user := userKey, status := .no } : Found K)] else [])
      else
        (if sfu.status = .no then [({ user := sfu.user, status := .has } : Found K)] else []) ++
        (if sfu.status = .has then [({ user := sfu.user, status := .no, excluded := [sfu.user] } : Found K)] else []))
  else if subWild || userIsSubtracted then
    (if subStatus = .has then [({ user := userKey, status := .no } : Found K)] else []) ++
    (if subStatus = .no then [({ user := userKey, status := fu.status } : Found K)] else [])
  else
    [{ user := userKey, status := fu.status }]

/-- `expandExclusion` once both maps are filled (`baseMap` / `subMap`: one entry per key) -/
def exclR (wk : K) (isWild : K → Bool) (baseMap subMap : List (Found K)) : List (Found K) :=
  baseMap.flatMap (exclStep wk isWild baseMap subMap)

/-- end of `ListUsers`: entries of `foundUsersUnique` with `NoRelationship` are skipped -/
def finalOf (m : List (Found K)) : List K := (m.filter (·.status = .has)).map (·.user)

/-! #### ghost: what a channel *means*, and the steps that do not preserve it

`covers wk ch k`: the channel `ch` says that `k` holds the relation — an entry `HasRelationship` for `k`,
or the wildcard entry together with no sign that `k` is excepted (no `NoRelationship` entry for `k`, `k`
in no `excludedUsers` list). -/

def hasK (ch : List (Found K)) (k : K) : Bool := ch.any (fun f => f.user = k && f.status = .has)
def noK (ch : List (Found K)) (k : K) : Bool := ch.any (fun f => f.user = k && f.status = .no)
def exclK (ch : List (Found K)) (k : K) : Bool := ch.any (fun f => f.excluded.contains k)
def covers (wk : K) (ch : List (Found K)) (k : K) : Bool :=
  hasK ch k || (hasK ch wk && !noK ch k && !exclK ch k)

/-- keys a channel says something negative about -/
def mentioned (ch : List (Found K)) : List K :=
  dedup (ch.flatMap (·.excluded) ++ (ch.filter (·.status = .no)).map (·.user))

/-- `expandUnion` keeps of the negative information only the keys whose `excludedUsers` occurrences,
counted over *entries*, equal the number of operands -/
def unionNotes (wk : K) (chans : List (List (Found K))) : List String :=
  let out := unionR chans
  let ks := mentioned (chans.flatMap id)
  noteIf (ks.any (fun k => covers wk out k && !chans.any (fun ch => covers wk ch k))) "union-excl-lost" ++
  noteIf (ks.any (fun k => !covers wk out k && chans.any (fun ch => covers wk ch k))) "union-excl-overcount"

/-- `expandIntersection` reads `excludedUsers` but not `NoRelationship` entries, and drops a key found in
any `excludedUsers` list even when the same operand found it -/
def interNotes (wk : K) (chans : List (List (Found K))) : List String :=
  let out := interR wk chans
  let ks := mentioned (chans.flatMap id)
  noteIf (ks.any (fun k => covers wk out k && !chans.all (fun ch => covers wk ch k))) "inter-no-ignored" ++
  noteIf (ks.any (fun k => !covers wk out k && chans.all (fun ch => covers wk ch k))) "inter-excluded-has"

/-- producers sharing one channel: a negative entry of one producer hides a user that another producer
covers through the wildcard -/
def bagNotes (wk : K) (chans : List (List (Found K))) : List String :=
  let out := chans.flatMap id
  noteIf ((mentioned out).any (fun k => !covers wk out k && chans.any (fun ch => covers wk ch k))) "bag-no-vs-wildcard"

/-- `expandExclusion` never reads `excludedUsers` and, in two of its three cases, not the status of the
base entry -/
def exclNotes (wk : K) (baseMap subMap : List (Found K)) : List String :=
  let baseWild := baseMap.any (·.user = wk)
  let subWild := subMap.any (·.user = wk)
  noteIf (baseWild && !subWild && baseMap.any (fun fu => fu.status = .no && !hasK subMap fu.user)) "excl-wild-has" ++
  noteIf (baseWild && baseMap.any (fun fu => fu.status = .no && noK subMap fu.user)) "excl-wild-flip"

/-- `expandExclusion` never reads `excludedUsers`: an operand channel that lists an excluded user without
also carrying a `NoRelationship` entry for it loses that information -/
def unreadNote (l : List (Found K)) : List String :=
  noteIf (l.any (fun f => f.excluded.any (fun k => !noK l k))) "excl-excluded-unread"

end reducers

/-! ### response builders (shared by the relation and the executable instance) -/

section builders
variable {N K : Type} [DecidableEq N] [DecidableEq K]

def sendResp (ks : List K) : Resp N K := { found := ks.map (fun k => { user := k }) }
def failResp : Resp N K := { errs := [.cond] }
def noteResp (s : String) : Resp N K := { notes := [s] }
def abortResp : Resp N K := { errs := [.abort] }
def depthResp : Resp N K := { errs := [.depth] }
/-- `enteredCycle(req)`: `hasCycle: true`, nothing written -/
def cycleResp (n : N) : Resp N K := { cycle := true, cutAt := [n] }

/-- `expandDirect` / `expandTTU` / `expand`: everything into the same channel, errors joined,
`hasCycle` kept (`expandDirect`, computed userset) or forgotten (`expandTTU`) -/
def bagResp (wk : K) (keep : Bool) (rs : List (Resp N K)) : Resp N K :=
  { found := rs.flatMap (·.found), cycle := keep && rs.any (·.cycle), cutAt := rs.flatMap (·.cutAt),
    errs := rs.flatMap (·.errs), swallowed := rs.flatMap (·.swallowed),
    notes := rs.flatMap (·.notes) ++ bagNotes wk (rs.map (·.found)) }

def unionResp (wk : K) (rs : List (Resp N K)) : Resp N K :=
  { found := unionR (rs.map (·.found)), cutAt := rs.flatMap (·.cutAt), errs := rs.flatMap (·.errs),
    swallowed := rs.flatMap (·.swallowed), notes := rs.flatMap (·.notes) ++ unionNotes wk (rs.map (·.found)) }

def interResp (wk : K) (rs : List (Resp N K)) : Resp N K :=
  { found := interR wk (rs.map (·.found)), cutAt := rs.flatMap (·.cutAt), errs := rs.flatMap (·.errs),
    swallowed := rs.flatMap (·.swallowed), notes := rs.flatMap (·.notes) ++ interNotes wk (rs.map (·.found)) }

/-- `if subtractHasCycle { return expandResponse{err: nil} }` -/
def diffCycleResp (rb rs : Resp N K) : Resp N K :=
  { cutAt := rb.cutAt ++ rs.cutAt, swallowed := rb.errs ++ rs.errs ++ rb.swallowed ++ rs.swallowed,
    notes := rb.notes ++ rs.notes ++ ["excl-cycle"] }

/-- `V`: the path of the exclusion itself.  `excl-sub-cut`: the subtracted operand was cut at a
sub-problem of that path, i.e. it depends (negatively) on a sub-problem that is still being expanded. -/
def diffResp (wk : K) (isWild : K → Bool) (V : List N) (rb rs : Resp N K) (bm sm : List (Found K)) : Resp N K :=
  { found := exclR wk isWild bm sm, cutAt := rb.cutAt ++ rs.cutAt, errs := rb.errs ++ rs.errs,
    swallowed := rb.swallowed ++ rs.swallowed,
    notes := rb.notes ++ rs.notes ++ clashNote rb.found ++ clashNote rs.found ++ exclNotes wk bm sm ++
      unreadNote rb.found ++ unreadNote rs.found ++ noteIf (rs.cutAt.any (fun n => V.contains n)) "excl-sub-cut" }

/-- what `ListUsers` returns -/
structure Answer (K : Type) where
  users : List K
  errs : List ErrKind
  notes : List String
  /-- ghost, see `Resp.swallowed` -/
  swallowed : List ErrKind := []

def answerOf (r : Resp N K) (m : List (Found K)) : Answer K :=
  { users := finalOf m, errs := r.errs, notes := r.notes ++ clashNote r.found, swallowed := r.swallowed }

end builders

/-! ### the expansion as a relation: every schedule -/

inductive Expand {N K : Type} [DecidableEq N] [DecidableEq K] (sys : LSys N K) (limit : Nat) :
    Nat → List N → LExpr N K → Resp N K → Prop
  /-- model only: evaluation abandoned (fuel of the executable instance) -/
  | abort {d V} (e : LExpr N K) : Expand sys limit d V e abortResp
  | send {d V} (ks : List K) : Expand sys limit d V (.send ks) (sendResp ks)
  | fail {d V} : Expand sys limit d V .fail failResp
  | note {d V} (s : String) : Expand sys limit d V (.note s) (noteResp s)
  /-- `req.depth >= l.resolveNodeLimit` -/
  | node_depth {d V} (n : N) : d ≥ limit → Expand sys limit d V (.node n) depthResp
  /-- `enteredCycle(req)`: the per-path visited set -/
  | node_cycle {d V} (n : N) : d < limit → n ∈ V → Expand sys limit d V (.node n) (cycleResp n)
  | node_eval {d V} (n : N) (r : Resp N K) : d < limit → n ∉ V →
      Expand sys limit (d + 1) (n :: V) (sys.rule n) r → Expand sys limit d V (.node n) r
  | bag {d V} (keep : Bool) (es : List (LExpr N K)) (rs : List (Resp N K)) : rs.length = es.length →
      (∀ i (h1 : i < es.length) (h2 : i < rs.length), Expand sys limit d V es[i] rs[i]) →
      Expand sys limit d V (.bag keep es) (bagResp sys.wk keep rs)
  | union {d V} (es : List (LExpr N K)) (rs : List (Resp N K)) : rs.length = es.length →
      (∀ i (h1 : i < es.length) (h2 : i < rs.length), Expand sys limit d V es[i] rs[i]) →
      Expand sys limit d V (.union es) (unionResp sys.wk rs)
  | inter {d V} (es : List (LExpr N K)) (rs : List (Resp N K)) : rs.length = es.length →
      (∀ i (h1 : i < es.length) (h2 : i < rs.length), Expand sys limit d V es[i] rs[i]) →
      Expand sys limit d V (.inter es) (interResp sys.wk rs)
  | diff_cycle {d V} (b s : LExpr N K) (rb rs : Resp N K) :
      Expand sys limit d V b rb → Expand sys limit d V s rs → rs.cycle = true →
      Expand sys limit d V (.diff b s) (diffCycleResp rb rs)
  /-- the two maps are filled by assignment: any survivor per key -/
  | diff {d V} (b s : LExpr N K) (rb rs : Resp N K) (bm sm : List (Found K)) :
      Expand sys limit d V b rb → Expand sys limit d V s rs → rs.cycle = false →
      IsMapOf rb.found bm → IsMapOf rs.found sm →
      Expand sys limit d V (.diff b s) (diffResp sys.wk sys.isWild V rb rs bm sm)

/-- `ListUsers` after the pruning test, every schedule: the expansion of the root and any survivor
map of `foundUsersUnique` -/
def ListUsersRel {N K : Type} [DecidableEq N] [DecidableEq K] (sys : LSys N K) (limit : Nat) (root : N) (a : Answer K) : Prop :=
  ∃ r m, Expand sys limit 0 [] (.node root) r ∧ IsMapOf r.found m ∧ a = answerOf r m

/-! ### executable evaluation, one schedule -/

structure Sched where
  lastWins : Bool := true

def expandF {N K : Type} [DecidableEq N] [DecidableEq K] (sys : LSys N K) (limit : Nat) (sc : Sched) :
    Nat → Nat → List N → LExpr N K → Resp N K
  | 0, _, _, _ => abortResp
  | fuel + 1, d, V, e =>
    match e with
    | .send ks => sendResp ks
    | .fail => failResp
    | .note s => noteResp s
    | .node n =>
      if d ≥ limit then depthResp
      else if n ∈ V then cycleResp n
      else expandF sys limit sc fuel (d + 1) (n :: V) (sys.rule n)
    | .bag keep es => bagResp sys.wk keep (es.map (expandF sys limit sc fuel d V))
    | .union es => unionResp sys.wk (es.map (expandF sys limit sc fuel d V))
    | .inter es => interResp sys.wk (es.map (expandF sys limit sc fuel d V))
    | .diff b s =>
      let rb := expandF sys limit sc fuel d V b
      let rs := expandF sys limit sc fuel d V s
      if rs.cycle then diffCycleResp rb rs
      else diffResp sys.wk sys.isWild V rb rs (mapOf sc.lastWins rb.found) (mapOf sc.lastWins rs.found)

def listUsersF {N K : Type} [DecidableEq N] [DecidableEq K] (sys : LSys N K) (limit : Nat) (sc : Sched)
    (fuel : Nat) (root : N) : Answer K :=
  let r := expandF sys limit sc fuel 0 [] (.node root)
  answerOf r (mapOf sc.lastWins r.found)

/-! ### the FGA instance -/

open OpenFGAVerif.Vocab OpenFGAVerif.CheckV1

abbrev Node := String × String

structure Filter where
  typ : String
  rel : String      -- "" for an object-type filter

/-- key of a userset `type:id#relation` -/
def usersetKey (n : Node) : String := n.1 ++ "#" ++ n.2

/-- tuples a `Read(object, relation)` through the request storage wrapper yields that survive
`validation.FilterInvalidTuples`, each with the outcome of `eval.EvaluateTupleCondition` -/
def readTuples (w : World) (o r : String) : List (Tuple × CondVal) :=
  ((w.all.filter (fun t => t.obj = o && t.rel = r)).filter (validForRead w.model)).map
    (fun t => (t, evalCond w.model w.req.ctx t))

/-- `expandDirect` -/
def directL (w : World) (f : Filter) (o r : String) : LExpr Node String :=
  .bag true ((readTuples w o r).map (fun (t, c) =>
    match c with
    | .err => .fail
    | .ff => .send []
    | .tt =>
      if isUserset t.user then .node (splitUserset t.user)
      else if userType t.user = f.typ && f.rel = "" then .send [t.user]
      else .send []))

/-- `expandTTU` -/
def ttuL (w : World) (o tupleset computed : String) : LExpr Node String :=
  .bag false ((readTuples w o tupleset).map (fun (t, c) =>
    match c with
    | .err => .fail
    | .ff => .send []
    | .tt => .node (t.user, computed)))

/-- `expandRewrite` -/
def rewriteL (w : World) (f : Filter) (o r : String) : Rewrite → LExpr Node String
  | .this => directL w f o r
  | .computed r' => .node (o, r')
  | .ttu ts cr => ttuL w o ts cr
  | .union cs => .union (cs.map (rewriteL w f o r))
  | .inter cs => .inter (cs.map (rewriteL w f o r))
  | .diff b s => .diff (rewriteL w f o r b) (rewriteL w f o r s)

/-- `expand` after the depth and cycle tests: the self entry when the sub-problem matches the filter,
then the rewrite of the relation (nothing when the relation is undefined) -/
def luRule (w : World) (f : Filter) (n : Node) : LExpr Node String :=
  let (o, r) := n
  .bag true
    [ .send (if typeOf o = f.typ && r = f.rel then [usersetKey n] else []),
      match w.model.findRel (typeOf o) r with
      | none => .send []
      | some rd => rewriteL w f o r rd.rewrite ]

def luSys (w : World) (f : Filter) : LSys Node String :=
  { rule := luRule w f, wk := f.typ ++ ":*", isWild := isTypedWildcard }

/-- `listUsersQuery.ListUsers`: the pruning test (`doesHavePossibleEdges`, a fact about the model dumped
from the real graph package: aux key `edges`) and the expansion -/
def listUsers (w : World) (f : Filter) (limit : Nat) (sc : Sched) (fuel : Nat := 4000) : Answer String :=
  let n : Node := (w.req.obj, w.req.rel)
  if !(typeOf n.1 = f.typ && n.2 = f.rel) && !(w.aux.get "edges" true) then
    { users := [], errs := [], notes := [] }
  else listUsersF (luSys w f) limit sc fuel n

end OpenFGAVerif.ListUsers
