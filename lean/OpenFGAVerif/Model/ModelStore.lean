/-
State machine for C17: the authorization-model table of every store, the model cache
(`storagewrappers.cachedOpenFGADatastore`, key MODEL/store/id) and the typesystem cache
(`typesystem.MemoizedTypesystemResolverFunc`, key TS/store/resolved id).  Core Lean only.

  WriteAuthorizationModelCommand.Execute   validate, then `id = ulid.Make()`, then backend.WriteAuthorizationModel
  cachedOpenFGADatastore.ReadAuthorizationModel   cache hit, else backend + cache.Set
  cachedOpenFGADatastore.FindLatestAuthorizationModel   always the backend (singleflight only merges concurrent calls)
  MemoizedTypesystemResolverFunc           id given: ulid.Parse, cache TS/store/id, else ReadAuthorizationModel + NewAndValidate
                                           id empty: FindLatestAuthorizationModel FIRST, then the same cache under the
                                           RESOLVED id — there is no cache entry keyed by the empty id
  memory.WriteAuthorizationModel           `latest` flag moves to the written entry; sqlite: ORDER BY id DESC LIMIT 1

`M` is the model payload, `valid` the validation verdict, `T` what a typesystem is built into (`build`).
Identifiers are natural numbers handed out by `fresh` (ULIDs: monotonicity is an explicit hypothesis of the theorems
that need it).  LRU eviction and TTL expiry are the operations `evictModel` / `evictTs` that may happen at any time.
-/
namespace OpenFGAVerif.Model.ModelStore

structure State (M T : Type) where
  /-- backend rows `(store, id, model)` in write order -/
  table : List (Nat × Nat × M)
  /-- model cache: `(store, id) ↦ model` -/
  mcache : List ((Nat × Nat) × M)
  /-- typesystem cache: `(store, id) ↦ typesystem` -/
  tcache : List ((Nat × Nat) × T)
  deriving Inhabited

def State.empty {M T : Type} : State M T := { table := [], mcache := [], tcache := [] }

variable {M T : Type}

/-- rows of one store, in write order -/
def rows (st : State M T) (s : Nat) : List (Nat × M) :=
  st.table.filterMap (fun r => if r.1 = s then some (r.2.1, r.2.2) else none)

/-- memory backend: the entry whose `latest` flag is set = the last one written -/
def latestByFlag (st : State M T) (s : Nat) : Option (Nat × M) := (rows st s).getLast?

/-- sqlite backend: `ORDER BY authorization_model_id DESC LIMIT 1` -/
def maxById : List (Nat × M) → Option (Nat × M)
  | [] => none
  | r :: rs =>
    match maxById rs with
    | none => some r
    | some b => if b.1 > r.1 then some b else some r

def latestById (st : State M T) (s : Nat) : Option (Nat × M) := maxById (rows st s)

/-- backend `ReadAuthorizationModel(store, id)` -/
def backendRead (st : State M T) (s id : Nat) : Option M :=
  ((rows st s).find? (·.1 = id)).map (·.2)

def cacheGet {V : Type} (c : List ((Nat × Nat) × V)) (k : Nat × Nat) : Option V := (c.find? (·.1 = k)).map (·.2)

/-! ### operations -/

/-- `WriteAuthorizationModelCommand.Execute`: returns the new state and the id (or `none` = rejected) -/
def writeModel (valid : M → Bool) (fresh : State M T → Nat) (st : State M T) (s : Nat) (m : M) : State M T × Option Nat :=
  if valid m then
    let id := fresh st
    ({ st with table := st.table ++ [(s, id, m)] }, some id)
  else (st, none)

/-- `cachedOpenFGADatastore.ReadAuthorizationModel` -/
def readModel (st : State M T) (s id : Nat) : State M T × Option M :=
  match cacheGet st.mcache (s, id) with
  | some m => (st, some m)
  | none =>
    match backendRead st s id with
    | none => (st, none)
    | some m => ({ st with mcache := ((s, id), m) :: st.mcache }, some m)

/-- the typesystem resolver; `id = none` is a request without a model id -/
def resolve (build : M → T) (st : State M T) (s : Nat) (id : Option Nat) : State M T × Option (Nat × T) :=
  match id with
  | none =>
    match latestByFlag st s with
    | none => (st, none)
    | some (lid, m) =>
      match cacheGet st.tcache (s, lid) with
      | some ts => (st, some (lid, ts))
      | none => ({ st with tcache := ((s, lid), build m) :: st.tcache }, some (lid, build m))
  | some i =>
    match cacheGet st.tcache (s, i) with
    | some ts => (st, some (i, ts))
    | none =>
      match readModel st s i with
      | (st', none) => (st', none)
      | (st', some m) => ({ st' with tcache := ((s, i), build m) :: st'.tcache }, some (i, build m))

/-- LRU eviction / TTL expiry of a model-cache entry -/
def evictModel (st : State M T) (k : Nat × Nat) : State M T := { st with mcache := st.mcache.filter (·.1 ≠ k) }
/-- LRU eviction / TTL expiry of a typesystem-cache entry -/
def evictTs (st : State M T) (k : Nat × Nat) : State M T := { st with tcache := st.tcache.filter (·.1 ≠ k) }

/-! ### histories -/

inductive Op (M : Type) where
  | write (s : Nat) (m : M)
  | read (s id : Nat)
  | resolve (s : Nat) (id : Option Nat)
  | evictModel (k : Nat × Nat)
  | evictTs (k : Nat × Nat)

def step (valid : M → Bool) (build : M → T) (fresh : State M T → Nat) (st : State M T) : Op M → State M T
  | .write s m => (writeModel valid fresh st s m).1
  | .read s id => (readModel st s id).1
  | .resolve s id => (resolve build st s id).1
  | .evictModel k => evictModel st k
  | .evictTs k => evictTs st k

def run (valid : M → Bool) (build : M → T) (fresh : State M T → Nat) (st : State M T) (ops : List (Op M)) : State M T :=
  ops.foldl (step valid build fresh) st

/-- the id generator used by the drivers and examples: one more than every id issued so far -/
def nextId (st : State M T) : Nat := st.table.foldl (fun n r => max n (r.2.1 + 1)) 1

/-! ### singleflight: two-step FindLatest with joiners (for the concurrency caveat) -/

/-- a `FindLatestAuthorizationModel` flight: the value its leader read from the backend -/
structure Flight (M : Type) where
  store : Nat
  snapshot : Option (Nat × M)

/-- the leader starts: it reads the backend now; later callers for the same store JOIN and get this snapshot -/
def flightStart (st : State M T) (s : Nat) : Flight M := { store := s, snapshot := latestByFlag st s }

/-- what a caller that joins the flight is told is "the latest model" -/
def flightJoin (f : Flight M) : Option (Nat × M) := f.snapshot

end OpenFGAVerif.Model.ModelStore
