/-
Model of `typesystem.NewAndValidate` (pkg/typesystem/typesystem.go) on `Vocab.Model`, step for step (core Lean only):

  containsDuplicateType, validateNames, then — types and relations in sorted order — validateRelation =
  isUsersetRewriteValid, validateTypeRestrictions, hasEntrypoints, HasCycle; finally validateConditions.

The first error is reported with the relation it names, as the Go code does, so that the correspondence also sees
re-ordered or dropped checks.  Relations of a type are keys of a protobuf map: a model listing one relation name twice
is not representable and is rejected here up front (`dupRelation`).

`hasEntrypoints` is modelled with the aliasing the Go code has: `maps.Clone(visitedRelations)` clones the OUTER map only,
the inner `map[string]bool` values are shared with the caller, so marks made deep in the recursion are visible to
siblings.  The inner maps live in an explicit heap that is threaded through the recursion.
-/
import OpenFGAVerif.Spec.Vocab

namespace OpenFGAVerif.Model.ModelValidate
open OpenFGAVerif.Vocab

inductive VErr where
  | duplicateTypes
  | names                                          -- empty / reserved type or relation names
  | dupRelation
  | invalidRewrite (t r : String)                  -- InvalidRelationError{Cause: ErrInvalidUsersetRewrite}
  | relationUndefined (t r : String)               -- RelationUndefinedError
  | tuplesetNotDirect (t ts : String)
  | ttuComputedUndefined (c : String)
  | assignableNoTypes (t r : String)
  | nonAssignableTypes (t r : String)
  | invalidRelationType (t r rt rr : String)
  | conditionUndefined (r c : String)              -- RelationConditionError
  | undefinedTypeDef (t r : String)                -- hasEntrypoints: "undefined type definition for"
  | fewChildren (t r : String)
  | noEntrypoints (t r : String)
  | noEntrypointsLoop (t r : String)
  | cycle (t r : String)
  | fuel
  deriving Repr, DecidableEq, Inhabited

def VErr.render : VErr → String
  | .duplicateTypes => "duplicate-types"
  | .names => "names"
  | .dupRelation => "duplicate-relation"
  | .invalidRewrite t r => s!"invalid-rewrite {t}#{r}"
  | .relationUndefined t r => s!"relation-undefined {t}#{r}"
  | .tuplesetNotDirect t ts => s!"tupleset-not-direct {t}#{ts}"
  | .ttuComputedUndefined c => s!"ttu-computed-undefined {c}"
  | .assignableNoTypes t r => s!"assignable-no-types {t}#{r}"
  | .nonAssignableTypes t r => s!"non-assignable-types {t}#{r}"
  | .invalidRelationType t r rt rr => s!"invalid-relation-type {t}#{r} {rt}#{rr}"
  | .conditionUndefined r c => s!"condition-undefined {r} {c}"
  | .undefinedTypeDef t r => s!"undefined-typedef {t}#{r}"
  | .fewChildren t r => s!"few-children {t}#{r}"
  | .noEntrypoints t r => s!"no-entrypoints {t}#{r}"
  | .noEntrypointsLoop t r => s!"no-entrypoints-loop {t}#{r}"
  | .cycle t r => s!"cycle {t}#{r}"
  | .fuel => "fuel"

abbrev V := Except VErr Unit

instance : DecidableEq V := fun a b =>
  match a, b with
  | .ok (), .ok () => isTrue rfl
  | .error e, .error e' =>
    if h : e = e' then isTrue (by rw [h]) else isFalse (fun x => by cases x; exact h rfl)
  | .ok _, .error _ => isFalse (fun x => by cases x)
  | .error _, .ok _ => isFalse (fun x => by cases x)

/-! ### names and duplicates -/

def hasDup : List String → Bool
  | [] => false
  | x :: xs => xs.contains x || hasDup xs

def reserved (s : String) : Bool := s = "" || s = "self" || s = "this"

def validateNames (m : Model) : V :=
  if m.types.any (fun t => reserved t.name || t.rels.any (fun r => reserved r.name)) then .error .names else .ok ()

/-! ### isUsersetRewriteValid -/

def isThis : Rewrite → Bool
  | .this => true
  | _ => false

mutual
def rewriteValid (m : Model) (typ rel : String) : Rewrite → V
  | .this => .ok ()
  | .computed c =>
    if c = rel then .error (.invalidRewrite typ rel)
    else match m.findRel typ c with
      | none => .error (.relationUndefined typ c)
      | some _ => .ok ()
  | .ttu ts c =>
    match m.findRel typ ts with
    | none => .error (.relationUndefined typ ts)
    | some tsRel =>
      if !isThis tsRel.rewrite then .error (.tuplesetNotDirect typ ts)
      else if tsRel.restrs.any (fun rr => (m.findRel rr.typ c).isSome) then .ok ()
      else .error (.ttuComputedUndefined c)
  | .union cs => rewritesValid m typ rel cs
  | .inter cs => rewritesValid m typ rel cs
  | .diff b s => do rewriteValid m typ rel b; rewriteValid m typ rel s
def rewritesValid (m : Model) (typ rel : String) : List Rewrite → V
  | [] => .ok ()
  | c :: cs => do rewriteValid m typ rel c; rewritesValid m typ rel cs
end

/-! ### validateTypeRestrictions -/

mutual
/-- `RewriteContainsSelf` -/
def containsThis : Rewrite → Bool
  | .this => true
  | .computed _ => false
  | .ttu _ _ => false
  | .union cs => containsThisL cs
  | .inter cs => containsThisL cs
  | .diff b s => containsThis b || containsThis s
def containsThisL : List Rewrite → Bool
  | [] => false
  | c :: cs => containsThis c || containsThisL cs
end

def findType (m : Model) (t : String) : Option TypeDef := m.types.find? (·.name = t)

def restrOK (m : Model) (typ rel : String) (x : Restr) : V :=
  if (findType m x.typ).isNone then .error (.invalidRelationType typ rel x.typ x.rel)
  else if (x.rel ≠ "" || x.wild) && m.isTuplesetRelation typ rel then .error (.invalidRelationType typ rel x.typ x.rel)
  else if x.rel ≠ "" && (m.findRel x.typ x.rel).isNone then .error (.invalidRelationType typ rel x.typ x.rel)
  else if x.cond ≠ "" && (m.findCond x.cond).isNone then .error (.conditionUndefined rel x.cond)
  else .ok ()

def restrsOK (m : Model) (typ rel : String) : List Restr → V
  | [] => .ok ()
  | x :: xs => do restrOK m typ rel x; restrsOK m typ rel xs

def typeRestrictionsValid (m : Model) (typ : String) (rd : RelDef) : V :=
  let assignable := containsThis rd.rewrite
  if assignable && rd.restrs.isEmpty then .error (.assignableNoTypes typ rd.name)
  else if !assignable && !rd.restrs.isEmpty then .error (.nonAssignableTypes typ rd.name)
  else restrsOK m typ rd.name rd.restrs

/-! ### hasEntrypoints -/

/-- inner maps `map[string]bool`, by reference -/
abbrev Heap := List (Nat × List (String × Bool))
/-- `map[string]map[string]bool`: type name ↦ reference of the inner map -/
abbrev Outer := List (String × Nat)

def Heap.get (h : Heap) (ref : Nat) : List (String × Bool) :=
  match h.find? (·.1 = ref) with
  | some p => p.2
  | none => []

def setKV (kvs : List (String × Bool)) (k : String) (v : Bool) : List (String × Bool) :=
  (k, v) :: kvs.filter (·.1 ≠ k)

def Heap.set (h : Heap) (ref : Nat) (k : String) (v : Bool) : Heap :=
  h.map (fun p => if p.1 = ref then (p.1, setKV p.2 k v) else p)

def Outer.ref (o : Outer) (t : String) : Option Nat := (o.find? (·.1 = t)).map (·.2)

/-- `v[t][r]` as `(value, ok)` -/
def lookup (h : Heap) (o : Outer) (t r : String) : Option Bool :=
  match o.ref t with
  | none => none
  | some ref => ((h.get ref).find? (·.1 = r)).map (·.2)

inductive HE where
  | res (has loop : Bool)
  | err (e : VErr)
  deriving Repr, Inhabited

/-- the prologue: clone the outer map, mark `(typ, rel)` as visited with value `false` -/
def enter (h : Heap) (o : Outer) (typ rel : String) : Heap × Outer :=
  match o.ref typ with
  | some ref => (h.set ref rel false, o)
  | none =>
    let ref := h.length
    (h ++ [(ref, [(rel, false)])], (typ, ref) :: o)

mutual
def hasEntrypoints (m : Model) : Nat → Heap → Outer → String → String → Rewrite → Heap × HE
  | 0, h, _, _, _, _ => (h, .err .fuel)
  | fuel + 1, h, o, typ, rel, rw =>
    let (h, v) := enter h o typ rel
    match m.findRel typ rel with
    | none => (h, .err (.undefinedTypeDef typ rel))
    | some rd =>
      match rw with
      | .this => heThis m fuel h v typ rel rd.restrs
      | .computed c =>
        match m.findRel typ c with
        | none => (h, .err (.undefinedTypeDef typ c))
        | some crd =>
          match lookup h v typ c with
          | some b => (h, .res b true)
          | none => hasEntrypoints m fuel h v typ c crd.rewrite
      | .ttu ts c =>
        match m.findRel typ ts with
        | none => (h, .err (.undefinedTypeDef typ ts))
        | some tsRel => heTTU m fuel h v c tsRel.restrs
      | .union cs =>
        if cs.length < 2 then (h, .err (.fewChildren typ rel))
        else heUnion m fuel h o typ rel cs false
      | .inter cs =>
        if cs.length < 2 then (h, .err (.fewChildren typ rel))
        else heInter m fuel h o typ rel cs
      | .diff b s =>
        match hasEntrypoints m fuel h o typ rel b with
        | (h, .err e) => (h, .err e)
        | (h, .res false loop) => (h, .res false loop)
        | (h, .res true _) =>
          match hasEntrypoints m fuel h o typ rel s with
          | (h, .err e) => (h, .err e)
          | (h, .res false loop) => (h, .res false loop)
          | (h, .res true _) => (h, .res true false)
/-- the loop over the directly related user types of a `this` -/
def heThis (m : Model) : Nat → Heap → Outer → String → String → List Restr → Heap × HE
  | 0, h, _, _, _, _ => (h, .err .fuel)
  | fuel + 1, h, v, typ, rel, xs =>
    match xs with
    | [] => (h, .res false false)
    | x :: xs =>
      if x.wild || x.rel = "" then
        -- a direct type or a wildcard: mark and succeed
        (match v.ref typ with
         | some ref => (h.set ref rel true, .res true false)
         | none => (h, .res true false))
      else
        match m.findRel x.typ x.rel with
        | none => (h, .err (.undefinedTypeDef x.typ x.rel))
        | some ard =>
          match lookup h v x.typ x.rel with
          | some _ => heThis m fuel h v typ rel xs
          | none =>
            match hasEntrypoints m fuel h v x.typ x.rel ard.rewrite with
            | (h, .err e) => (h, .err e)
            | (h, .res true _) => (h, .res true false)
            | (h, .res false _) => heThis m fuel h v typ rel xs
/-- the loop over the tupleset's directly related user types of a tuple-to-userset -/
def heTTU (m : Model) : Nat → Heap → Outer → String → List Restr → Heap × HE
  | 0, h, _, _, _ => (h, .err .fuel)
  | fuel + 1, h, v, c, xs =>
    match xs with
    | [] => (h, .res false false)
    | x :: xs =>
      match m.findRel x.typ c with
      | none => heTTU m fuel h v c xs
      | some ard =>
        match lookup h v x.typ c with
        | some true => (h, .res true false)
        | some false => heTTU m fuel h v c xs
        | none =>
          match hasEntrypoints m fuel h v x.typ c ard.rewrite with
          | (h, .err e) => (h, .err e)
          | (h, .res true _) => (h, .res true false)
          | (h, .res false _) => heTTU m fuel h v c xs
def heUnion (m : Model) : Nat → Heap → Outer → String → String → List Rewrite → Bool → Heap × HE
  | 0, h, _, _, _, _, _ => (h, .err .fuel)
  | fuel + 1, h, o, typ, rel, cs, loop =>
    match cs with
    | [] => (h, .res false loop)
    | c :: cs =>
      match hasEntrypoints m fuel h o typ rel c with
      | (h, .err e) => (h, .err e)
      | (h, .res true _) => (h, .res true false)
      | (h, .res false l) => heUnion m fuel h o typ rel cs (loop || l)
def heInter (m : Model) : Nat → Heap → Outer → String → String → List Rewrite → Heap × HE
  | 0, h, _, _, _, _ => (h, .err .fuel)
  | fuel + 1, h, o, typ, rel, cs =>
    match cs with
    | [] => (h, .res true false)
    | c :: cs =>
      match hasEntrypoints m fuel h o typ rel c with
      | (h, .err e) => (h, .err e)
      | (h, .res false l) => (h, .res false l)
      | (h, .res true _) => heInter m fuel h o typ rel cs
end

def heFuel : Nat := 4000

def entrypointsValid (m : Model) (typ : String) (rd : RelDef) : V :=
  match (hasEntrypoints m heFuel [] [] typ rd.name rd.rewrite).2 with
  | .err e => .error e
  | .res true _ => .ok ()
  | .res false true => .error (.noEntrypointsLoop typ rd.name)
  | .res false false => .error (.noEntrypoints typ rd.name)

/-! ### HasCycle -/

inductive HC where
  | no | yes | err (e : VErr)
  deriving Repr, DecidableEq, Inhabited

mutual
/-- `hasCycle(objectType, rel, rw, visited)`; `visited` already contains `rel` (the relation whose rewrite is walked).
Every call consumes one unit of fuel (structural recursion: the kernel can evaluate it). -/
def hasCycleRw (m : Model) (typ : String) : Nat → List String → Rewrite → HC
  | 0, _, _ => .err .fuel
  | fuel + 1, visited, rw =>
    match rw with
    | .this => .no
    | .ttu _ _ => .no
    | .computed c =>
      if visited.contains c then .yes
      else match m.findRel typ c with
        | none => .err (.relationUndefined typ c)
        | some crd => hasCycleRw m typ fuel (c :: visited) crd.rewrite
    | .union cs => hasCycleL m typ fuel visited cs
    | .inter cs => hasCycleL m typ fuel visited cs
    | .diff b s =>
      match hasCycleRw m typ fuel visited b with
      | .no => hasCycleRw m typ fuel visited s
      | r => r
def hasCycleL (m : Model) (typ : String) : Nat → List String → List Rewrite → HC
  | 0, _, _ => .err .fuel
  | fuel + 1, visited, cs =>
    match cs with
    | [] => .no
    | c :: cs =>
      match hasCycleRw m typ fuel visited c with
      | .no => hasCycleL m typ fuel visited cs
      | r => r
end

def noCycle (m : Model) (typ : String) (rd : RelDef) : V :=
  match hasCycleRw m typ heFuel [rd.name] rd.rewrite with
  | .no => .ok ()
  | .yes => .error (.cycle typ rd.name)
  | .err e => .error e

/-! ### the computed-userset graph (what `HasCycle` is about) -/

mutual
/-- the relations a rewrite refers to by a computed userset, through union / intersection / difference only -/
def cuLeaves : Rewrite → List String
  | .this => []
  | .computed c => [c]
  | .ttu _ _ => []
  | .union cs => cuLeavesL cs
  | .inter cs => cuLeavesL cs
  | .diff b s => cuLeaves b ++ cuLeaves s
def cuLeavesL : List Rewrite → List String
  | [] => []
  | c :: cs => cuLeaves c ++ cuLeavesL cs
end

/-- `a`'s rewrite mentions `b` as a computed userset: evaluating `a` on an object needs `b` on the SAME object -/
def Edge (m : Model) (typ a b : String) : Prop := ∃ rd, m.findRel typ a = some rd ∧ b ∈ cuLeaves rd.rewrite

/-- a non-empty chain of computed-userset references -/
inductive Path (m : Model) (typ : String) : String → String → Prop where
  | single {a b : String} : Edge m typ a b → Path m typ a b
  | cons {a b c : String} : Edge m typ a b → Path m typ b c → Path m typ a c

/-! ### entrypoints, semantically: the least fixpoint "some user can be related" -/

mutual
/-- given the set `R` of relations already known to have an entrypoint, does this rewrite have one? -/
def reachRw (m : Model) (R : List (String × String)) (typ : String) (restrs : List Restr) : Rewrite → Bool
  | .this => restrs.any (fun x => x.wild || x.rel = "" || R.contains (x.typ, x.rel))
  | .computed c => R.contains (typ, c)
  | .ttu ts c =>
    match m.findRel typ ts with
    | none => false
    | some tsRel => tsRel.restrs.any (fun x => (m.findRel x.typ c).isSome && R.contains (x.typ, c))
  | .union cs => reachAny m R typ restrs cs
  | .inter cs => reachAll m R typ restrs cs
  | .diff b s => reachRw m R typ restrs b && reachRw m R typ restrs s
def reachAny (m : Model) (R : List (String × String)) (typ : String) (restrs : List Restr) : List Rewrite → Bool
  | [] => false
  | c :: cs => reachRw m R typ restrs c || reachAny m R typ restrs cs
def reachAll (m : Model) (R : List (String × String)) (typ : String) (restrs : List Restr) : List Rewrite → Bool
  | [] => true
  | c :: cs => reachRw m R typ restrs c && reachAll m R typ restrs cs
end

def allRelations (m : Model) : List (String × RelDef) := m.types.flatMap (fun td => td.rels.map (fun rd => (td.name, rd)))

def reachStep (m : Model) (R : List (String × String)) : List (String × String) :=
  ((allRelations m).filter (fun p => reachRw m R p.1 p.2.restrs p.2.rewrite)).map (fun p => (p.1, p.2.name))

def reachIter (m : Model) : Nat → List (String × String) → List (String × String)
  | 0, R => R
  | n + 1, R => reachIter m n (reachStep m R)

/-- the relations that have an entrypoint (Kleene iteration: one round per relation suffices) -/
def reachable (m : Model) : List (String × String) := reachIter m ((allRelations m).length + 1) []

/-- relations of a model without an entrypoint -/
def unreachable (m : Model) : List (String × String) :=
  ((allRelations m).map (fun p => (p.1, p.2.name))).filter (fun p => !(reachable m).contains p)

/-! ### validateRelation, NewAndValidate -/

def validateRelation (m : Model) (typ : String) (rd : RelDef) : V := do
  rewriteValid m typ rd.name rd.rewrite
  typeRestrictionsValid m typ rd
  entrypointsValid m typ rd
  noCycle m typ rd

def checkAll {α : Type} (f : α → V) : List α → V
  | [] => .ok ()
  | x :: xs => do f x; checkAll f xs

/-- insertion sort by a string key (`sort.Strings` on the names; stable, structural) -/
def insertBy {α : Type} (key : α → String) (a : α) : List α → List α
  | [] => [a]
  | x :: xs => if key a < key x then a :: x :: xs else x :: insertBy key a xs

def isort {α : Type} (key : α → String) : List α → List α
  | [] => []
  | x :: xs => insertBy key x (isort key xs)

def sortedRels (td : TypeDef) : List RelDef := isort (·.name) td.rels
def sortedTypes (m : Model) : List TypeDef := isort (·.name) m.types

/-- `validateConditions`: keys equal names by construction of the vocabulary; compilation is C25's business -/
def validate (m : Model) : V :=
  if hasDup (m.types.map (·.name)) then .error .duplicateTypes
  else match validateNames m with
    | .error e => .error e
    | .ok _ =>
      if m.types.any (fun t => hasDup (t.rels.map (·.name))) then .error .dupRelation
      else checkAll (fun td => checkAll (validateRelation m td.name) (sortedRels td)) (sortedTypes m)

end OpenFGAVerif.Model.ModelValidate
