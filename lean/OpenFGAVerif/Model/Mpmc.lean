/-
Model of `internal/containers/mpmc/queue.go` (bounded MPMC ring, Vyukov slots) as a transition
system over an arbitrary number of threads.  Core Lean only, executable.

One `Action.step t` = one access to a *racy* shared variable (head, tail, a slot's Sequence, a
slot's Data, a wake-up channel) by thread `t`, at the program point recorded in `pc t`.
Merged into the neighbouring step (see DESIGN / Props.C22 header for the soundness argument):
  * `mu.RLock()` / `mu.RUnlock()`: the read lock is modelled by the reader set `cs`; taking it is
    merged with the following load, releasing it with the preceding step;
  * reads of `done`, `capacity`, `extensions`, `extended`: written only under the write lock, hence
    stable while `t ∈ cs`;
  * `ctx.Err()`: a read of `cancelled t`, a flag only `t` reads (the environment sets it by `cancel t`);
  * the bodies of the write-locked sections (`extend`, `Grow`, `Close`): one step, enabled iff `cs = []`.
Values are `Nat`, Go's zero value is `0`.  `mask(pos) = pos &&& (cap-1)` is written `pos % cap`
(`cap` is a power of two: `Props.C22.mpmc_cap_pow2`, `mask_eq_mod`).
-/
namespace OpenFGAVerif.Model.Mpmc

abbrev Tid := Nat
abbrev Val := Nat

structure Slot where
  seq : Nat
  data : Val
  deriving Repr, DecidableEq

/-- program points; `pos`/`v`/`c` are the goroutine's locals -/
inductive Pc
  | idle
  -- Send(ctx, v)
  | sEnter (v : Val)              -- RLock; done||ctx.Err → false; pos = head.Load
  | sLoop (pos : Nat) (v : Val)   -- loop test; seq = cell.Sequence.Load; branch on diff
  | sReload (v : Val)             -- diff>0: pos = head.Load
  | sCas (pos : Nat) (v : Val)    -- head.CompareAndSwap(pos,pos+1)
  | sWrite (pos : Nat) (v : Val)  -- cell.Data = item
  | sPub (pos : Nat) (v : Val)    -- cell.Sequence.Store(pos+1)
  | sSig (v : Val)                -- select{empty<-: default}; return true (RUnlock)
  | sExt (v : Val) (c : Nat)      -- (no lock held) Lock; if c==capacity&&!done&&ctx ok {extend}; Unlock
  | sPark (v : Val)               -- (no lock held) select{<-full: <-ctx.Done}
  | sRelock (v : Val)             -- RLock; pos = head.Load
  -- Recv(ctx)
  | rEnter                        -- RLock; pos = tail.Load   (also after parking)
  | rLoop (pos : Nat)             -- seq load; branch; on diff<0: done||ctx.Err → (0,false) else RUnlock
  | rReload                       -- diff>0: pos = tail.Load
  | rCas (pos : Nat)              -- tail.CompareAndSwap(pos,pos+1)
  | rRead (pos : Nat)             -- value = cell.Data
  | rZero (pos : Nat) (v : Val)   -- cell.Data = zero
  | rRecycle (pos : Nat) (v : Val)-- cell.Sequence.Store(pos+capacity)
  | rSig (v : Val)                -- if !done {select{full<-: default}}; return (v,true) (RUnlock)
  | rPark                         -- (no lock held) select{<-empty: <-ctx.Done}
  -- Close(), Grow(n)
  | cEnter
  | gEnter (n : Nat)
  deriving Repr, DecidableEq

/-- program points at which the goroutine holds the read lock -/
def Pc.inCS : Pc → Bool
  | .sLoop .. | .sReload .. | .sCas .. | .sWrite .. | .sPub .. | .sSig .. => true
  | .rLoop .. | .rReload | .rCas .. | .rRead .. | .rZero .. | .rRecycle .. | .rSig .. => true
  | _ => false

inductive Op
  | send (v : Val) | recv | close | grow (n : Nat)
  deriving Repr, DecidableEq

inductive Ev
  | call (t : Tid) (op : Op)
  | sendRet (t : Tid) (v : Val) (ok : Bool)
  | recvRet (t : Tid) (r : Option Val)
  | closeRet (t : Tid)
  | growRet (t : Tid) (ok : Bool)
  deriving Repr, DecidableEq

inductive Action
  | call (t : Tid) (op : Op)   -- thread `t` (idle) starts an operation
  | step (t : Tid)             -- thread `t` performs its next atomic step
  | ctxWake (t : Tid)          -- parked thread leaves the select through a closed ctx.Done()
  | cancel (t : Tid)           -- the environment cancels `t`'s context
  deriving Repr, DecidableEq

structure State where
  slots : Nat → Slot      -- p.data, by physical index
  cap : Nat               -- p.capacity
  head : Nat
  tail : Nat
  done : Bool             -- p.done; `empty` and `full` are closed iff done
  emptyTok : Bool         -- buffered(1) channel `empty` holds a token
  fullTok : Bool          -- buffered(1) channel `full` holds a token
  exts : Int              -- p.extensions (negative: unlimited)
  extended : Nat          -- p.extended
  cs : List Tid           -- holders of the read lock (RWMutex reader set)
  pc : Tid → Pc
  cancelled : Tid → Bool
  panicked : Bool         -- a send on a closed channel happened
  -- ghost (never read by a step's control flow)
  sent : List Val         -- values in the order of their successful head CAS (linearisation order)
  sentT : List Tid        -- the thread that did the corresponding CAS (same length as `sent`)
  taken : List (Tid × Nat × Val) -- (reader, absolute position, value) in the order of the data reads
  off : Nat               -- absolute position of ring position 0 (changes when `extend` renumbers)
  log : List Ev           -- call / return events, newest last

def upd {α : Type} (f : Nat → α) (i : Nat) (a : α) : Nat → α := fun j => if j = i then a else f j

def isPow2 (n : Nat) : Bool := n > 0 && (n &&& (n - 1)) == 0

/-- `NewQueue(capacity, extensions)`; `none` = ErrInvalidCapacity -/
def init (capacity : Nat) (extensions : Int) : Option State :=
  if capacity < 2 || !isPow2 capacity then none else
  some { slots := fun i => ⟨i, 0⟩, cap := capacity, head := 0, tail := 0, done := false,
         emptyTok := false, fullTok := false, exts := extensions, extended := 0, cs := [],
         pc := fun _ => .idle, cancelled := fun _ => false, panicked := false,
         sent := [], sentT := [], taken := [], off := 0, log := [] }

/-- body of `extend(n)` (caller holds the write lock) -/
def extend (s : State) (n : Nat) : State :=
  if s.cap ≥ n then s else
  let size := s.head - s.tail
  { s with
    slots := fun i => if i < size then ⟨i + 1, (s.slots ((s.tail + i) % s.cap)).data⟩ else ⟨i, 0⟩
    tail := 0, head := size, extended := s.extended + 1, cap := n, off := s.off + s.tail }

def setPc (s : State) (t : Tid) (p : Pc) : State := { s with pc := upd s.pc t p }

/-- enter the read-locked section -/
def enter (s : State) (t : Tid) (p : Pc) : State := { s with pc := upd s.pc t p, cs := t :: s.cs }
/-- leave the read-locked section -/
def leave (s : State) (t : Tid) (p : Pc) : State := { s with pc := upd s.pc t p, cs := s.cs.erase t }

def addLog (s : State) (e : Ev) : State := { s with log := s.log ++ [e] }

def setSlot (s : State) (i : Nat) (c : Slot) : State := { s with slots := upd s.slots i c }

/-- one atomic step of thread `t`; `none` = not enabled (blocked or idle) -/
def stepT (s : State) (t : Tid) : Option State :=
  match s.pc t with
  | .idle => none
  -- Send
  | .sEnter v =>
    if s.done || s.cancelled t then some (addLog (setPc s t .idle) (.sendRet t v false))
    else some (enter s t (.sLoop s.head v))
  | .sLoop pos v =>
    if s.done || s.cancelled t then some (addLog (leave s t .idle) (.sendRet t v false))
    else
      let seq := (s.slots (pos % s.cap)).seq
      if seq = pos then some (setPc s t (.sCas pos v))
      else if seq < pos then
        (if s.exts < 0 || (s.extended : Int) < s.exts then some (leave s t (.sExt v s.cap))
         else some (leave s t (.sPark v)))
      else some (setPc s t (.sReload v))
  | .sReload v => some (setPc s t (.sLoop s.head v))
  | .sCas pos v =>
    if s.head = pos then
      some { setPc s t (.sWrite pos v) with head := pos + 1, sent := s.sent ++ [v], sentT := s.sentT ++ [t] }
    else some (setPc s t (.sLoop pos v))
  | .sWrite pos v =>
    let i := pos % s.cap
    some (setPc (setSlot s i { s.slots i with data := v }) t (.sPub pos v))
  | .sPub pos v =>
    let i := pos % s.cap
    some (setPc (setSlot s i { s.slots i with seq := pos + 1 }) t (.sSig v))
  | .sSig v =>
    let s1 := if s.done then { s with panicked := true } else { s with emptyTok := true }
    some (addLog (leave s1 t .idle) (.sendRet t v true))
  | .sExt v c =>
    if s.cs ≠ [] then none else
    let s1 := if c = s.cap && !s.done && !s.cancelled t then extend s (s.cap * 2) else s
    some (setPc s1 t (.sRelock v))
  | .sPark v =>
    if s.fullTok then some (setPc { s with fullTok := false } t (.sRelock v))
    else if s.done || s.cancelled t then some (setPc s t (.sRelock v))
    else none
  | .sRelock v => some (enter s t (.sLoop s.head v))
  -- Recv
  | .rEnter => some (enter s t (.rLoop s.tail))
  | .rLoop pos =>
    let seq := (s.slots (pos % s.cap)).seq
    if seq = pos + 1 then some (setPc s t (.rCas pos))
    else if seq < pos + 1 then
      (if s.done || s.cancelled t then some (addLog (leave s t .idle) (.recvRet t none))
       else some (leave s t .rPark))
    else some (setPc s t .rReload)
  | .rReload => some (setPc s t (.rLoop s.tail))
  | .rCas pos =>
    if s.tail = pos then some { setPc s t (.rRead pos) with tail := pos + 1 }
    else some (setPc s t (.rLoop pos))
  | .rRead pos =>
    let v := (s.slots (pos % s.cap)).data
    some { setPc s t (.rZero pos v) with taken := s.taken ++ [(t, s.off + pos, v)] }
  | .rZero pos v =>
    let i := pos % s.cap
    some (setPc (setSlot s i { s.slots i with data := 0 }) t (.rRecycle pos v))
  | .rRecycle pos v =>
    let i := pos % s.cap
    some (setPc (setSlot s i { s.slots i with seq := pos + s.cap }) t (.rSig v))
  | .rSig v =>
    let s1 := if s.done then s else { s with fullTok := true }
    some (addLog (leave s1 t .idle) (.recvRet t (some v)))
  | .rPark =>
    if s.emptyTok then some (setPc { s with emptyTok := false } t .rEnter)
    else if s.done || s.cancelled t then some (setPc s t .rEnter)
    else none
  -- Close / Grow
  | .cEnter =>
    if s.cs ≠ [] then none else
    some (addLog (setPc { s with done := true } t .idle) (.closeRet t))
  | .gEnter n =>
    if !isPow2 n then some (addLog (setPc s t .idle) (.growRet t false))
    else if s.cs ≠ [] then none
    else some (addLog (setPc (extend s n) t .idle) (.growRet t true))

def startPc : Op → Pc
  | .send v => .sEnter v
  | .recv => .rEnter
  | .close => .cEnter
  | .grow n => .gEnter n

/-- the transition relation as a partial function of the action -/
def act (s : State) : Action → Option State
  | .call t op => if s.pc t = .idle then some (addLog (setPc s t (startPc op)) (.call t op)) else none
  | .step t => stepT s t
  | .ctxWake t =>
    if s.cancelled t then
      match s.pc t with
      | .sPark v => some (setPc s t (.sRelock v))
      | .rPark => some (setPc s t .rEnter)
      | _ => none
    else none
  | .cancel t => some { s with cancelled := upd s.cancelled t true }

/-- run an action list; actions that are not enabled are skipped (and counted) -/
def runCount (s : State) : List Action → State × Nat
  | [] => (s, 0)
  | a :: as =>
    match act s a with
    | some s' => runCount s' as
    | none => let (r, k) := runCount s as; (r, k + 1)

def run (s : State) (as : List Action) : State := (runCount s as).1

/-- reachability by enabled actions only -/
inductive Reach (s0 : State) : State → Prop
  | refl : Reach s0 s0
  | step {s s' : State} (a : Action) : Reach s0 s → act s a = some s' → Reach s0 s'

/-! ### derived, used by drivers -/

/-- run thread `t` until it is idle or blocked (fuel-bounded); returns the state and whether it finished -/
def runThread : Nat → State → Tid → State × Bool
  | 0, s, _ => (s, false)
  | fuel + 1, s, t =>
    if s.pc t = .idle then (s, true) else
    match stepT s t with
    | none => (s, false)
    | some s' => runThread fuel s' t

/-- logical content of the ring: the data of positions tail..head-1 -/
def content (s : State) : List Val :=
  (List.range (s.head - s.tail)).map fun i => (s.slots ((s.tail + i) % s.cap)).data

end OpenFGAVerif.Model.Mpmc
