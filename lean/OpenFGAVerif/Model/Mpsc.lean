/-
Model of `internal/containers/mpsc/accumulator.go` (lock-free MPSC list: CAS on `head`, then link
`prev.Next`, end sentinel inserted by `Close`) as a transition system over any number of threads.
Core Lean only, executable.

Naming of nodes.  A node is private to its sender until the sender's `head.CompareAndSwap`
succeeds, so nodes are named by the rank of that CAS: node 0 is the dummy created by
`NewAccumulator`, node k (k ≥ 1) is the k-th node swung into `head`, and its value is `vals[k-1]`.
`head` is node `cnt` (or nil once `Close` swapped it).  The `Next` field of node k is written by
exactly one thread: the sender that moved `head` from k to k+1, or `Close` (end sentinel).
One `step` = one access to a racy variable (`head`, a node's `Next`, `closed`, a channel);
`a.tail` is the consumer's private field.
-/
namespace OpenFGAVerif.Model.Mpsc

abbrev Tid := Nat
abbrev Val := Nat

/-- contents of a node's `Next` pointer -/
inductive Link
  | nil      -- not linked yet
  | node     -- points to the next data node (k+1)
  | endN     -- points to the end sentinel
  deriving Repr, DecidableEq

inductive Pc
  | idle
  -- Send(v)
  | mLoad (v : Val)               -- currentHead = head.Load(); nil → return false
  | mCas (v : Val) (cur : Nat)    -- head.CompareAndSwap(currentHead, &node)
  | mLink (v : Val) (cur : Nat)   -- currentHead.Next.Store(&node)
  | mSig (v : Val)                -- select{signal<-: default}; return true
  -- Close()
  | cFlag                         -- closed.Swap(true); already closed → return
  | cSwap                         -- oldHead = head.Swap(nil)
  | cLink (old : Nat)             -- oldHead.Next.Store(&end)
  | cDone                         -- close(done)
  -- Recv(ctx) / TryRecv()
  | vLoad                         -- next = tail.Next.Load(); nil → park; end → false; else take
  | vPark                         -- select{<-signal: <-done: <-ctx.Done}
  | tLoad                         -- TryRecv: like vLoad without parking
  deriving Repr, DecidableEq

inductive Op
  | send (v : Val) | recv | tryRecv | close
  deriving Repr, DecidableEq

inductive Ev
  | call (t : Tid) (op : Op)
  | sendRet (t : Tid) (v : Val) (ok : Bool)
  | recvRet (t : Tid) (r : Option Val)
  | closeRet (t : Tid)
  deriving Repr, DecidableEq

inductive Action
  | call (t : Tid) (op : Op)
  | step (t : Tid)
  | ctxWake (t : Tid)   -- parked consumer leaves the select through a closed ctx.Done(): Recv returns false
  | cancel (t : Tid)
  deriving Repr, DecidableEq

structure State where
  cnt : Nat               -- head is node `cnt` (number of successful head CASes)
  vals : List Val         -- value of node k is vals[k-1]
  valsT : List Tid        -- (ghost) the sender of node k
  nxt : Nat → Link        -- Next field of node k
  headNil : Bool          -- head == nil (Close swapped it)
  tail : Nat              -- a.tail (consumer private)
  sigTok : Bool           -- buffered(1) channel `signal` holds a token
  doneClosed : Bool       -- channel `done` is closed
  closed : Bool           -- a.closed
  pc : Tid → Pc
  cancelled : Tid → Bool
  bad : Bool              -- the consumer followed a link to a node that was never published (unreachable)
  -- ghost
  recvd : List Val        -- values returned by Recv/TryRecv, in order
  log : List Ev

def upd {α : Type} (f : Nat → α) (i : Nat) (a : α) : Nat → α := fun j => if j = i then a else f j

def init : State :=
  { cnt := 0, vals := [], valsT := [], nxt := fun _ => .nil, headNil := false, tail := 0, sigTok := false,
    doneClosed := false, closed := false, pc := fun _ => .idle, cancelled := fun _ => false, bad := false,
    recvd := [], log := [] }

def setPc (s : State) (t : Tid) (p : Pc) : State := { s with pc := upd s.pc t p }
def addLog (s : State) (e : Ev) : State := { s with log := s.log ++ [e] }

/-- the consumer's look at `tail.Next`; `park` tells whether an empty list parks (Recv) or returns (TryRecv) -/
def look (s : State) (t : Tid) (park : Bool) : State :=
  match s.nxt s.tail with
  | .nil => if park then setPc s t .vPark else addLog (setPc s t .idle) (.recvRet t none)
  | .endN => addLog (setPc s t .idle) (.recvRet t none)
  | .node =>
    match s.vals[s.tail]? with
    | some v => addLog (setPc { s with tail := s.tail + 1, recvd := s.recvd ++ [v] } t .idle) (.recvRet t (some v))
    | none => { s with bad := true }

def stepT (s : State) (t : Tid) : Option State :=
  match s.pc t with
  | .idle => none
  | .mLoad v =>
    if s.headNil then some (addLog (setPc s t .idle) (.sendRet t v false))
    else some (setPc s t (.mCas v s.cnt))
  | .mCas v cur =>
    if !s.headNil && s.cnt == cur then
      some (setPc { s with cnt := cur + 1, vals := s.vals ++ [v], valsT := s.valsT ++ [t] } t (.mLink v cur))
    else some (setPc s t (.mLoad v))
  | .mLink v cur => some (setPc { s with nxt := upd s.nxt cur .node } t (.mSig v))
  | .mSig v => some (addLog (setPc { s with sigTok := true } t .idle) (.sendRet t v true))
  | .cFlag =>
    if s.closed then some (addLog (setPc s t .idle) (.closeRet t))
    else some (setPc { s with closed := true } t .cSwap)
  | .cSwap => some (setPc { s with headNil := true } t (.cLink s.cnt))
  | .cLink old => some (setPc { s with nxt := upd s.nxt old .endN } t .cDone)
  | .cDone => some (addLog (setPc { s with doneClosed := true } t .idle) (.closeRet t))
  | .vLoad => some (look s t true)
  | .tLoad => some (look s t false)
  | .vPark =>
    if s.sigTok then some (setPc { s with sigTok := false } t .vLoad)
    else if s.doneClosed then some (setPc s t .vLoad)
    else none

def startPc : Op → Pc
  | .send v => .mLoad v
  | .recv => .vLoad
  | .tryRecv => .tLoad
  | .close => .cFlag

def act (s : State) : Action → Option State
  | .call t op => if s.pc t = .idle then some (addLog (setPc s t (startPc op)) (.call t op)) else none
  | .step t => stepT s t
  | .ctxWake t =>
    if s.cancelled t && s.pc t == .vPark then some (addLog (setPc s t .idle) (.recvRet t none)) else none
  | .cancel t => some { s with cancelled := upd s.cancelled t true }

def runCount (s : State) : List Action → State × Nat
  | [] => (s, 0)
  | a :: as =>
    match act s a with
    | some s' => runCount s' as
    | none => let (r, k) := runCount s as; (r, k + 1)

def run (s : State) (as : List Action) : State := (runCount s as).1

/-- run thread `t` until it is idle or blocked -/
def runThread : Nat → State → Tid → State × Bool
  | 0, s, _ => (s, false)
  | fuel + 1, s, t =>
    if s.pc t = .idle then (s, true) else
    match stepT s t with
    | none => (s, false)
    | some s' => runThread fuel s' t

end OpenFGAVerif.Model.Mpsc
