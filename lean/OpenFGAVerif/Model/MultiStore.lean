/-
Model for C16: one shared implementation state (tables with a store column, caches whose keys carry the store id — as
the memory backend's `map[store]…`, the SQL backends' `WHERE store = ?` and the key functions of pkg/storage/cache.go do)
against the per-store specification "each store behaves as if it were alone".  Core Lean only.

`Spec` / `Impl` / `Local` are generic; `shared` is the concrete instance:

  tuples     rows `(store, tuple)`                 memory: `s.tuples[store]`, SQL: table `tuple`   (writes, deletes, reads)
  changes    rows `(store, change)`                `s.changes[store]` / table `changelog`           (ReadChanges)
  models     rows `(store, model)`                 `s.authorizationModels[store]`                   (model writes, listing, latest)
  asserts    rows `((store, model rank), list)`    `s.assertions[store|model]`                      (assertions)
  cache      entries `((store, query), answer)`    every cache key has the store id among its fields (C24 `tie_store_in_every_key`)
  registry   rows `(store, alive)`                 `s.stores` / table `store` with `deleted_at`
-/
namespace OpenFGAVerif.Model.MultiStore

/-! ### the generic statement -/

/-- what one store does in isolation -/
structure Spec (S O R : Type) where
  step : S → O → S × R

/-- the shared implementation: one state for all stores, a store argument on every operation, and the projection of the
state on one store -/
structure Impl (G S O R : Type) where
  step : G → Nat → O → G × R
  proj : G → Nat → S

/-- the three locality facts: an operation on store `a` acts on `a`'s projection exactly as the specification does,
answers from that projection only, and leaves every other projection alone -/
structure Local {G S O R : Type} (impl : Impl G S O R) (spec : Spec S O R) : Prop where
  own : ∀ g a o, impl.proj (impl.step g a o).1 a = (spec.step (impl.proj g a) o).1
  res : ∀ g a o, (impl.step g a o).2 = (spec.step (impl.proj g a) o).2
  frame : ∀ g a b o, b ≠ a → impl.proj (impl.step g a o).1 b = impl.proj g b

def runImpl {G S O R : Type} (impl : Impl G S O R) : G → List (Nat × O) → G × List (Nat × R)
  | g, [] => (g, [])
  | g, (a, o) :: rest =>
    let (g', r) := impl.step g a o
    let (g'', rs) := runImpl impl g' rest
    (g'', (a, r) :: rs)

def runSpec {S O R : Type} (spec : Spec S O R) : S → List O → S × List R
  | s, [] => (s, [])
  | s, o :: rest =>
    let (s', r) := spec.step s o
    let (s'', rs) := runSpec spec s' rest
    (s'', r :: rs)

/-- the part of an interleaved history / answer list that belongs to store `b` -/
def onStore {α : Type} (b : Nat) (l : List (Nat × α)) : List α :=
  l.filterMap (fun p => if p.1 = b then some p.2 else none)

/-! ### the concrete shared state -/

/-- rows of a table that belong to store `a` -/
def sel {α : Type} (tbl : List (Nat × α)) (a : Nat) : List α :=
  tbl.filterMap (fun p => if p.1 = a then some p.2 else none)

structure Shared (Tup Q Ans : Type) where
  tuples : List (Nat × Tup)
  changes : List (Nat × (Bool × Tup))          -- (isWrite, tuple)
  models : List (Nat × Nat)                     -- (store, model variant), in write order
  asserts : List (Nat × (Nat × List Tup))       -- (store, (model rank, assertions))
  cache : List (Nat × (Q × Ans))                -- key = (store, query)
  registry : List (Nat × Unit)                  -- live stores
  deriving Inhabited

structure One (Tup Q Ans : Type) where
  tuples : List Tup
  changes : List (Bool × Tup)
  models : List Nat
  asserts : List (Nat × List Tup)
  cache : List (Q × Ans)
  alive : Bool
  deriving Inhabited

inductive Op (Tup Q : Type) where
  | create
  | write (t : Tup)
  | delete (t : Tup)
  | read
  | readChanges
  | query (q : Q)            -- served from the cache when present
  | queryFresh (q : Q)       -- HIGHER_CONSISTENCY: bypasses and does not fill the cache
  | writeModel (v : Nat)
  | readModels
  | writeAsserts (as : List Tup)
  | readAsserts
  | getStore
  | deleteStore

inductive Res (Tup Ans : Type) where
  | ok
  | conflict
  | tuples (ts : List Tup)
  | changes (cs : List (Bool × Tup))
  | ans (a : Ans)
  | models (vs : List Nat)
  | asserts (as : List Tup)
  | alive (b : Bool)
  deriving DecidableEq

variable {Tup Q Ans : Type} [DecidableEq Tup] [DecidableEq Q]

/-- the per-store specification; `eval` is the evaluation of a query against a tuple set under the latest model -/
def oneStep (eval : List Tup → Option Nat → Q → Ans) (s : One Tup Q Ans) : Op Tup Q → One Tup Q Ans × Res Tup Ans
  | .create => ({ s with alive := true }, .ok)
  | .write t =>
    if s.tuples.contains t then (s, .conflict)
    else ({ s with tuples := s.tuples ++ [t], changes := s.changes ++ [(true, t)] }, .ok)
  | .delete t =>
    if s.tuples.contains t then
      ({ s with tuples := s.tuples.filter (· ≠ t), changes := s.changes ++ [(false, t)] }, .ok)
    else (s, .conflict)
  | .read => (s, .tuples s.tuples)
  | .readChanges => (s, .changes s.changes)
  | .query q =>
    match s.cache.find? (·.1 = q) with
    | some e => (s, .ans e.2)
    | none =>
      let a := eval s.tuples s.models.getLast? q
      ({ s with cache := s.cache ++ [(q, a)] }, .ans a)
  | .queryFresh q => (s, .ans (eval s.tuples s.models.getLast? q))
  | .writeModel v => ({ s with models := s.models ++ [v] }, .ok)
  | .readModels => (s, .models s.models)
  | .writeAsserts as => ({ s with asserts := s.asserts.filter (·.1 ≠ s.models.length) ++ [(s.models.length, as)] }, .ok)
  | .readAsserts => (s, .asserts (((s.asserts.find? (·.1 = s.models.length)).map (·.2)).getD []))
  | .getStore => (s, .alive s.alive)
  | .deleteStore => ({ s with alive := false }, .ok)

def proj (g : Shared Tup Q Ans) (a : Nat) : One Tup Q Ans :=
  { tuples := sel g.tuples a, changes := sel g.changes a, models := sel g.models a, asserts := sel g.asserts a,
    cache := sel g.cache a, alive := !(sel g.registry a).isEmpty }

/-- remove the rows of store `a` that satisfy `p` -/
def dropWhere {α : Type} (tbl : List (Nat × α)) (a : Nat) (p : α → Bool) : List (Nat × α) :=
  tbl.filter (fun r => !(r.1 = a && p r.2))

/-- the shared implementation: every access names the store -/
def sharedStep (eval : List Tup → Option Nat → Q → Ans) (g : Shared Tup Q Ans) (a : Nat) :
    Op Tup Q → Shared Tup Q Ans × Res Tup Ans
  | .create => ({ g with registry := dropWhere g.registry a (fun _ => true) ++ [(a, ())] }, .ok)
  | .write t =>
    if (sel g.tuples a).contains t then (g, .conflict)
    else ({ g with tuples := g.tuples ++ [(a, t)], changes := g.changes ++ [(a, (true, t))] }, .ok)
  | .delete t =>
    if (sel g.tuples a).contains t then
      ({ g with tuples := dropWhere g.tuples a (· = t), changes := g.changes ++ [(a, (false, t))] }, .ok)
    else (g, .conflict)
  | .read => (g, .tuples (sel g.tuples a))
  | .readChanges => (g, .changes (sel g.changes a))
  | .query q =>
    match (sel g.cache a).find? (·.1 = q) with
    | some e => (g, .ans e.2)
    | none =>
      let ans := eval (sel g.tuples a) (sel g.models a).getLast? q
      ({ g with cache := g.cache ++ [(a, (q, ans))] }, .ans ans)
  | .queryFresh q => (g, .ans (eval (sel g.tuples a) (sel g.models a).getLast? q))
  | .writeModel v => ({ g with models := g.models ++ [(a, v)] }, .ok)
  | .readModels => (g, .models (sel g.models a))
  | .writeAsserts as =>
    let rank := (sel g.models a).length
    ({ g with asserts := dropWhere g.asserts a (·.1 = rank) ++ [(a, (rank, as))] }, .ok)
  | .readAsserts => (g, .asserts ((((sel g.asserts a).find? (·.1 = (sel g.models a).length)).map (·.2)).getD []))
  | .getStore => (g, .alive (!(sel g.registry a).isEmpty))
  | .deleteStore => ({ g with registry := dropWhere g.registry a (fun _ => true) }, .ok)

def shared (eval : List Tup → Option Nat → Q → Ans) : Impl (Shared Tup Q Ans) (One Tup Q Ans) (Op Tup Q) (Res Tup Ans) :=
  { step := sharedStep eval, proj := proj }

def one (eval : List Tup → Option Nat → Q → Ans) : Spec (One Tup Q Ans) (Op Tup Q) (Res Tup Ans) :=
  { step := oneStep eval }

/-- `ListStores`: the stores that are alive -/
def listStores (g : Shared Tup Q Ans) : List Nat := g.registry.map (·.1)

/-! ### a broken implementation, for contrast: a cache whose key forgets the store -/

/-- as `sharedStep` but the query cache is looked up by the query alone (what a key function without the store id does) -/
def leakyQuery (eval : List Tup → Option Nat → Q → Ans) (g : Shared Tup Q Ans) (a : Nat) (q : Q) : Shared Tup Q Ans × Ans :=
  match g.cache.find? (·.2.1 = q) with
  | some e => (g, e.2.2)
  | none =>
    let ans := eval (sel g.tuples a) (sel g.models a).getLast? q
    ({ g with cache := g.cache ++ [(a, (q, ans))] }, ans)

end OpenFGAVerif.Model.MultiStore
