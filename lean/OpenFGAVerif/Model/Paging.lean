/-
Model of pagination (C14).  Core Lean only.

  memory.go  read (ReadPage)                      offset tokens, `strconv.Atoi`, slice      → `memReadPage`
  memory.go  ReadAuthorizationModels / ListStores offset tokens, clamped                    → `memClampPage`
  sqlite.go  read + SQLTupleIterator.ToArray      `ulid >= token`, LIMIT ps+1 look-ahead    → `sqlPage`
  sqlite.go  ListStores / ReadAuthorizationModels `id >= token` / `id <= token` (desc), ps+1 → `sqlPage` (other order)
  memory.go / sqlite.go ReadChanges               `ulid > token`, LIMIT ps, token = last    → `changesPage`
  commands/read_changes.go                        token ↔ type filter                       → `readChangesToken`
  commands/read.go                                decode → deserialize → storage            → `readTokenOffset`

Items are abstract (`α`), keys are abstract (`K`) with a strict order given as a Boolean `lt`; the list handed to a
page function is the list of matching items in the order of the backend (commit order = ULID order; newest first for
models: the same functions with the reversed `lt`).  The client that follows tokens is `follow…` with explicit fuel.
-/
namespace OpenFGAVerif.Model.Paging

/-! ### `strconv.Atoi` (decimal, optional sign; overflow is not modelled) -/

def digitVal (c : Char) : Option Nat :=
  if '0' ≤ c ∧ c ≤ '9' then some (c.toNat - '0'.toNat) else none

def parseDigits : List Char → Nat → Option Nat
  | [], acc => some acc
  | c :: cs, acc =>
    match digitVal c with
    | none => none
    | some d => parseDigits cs (acc * 10 + d)

/-- `strconv.Atoi` on a list of characters: "", "+", "-" and anything with a non-digit are errors. -/
def atoi (s : List Char) : Option Int :=
  match s with
  | [] => none
  | '-' :: rest => if rest.isEmpty then none else (parseDigits rest 0).map (fun n => - (Int.ofNat n))
  | '+' :: rest => if rest.isEmpty then none else (parseDigits rest 0).map Int.ofNat
  | _ => (parseDigits s 0).map Int.ofNat

/-! ### memory backend: offset tokens -/

inductive OffRes (α : Type) where
  /-- `matches[from:]` with a negative `from`: slice bounds out of range (only before commit badbaa3) -/
  | panic
  /-- `storage.ErrInvalidContinuationToken` -/
  | invalidToken
  | page (items : List α) (next : Option Int)
deriving Repr

/-- The tail of `MemoryBackend.read` (since commit badbaa3):
```
if from < 0 || from > len(matches) { return nil, storage.ErrInvalidContinuationToken }
matches = matches[from:]
to := PageSize
if to != 0 && to < len(matches) { return matches[:to], strconv.Itoa(from + to) }
return matches, ""
``` -/
def memReadPage {α : Type} (items : List α) (ps : Nat) (frm : Int) : OffRes α :=
  if frm < 0 ∨ frm > (items.length : Int) then .invalidToken
  else
    let m := items.drop frm.toNat
    if ps ≠ 0 ∧ ps < m.length then .page (m.take ps) (some (frm + ps)) else .page m none

/-- The same tail BEFORE commit badbaa3 (finding F22), kept as documentation:
```
if from <= len(matches) { matches = matches[from:] }
```
a negative `from` panics, a `from` beyond the end leaves `matches` untouched (the first page is answered again). -/
def memReadPageBeforeFix {α : Type} (items : List α) (ps : Nat) (frm : Int) : OffRes α :=
  if frm < 0 then .panic
  else
    let m := if frm.toNat ≤ items.length then items.drop frm.toNat else items
    if ps ≠ 0 ∧ ps < m.length then .page (m.take ps) (some (frm + ps)) else .page m none

/-- `ReadAuthorizationModels` / `ListStores` of the memory backend:
```
from = max(0, min(from, len)); to := min(len, from+pageSize); res := xs[from:to]
if to != len { token = strconv.Itoa(to) }
``` -/
def memClampPage {α : Type} (items : List α) (ps : Nat) (frm : Int) : List α × Option Nat :=
  let f := (max 0 (min frm (items.length : Int))).toNat
  let to := min items.length (f + ps)
  ((items.drop f).take (to - f), if to ≠ items.length then some to else none)

/-- the client: follow the offset tokens of `read` from offset `k` -/
def followMemRead {α : Type} (items : List α) (ps : Nat) : Nat → Nat → Option (List (List α))
  | 0, _ => none
  | fuel + 1, k =>
    match memReadPage items ps (k : Int) with
    | .panic => none
    | .invalidToken => none
    | .page xs none => some [xs]
    | .page xs (some n) => if n < 0 then none else (followMemRead items ps fuel n.toNat).map (xs :: ·)

def followMemClamp {α : Type} (items : List α) (ps : Nat) : Nat → Nat → Option (List (List α))
  | 0, _ => none
  | fuel + 1, k =>
    match memClampPage items ps (k : Int) with
    | (xs, none) => some [xs]
    | (xs, some n) => (followMemClamp items ps fuel n).map (xs :: ·)

/-! ### SQL backends: key tokens with a look-ahead row -/

/-- rows selected by the token clause: `key >= token` in the order of the query (`!lt (key x) token`) -/
def rowsFrom {α K : Type} (key : α → K) (lt : K → K → Bool) (items : List α) (tok : Option K) : List α :=
  match tok with
  | none => items
  | some k => items.filter (fun x => !lt (key x) k)

/-- `LIMIT ps+1`; the first `ps` rows are the page, the key of the extra row (if any) is the token
(`SQLTupleIterator.ToArray`, the loops of `ListStores` and `ReadAuthorizationModels`). -/
def sqlPage {α K : Type} (key : α → K) (lt : K → K → Bool) (items : List α) (ps : Nat) (tok : Option K) : List α × Option K :=
  let rows := (rowsFrom key lt items tok).take (ps + 1)
  (rows.take ps, (rows.drop ps).head?.map key)

def followSql {α K : Type} (key : α → K) (lt : K → K → Bool) (items : List α) (ps : Nat) : Nat → Option K → Option (List (List α))
  | 0, _ => none
  | fuel + 1, tok =>
    match sqlPage key lt items ps tok with
    | (xs, none) => some [xs]
    | (xs, some k) => (followSql key lt items ps fuel (some k)).map (xs :: ·)

/-! ### ReadChanges (both backends): strictly after the token, token = last returned -/

/-- `ulid > token` (`lt token (key x)`), `LIMIT ps`; an empty result is `ErrNotFound` (the command then answers
with no changes and the request's own token); otherwise the token is the ULID of the last row returned. -/
def changesPage {α K : Type} (key : α → K) (lt : K → K → Bool) (items : List α) (ps : Nat) (tok : Option K) : List α × Option K :=
  let rows := (match tok with
    | none => items
    | some k => items.filter (fun x => lt k (key x))).take ps
  (rows, rows.getLast?.map key)

/-- the client reads until a page comes back empty -/
def followChanges {α K : Type} (key : α → K) (lt : K → K → Bool) (items : List α) (ps : Nat) : Nat → Option K → Option (List (List α))
  | 0, _ => none
  | fuel + 1, tok =>
    match changesPage key lt items ps tok with
    | (_, none) => some []
    | (xs, some k) => (followChanges key lt items ps fuel (some k)).map (xs :: ·)

/-- keys strictly increasing along the list (ULID monotonicity in commit order; descending ids for models) -/
def StrictSorted {α K : Type} (key : α → K) (lt : K → K → Bool) (items : List α) : Prop :=
  items.Pairwise (fun a b => lt (key a) (key b) = true ∧ lt (key b) (key a) = false)

/-! ### command layer: what is done with a continuation token -/

abbrev Bytes := List UInt8

inductive TokErr where
  /-- `serverErrors.ErrInvalidContinuationToken` -/
  | invalidToken
  /-- `serverErrors.ErrMismatchObjectType` -/
  | mismatchType
deriving DecidableEq, Repr

/-- `ReadChangesQuery.Execute`, the `token != ""` branch: `des` is the configured `ContinuationTokenSerializer.Deserialize`. -/
def readChangesToken (des : Bytes → Option (Bytes × Bytes)) (decoded : Bytes) (reqType : Bytes) : Except TokErr (Option Bytes) :=
  if decoded = [] then .ok none
  else
    match des decoded with
    | none => .error .invalidToken
    | some (ulid, objType) => if objType ≠ reqType then .error .mismatchType else .ok (some ulid)

/-- `ReadQuery.Execute`: `from, _, err := Deserialize(decoded)` — the type part is ignored. -/
def readToken (des : Bytes → Option (Bytes × Bytes)) (decoded : Bytes) : Except TokErr (Option Bytes) :=
  if decoded = [] then .ok none
  else
    match des decoded with
    | none => .error .invalidToken
    | some (frm, _) => .ok (some frm)

end OpenFGAVerif.Model.Paging
