/-
C19: models of the panic sites of the anchored files that lie on a modelled path, each with the guard the Go
code relies on.  `Except Panic α`: `.error p` = the Go code panics at site `p`.

  typesystem.WalkUsersetRewrite / RewriteContainsSelf   → `walk` / `rewriteContainsSelf` over `Raw`, a userset
      rewrite as it arrives on the wire (the oneof of any node may be unset); `wellFormed` is the structural part
      of `isUsersetRewriteValid` (every node has its oneof set)
  graph.exclusion  handlers[0], handlers[1]              → `exclusionOperands`
  condition.Evaluate  contextMaps[0]                     → `evaluateFirstContext` with `contextFieldsLen` = what
      eval.EvaluateTupleCondition passes
  typesystem.GetRelationReferenceAsString                → `relationRefAsString` (panics on a plain type reference;
      it has no production caller)

Core Lean only.
-/
namespace OpenFGAVerif.Model.Panics

inductive Panic where
  | rewriteEvaluation      -- typesystem.go:RewriteContainsSelf  "unexpected error during rewrite evaluation"
  | relationReference      -- typesystem.go:GetRelationReferenceAsString  "unexpected relation reference"
  | index (site : String)  -- index out of range
  deriving DecidableEq, Repr

/-- a userset rewrite on the wire -/
inductive Raw where
  | unset
  | this
  | computed (rel : String)
  | ttu (tupleset computed : String)
  | union (cs : List Raw)
  | inter (cs : List Raw)
  | diff (base sub : Raw)
  deriving Repr

mutual
/-- `isUsersetRewriteValid`: `if rewrite.GetUserset() == nil { return error }` at every node -/
def wellFormed : Raw → Bool
  | .unset => false
  | .this => true
  | .computed _ => true
  | .ttu _ _ => true
  | .union cs => wellFormedL cs
  | .inter cs => wellFormedL cs
  | .diff b s => wellFormed b && wellFormed s
def wellFormedL : List Raw → Bool
  | [] => true
  | c :: cs => wellFormed c && wellFormedL cs
end

mutual
/-- `WalkUsersetRewrite(rewrite, handler)`: `.error ()` = "unexpected userset rewrite type encountered" -/
def walk {α : Type} (h : Raw → Option α) : Raw → Except Unit (Option α)
  | .unset => match h .unset with
    | some a => .ok (some a)
    | none => .error ()
  | .this => match h .this with
    | some a => .ok (some a)
    | none => .ok (h .this)
  | .computed r => match h (.computed r) with
    | some a => .ok (some a)
    | none => .ok (h (.computed r))
  | .ttu t c => match h (.ttu t c) with
    | some a => .ok (some a)
    | none => .ok (h (.ttu t c))
  | .union cs => match h (.union cs) with
    | some a => .ok (some a)
    | none => walkL h cs
  | .inter cs => match h (.inter cs) with
    | some a => .ok (some a)
    | none => walkL h cs
  | .diff b s => match h (.diff b s) with
    | some a => .ok (some a)
    | none =>
      match walk h b with
      | .error e => .error e
      | .ok (some a) => .ok (some a)
      | .ok none => walk h s
def walkL {α : Type} (h : Raw → Option α) : List Raw → Except Unit (Option α)
  | [] => .ok none
  | c :: cs =>
    match walk h c with
    | .error e => .error e
    | .ok (some a) => .ok (some a)
    | .ok none => walkL h cs
end

/-- the handler of `RewriteContainsSelf`: `true` on a direct-assignment leaf, nil otherwise -/
def isThis : Raw → Option Bool
  | .this => some true
  | _ => none

/-- `RewriteContainsSelf`: panics when the walk reports an error -/
def rewriteContainsSelf (rw : Raw) : Except Panic Bool :=
  match walk isThis rw with
  | .error _ => .error .rewriteEvaluation
  | .ok r => .ok (r == some true)

/-- `exclusion`: `if len(handlers) != 2 { return error }` and only then `handlers[0]`, `handlers[1]`;
`guardFirst` = the guard really precedes the index expressions (extracted) -/
def exclusionOperands (guardFirst : Bool) (n : Nat) : Except Panic (Option (Nat × Nat)) :=
  if guardFirst && n != 2 then .ok none            -- error return, no index evaluated
  else if 1 < n then .ok (some (0, 1))
  else .error (.index "handlers")

/-- number of context maps `EvaluateTupleCondition` passes: a one-element literal, plus the tuple context -/
def contextFieldsLen (literalLen : Nat) (hasTupleContext : Bool) : Nat :=
  literalLen + (if hasTupleContext then 1 else 0)

/-- `Evaluate(ctx, contextMaps...)`: `contextMaps[0]` -/
def evaluateFirstContext (n : Nat) : Except Panic Unit :=
  if 0 < n then .ok () else .error (.index "contextMaps[0]")

/-- the oneof of a RelationReference -/
inductive RefKind where
  | plain | relation | wildcard
  deriving DecidableEq, Repr

def relationRefAsString (nilRef : Bool) (k : RefKind) : Except Panic String :=
  if nilRef then .ok ""
  else match k with
    | .relation => .ok "type#relation"
    | .wildcard => .ok "type:*"
    | .plain => .error .relationReference

/-! ### finding F26: the shape of a type restriction (openfga/language graph builder, `parseThis`) -/

/-- the `relation_or_wildcard` oneof of a RelationReference as it arrives on the wire -/
inductive RefShape where
  | plain                       -- oneof unset: `[user]`
  | relation (name : String)    -- `[group#member]`; the name may be empty on the wire
  | wildcard (payload : Bool)   -- `[user:*]`; the Wildcard message may be missing on the wire
  deriving DecidableEq, Repr

/-- `parseThis`: which node the three `if`s select (`none`: `curNode` stays nil and `upsertEdge(nil, …)` dereferences it) -/
def parseThisNode : RefShape → Option String
  | .plain => some "type"
  | .wildcard true => some "type:*"
  | .wildcard false => none
  | .relation name => if name ≠ "" then some "type#relation" else none

def parseThis (s : RefShape) : Except Panic Unit :=
  match parseThisNode s with
  | some _ => .ok ()
  | none => .error (.index "nil *AuthorizationModelNode in upsertEdge")

/-- `typesystem.checkRelationReferenceShape` (the fix of F26): `true` = accepted -/
def shapeGuard : RefShape → Bool
  | .plain => true
  | .relation name => name ≠ ""
  | .wildcard payload => payload

/-! ### offset pagination of the memory datastore (ReadAuthorizationModels, ListStores)

    from, err = strconv.Atoi(token)            -- any int the client likes
    from = max(0, min(from, len(xs)))          -- clamp first
    to := min(len(xs), from+pageSize)          -- then derive the upper bound
    res := xs[from:to]                         -- panics unless 0 ≤ from ≤ to ≤ len -/

/-- Go `int` addition on a 64-bit platform (wraps) -/
def wrap64 (x : Int) : Int := (x + 9223372036854775808) % 18446744073709551616 - 9223372036854775808

/-- the bounds as the source computes them: clamp, then add -/
def pageBounds (len pageSize : Nat) (offset : Int) : Int × Int :=
  let from' := max 0 (min offset len)
  (from', min (len : Int) (wrap64 (from' + pageSize)))

/-- the other order: the upper bound from the unclamped offset, the offset clamped to it afterwards -/
def pageBoundsUnclamped (len pageSize : Nat) (offset : Int) : Int × Int :=
  let to := min (len : Int) (wrap64 (offset + pageSize))
  (max 0 (min offset to), to)

/-- `xs[from:to]` does not panic -/
def sliceOK (len : Nat) (b : Int × Int) : Bool := decide (0 ≤ b.1) && decide (b.1 ≤ b.2) && decide (b.2 ≤ len)

end OpenFGAVerif.Model.Panics
