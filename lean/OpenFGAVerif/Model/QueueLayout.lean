/-
Which source operations each program point of `Model.Mpmc` / `Model.Mpsc` stands for, in source
order.  The concatenation of a table is what the go/ast extractor must find in the corresponding
Go method (`Gen.Queue.*Ops`); the tie lemmas in `Props.C22` compare them on every run, so a
reordered, dropped or added synchronisation operation in the Go source breaks the tie.
Core Lean only.
-/
namespace OpenFGAVerif.Model.QueueLayout

def flat (l : List (String × List String)) : List String := (l.map (·.2)).flatten

/-- mpmc.Queue.Send -/
def mpmcSend : List (String × List String) :=
  [("sEnter",  ["p.mu.RLock()", "defer p.mu.RUnlock()", "p.done.Load()", "ctx.Err()", "return false", "p.head.Load()"]),
   ("sLoop",   ["p.done.Load()", "ctx.Err()", "cell.Sequence.Load()"]),
   ("sCas",    ["p.head.CompareAndSwap(pos, pos+1)"]),
   ("sWrite",  ["cell.Data = item"]),
   ("sPub",    ["cell.Sequence.Store(pos + 1)"]),
   ("sSig",    ["send p.empty", "default", "return true"]),
   ("sLoop diff<0", ["p.mu.RUnlock()"]),
   ("sExt",    ["p.mu.Lock()", "p.done.Load()", "ctx.Err()", "p.extend(uint(p.capacity) << 1)", "p.mu.Unlock()"]),
   ("sPark",   ["recv p.full", "recv ctx.Done()", "ctx.Done()"]),
   ("sRelock", ["p.mu.RLock()", "p.head.Load()"]),
   ("sReload", ["p.head.Load()"]),
   ("sLoop exit", ["return false"])]

/-- mpmc.Queue.Recv -/
def mpmcRecv : List (String × List String) :=
  [("rEnter",   ["p.mu.RLock()", "defer p.mu.RUnlock()", "p.tail.Load()"]),
   ("rLoop",    ["cell.Sequence.Load()"]),
   ("rCas",     ["p.tail.CompareAndSwap(pos, pos+1)"]),
   ("rRead",    ["value := cell.Data"]),
   ("rZero",    ["cell.Data = zero"]),
   ("rRecycle", ["cell.Sequence.Store(pos + int64(p.capacity))"]),
   ("rSig",     ["p.done.Load()", "send p.full", "default", "return value, true"]),
   ("rLoop diff<0", ["p.done.Load()", "ctx.Err()", "return zero, false", "p.mu.RUnlock()"]),
   ("rPark",    ["recv p.empty", "recv ctx.Done()", "ctx.Done()"]),
   ("rEnter (again)", ["p.mu.RLock()", "p.tail.Load()"]),
   ("rReload",  ["p.tail.Load()"])]

/-- mpmc.Queue.Close: one write-locked step -/
def mpmcClose : List (String × List String) :=
  [("cEnter", ["p.mu.Lock()", "defer p.mu.Unlock()", "p.done.Swap(true)", "close(p.empty)", "close(p.full)"])]

/-- mpmc.Queue.extend (called with the write lock held; part of sExt / gEnter) -/
def mpmcExtend : List (String × List String) :=
  [("extend", ["return", "p.head.Load()", "p.tail.Load()", "newData[i].Data = p.data[oldIndex].Data",
               "newData[i].Sequence.Store(i + 1)", "newData[i].Sequence.Store(i)", "p.tail.Store(0)",
               "p.head.Store(currentSize)"])]

def mpmcGrow : List (String × List String) :=
  [("gEnter", ["return ErrInvalidCapacity", "p.mu.Lock()", "defer p.mu.Unlock()", "p.extend(uint(n))", "return nil"])]

def mpmcNewQueue : List (String × List String) :=
  [("init", ["return nil, ErrInvalidCapacity", "make(chan struct{}, 1)", "make(chan struct{}, 1)",
             "p.data[i].Sequence.Store(int64(i))", "return &p, nil"])]

/-- mpsc.Accumulator.Send -/
def mpscSend : List (String × List String) :=
  [("mLoad", ["a.head.Load()"]),
   ("mCas",  ["a.head.CompareAndSwap(currentHead, &head)"]),
   ("mLink", ["currentHead.Next.Store(&head)"]),
   ("mSig",  ["send a.signal", "default", "return sent"])]

def mpscRecv : List (String × List String) :=
  [("vLoad", ["currentTail.Next.Load()"]),
   ("vPark", ["recv a.signal", "recv a.done", "recv ctx.Done()", "ctx.Done()"]),
   ("vLoad return", ["return value, ok"])]

def mpscTryRecv : List (String × List String) :=
  [("tLoad", ["currentTail.Next.Load()", "return value, ok"])]

def mpscClose : List (String × List String) :=
  [("cFlag", ["a.closed.Swap(true)", "return"]),
   ("cSwap", ["a.head.Swap(nil)"]),
   ("cLink", ["oldHead.Next.Store(&n)"]),
   ("cDone", ["close(a.done)"])]

/-- branch conditions, in source order -/
def mpmcSendConds : List String :=
  ["if p.done.Load() || ctx.Err() != nil", "for !p.done.Load() && ctx.Err() == nil", "if diff == 0",
   "if p.head.CompareAndSwap(pos, pos+1)", "if diff < 0", "if extensions < 0 || extended < extensions",
   "if capacity == p.capacity && !p.done.Load() && ctx.Err() == nil"]

def mpmcRecvConds : List String :=
  ["for", "if diff == 0", "if p.tail.CompareAndSwap(pos, pos+1)", "if !p.done.Load()", "if diff < 0",
   "if p.done.Load() || ctx.Err() != nil"]

def mpscConds : List String :=
  ["for", "if currentHead == nil", "if !a.head.CompareAndSwap(currentHead, &head)",   -- Send
   "for", "if nextNode == nil", "if nextNode.Kind == end",                            -- Recv
   "if nextNode != nil && nextNode.Kind != end",                                      -- TryRecv
   "if a.closed.Swap(true)"]                                                          -- Close

end OpenFGAVerif.Model.QueueLayout
