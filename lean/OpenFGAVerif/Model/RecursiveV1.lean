/-
The recursive strategy of the default Check engine (`internal/graph/recursive_resolver.go`,
`object_providers.go`), offered for a relation that refers to itself through a userset restriction
(`member: [user, group#member]`) or through a tuple-to-userset (`viewer: [user] or viewer from parent`)
while everything else in its rewrite is weight one for the subject's type.

  recursiveUserset / recursiveTTU  → `Kind.userset` / `Kind.ttu tupleset`
  recursiveFastPath                → `load`: the usersets (parents) stored on the object (`rightOf`) and the
                                     objects of the type on which the subject holds the relation *without* the
                                     recursive edge (`fromUser`, the channels of `Weight2.leftChan`); a common
                                     element answers `true`, an empty side answers `false`
  recursiveMatchUserUserset +
  breadthFirstRecursiveMatch       → `bfs`: level by level, a global visited set (`visitedUserset`), the depth
                                     counter incremented per level (`Depth++`, error when it reaches the
                                     limit — *before* the emptiness test), `buildRecursiveMapper` per userset
                                     (`expand`), a hit in a level answers `true`, errors are remembered and
                                     reported only when no hit is found

Two things the code does and the model reproduces (findings S1, S2): the userset mapper drops the relation
of a userset tuple, and the right-hand iterator / `buildRecursiveMapper` read *every* userset restriction
of the relation (`Strict.code`): `o#member@group:2#other` is followed as if it were `group:2#member`; and
for a tuple-to-userset the parents of *every* type are expanded through the tupleset relation of their own
type.  `Strict.repaired` follows only the self-referencing restriction / only parents of the object's type.
-/
import OpenFGAVerif.Model.Weight2
import OpenFGAVerif.Model.Dfs

namespace OpenFGAVerif.RecursiveV1
open OpenFGAVerif.Vocab OpenFGAVerif.CheckV1 OpenFGAVerif.Weight2 OpenFGAVerif.Dfs

inductive Kind where
  | userset
  | ttu (tupleset : String)
  deriving Repr, DecidableEq

/-- which edges the traversal follows -/
inductive Strict where
  | code       -- every userset restriction / parents of every type (S1, S2)
  | repaired   -- only `typ#rel` usersets / only parents of type `typ`
  deriving Repr, DecidableEq

structure Cfg where
  w2 : Weight2.Cfg := {}
  strict : Strict := .code
  deriving Repr

/-- the tuples `buildRecursiveMapper` (and the right-hand iterator of `recursiveFastPath`) reads for one
object, filtered and mapped: userset tuples of **all** userset restrictions mapped to the userset's object
(`MapUserset` drops the relation), or the tupleset tuples mapped to their user. -/
def expand (w : World) (cfg : Cfg) (kind : Kind) (typ rel : String) (o : String) : Right :=
  match kind with
  | .userset =>
    match w.model.findRel typ rel with          -- the restrictions of the ORIGINAL relation (`mapping.allowedUserTypeRestrictions`)
    | none => { passed := [], sawErr := false }
    | some rd =>
      let us := rd.restrs.filter (fun x => x.rel ≠ "")
      let us' := match cfg.strict with
        | .code => us
        | .repaired => us.filter (fun x => x.typ = typ && x.rel = rel)
      let f := filterIter w (usersetTuples w o rel us')
      { passed := f.passed.map (fun t => (splitUserset t.user).1), sawErr := f.sawErr }
  | .ttu ts =>
    let f := filterIter w (w.all.filter (fun t => t.obj = o && t.rel = ts))
    let passed := match cfg.strict with
      | .code => f.passed
      | .repaired => f.passed.filter (fun t => userType t.user = typ)
    { passed := passed.map (·.user), sawErr := f.sawErr }

/-- `objectProvider.Begin`: the channels over the objects on which the subject holds the relation without
going through the recursive edge -/
def lefts (w : World) (cfg : Cfg) (kind : Kind) (typ rel : String) : Option (List LeftR) :=
  match kind with
  | .userset => some (leftOfRel w cfg.w2 typ rel).toList
  | .ttu ts =>
    match w.model.findRel typ ts with
    | none => none
    | some rd => some (rd.restrs.filterMap (fun p => leftOfRel w cfg.w2 p.typ rel))

def dedupStr (l : List String) : List String :=
  l.foldl (fun acc x => if acc.contains x then acc else acc ++ [x]) []

/-- `breadthFirstRecursiveMatch`.  `err` = an error outcome was sent earlier (`finalErr`). -/
def bfs (w : World) (cfg : Cfg) (kind : Kind) (typ rel : String) (fromUser : List String) (maxDepth : Nat) :
    Nat → Nat → List String → List String → Option ErrKind → Bool → Out
  | 0, _, _, _, _, _ => .err .abort
  | fuel + 1, d, level, visited, err, taint =>
    let d' := d + 1
    if d' = maxDepth then .err .depth
    else if level.isEmpty then
      (match err with
       | some e => .err e
       | none => .ok false false taint)
    else
      let todo := (dedupStr level).filter (fun p => !visited.contains p)
      let rs := todo.map (expand w cfg kind typ rel)
      let hit := rs.any (fun r => r.passed.any (fun u => fromUser.contains u))
      if hit then .ok true false (taint || rs.any (fun r => r.sawErr && !r.passed.isEmpty))
      else
        let err' := if rs.any (fun r => r.sawErr && r.passed.isEmpty) then some ErrKind.cond else err
        let taint' := taint || rs.any (fun r => r.sawErr && !r.passed.isEmpty)
        bfs w cfg kind typ rel fromUser maxDepth fuel d' (rs.flatMap (·.passed)) (visited ++ todo) err' taint'

def bfsFuel : Nat := 200

/-- the whole handler: every outcome some schedule can produce -/
def recursive (w : World) (cfg : Cfg) (kind : Kind) (o rel : String) (maxDepth d : Nat) : List Out :=
  let typ := typeOf o
  let right := expand w cfg kind typ rel o
  match right.passed with
  | [] => if right.sawErr then [.err .cond] else [.ok false false false]
  | _ =>
    match lefts w cfg kind typ rel with
    | none => [.err .cond]
    | some ls =>
      if ls.any LeftR.isFuel then [.err .abort]
      else if ls.any LeftR.isSetupErr then [.err .cond]
      else
        let cs := ls.filterMap LeftR.chan?
        let taint := ls.any LeftR.sw || right.sawErr
        let avail := cs.flatMap (fun c => Chan.items (beforeErr c))
        let bad := cs.any hasErrMsg || cs.any hasFailIt
        let hit := right.passed.any (fun u => avail.contains u)
        if hit then (if bad then [.ok true false taint, .err .cond] else [.ok true false taint])
        else if bad then [.err .cond]
        else if avail.isEmpty then [.ok false false taint]
        else [bfs w cfg kind typ rel avail maxDepth bfsFuel d right.passed [] none taint]

/-! ### applicability, as a checkable predicate (the hypothesis of `recursive_sem`) -/

/-- the self-referencing userset restriction `typ#rel` -/
def isSelf (typ rel : String) (x : Restr) : Bool := x.typ = typ && x.rel = rel

/-- the recursive edge occurs only in directly assignable leaves under unions; everything else in the
rewrite is weight one for the subject's type (`UsersetUseRecursiveResolver`) -/
def recRewrite (w : World) (typ rel : String) : Nat → List Restr → Rewrite → Bool
  | 0, _, _ => false
  | fuel + 1, restrs, rw =>
    match rw with
    | .this =>
      restrs.all (fun x => x.rel = "" || isSelf typ rel x || ((w.model.findRel x.typ x.rel).isSome && pathFalse w x.typ x.rel))
    | .union cs => cs.all (fun c => recRewrite w typ rel fuel restrs c || w1Rewrite w typ fuel restrs c)
    | rw => w1Rewrite w typ (fuel + 1) restrs rw

/-- … and the rewrite really has a directly assignable leaf at union level (where the recursive edge lives) -/
def recHasThis (w : World) (typ rel : String) : Nat → List Restr → Rewrite → Bool
  | 0, _, _ => false
  | fuel + 1, restrs, rw =>
    match rw with
    | .this => true
    | .union cs => cs.any (fun c => recRewrite w typ rel fuel restrs c && recHasThis w typ rel fuel restrs c)
    | _ => false

def recRel (w : World) (typ rel : String) : Bool :=
  rel ≠ "" &&
  (match w.model.findRel typ rel with
   | none => false
   | some rd => w.aux.get s!"path:{typ}#{rel}" true && recRewrite w typ rel leftFuel rd.restrs rd.rewrite &&
      recHasThis w typ rel leftFuel rd.restrs rd.rewrite)

end OpenFGAVerif.RecursiveV1
