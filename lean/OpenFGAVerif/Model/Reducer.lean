/-
Transition-system model of ONE invocation of a Check reducer (`union` / `intersection` of
internal/graph/check.go; `exclusion` is the instance with two producers and one slot each):

    cancellableCtx, cancel := context.WithCancel(ctx);  defer cancel()
    pool := concurrency.NewPool(cancellableCtx, concurrencyLimit)
    out  := make(chan checkOutcome, CAP)                         -- CAP = len(handlers) in the source
    for _, h := range handlers { pool.Go(func{ TrySendThroughChannel(cancellableCtx, runHandler(h), out) }) }
    go func() { pool.Wait(); close(out) }()
    for i := 0; i < len(handlers); i++ { select { <-ctx.Done(): return | outcome, ok := <-out: … maybe return } }
    return

Goroutines: the consumer (the reducer itself: first the submit loop — `pool.Go` BLOCKS while `limit`
producers are active — then the receive loop), `n` producers (idle → running the handler → at the send →
done), the closer.  Producers are symmetric, so the state counts them (`running`, `sending`, `done`;
idle = n − submitted).  Every interleaving is a path of `Step`; the environment may cancel the parent
context at any time (`EStep`).

Parameters that are *facts of the source* (extracted, see Props/C20.lean): `cap` (channel capacity),
`trySend` (the send selects on cancellation), `deferCancel` (the consumer cancels when it returns).
Assumption: a handler returns (`compute` is always enabled) — that is the recursion, covered by induction
on the depth (C20 a).
-/
namespace OpenFGAVerif.Model.Reducer

structure Cfg where
  n : Nat            -- number of handlers
  cap : Nat          -- capacity of `out`
  limit : Nat        -- pool size (concurrencyLimit)
  trySend : Bool
  deferCancel : Bool
  deriving Repr

inductive CState where
  | submit (k : Nat)   -- about to `pool.Go` handler k (k = n: about to start the closer and enter the loop)
  | recv (i : Nat)     -- iteration i of the receive loop
  | returned
  deriving DecidableEq, Repr

structure St where
  running : Nat := 0
  sending : Nat := 0
  done : Nat := 0
  buf : Nat := 0
  closerStarted : Bool := false
  closerDone : Bool := false
  closed : Bool := false
  cons : CState := .submit 0
  parentCancelled : Bool := false
  cancelled : Bool := false     -- cancellableCtx.Done() is closed
  deriving DecidableEq, Repr

def init : St := {}

def St.submitted (s : St) : Nat := s.running + s.sending + s.done
def St.active (s : St) : Nat := s.running + s.sending

/-- the consumer returns: `defer cancel()` -/
def St.ret (c : Cfg) (s : St) : St := { s with cons := .returned, cancelled := s.cancelled || c.deferCancel }

/-- steps of the goroutines of the reducer -/
inductive IStep (c : Cfg) : St → St → Prop
  /-- `pool.Go(handler k)`: needs a free pool slot -/
  | submit (s : St) (k : Nat) : s.cons = .submit k → k < c.n → s.active < c.limit →
      IStep c s { s with running := s.running + 1, cons := .submit (k + 1) }
  /-- all handlers submitted: start the closer goroutine, enter the receive loop -/
  | submitDone (s : St) : s.cons = .submit c.n →
      IStep c s { s with closerStarted := true, cons := .recv 0 }
  /-- a handler returns; its goroutine reaches the send -/
  | compute (s : St) : 0 < s.running →
      IStep c s { s with running := s.running - 1, sending := s.sending + 1 }
  /-- the send succeeds: there is room in the buffer -/
  | send (s : St) : 0 < s.sending → s.buf < c.cap →
      IStep c s { s with sending := s.sending - 1, done := s.done + 1, buf := s.buf + 1 }
  /-- `TrySendThroughChannel` takes the `<-ctx.Done()` branch -/
  | sendCancelled (s : St) : c.trySend = true → 0 < s.sending → s.cancelled = true →
      IStep c s { s with sending := s.sending - 1, done := s.done + 1 }
  /-- closer: `pool.Wait()` returned (every task finished), `close(out)` -/
  | closerClose (s : St) : s.closerStarted = true → s.closerDone = false → s.done = c.n →
      IStep c s { s with closerDone := true, closed := true }
  /-- the loop receives an outcome and goes on -/
  | recvNext (s : St) (i : Nat) : s.cons = .recv i → i < c.n → 0 < s.buf →
      IStep c s { s with buf := s.buf - 1, cons := .recv (i + 1) }
  /-- the loop receives an outcome and returns early (short circuit) -/
  | recvReturn (s : St) (i : Nat) : s.cons = .recv i → i < c.n → 0 < s.buf →
      IStep c s ({ s with buf := s.buf - 1 }.ret c)
  /-- the loop sees the closed, drained channel (`break` leaves the select only) -/
  | recvClosed (s : St) (i : Nat) : s.cons = .recv i → i < c.n → s.closed = true → s.buf = 0 →
      IStep c s { s with cons := .recv (i + 1) }
  /-- the loop sees the parent context done -/
  | recvCtxDone (s : St) (i : Nat) : s.cons = .recv i → i < c.n → s.parentCancelled = true →
      IStep c s (s.ret c)
  /-- the loop ends after `len(handlers)` iterations -/
  | loopEnd (s : St) : s.cons = .recv c.n → IStep c s (s.ret c)

/-- the environment: deadline / client cancellation of the parent context, at any time -/
inductive EStep : St → St → Prop
  | parentCancel (s : St) : s.parentCancelled = false →
      EStep s { s with parentCancelled := true, cancelled := true }

def Step (c : Cfg) (s s' : St) : Prop := IStep c s s' ∨ EStep s s'

inductive Reachable (c : Cfg) : St → Prop
  | init : Reachable c init
  | step {s s' : St} : Reachable c s → Step c s s' → Reachable c s'

/-- every goroutine of the invocation has finished -/
def Final (c : Cfg) (s : St) : Prop :=
  s.cons = .returned ∧ s.running = 0 ∧ s.sending = 0 ∧ s.done = c.n ∧ s.closerDone = true

/-- a goroutine that sits at the send can move right now -/
def SenderEnabled (c : Cfg) (s : St) : Prop := s.buf < c.cap ∨ (c.trySend = true ∧ s.cancelled = true)

/-- termination measure: strictly decreases along every step -/
def consWeight (c : Cfg) : CState → Nat
  | .submit k => (c.n - k) + (c.n + 2)
  | .recv i => (c.n - i) + 1
  | .returned => 0

def mu (c : Cfg) (s : St) : Nat :=
  3 * (c.n - s.submitted) + 2 * s.running + s.sending + consWeight c s.cons +
  (if s.closerDone then 0 else 1) + (if s.parentCancelled then 0 else 1)

end OpenFGAVerif.Model.Reducer
