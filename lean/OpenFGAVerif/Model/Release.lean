/-
Release discipline, abstractly (C20, resource part).

A function obtains an iterator and then reads it in a loop

    for { t, err := it.Next(ctx); if err != nil { if errors.Is(err, ErrIteratorDone) { break }; return nil, err }; … }

The loop is left either because the iterator is exhausted (`loopDone`, the function goes on to its normal return) or by
the early `return nil, err` after the k-th tuple (`errReturn k`: a datastore fault, a cancelled context).  Whether the
iterator has been stopped by the time the function has returned depends on how the Stop was arranged
(`Discipline`, extracted per obtaining site by extract/facts_release.go): a deferred Stop runs on every exit path, an
explicit Stop after the loop only on the path that reaches it.  Core Lean only.
-/
namespace OpenFGAVerif.Model.Release

/-- how a function that obtained an iterator arranges for its `Stop()` -/
inductive Discipline where
  | deferStop        -- `defer it.Stop()` right after the iterator was obtained
  | stopAfterLoop    -- an explicit `it.Stop()` after the read loop
  | handedOver       -- ownership moves on (wrapped by an owner in the table, returned, passed to a callee)
  | nothing
  deriving DecidableEq, Repr

/-- what one `Next` of the streamed read yields -/
inductive Step where
  | item             -- a tuple
  | fault            -- an error other than Done: datastore fault, cancelled context, deadline
  deriving DecidableEq, Repr

/-- the exit path of the read loop -/
inductive Exit where
  | loopDone                 -- iterator exhausted; the function continues to its normal return
  | errReturn (after : Nat)  -- the early `return nil, err` after `after` tuples
  deriving DecidableEq, Repr

/-- the read loop over a script of `Next` results (exhausted when the script ends) -/
def runLoop : List Step → Nat → Exit
  | [], _ => .loopDone
  | .item :: rest, k => runLoop rest (k + 1)
  | .fault :: _, k => .errReturn k

/-- number of `Stop()` calls this function has executed on the iterator by the time it has returned -/
def stopsOn : Discipline → Exit → Nat
  | .deferStop, _ => 1
  | .stopAfterLoop, .loopDone => 1
  | .stopAfterLoop, .errReturn _ => 0
  | .handedOver, _ => 0
  | .nothing, _ => 0

/-- the disposition kinds of extract/facts_release.go -/
def ofKind (kind : String) : Discipline :=
  if kind = "defer" then .deferStop
  else if kind = "stop-all-paths" || kind = "stop-misses-returns" then .stopAfterLoop
  else if kind = "owner" || kind = "returned" || kind = "passed" || kind = "passed+stop" || kind = "wraps-deferred" || kind = "static" then .handedOver
  else .nothing

/-- a disposition under which every iterator is stopped by somebody on every path: deferred here, explicit with no
return in between, or owned by someone whose own entry is in the table -/
def coveredKind (kind : String) : Bool :=
  kind = "defer" || kind = "stop-all-paths" || kind = "owner" || kind = "returned" || kind = "passed" ||
  kind = "passed+stop" || kind = "wraps-deferred" || kind = "static"

/-- look a site up: kind of the disposition of variable `v` obtained in `fn` -/
def kindOf (sites : List (String × String × String × String × String)) (fn v : String) : String :=
  match sites.find? (fun s => s.1 = fn && s.2.1 = v) with
  | some s => s.2.2.2.1
  | none => ""

end OpenFGAVerif.Model.Release
