/-
Model of the typesystem resolver's request sharing (pkg/typesystem/resolver.go, model_caching.go), for C16 / C17 / C31.
Core Lean only.

`lookupGroup.Do(key, fn)` (x/sync/singleflight): while a call with some key is in flight, every other call with the
SAME key waits for it and receives ITS result — `fn` of the joiner is never run.  So what a request gets from a flight
is the datastore's answer for the LEADER's arguments; it is the answer for its own arguments exactly when the key
determines everything the datastore call depends on.  The resolver then memoises the validated model under
(store, model id) ("TS" cache), so a wrong answer obtained through a flight is served until eviction.

  Piece / render     a key expression as the extractor delivers it (`"lit"+x`, fmt.Sprintf("…%s/%s", a, b)): literal and
                     argument pieces, rendered to bytes under an assignment of the arguments
  St / arrive / run  open flights (key ↦ the leader's datastore answer) + memo; events: a request arrives (memo hit /
                     joins the open flight with its key / leads a new flight), the k-th open flight completes
-/
namespace OpenFGAVerif.Model.Resolver

abbrev Bytes := List UInt8

/-! ### key expressions -/

inductive Piece where
  | lit (b : Bytes)
  | arg (name : String)
  deriving DecidableEq, Repr

/-- the extractor's representation: (isArgument, name or literal text, UTF-8 bytes of the literal) -/
def ofGen (ps : List (Bool × String × List UInt8)) : List Piece :=
  ps.map (fun p => if p.1 then Piece.arg p.2.1 else Piece.lit p.2.2)

def render (env : String → Bytes) : List Piece → Bytes
  | [] => []
  | .lit b :: rest => b ++ render env rest
  | .arg a :: rest => env a ++ render env rest

/-- the arguments a key mentions -/
def argsOf : List Piece → List String
  | [] => []
  | .lit _ :: rest => argsOf rest
  | .arg a :: rest => a :: argsOf rest

/-- the two shapes of key the source uses: `prefix ++ a` and `prefix ++ a ++ (c :: q) ++ b` -/
inductive Shape where
  | one (p : Bytes) (a : String)
  | two (p : Bytes) (a : String) (c : UInt8) (q : Bytes) (b : String)

def Shape.pieces : Shape → List Piece
  | .one p a => [.lit p, .arg a]
  | .two p a c q b => [.lit p, .arg a, .lit (c :: q), .arg b]

/-- every argument of the datastore call made inside the flight is mentioned by the flight's key -/
def keyCoversCall (row : String × String × List String × List (Bool × String × List UInt8)) : Bool :=
  row.2.2.1.all (fun a => (argsOf (ofGen row.2.2.2)).contains a)

/-! ### requests -/

structure Req where
  store : Bytes
  model : Bytes        -- [] = "latest"
  deriving DecidableEq, Repr

def envOf (r : Req) (n : String) : Bytes :=
  if n = "storeID" then r.store else if n = "modelID" then r.model else []

/-! ### flights and memo -/

def lookup {κ α : Type} [DecidableEq κ] (k : κ) : List (κ × α) → Option α
  | [] => none
  | x :: rest => if x.1 = k then some x.2 else lookup k rest

def dropAt {β : Type} : Nat → List β → List β
  | _, [] => []
  | 0, _ :: xs => xs
  | n + 1, x :: xs => x :: dropAt n xs

structure St (κ ρ α : Type) where
  open_ : List (κ × Option α)     -- flights in progress: key ↦ what the leader's datastore call returns
  memo : List (ρ × α)             -- the validated-typesystem cache, keyed by the request (store, model id)

inductive Ev (ρ : Type) where
  | arrive (r : ρ)
  | finish (k : Nat)

section
variable {κ ρ α : Type} [DecidableEq κ] [DecidableEq ρ]

def memoGet (memoable : ρ → Bool) (r : ρ) (memo : List (ρ × α)) : Option α :=
  if memoable r then lookup r memo else none

def memoAdd (memoable : ρ → Bool) (r : ρ) (a : Option α) (memo : List (ρ × α)) : List (ρ × α) :=
  match a with
  | some v => if memoable r then memo ++ [(r, v)] else memo
  | none => memo

/-- one request: memo hit, or the open flight with its key, or a new flight that calls the datastore with the request's
own arguments -/
def arrive (key : ρ → κ) (ds : ρ → Option α) (memoable : ρ → Bool) (s : St κ ρ α) (r : ρ) : St κ ρ α × Option α :=
  match memoGet memoable r s.memo with
  | some v => (s, some v)
  | none =>
    match lookup (key r) s.open_ with
    | some a => ({ s with memo := memoAdd memoable r a s.memo }, a)
    | none => ({ open_ := s.open_ ++ [(key r, ds r)], memo := memoAdd memoable r (ds r) s.memo }, ds r)

/-- a whole schedule; the answers in arrival order -/
def run (key : ρ → κ) (ds : ρ → Option α) (memoable : ρ → Bool) : St κ ρ α → List (Ev ρ) → St κ ρ α × List (ρ × Option α)
  | s, [] => (s, [])
  | s, .finish k :: rest => run key ds memoable { s with open_ := dropAt k s.open_ } rest
  | s, .arrive r :: rest =>
    let p := arrive key ds memoable s r
    let q := run key ds memoable p.1 rest
    (q.1, (r, p.2) :: q.2)

def empty : St κ ρ α := { open_ := [], memo := [] }

end

end OpenFGAVerif.Model.Resolver
