/-
The singleflight keys of pkg/typesystem/resolver.go as functions of the request, DEFINED from the extractor's data
(`Gen.ResolverKeys.flightKeys`): whatever the source says the key is, this is what the model (and the driver) uses.
-/
import OpenFGAVerif.Model.Resolver
import OpenFGAVerif.Gen.ResolverKeys

namespace OpenFGAVerif.Model.Resolver

def resolverFn : String := "resolver.go:MemoizedTypesystemResolverFunc"

/-- the key pieces of the flight around `method` in function `fn` ([] if the extractor found none) -/
def piecesOf (fn method : String) : List Piece :=
  match Gen.ResolverKeys.flightKeys.find? (fun r => r.1 == fn && r.2.1 == method) with
  | some r => ofGen r.2.2.2
  | none => []

def readKeyPieces : List Piece := piecesOf resolverFn "ReadAuthorizationModel"
def latestKeyPieces : List Piece := piecesOf resolverFn "FindLatestAuthorizationModel"

/-- `lookupGroup.Do(<key>, ReadAuthorizationModel(storeID, modelID))` -/
def readKey (r : Req) : Bytes := render (envOf r) readKeyPieces
/-- `lookupGroup.Do(<key>, FindLatestAuthorizationModel(storeID))` -/
def latestKey (r : Req) : Bytes := render (envOf r) latestKeyPieces

/-- both kinds of request go through ONE singleflight group: model id "" = latest -/
def groupKey (r : Req) : Bytes := if r.model = [] then latestKey r else readKey r

/-- by-id results are memoised under (store, model id); a latest lookup always asks the datastore -/
def memoById (r : Req) : Bool := !r.model.isEmpty

end OpenFGAVerif.Model.Resolver
