/-
Model of the *classic* ListObjects engine (`pkg/server/commands/list_objects.go` on top of
`pkg/server/commands/reverseexpand/reverse_expand.go` and `internal/graph/graph.go`).

  §1  `edgesGo`        GetPrunedRelationshipEdges: depth-first walk of the rewrite of the target relation
                       towards a source reference with the call-global `visited` map (threaded as state),
                       intersection → first child only, exclusion → base only, every edge found below such
                       an operator flagged `TargetReferenceInvolvesIntersectionOrExclusion`;
                       `involvesGo` = typesystem.RelationInvolvesIntersection / …Exclusion (flag of TTU edges)
  §2  `Graph`/`step`/`run`   the reverse expansion as a worklist over usersets: `execute` = one `step`
                       (depth test, query-global `visitedUsersetsMap` keyed by `userObject#edge`,
                       `trySendCandidate` with the `candidateObjectsMap` de-duplication and the
                       NoFurtherEval / RequiresFurtherEval status = accumulated flag, then one successor per
                       edge and tuple).  Goroutine scheduling is an explicit schedule (`List Nat`: which
                       pending dispatch runs next); a schedule that ends early is a cancellation / deadline.
  §3  `fgaGraph`       the instance over a `CheckV1.World`: `readTuplesAndExecute` (ReadStartingWithUser
                       with the public wildcard added, validity filter, condition evaluation)
  §4  `Consumer`       the consumer loop of `ListObjectsQuery.evaluate`: limit test on receive,
                       NoFurtherEval results sent directly, candidates confirmed by a concurrent Check,
                       `trySendObject` = count then send (two steps for Check goroutines: the send races
                       the `cancel()` of the loop), deadline, errors, final error rule of `Execute`.

All shared state of the Go code is the two `sync.Map`s, one atomic counter and two channels; every access
is atomic, so an execution is a sequence of these atomic steps and the model lets a schedule pick the
next one.  Ghost fields (`done`) exist only for the proofs.
-/
import OpenFGAVerif.Model.CheckV1

namespace OpenFGAVerif.RevExpand
open OpenFGAVerif.Vocab OpenFGAVerif.BoolSys OpenFGAVerif.CheckV1

/-! ## §1 relationship edges -/

inductive EdgeKind where
  | direct | computed | ttu
  deriving DecidableEq, Repr, Inhabited

/-- `graph.RelationshipEdge`: `typ#rel` is the TargetReference -/
structure Edge where
  kind : EdgeKind
  typ : String
  rel : String
  tupleset : String := ""
  flag : Bool := false
  deriving DecidableEq, Repr, Inhabited

/-- the source reference (`user`, `user:*`, `group#member`) -/
structure SrcRef where
  typ : String
  rel : String
  wild : Bool
  deriving DecidableEq, Repr, Inhabited

/-- `typesystem.RelationEquals(source, typeRestriction)` (conditions are not compared) -/
def relationEquals (s : SrcRef) (x : Restr) : Bool :=
  s.typ = x.typ &&
    ((s.rel = "" && !s.wild && x.rel = "" && !x.wild) || (s.wild && x.wild) ||
     (s.rel ≠ "" && x.rel ≠ "" && s.rel = x.rel))

def restrsOf (m : Model) (t r : String) : List Restr :=
  match m.findRel t r with
  | some rd => rd.restrs
  | none => []

/-- `IsDirectlyRelated(target, source)` -/
def directlyRelated (m : Model) (t r : String) (s : SrcRef) : Bool := (restrsOf m t r).any (relationEquals s)
/-- `IsPubliclyAssignable(target, sourceType)` -/
def publiclyAssignable (m : Model) (t r : String) (styp : String) : Bool :=
  (restrsOf m t r).any (fun x => x.typ = styp && x.wild)

abbrev Vis := List (String × String)

/-! `typesystem.relationInvolves` with its `WalkUsersetRewrite` (which returns the first non-nil handler
result: an intersection node answers a search for exclusion with a non-nil `false`, and vice versa). -/

inductive ITask where
  | rel (t r : String)
  | walk (t : String) (rw : Rewrite)
  | kids (t : String) (cs : List Rewrite)
  | ttus (c : String) (xs : List Restr)
  | restrs (xs : List Restr)

/-- `wantInter = true`: RelationInvolvesIntersection, else RelationInvolvesExclusion.  Result of a `walk`
/ `kids` / `ttus` task: `none` = nil (keep walking), `some b` = the handler's answer. -/
def involvesGo (m : Model) (wantInter : Bool) : Nat → Vis → ITask → Option (Option Bool × Vis)
  | 0, _, _ => none
  | f + 1, vis, .rel t r =>
    if (t, r) ∈ vis then some (some false, vis)
    else match m.findRel t r with
      | none => none
      | some rd =>
        match involvesGo m wantInter f ((t, r) :: vis) (.walk t rd.rewrite) with
        | none => none
        | some (some true, vis1) => some (some true, vis1)
        | some (_, vis1) => involvesGo m wantInter f vis1 (.restrs (rd.restrs.filter (fun x => x.rel ≠ "")))
  | f + 1, vis, .walk t rw =>
    match rw with
    | .this => some (none, vis)
    | .computed r' =>
      match involvesGo m wantInter f vis (.rel t r') with
      | none => none
      | some (some true, vis1) => some (some true, vis1)
      | some (_, vis1) => some (none, vis1)
    | .ttu ts c => involvesGo m wantInter f vis (.ttus c (restrsOf m t ts))
    | .union cs => involvesGo m wantInter f vis (.kids t cs)
    | .inter _ => some (some wantInter, vis)
    | .diff _ _ => some (some (!wantInter), vis)
  | f + 1, vis, .kids t cs =>
    match cs with
    | [] => some (none, vis)
    | c :: rest =>
      match involvesGo m wantInter f vis (.walk t c) with
      | none => none
      | some (some b, vis1) => some (some b, vis1)
      | some (none, vis1) => involvesGo m wantInter f vis1 (.kids t rest)
  | f + 1, vis, .ttus c xs =>
    match xs with
    | [] => some (none, vis)
    | x :: rest =>
      if x.rel ≠ "" then none                      -- "invalid type restriction … on tupleset relation"
      else match m.findRel x.typ c with
        | none => involvesGo m wantInter f vis (.ttus c rest)
        | some _ =>
          match involvesGo m wantInter f vis (.rel x.typ c) with
          | none => none
          | some (some true, vis1) => some (some true, vis1)
          | some (_, vis1) => involvesGo m wantInter f vis1 (.ttus c rest)
  | f + 1, vis, .restrs xs =>
    match xs with
    | [] => some (some false, vis)
    | x :: rest =>
      if (x.typ, x.rel) ∈ vis then involvesGo m wantInter f vis (.restrs rest)
      else match involvesGo m wantInter f vis (.rel x.typ x.rel) with
        | none => none
        | some (some true, vis1) => some (some true, vis1)
        | some (_, vis1) => involvesGo m wantInter f vis1 (.restrs rest)

def involves (m : Model) (wantInter : Bool) (t r : String) (fuel : Nat) : Option Bool :=
  match involvesGo m wantInter fuel [] (.rel t r) with
  | some (some b, _) => some b
  | some (none, _) => some false
  | none => none

inductive Task where
  /-- `getRelationshipEdges(target = t#r)` -/
  | rel (t r : String)
  /-- `getRelationshipEdgesWithTargetRewrite(target = t#r, rewrite)` -/
  | rw (t r : String) (rw : Rewrite)
  /-- loop over the userset type restrictions of a `this` -/
  | restrs (xs : List Restr)
  /-- loop over the children of a union -/
  | kids (t r : String) (cs : List Rewrite)
  /-- loop over the type restrictions of the tupleset relation of a tuple-to-userset -/
  | ttus (t r ts c : String) (xs : List Restr)

def flagAll (es : List Edge) : List Edge := es.map (fun e => { e with flag := true })

/-- `getRelationshipEdges` with `findEdgeOption = resolveAnyEdge`; `none` = error (undefined relation)
or fuel exhausted.  `ifuel` is the fuel of the nested `relationInvolves…` calls. -/
def edgesGo (m : Model) (src : SrcRef) (ifuel : Nat) : Nat → Vis → Task → Option (List Edge × Vis)
  | 0, _, _ => none
  | f + 1, vis, .rel t r =>
    if (t, r) ∈ vis then some ([], vis)
    else match m.findRel t r with
      | none => none
      | some rd => edgesGo m src ifuel f ((t, r) :: vis) (.rw t r rd.rewrite)
  | f + 1, vis, .rw t r rw =>
    match rw with
    | .this =>
      let here : List Edge :=
        if directlyRelated m t r src || publiclyAssignable m t r src.typ then [{ kind := .direct, typ := t, rel := r }] else []
      match edgesGo m src ifuel f vis (.restrs ((restrsOf m t r).filter (fun x => x.rel ≠ ""))) with
      | none => none
      | some (es, vis1) => some (here ++ es, vis1)
    | .computed r' =>
      let here : List Edge :=
        if t = src.typ && r' = src.rel then [{ kind := .computed, typ := t, rel := r }] else []
      match edgesGo m src ifuel f vis (.rel t r') with
      | none => none
      | some (es, vis1) => some (here ++ es, vis1)
    | .ttu ts c => edgesGo m src ifuel f vis (.ttus t r ts c (restrsOf m t ts))
    | .union cs => edgesGo m src ifuel f vis (.kids t r cs)
    | .inter cs =>
      match cs with
      | [] => none                                  -- `GetChild()[0]` on an empty intersection (rejected by model validation)
      | c :: _ =>
        match edgesGo m src ifuel f vis (.rw t r c) with
        | none => none
        | some (es, vis1) => some (flagAll es, vis1)
    | .diff b _ =>
      match edgesGo m src ifuel f vis (.rw t r b) with
      | none => none
      | some (es, vis1) => some (flagAll es, vis1)
  | f + 1, vis, .restrs xs =>
    match xs with
    | [] => some ([], vis)
    | x :: rest =>
      match edgesGo m src ifuel f vis (.rel x.typ x.rel) with
      | none => none
      | some (es, vis1) =>
        match edgesGo m src ifuel f vis1 (.restrs rest) with
        | none => none
        | some (es2, vis2) => some (es ++ es2, vis2)
  | f + 1, vis, .kids t r cs =>
    match cs with
    | [] => some ([], vis)
    | c :: rest =>
      match edgesGo m src ifuel f vis (.rw t r c) with
      | none => none
      | some (es, vis1) =>
        match edgesGo m src ifuel f vis1 (.kids t r rest) with
        | none => none
        | some (es2, vis2) => some (es ++ es2, vis2)
  | f + 1, vis, .ttus t r ts c xs =>
    match xs with
    | [] => some ([], vis)
    | x :: rest =>
      match m.findRel x.typ c with
      | none => edgesGo m src ifuel f vis (.ttus t r ts c rest)      -- ErrRelationUndefined: continue
      | some _ =>
        let here : Option (List Edge) :=
          if x.typ = src.typ && c = src.rel then
            match involves m true x.typ c ifuel, involves m false x.typ c ifuel with
            | some i, some e => some [{ kind := .ttu, typ := t, rel := r, tupleset := ts, flag := i || e }]
            | _, _ => none
          else some []
        match here with
        | none => none
        | some hs =>
          match edgesGo m src ifuel f vis (.rel x.typ c) with
          | none => none
          | some (es, vis1) =>
            match edgesGo m src ifuel f vis1 (.ttus t r ts c rest) with
            | none => none
            | some (es2, vis2) => some (hs ++ es ++ es2, vis2)

/-- `GetPrunedRelationshipEdges(target, source)` -/
def edges (m : Model) (tT tR : String) (src : SrcRef) (fuel : Nat) : Option (List Edge) :=
  (edgesGo m src fuel fuel [] (.rel tT tR)).map (·.1)

/-! Well-formedness that model validation guarantees and that the theorems use: relation names and the
relations referenced by computed usersets / tuple-to-usersets are not the empty string (the empty
relation is how a plain object source `user:x` is written as a source reference). -/

mutual
def refsOK : Rewrite → Bool
  | .this => true
  | .computed r => r ≠ ""
  | .ttu _ c => c ≠ ""
  | .union cs => refsOKList cs
  | .inter cs => refsOKList cs
  | .diff b s => refsOK b && refsOK s
def refsOKList : List Rewrite → Bool
  | [] => true
  | c :: cs => refsOK c && refsOKList cs
end

def namesOK (m : Model) : Bool :=
  m.types.all (fun td => td.rels.all (fun rd => rd.name ≠ "" && refsOK rd.rewrite))

/-! no intersection without operands (`GetChild()[0]` would panic; rejected by model validation) -/
mutual
def intersOK : Rewrite → Bool
  | .this => true
  | .computed _ => true
  | .ttu _ _ => true
  | .union cs => intersOKList cs
  | .inter cs => !cs.isEmpty && intersOKList cs
  | .diff b s => intersOK b && intersOK s
def intersOKList : List Rewrite → Bool
  | [] => true
  | c :: cs => intersOK c && intersOKList cs
end

def wellFormed (m : Model) : Bool :=
  namesOK m && m.types.all (fun td => td.rels.all (fun rd => intersOK rd.rewrite))

/-! ## §2 the reverse expansion as a worklist, every schedule -/

structure Graph (N : Type) where
  /-- one successor per (edge, tuple that passed the filters), with the flag of the edge -/
  succ : N → List (N × Bool)
  /-- expanding the node reports an error (edge computation failed, a condition could not be evaluated) -/
  fails : N → Bool
  /-- `UsersetMatchTypeAndRelation`: the userset is of the requested type and relation -/
  target : N → Option String
  /-- the request carries an edge (`req.edge != nil`), so `visitedUsersetsMap` is consulted -/
  keyed : N → Bool

structure Item (N : Type) where
  node : N
  /-- `intersectionOrExclusionInPreviousEdges` -/
  flag : Bool
  /-- number of dispatches from the root -/
  depth : Nat

structure St (N : Type) where
  work : List (Item N)
  visited : List N
  cands : List String
  /-- results sent to the channel, in order: (object, RequiresFurtherEval?) -/
  out : List (String × Bool)
  err : Bool
  /-- ghost: the nodes expanded so far -/
  done : List N

def St.init {N : Type} (root : N) : St N :=
  { work := [{ node := root, flag := false, depth := 0 }], visited := [], cands := [], out := [], err := false, done := [] }

variable {N : Type} [DecidableEq N]

/-- `execute` for the pending dispatch number `i` (`lim` = resolveNodeLimit). -/
def step (G : Graph N) (lim : Nat) (i : Nat) (s : St N) : St N :=
  match s.work[i]? with
  | none => s
  | some it =>
    let rest := s.work.eraseIdx i
    if it.depth > lim then { s with work := rest, err := true }            -- ErrResolutionDepthExceeded
    else if G.keyed it.node && decide (it.node ∈ s.visited) then { s with work := rest }
    else
      let visited := if G.keyed it.node then it.node :: s.visited else s.visited
      let co : List String × List (String × Bool) :=
        match G.target it.node with
        | some o => if o ∈ s.cands then (s.cands, s.out) else (o :: s.cands, s.out ++ [(o, it.flag)])
        | none => (s.cands, s.out)
      { work := rest ++ (G.succ it.node).map (fun p => { node := p.1, flag := it.flag || p.2, depth := it.depth + 1 }),
        visited := visited, cands := co.1, out := co.2,
        err := s.err || G.fails it.node, done := it.node :: s.done }

def run (G : Graph N) (lim : Nat) : List Nat → St N → St N
  | [], s => s
  | i :: is, s => run G lim is (step G lim i s)

/-- a deterministic schedule for the drivers: always the first (FIFO) or the last (LIFO) pending dispatch -/
def runFuel (G : Graph N) (lim : Nat) (lifo : Bool) : Nat → St N → St N
  | 0, s => s
  | f + 1, s =>
    if s.work.isEmpty then s
    else runFuel G lim lifo f (step G lim (if lifo then s.work.length - 1 else 0) s)

/-! ## §3 the instance over a world -/

/-- a userset `o#r` reached through an edge of kind `kind` (tupleset `ts`); the subject itself is the
node with `kind = none` (`r = ""` unless the subject is a userset).  `(o, kind, r, ts)` is the key
`sourceUserObj#edge.String()` of `visitedUsersetsMap`. -/
structure FNode where
  o : String
  r : String
  kind : Option EdgeKind
  ts : String
  deriving DecidableEq, Repr, Inhabited

def rootNode (w : World) : FNode :=
  if isUserset w.req.user then { o := (splitUserset w.req.user).1, r := (splitUserset w.req.user).2, kind := none, ts := "" }
  else { o := w.req.user, r := "", kind := none, ts := "" }

def srcRefOf (w : World) (n : FNode) : SrcRef :=
  if n.r = "" then { typ := userType w.req.user, rel := "", wild := isTypedWildcard w.req.user }
  else { typ := typeOf n.o, rel := n.r, wild := false }

/-- "the user of the tuple is the object `o`" (string equality for well-formed identifiers, C29) -/
def userIsObject (t : Tuple) (o : String) : Bool := splitUserset t.user = (o, "")

/-- the user filter of `readTuplesAndExecute` for a direct edge -/
def directUserMatch (w : World) (n : FNode) (e : Edge) (t : Tuple) : Bool :=
  if n.r = "" then
    t.user = w.req.user ||
      (publiclyAssignable w.model e.typ e.rel (userType w.req.user) &&
       isTypedWildcard t.user && userType t.user = userType w.req.user)
  else isUserset t.user && splitUserset t.user = (n.o, n.r)

/-- tuples `ReadStartingWithUser` yields for the edge (before the validity and condition filters) -/
def readEdge (w : World) (n : FNode) (e : Edge) : List Tuple :=
  match e.kind with
  | .direct => w.all.filter (fun t => typeOf t.obj = e.typ && t.rel = e.rel && directUserMatch w n e t)
  | .ttu => w.all.filter (fun t => typeOf t.obj = e.typ && t.rel = e.tupleset && userIsObject t n.o)
  | .computed => []

def passes (w : World) (t : Tuple) : Bool := validForRead w.model t && evalCond w.model w.req.ctx t = .tt
def condErr (w : World) (t : Tuple) : Bool := validForRead w.model t && evalCond w.model w.req.ctx t = .err

/-- objects the edge leads to from node `n` -/
def expandEdge (w : World) (n : FNode) (e : Edge) : List String :=
  match e.kind with
  | .computed => [n.o]
  | _ => ((readEdge w n e).filter (passes w)).map (·.obj)

def fsucc (w : World) (tT tR : String) (fuel : Nat) (n : FNode) : List (FNode × Bool) :=
  match edges w.model tT tR (srcRefOf w n) fuel with
  | none => []
  | some es => es.flatMap (fun e => (expandEdge w n e).map (fun o' =>
      (({ o := o', r := e.rel, kind := some e.kind, ts := e.tupleset } : FNode), e.flag)))

def ffails (w : World) (tT tR : String) (fuel : Nat) (n : FNode) : Bool :=
  match edges w.model tT tR (srcRefOf w n) fuel with
  | none => true
  | some es => es.any (fun e => (readEdge w n e).any (condErr w))

def ftarget (tT tR : String) (n : FNode) : Option String :=
  if n.r ≠ "" && n.r = tR && typeOf n.o = tT then some n.o else none

def fgaGraph (w : World) (tT tR : String) (fuel : Nat) : Graph FNode :=
  { succ := fsucc w tT tR fuel, fails := ffails w tT tR fuel, target := ftarget tT tR, keyed := fun n => n.kind.isSome }

/-- the classic reverse expansion of the request `ListObjects(type = typeOf req.obj, relation = req.rel,
user = req.user)` under schedule `sched` -/
def reverseExpand (w : World) (fuel lim : Nat) (sched : List Nat) : St FNode :=
  run (fgaGraph w (typeOf w.req.obj) w.req.rel fuel) lim sched (St.init (rootNode w))

/-! ## §4 the consumer loop of `ListObjectsQuery.evaluate` and the final rule of `Execute` -/

inductive CheckRes where
  | allow | deny
  /-- condition evaluation error (subject to the "fewer than maxResults" rule of `Execute`) -/
  | errCond
  /-- resolution depth exceeded or any other error: always reported -/
  | errHard
  deriving DecidableEq, Repr

inductive Ev where
  /-- the loop's `select` takes the reverse-expansion channel (a result, or the channel is closed).  For a
  NoFurtherEval result `trySendObject` runs in the loop itself; if the request context is already done the
  `select` inside `TrySendThroughChannel` may take the `ctx.Done()` branch (`drop`). -/
  | recv (drop : Bool)
  /-- the Check of in-flight candidate number `i` returns -/
  | checkDone (i : Nat)
  /-- the Check of in-flight candidate number `i` is abandoned (only after a cancellation) -/
  | abort (i : Nat)
  /-- a Check goroutine that has counted its object performs `TrySendThroughChannel`; when its context is
  already cancelled the `select` may take the `ctx.Done()` branch (`drop`) -/
  | send (i : Nat) (drop : Bool)
  /-- the request deadline fires (every context derived from it is done from now on) -/
  | deadline
  /-- the loop's `select` takes the `ctx.Done()` branch (only after the deadline) -/
  | stop
  /-- the loop's `select` takes `reverseExpandDoneWithError` -/
  | reError (hard : Bool)
  deriving DecidableEq, Repr

structure CSt where
  /-- results in the channel / still to come, in order -/
  queue : List (String × Bool)
  inflight : List String
  /-- Check goroutines between `objectsFound.Add(1)` and the channel send -/
  counted : List String
  found : Nat
  out : List String
  /-- the context of the Check goroutines is done (`cancel()` was called, or the deadline fired) -/
  cancelled : Bool
  /-- the deadline fired -/
  dl : Bool
  stopped : Bool
  err : Bool
  hard : Bool
  deriving Repr

def CSt.init (res : List (String × Bool)) : CSt :=
  { queue := res, inflight := [], counted := [], found := 0, out := [], cancelled := false, dl := false,
    stopped := false, err := false, hard := false }

/-- `trySendObject` up to the counter test: `if maxResults != 0 { if objectsFound.Add(1) > maxResults { return } }`;
the Boolean says whether the object goes on to the channel send -/
def countObj (limit : Nat) (s : CSt) : CSt × Bool :=
  if limit ≠ 0 then ({ s with found := s.found + 1 }, decide (s.found + 1 ≤ limit))
  else (s, true)

/-- the pool keeps the first error (`WithFirstError`) and cancels the context (`WithCancelOnError`) -/
def CSt.fail (s : CSt) (hard : Bool) : CSt :=
  if s.err then { s with cancelled := true } else { s with err := true, hard := hard, cancelled := true }

def cstep (limit : Nat) (chk : String → CheckRes) (s : CSt) : Ev → CSt
  | .recv drop =>
    if s.stopped then s else
    match s.queue with
    | [] => { s with stopped := true }                                   -- channel closed: no cancel
    | (o, further) :: q =>
      if limit ≠ 0 && decide (s.found ≥ limit) then { s with cancelled := true, stopped := true }
      else if !further then
        let (s1, go) := countObj limit { s with queue := q }
        if go && !(drop && s.dl) then { s1 with out := s1.out ++ [o] } else s1
      else { s with queue := q, inflight := s.inflight ++ [o] }
  | .checkDone i =>
    match s.inflight[i]? with
    | none => s
    | some o =>
      let s0 := { s with inflight := s.inflight.eraseIdx i }
      match chk o with
      | .allow =>
        let (s1, go) := countObj limit s0
        if go then { s1 with counted := s1.counted ++ [o] } else s1
      | .deny => s0
      | .errCond => s0.fail false
      | .errHard => s0.fail true
  | .abort i =>
    if s.cancelled then { s with inflight := s.inflight.eraseIdx i } else s
  | .send i drop =>
    match s.counted[i]? with
    | none => s
    | some o =>
      let s0 := { s with counted := s.counted.eraseIdx i }
      if drop && s.cancelled then s0 else { s0 with out := s0.out ++ [o] }
  | .deadline => { s with cancelled := true, dl := true }
  | .stop => if s.dl then { s with stopped := true } else s
  | .reError hard => if s.stopped then s else { (s.fail hard) with stopped := true }

def crun (limit : Nat) (chk : String → CheckRes) : List Ev → CSt → CSt
  | [], s => s
  | e :: es, s => crun limit chk es (cstep limit chk s e)

/-- all goroutines have returned (`pool.Wait()`) -/
def CSt.quiescent (s : CSt) : Bool := s.stopped && s.inflight.isEmpty && s.counted.isEmpty

/-- `Execute`: depth / other errors are returned; condition errors only
`if len(objects) < int(maxResults) && errs != nil` — which never holds for `maxResults = 0` ("no limit");
`zeroErr` = the rule also fires for 0 (regenerated from the source: `Gen.ListObjects.zeroLimitReportsErrors`) -/
def finalResult (zeroErr : Bool) (limit : Nat) (s : CSt) : Option (List String) :=
  if s.err && (s.hard || decide (s.out.length < limit) || (zeroErr && limit == 0)) then none else some s.out

end OpenFGAVerif.RevExpand
