/-
Model of `sharedIterator` (pkg/storage/storagewrappers/sharediterator/shared_iterator_datastore.go), core Lean only.

Level 1 (`State`, `step`): the granularity is one whole `Next` / `Head` / `Stop` / `clone` call — what one
goroutine driving several clones can observe, and what the per-clone mutex plus `await` make atomic when the
check-then-fetch of `fetchAndWait` is not interrupted.

  shared between the clones:  the underlying iterator (`ir`), the buffer `state.items`, the sticky `state.err`,
                              the reference count `refs`
  per clone:                  `head` (index of the next item), `stopped`

`fetchMore` reads up to `B` (= `bufferSize`) items with `context.Background()`: no requester's cancellation
reaches the underlying iterator, so the scripted iterator is always called with a live context.

Level 2 (`FState`, `fstep`) splits `fetchAndWait` into its atomic steps (load the state pointer, enter `await.Do`,
run `fetchMore`, leave) so that a clone can act on a *stale* snapshot of the shared state.
-/
import OpenFGAVerif.Model.Iter

namespace OpenFGAVerif.Model.SharedIter
open OpenFGAVerif.Model.Iter

structure Clone where
  head : Nat := 0
  stopped : Bool := false
  deriving Repr, DecidableEq

structure State (α : Type) where
  under : SIter α
  nexts : Nat := 0                 -- calls of `Next` on the underlying iterator so far
  items : List α := []
  err : Option Err := none
  refs : Nat := 1                  -- the original (held by the storage item) counts for one
  origStopped : Bool := false
  clones : List Clone := []
  deriving Repr

variable {α : Type}

/-- `iteratorReader.Read`: up to `b` items, stops at the first error (which is consumed) -/
def readBuf : Nat → SIter α → List α × Option Err × SIter α × Nat
  | 0, it => ([], none, it, 0)
  | b + 1, it =>
    match it.next false with
    | (.ok a, it') =>
      let (xs, e, it'', k) := readBuf b it'
      (a :: xs, e, it'', k + 1)
    | (.err e _, it') => ([], some e, it', 1)

/-- `fetchMore` -/
def fetchMore (B : Nat) (s : State α) : State α :=
  if s.err.isSome then s else    -- `if s.state.Load().err != nil { return }` (never read past a recorded error)
  let (xs, e, it, k) := readBuf B s.under
  { s with under := it, nexts := s.nexts + k, items := s.items ++ xs,
           err := match e with | some e => some e | none => s.err }

/-- `fetchAndWait` for a clone whose index is `h` (single goroutine: `await.Do` runs `fetchMore` directly) -/
def fetchAndWait (B : Nat) : Nat → Nat → State α → State α
  | 0, _, s => s
  | fuel + 1, h, s =>
    if h < s.items.length ∨ s.err.isSome then s else fetchAndWait B fuel h (fetchMore B s)

/-- `currentLocked` -/
def current (B : Nat) (s : State α) (cl : Clone) (c : Bool) : Res α × State α :=
  if c then (.cancelled, s) else
  if cl.stopped then (.done, s) else
  let s' := fetchAndWait B (s.under.rem.length + 2) cl.head s
  match s'.items[cl.head]? with
  | some a => (.ok a, s')
  | none =>
    match s'.err with
    | some e => (.err e none, s')
    | none => (.done, s')          -- the guard clause "bug in the underlying iterator"

inductive Act where
  | clone
  | next (i : Nat) (c : Bool)
  | head (i : Nat) (c : Bool)
  | stop (i : Nat)
  | expire                         -- the admission / idle timer stops the original
  deriving Repr, DecidableEq

/-- what an action returns to its caller -/
inductive Out (α : Type) where
  | res (r : Res α)
  | cloned (ok : Bool)
  | unit
  | noClone
  deriving Repr

def release (s : State α) : State α :=
  let refs := s.refs - 1
  { s with refs := refs, under := if refs = 0 then s.under.stop else s.under }

def setClone (cs : List Clone) (i : Nat) (cl : Clone) : List Clone := cs.set i cl

def step (B : Nat) (s : State α) : Act → Out α × State α
  | .clone =>
    if s.origStopped then (.cloned false, s)
    else (.cloned true, { s with refs := s.refs + 1, clones := s.clones ++ [{}] })
  | .next i c =>
    match s.clones[i]? with
    | none => (.noClone, s)
    | some cl =>
      match current B s cl c with
      | (.ok a, s') => (.res (.ok a), { s' with clones := setClone s'.clones i { cl with head := cl.head + 1 } })
      | (r, s') => (.res r, s')
  | .head i c =>
    match s.clones[i]? with
    | none => (.noClone, s)
    | some cl => let (r, s') := current B s cl c; (.res r, s')
  | .stop i =>
    match s.clones[i]? with
    | none => (.noClone, s)
    | some cl =>
      if cl.stopped then (.unit, s)
      else (.unit, release { s with clones := setClone s.clones i { cl with stopped := true } })
  | .expire =>
    if s.origStopped then (.unit, s) else (.unit, release { s with origStopped := true })

def run (B : Nat) : List Act → State α → List (Out α) × State α
  | [], s => ([], s)
  | a :: as, s =>
    let (o, s') := step B s a
    let (os, s'') := run B as s'
    (o :: os, s'')

def start (it : SIter α) : State α := { under := it }

/-! ### specification of what a clone may observe -/

/-- the items before the first error element -/
def prefixItems : List (El α) → List α
  | [] => []
  | .fail _ :: _ => []
  | .item a :: r => a :: prefixItems r

/-- the error every clone ends with: the first error of the script, `Done` if there is none -/
def terminal : List (El α) → Err
  | [] => .done
  | .fail e :: _ => .fail e
  | .item _ :: r => terminal r

/-- the result of the `k`-th successful-or-terminal live `Next` of any clone -/
def specAt (script : List (El α)) (k : Nat) : Res α :=
  match (prefixItems script)[k]? with
  | some a => .ok a
  | none => .err (terminal script) none

/-- **the property as a checker over one recorded history** (`acts` with the outputs `outs`): every clone's `k`-th
successful `Next` is the `k`-th item of the underlying sequence; an error other than `cancelled` comes only after
all items and is the script's own terminal error; `Head` announces the same without advancing; a stopped clone
answers `Done`; a cancelled call answers `cancelled`.  `hs` = per clone (items received so far, stopped).
The same function judges the real implementation's histories in the driver and is proved to accept every history
of the model (`Props/C23`). -/
def traceOK [DecidableEq α] (script : List (El α)) : List Act → List (Out α) → List (Nat × Bool) → Bool
  | [], _, _ => true
  | _ :: _, [], _ => false
  | a :: as, o :: os, hs =>
    match a, o with
    | .clone, .cloned true => traceOK script as os (hs ++ [(0, false)])
    | .clone, .cloned false => traceOK script as os hs
    | .expire, .unit => traceOK script as os hs
    | .stop i, .unit =>
      match hs[i]? with
      | some (h, _) => traceOK script as os (hs.set i (h, true))
      | none => false
    | .stop i, .noClone => hs[i]?.isNone && traceOK script as os hs
    | .next i _, .noClone => hs[i]?.isNone && traceOK script as os hs
    | .head i _, .noClone => hs[i]?.isNone && traceOK script as os hs
    | .next i c, .res r =>
      match hs[i]? with
      | none => false
      | some (h, st) =>
        if c then decide (r = Res.cancelled) && traceOK script as os hs
        else if st then decide (r = Res.done) && traceOK script as os hs
        else decide (r = specAt script h) &&
          traceOK script as os (match specAt script h with | .ok _ => hs.set i (h + 1, st) | _ => hs)
    | .head i c, .res r =>
      match hs[i]? with
      | none => false
      | some (h, st) =>
        if c then decide (r = Res.cancelled) && traceOK script as os hs
        else if st then decide (r = Res.done) && traceOK script as os hs
        else decide (r = specAt script h) && traceOK script as os hs
    | _, _ => false

end OpenFGAVerif.Model.SharedIter
