/-
Cancellation of a requester, added to the model of `sharedIterator` (`Model/SharedIter.lean`, level 1: whole calls
atomic).  Core Lean only.

`currentLocked(ctx)` tests the caller's context twice:

    if ctx.Err() != nil { return nil, ctx.Err() }      -- (1) already cancelled: nothing happens        `Cancel.before`
    if s.stopped { return nil, ErrIteratorDone }
    s.fetchAndWait(&items, &err)                        --     may run `fetchMore` (reads `bufferSize` items)
    if ctx.Err() != nil { return nil, ctx.Err() }      -- (2) cancelled meanwhile                        `Cancel.during k`
    … items[s.head] / err / Done                                                                         `Cancel.never`

`Cancel.during k`: the requester's context is cancelled while its call is inside `fetchAndWait`, after `k` calls of
`Next` on the underlying iterator made by the fetch this call triggered (`k = 0`: before the first one).

What the cancellation can reach is decided by the context `fetchMore` hands to `s.ir.Read`:

  * `reqCtx = false` — the code as it is: `s.ir.Read(context.Background(), …)` (fact group `SharedCtx`, pinned in
    `Props/C23`, `Props/C09`).  The fetch is out of the requester's reach: the shared state changes exactly as in an
    uncancelled call (`current B s cl false`), only the caller is told `cancelled` by test (2).
  * `reqCtx = true` — the variant in which the fetch reads with the context of the request that triggered it.  The
    scripted iterator answers a cancelled context with `cancelled` and changes nothing, `iteratorReader.Read` stops at that
    error and `fetchMore` records it as the shared, sticky `state.err`: every other clone is served the truncated prefix
    followed by `cancelled` (which the resolvers read as the end of the iteration).
-/
import OpenFGAVerif.Model.SharedIter

namespace OpenFGAVerif.Model.SharedIterCancel
open OpenFGAVerif.Model.Iter OpenFGAVerif.Model.SharedIter

/-- when the requester's context is cancelled, relative to one `Next`/`Head` call -/
inductive Cancel where
  | never
  | before
  | during (k : Nat)
  deriving Repr, DecidableEq

variable {α : Type}

/-- `iteratorReader.Read` with a context that is cancelled after `k` more calls of `Next` -/
def readBufC : Nat → Nat → SIter α → List α × Option Err × SIter α × Nat
  | 0, _, it => ([], none, it, 0)
  | _ + 1, 0, it => ([], some .cancelled, it, 0)          -- `it.next true = (cancelled, it)`: nothing consumed, not counted
  | b + 1, k + 1, it =>
    match it.next false with
    | (.ok a, it') =>
      let (xs, e, it'', n) := readBufC b k it'
      (a :: xs, e, it'', n + 1)
    | (.err e _, it') => ([], some e, it', 1)

/-- `fetchMore` reading with a context that is cancelled after `k` more underlying calls; returns what is left of `k` -/
def fetchMoreC (B k : Nat) (s : State α) : State α × Nat :=
  if s.err.isSome then (s, k) else
  let (xs, e, it, n) := readBufC B k s.under
  ({ s with under := it, nexts := s.nexts + n, items := s.items ++ xs,
            err := match e with | some e => some e | none => s.err }, k - n)

/-- `fetchAndWait` whose fetches read with the requester's context -/
def fetchAndWaitC (B : Nat) : Nat → Nat → Nat → State α → State α
  | 0, _, _, s => s
  | fuel + 1, h, k, s =>
    if h < s.items.length ∨ s.err.isSome then s else
    let (s', k') := fetchMoreC B k s
    fetchAndWaitC B fuel h k' s'

/-- `currentLocked` with the cancellation point of the caller's context -/
def currentC (B : Nat) (reqCtx : Bool) (s : State α) (cl : Clone) : Cancel → Res α × State α
  | .never => current B s cl false
  | .before => current B s cl true
  | .during k =>
    if cl.stopped then (.done, s) else
    if reqCtx then (.cancelled, fetchAndWaitC B (s.under.rem.length + 2) cl.head k s)
    else (.cancelled, (current B s cl false).2)      -- background context: the state moves as in an uncancelled call

inductive CAct where
  | clone
  | next (i : Nat) (c : Cancel)
  | head (i : Nat) (c : Cancel)
  | stop (i : Nat)
  | expire
  deriving Repr, DecidableEq

/-- the clone an action belongs to -/
def CAct.owner : CAct → Option Nat
  | .next i _ => some i
  | .head i _ => some i
  | .stop i => some i
  | .clone => none
  | .expire => none

def stepC (B : Nat) (reqCtx : Bool) (s : State α) : CAct → Out α × State α
  | .clone => step B s .clone
  | .stop i => step B s (.stop i)
  | .expire => step B s .expire
  | .next i c =>
    match s.clones[i]? with
    | none => (.noClone, s)
    | some cl =>
      match currentC B reqCtx s cl c with
      | (.ok a, s') => (.res (.ok a), { s' with clones := setClone s'.clones i { cl with head := cl.head + 1 } })
      | (r, s') => (.res r, s')
  | .head i c =>
    match s.clones[i]? with
    | none => (.noClone, s)
    | some cl => let (r, s') := currentC B reqCtx s cl c; (.res r, s')

def runC (B : Nat) (reqCtx : Bool) : List CAct → State α → List (Out α) × State α
  | [], s => ([], s)
  | a :: as, s =>
    let (o, s') := stepC B reqCtx s a
    let (os, s'') := runC B reqCtx as s'
    (o :: os, s'')

/-- what clone `i` observes in a history: the outputs of its own actions, in order -/
def obsOf (i : Nat) : List CAct → List (Out α) → List (Out α)
  | a :: as, o :: os => if a.owner = some i then o :: obsOf i as os else obsOf i as os
  | _, _ => []

/-- the `Next`/`Head` results among a clone's observations -/
def outRes? : Out α → Option (Res α)
  | .res r => some r
  | _ => none

/-- the sequence of results clone `i` is served in a history -/
def seenBy (i : Nat) (acts : List CAct) (outs : List (Out α)) : List (Res α) :=
  (obsOf i acts outs).filterMap outRes?

/-- the same action with the cancellation of clone `j` taken away (its context stays live) -/
def uncancel (j : Nat) : CAct → CAct
  | .next i c => if i = j then .next i .never else .next i c
  | .head i c => if i = j then .head i .never else .head i c
  | .clone => .clone
  | .stop i => .stop i
  | .expire => .expire

/-! ### the specification: every clone is an independent cursor over the underlying sequence -/

/-- result of one call of a clone and whether the clone advances -/
def callRes (script : List (El α)) (cl : Clone) (isNext : Bool) : Cancel → Res α × Bool
  | .before => (.cancelled, false)
  | .during _ => (if cl.stopped then .done else .cancelled, false)
  | .never =>
    if cl.stopped then (.done, false) else
    match specAt script cl.head with
    | .ok a => (.ok a, isNext)
    | .err e v => (.err e v, false)

/-- abstract machine: the state is only (original stopped?, the clones' cursors); no buffer, no underlying iterator -/
def astepC (script : List (El α)) (o : Bool) (cs : List Clone) : CAct → Out α × Bool × List Clone
  | .clone => if o then (.cloned false, o, cs) else (.cloned true, o, cs ++ [{}])
  | .expire => (.unit, true, cs)
  | .stop i =>
    match cs[i]? with
    | none => (.noClone, o, cs)
    | some cl => (.unit, o, if cl.stopped then cs else cs.set i { cl with stopped := true })
  | .next i c =>
    match cs[i]? with
    | none => (.noClone, o, cs)
    | some cl =>
      ((.res (callRes script cl true c).1), o,
        if (callRes script cl true c).2 then cs.set i { cl with head := cl.head + 1 } else cs)
  | .head i c =>
    match cs[i]? with
    | none => (.noClone, o, cs)
    | some cl => ((.res (callRes script cl false c).1), o, cs)

def arunC (script : List (El α)) : List CAct → Bool → List Clone → List (Out α)
  | [], _, _ => []
  | a :: as, o, cs =>
    (astepC script o cs a).1 :: arunC script as (astepC script o cs a).2.1 (astepC script o cs a).2.2

end OpenFGAVerif.Model.SharedIterCancel
