/-
Level 2 model of `sharedIterator.fetchAndWait` (core Lean only): the load of the state pointer, the entry into
`await.Do` and `fetchMore` are separate atomic steps, so a thread can act on a *stale* snapshot of the shared state.

  fetchAndWait:   for { state := s.state.Load()                       -- step `look`
                        if s.head < len(state.items) || state.err != nil { return }
                        s.await.Do(s.fetchMore) }                     -- steps `enter`, `fetch` (or `wake` after waiting)

Every thread performs `Next` calls with a live context on its own clone; `obs` collects what its calls returned.
-/
import OpenFGAVerif.Model.SharedIter

namespace OpenFGAVerif.Model.SharedIterFine
open OpenFGAVerif.Model.Iter OpenFGAVerif.Model.SharedIter

inductive PC where
  | idle        -- between two loop turns (or two `Next` calls)
  | decided     -- the loaded state said "fetch": about to call `await.Do`
  | waiting     -- inside `await.Do`, another thread is fetching
  | fetching    -- inside `await.Do`, this thread runs `fetchMore`
  deriving DecidableEq, Repr

structure Thread (α : Type) where
  head : Nat := 0
  pc : PC := .idle
  obs : List (Res α) := []
  deriving Repr

structure FState (α : Type) where
  under : SIter α
  items : List α := []
  err : Option Err := none
  active : Bool := false
  threads : List (Thread α)
  deriving Repr

inductive FAct where
  | look (t : Nat)     -- load the state; either complete the call or decide to fetch
  | enter (t : Nat)    -- `await.Do`: become the fetcher, or wait
  | fetch (t : Nat)    -- `fetchMore`, then leave `await.Do`
  | wake (t : Nat)     -- the fetcher is done: go round the loop again
  deriving DecidableEq, Repr

variable {α : Type}

/-- `recheck = true` models the proposed fix: `fetchMore` first re-reads the state and returns if an error is recorded -/
def fstep (B : Nat) (recheck : Bool) (s : FState α) : FAct → FState α
  | .look t =>
    match s.threads[t]? with
    | some th =>
      if th.pc ≠ .idle then s else
      match s.items[th.head]? with
      | some a => { s with threads := s.threads.set t { th with head := th.head + 1, obs := th.obs ++ [.ok a] } }
      | none =>
        match s.err with
        | some e => { s with threads := s.threads.set t { th with obs := th.obs ++ [.err e none] } }
        | none => { s with threads := s.threads.set t { th with pc := .decided } }
    | none => s
  | .enter t =>
    match s.threads[t]? with
    | some th =>
      if th.pc ≠ .decided then s
      else if s.active then { s with threads := s.threads.set t { th with pc := .waiting } }
      else { s with active := true, threads := s.threads.set t { th with pc := .fetching } }
    | none => s
  | .fetch t =>
    match s.threads[t]? with
    | some th =>
      if th.pc ≠ .fetching then s else
      let s' : FState α :=
        if recheck && s.err.isSome then s else
        let (xs, e, it, _) := readBuf B s.under
        { s with under := it, items := s.items ++ xs, err := match e with | some e => some e | none => s.err }
      { s' with active := false, threads := s'.threads.set t { th with pc := .idle } }
    | none => s
  | .wake t =>
    match s.threads[t]? with
    | some th => if th.pc = .waiting ∧ s.active = false then { s with threads := s.threads.set t { th with pc := .idle } } else s
    | none => s

def frun (B : Nat) (recheck : Bool) : List FAct → FState α → FState α
  | [], s => s
  | a :: as, s => frun B recheck as (fstep B recheck s a)

def fstart (script : List (El α)) (n : Nat) : FState α :=
  { under := { id := 0, rem := script }, threads := List.replicate n {} }

/-- what a thread observed is a prefix of the underlying sequence's stream of results -/
def obsOK [DecidableEq α] (script : List (El α)) (th : Thread α) : Bool :=
  (List.range th.obs.length).all fun k =>
    -- the k-th result is the result for position min k (number of items): items advance the position, errors do not
    let pos := (th.obs.take k).countP fun r => match r with | .ok _ => true | _ => false
    th.obs[k]? == some (specAt script pos)

end OpenFGAVerif.Model.SharedIterFine
