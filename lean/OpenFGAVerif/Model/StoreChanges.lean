/-
ReadChanges page by page with a horizon, and where the changelog's timestamps / ULIDs come from (core Lean only).
Used by C15.

Mirrors
  * pkg/storage/memory/memory.go `ReadChanges` with a continuation token: inside the scan loop, for a change of the
    requested type, first the horizon test (`break`), then the token test (`continue`), then the append; the page is the
    first `pageSize` collected changes, the token the ULID of the last one; nothing collected = ErrNotFound
  * pkg/storage/sqlite/sqlite.go `ReadChanges`: WHERE inserted_at <= now − horizon [AND object_type] [AND ulid > token]
    ORDER BY ulid LIMIT pageSize
  * pkg/server/commands/read_changes.go `Execute`: which horizon is handed to the datastore on a first page and on a
    continuation (`everyPage` = Gen.StoreChanges.rcHorizonEveryPage), ErrNotFound → empty page with the request's token
  * pkg/storage/memory/memory.go `Write`: `now` and the ULIDs of the change records are taken from the wall clock and
    from the process-wide monotonic entropy source of oklog/ulid; `underLock` = Gen.StoreChanges.memStampsUnderLock says
    whether that happens after `s.mutexTuples.Lock()`.

Times are `Nat` (ms).  A ULID is the pair (ms, 80-bit entropy) compared lexicographically.
-/
import OpenFGAVerif.Model.StoreWrite
import OpenFGAVerif.Model.Paging

namespace OpenFGAVerif.Model.StoreChanges
open OpenFGAVerif.Model.StoreTypes OpenFGAVerif.Model.StoreWrite

/-! ## one datastore call with a continuation token (ascending) -/

/-- is the change at or before the token (`changeRec.Ulid.Compare(*from) <= 0` → `continue`) -/
def atOrBefore (frm : Option Nat) (c : Change) : Bool :=
  match frm with
  | none => false
  | some f => decide (c.ulid ≤ f)

/-- the scan loop of memory.ReadChanges: type test; horizon test → `break`; token test → `continue`; append -/
def memScanFrom (typ : String) (now horizon : Nat) (frm : Option Nat) : List Change → List Change
  | [] => []
  | c :: cs =>
    if memTypeMatch typ c then
      if c.ts + horizon > now then []
      else if atOrBefore frm c then memScanFrom typ now horizon frm cs
      else c :: memScanFrom typ now horizon frm cs
    else memScanFrom typ now horizon frm cs

/-- memory.ReadChanges(filter{typ, horizon}, pagination{ps, frm}) ascending: (page, token); token `none` = ErrNotFound -/
def memChangesPage (log : List Change) (typ : String) (now : Nat) (ps : Nat) (horizon : Nat) (frm : Option Nat) :
    List Change × Option Nat :=
  let rows := (memScanFrom typ now horizon frm log).take ps
  (rows, rows.getLast?.map (·.ulid))

/-- sqlite.ReadChanges ascending -/
def sqlChangesPage (log : List Change) (typ : String) (now : Nat) (ps : Nat) (horizon : Nat) (frm : Option Nat) :
    List Change × Option Nat :=
  let sel := log.filter (fun c => decide (c.ts + horizon ≤ now) && (typ == "" || c.tuple.objType == typ) && !atOrBefore frm c)
  let rows := (sortBy (fun a b => decide (a ≤ b)) sel).take ps
  (rows, rows.getLast?.map (·.ulid))

/-! ## ReadChangesQuery.Execute and the client that follows the tokens -/

/-- the horizon Execute puts into the ReadChangesFilter: the configured offset `q` — on every call if the source sets
    the field unconditionally (`everyPage`), otherwise only on a call without continuation token -/
def queryHorizon (everyPage : Bool) (q : Nat) (tok : Option Nat) : Nat :=
  if everyPage || tok.isNone then q else 0

/-- the client: call Execute, keep the changes, go on with the returned token until a page comes back empty
    (ErrNotFound → no changes, the request's own token) -/
def followQuery (page : Nat → Option Nat → List Change × Option Nat) (everyPage : Bool) (q : Nat) :
    Nat → Option Nat → Option (List (List Change))
  | 0, _ => none
  | fuel + 1, tok =>
    match page (queryHorizon everyPage q tok) tok with
    | (_, none) => some []
    | (xs, some k) => (followQuery page everyPage q fuel (some k)).map (xs :: ·)

/-! ## timestamps and ULIDs of the change records under concurrent writers -/

structure Ulid where
  ms : Nat
  ent : Nat
deriving DecidableEq, Repr, Inhabited

/-- byte-wise comparison of two ULIDs: the 48-bit time first, then the 80-bit entropy -/
def Ulid.lt (a b : Ulid) : Bool := decide (a.ms < b.ms) || (a.ms == b.ms && decide (a.ent < b.ent))

/-- `ulid.DefaultEntropy()`: one `LockedMonotonicReader` per process.  `ms` / `val` = time and entropy of the last ULID
    it served (`val = 0`: nothing served yet — `entropy.IsZero()`), `calls` = number of reads so far. -/
structure Entropy where
  ms : Nat := 0
  val : Nat := 0
  calls : Nat := 0
deriving DecidableEq, Repr, Inhabited

/-- `MonotonicEntropy.MonotonicRead(ms)`: same millisecond as the previous read (and a non-zero state) → the previous
    entropy plus a random positive increment; otherwise fresh random bytes.  `R n` = (fresh value, increment − 1) the
    random source yields on read number `n` — an oracle, the theorems quantify over it. -/
def Entropy.read (R : Nat → Nat × Nat) (e : Entropy) (ms : Nat) : Ulid × Entropy :=
  let v := if e.val ≠ 0 ∧ e.ms = ms then e.val + (R e.calls).2 + 1 else (R e.calls).1
  ({ ms := ms, ent := v }, { ms := ms, val := v, calls := e.calls + 1 })

/-- an event of a schedule of concurrent writers of one memory store:
    * `sample w`  — writer `w` evaluates `timestamppb.Now()` (where a source that stamps *outside* the lock does it:
                     at the start of Write, before waiting for the mutex)
    * `locked w calls` — writer `w` holds `mutexTuples` and runs the rest of Write; `calls` are its `ulid.MustNew`
                     calls in order, `true` = the ULID of a change record, `false` = the ULID of a tuple record.
    * `foreign ms` — some other goroutine of the process draws a ULID from the same process-wide entropy source
                     (`ulid.Make()` in CreateStore, WriteAuthorizationModel, …) with the millisecond `ms` it sampled;
                     the ULID is not a change record.  The call is *stale* if `ms` is older than the clock at the event
                     (the goroutine was descheduled, or waited for the source's mutex, between `Now()` and the read).
    The mutex makes the locked sections atomic with respect to each other. -/
inductive Ev where
  | sample (w : Nat)
  | locked (w : Nat) (calls : List Bool)
  | foreign (ms : Nat)
deriving DecidableEq, Repr, Inhabited

/-- an event together with the wall clock (ms) at which it happens -/
structure Timed where
  ev : Ev
  clock : Nat
deriving DecidableEq, Repr, Inhabited

structure StampState where
  ent : Entropy := {}
  samples : List (Nat × Nat) := []        -- writer ↦ the `now` it sampled before taking the lock
  log : List (Ulid × Nat) := []           -- (ULID, timestamp) of the change records, in append (= application) order
deriving Repr, Inhabited

/-- the `ulid.MustNew(ulid.Timestamp(now), entropy)` calls of one locked section -/
def genCalls (R : Nat → Nat × Nat) (now : Nat) : List Bool → Entropy → List (Ulid × Nat) → Entropy × List (Ulid × Nat)
  | [], e, log => (e, log)
  | isChange :: rest, e, log =>
    let (u, e') := e.read R now
    genCalls R now rest e' (if isChange then log ++ [(u, now)] else log)

def lookupSample (samples : List (Nat × Nat)) (w : Nat) : Option Nat := (samples.find? (fun p => p.1 == w)).map (·.2)

/-- one event.  `underLock`: `now` is sampled inside the locked section (at its clock); otherwise the value sampled at the
    writer's last `sample` event is used (the section's own clock if it never sampled). -/
def stampStep (underLock : Bool) (R : Nat → Nat × Nat) (s : StampState) (t : Timed) : StampState :=
  match t.ev with
  | .sample w => if underLock then s else { s with samples := (w, t.clock) :: s.samples }
  | .locked w calls =>
    let now := if underLock then t.clock else (lookupSample s.samples w).getD t.clock
    let (e', log') := genCalls R now calls s.ent s.log
    { s with ent := e', log := log' }
  | .foreign ms => { s with ent := (s.ent.read R ms).2 }

def runStamps (underLock : Bool) (R : Nat → Nat × Nat) (evs : List Timed) (s : StampState := {}) : StampState :=
  evs.foldl (stampStep underLock R) s

/-- one ReadChanges call on a log of (ULID, timestamp) pairs, keyed by the real ULID order -/
def ulidPage (log : List (Ulid × Nat)) (ps : Nat) (tok : Option Ulid) : List (Ulid × Nat) × Option Ulid :=
  Paging.changesPage (·.1) Ulid.lt log ps tok

end OpenFGAVerif.Model.StoreChanges
