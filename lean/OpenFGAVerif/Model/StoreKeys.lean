/-
The identity under which sqlite.write looks request keys up (core Lean only).  Used by C12.

Mirrors pkg/storage/sqlite/sqlite.go `makeTupleLockKeys`:

    add := func(tk) {
      objectType, objectID := SplitObject(tk.Object); userObjectType, userObjectID, userRelation := ToUserParts(tk.User)
      k := tupleLockKey{…seven fields…}
      s := strings.Join([]string{k.objectType, …, string(k.userType)}, "\x00")
      if _, ok := seen[s]; ok { return }            -- a key whose string was seen before is dropped
      seen[s] = struct{}{}; keys = append(keys, k)
    }
    for deletes { add } ; for writes { add }

The list of joined fields and the separator are *data* of the source (Gen.StoreKeys.sqlLockKeyJoin / sqlLockKeySep);
the model is parameterised by them, so that a source that joins fewer fields yields a model that merges more keys.
`sqlWriteK` is `StoreWrite.sqlWrite` with the list of lock keys as a parameter (`sqlWrite` uses `eraseDups`, i.e. the
identity of the whole (object, relation, user) triple).
-/
import OpenFGAVerif.Model.StoreWrite

namespace OpenFGAVerif.Model.StoreKeys
open OpenFGAVerif.Model.StoreTypes OpenFGAVerif.Model.StoreWrite

/-- the fields of `tupleLockKey` -/
inductive LockField where
  | objectType | objectID | relation | userObjectType | userObjectID | userRelation | userType
deriving DecidableEq, Repr, Inhabited

def LockField.all : List LockField :=
  [.objectType, .objectID, .relation, .userObjectType, .userObjectID, .userRelation, .userType]

def LockField.ofName (s : String) : Option LockField :=
  if s = "objectType" then some .objectType
  else if s = "objectID" then some .objectID
  else if s = "relation" then some .relation
  else if s = "userObjectType" then some .userObjectType
  else if s = "userObjectID" then some .userObjectID
  else if s = "userRelation" then some .userRelation
  else if s = "userType" then some .userType
  else none

/-- the field list of the source; a name that is not a field of the struct is dropped (the tie lemma pins the list, so
    nothing is dropped on a source the theorems speak about) -/
def lockFieldsOf (names : List String) : List LockField := names.filterMap LockField.ofName

/-- `tuple.GetUserTypeFromUser` for user strings that are `type:id`, `type:id#relation` or `type:*` (the strings the
    harness writes): "userset" for a userset or a wildcard, "user" otherwise.  No theorem depends on this function:
    the other six fields already determine the user string (`Proofs.StoreKeys.lockFields_injective`). -/
def userTypeOf (u : String) : String :=
  let p := userParts u
  if p.2.2 ≠ "" ∨ u = "*" ∨ (p.1 ≠ "" ∧ p.2.1 = "*") then "userset" else "user"

/-- the value of one field of the lock key built from a request key (`SplitObject` happened when the key was parsed) -/
def LockField.get (utype : String → String) (k : TupleKey) : LockField → String
  | .objectType => k.objType
  | .objectID => k.objId
  | .relation => k.relation
  | .userObjectType => (userParts k.user).1
  | .userObjectID => (userParts k.user).2.1
  | .userRelation => (userParts k.user).2.2
  | .userType => utype k.user

/-- `strings.Join(parts, sep)` on character lists -/
def joinSep (sep : List Char) : List (List Char) → List Char
  | [] => []
  | [a] => a
  | a :: b :: r => a ++ sep ++ joinSep sep (b :: r)

/-- the string `s` under which `makeTupleLockKeys` remembers a key -/
def lockKeyString (utype : String → String) (fields : List LockField) (sep : List Char) (k : TupleKey) : List Char :=
  joinSep sep (fields.map (fun f => (f.get utype k).toList))

/-- the `seen` map: a key whose image was seen before is dropped, otherwise it is kept and its image remembered -/
def dedupBy {α β : Type} [BEq β] (f : α → β) : List α → List β → List α
  | [], _ => []
  | x :: xs, seen => if seen.contains (f x) then dedupBy f xs seen else x :: dedupBy f xs (f x :: seen)

/-- `makeTupleLockKeys(deletes, writes)` before sorting (the order only fixes the lock order) -/
def sqlLockKeys (utype : String → String) (fields : List LockField) (sep : List Char) (dels : List TupleKey) (writes : List TupleRec) :
    List TupleKey :=
  dedupBy (lockKeyString utype fields sep) (dels ++ writes.map (·.key)) []

/-- `tuple.FromUserParts` (the inverse the SQL read path applies to the three user columns) -/
def fromUserParts (p : String × String × String) : String :=
  (if p.1 = "" then "" else p.1 ++ ":") ++ p.2.1 ++ (if p.2.2 = "" then "" else "#" ++ p.2.2)

/-- the user string survives the split into the three user columns -/
def UserOK (u : String) : Prop := fromUserParts (userParts u) = u

instance (u : String) : Decidable (UserOK u) := by unfold UserOK; infer_instance

/-- `Datastore.write` (sqlite) with the lock keys as a parameter: `StoreWrite.sqlWrite` is the instance
    `lockKeys = (dels ++ writes.map key).eraseDups`. -/
def sqlWriteK (lockKeys : List TupleKey) (ceq : TupleRec → TupleRec → Bool) (cfg : SqlCfg) (db : Db) (dels : List TupleKey)
    (writes : List TupleRec) (o : WriteOpts) (now : Nat) (f : Option Fail) : Db × Option WriteErr :=
  if firesAt f 0 then (db, some .sqlError) else
  let db1 : Db := { db with pending := some db.committed }
  if lockKeys.isEmpty then (txRollback cfg db1, none) else
  if firesAt f 1 then (txRollback cfg db1, some .sqlError) else
  let existing := db.committed.tuples.filter (fun t => lockKeys.contains t.key)
  match sqlPlanDeletes existing o dels [] with
  | .error e => (txRollback cfg db1, some e)
  | .ok delKeys =>
    match sqlPlanWrites ceq existing o writes [] with
    | .error e => (txRollback cfg db1, some e)
    | .ok rows => runStmts cfg now f db1 (sqlStmts delKeys rows) 2

/-- `StoreWrite.sqlTrace` with the lock keys as a parameter -/
def sqlTraceK (lockKeys : List TupleKey) (ceq : TupleRec → TupleRec → Bool) (db : Db) (dels : List TupleKey) (writes : List TupleRec)
    (o : WriteOpts) : List String :=
  if lockKeys.isEmpty then ["begin", "rollback"] else
  let existing := db.committed.tuples.filter (fun t => lockKeys.contains t.key)
  match sqlPlanDeletes existing o dels [] with
  | .error _ => ["begin", "select", "rollback"]
  | .ok delKeys =>
    match sqlPlanWrites ceq existing o writes [] with
    | .error _ => ["begin", "select", "rollback"]
    | .ok rows => ["begin", "select"] ++ stmtTrace 0 db.committed (sqlStmts delKeys rows)

end OpenFGAVerif.Model.StoreKeys
