/-
Model of the READ side of the datastores (C13).  Core Lean only.

  pkg/storage/memory/memory.go   match / read / ReadUserTuple / ReadUsersetTuples / ReadStartingWithUser
                                 → `matchT` / `memRead` / `memReadUserTuple` / `memReadUsersetTuples` / `memReadStartingWithUser`
                                 (the loops AS WRITTEN; the places where the unchanged code deviates from the documented
                                  filter are switches of `MemShape`, set from the source by `Gen.StoreRead`)
  pkg/storage/sqlite/sqlite.go   the WHERE clauses of read / ReadUserTuple / ReadUsersetTuples / ReadStartingWithUser
                                 → `sqlRead` / `sqlReadUserTuple` / `sqlReadUsersetTuples` / `sqlReadStartingWithUser`
                                 (predicates over the columns written by `write`; again with `SqlShape` switches)
  pkg/storage/storage.go         the documented meaning of ReadFilter / ReadUsersetTuplesFilter / ReadStartingWithUserFilter
                                 → `specRead` / `specReadUserTuple` / `specReadUsersetTuples` / `specReadStartingWithUser`
  pkg/storage/record.go          TupleRecord.AsTuple (condition + context as returned to the caller) → `asTuple`

A store is `List TupleRec` in insertion order (`Model.StoreTypes`).
-/
import OpenFGAVerif.Model.StoreTypes

namespace OpenFGAVerif.Model.StoreRead
open OpenFGAVerif.Model.StoreTypes

/-! ### the string functions of pkg/tuple that the read paths use -/

/-- `strings.IndexByte(s, c)` on the character list -/
def idxOf? (c : Char) : List Char → Option Nat
  | [] => none
  | x :: xs => if x = c then some 0 else (idxOf? c xs).map (· + 1)

/-- `strings.LastIndexByte(s, c)` -/
def lastIdxOf? (c : Char) : List Char → Option Nat
  | [] => none
  | x :: xs =>
    match lastIdxOf? c xs with
    | some n => some (n + 1)
    | none => if x = c then some 0 else none

/-- `tuple.SplitObject`: cut at the first ':'; no ':' gives `("", s)`. -/
def splitObject (s : String) : String × String :=
  match idxOf? ':' s.toList with
  | none => ("", s)
  | some i => (String.ofList (s.toList.take i), String.ofList (s.toList.drop (i + 1)))

/-- `tuple.SplitObjectRelation`: cut at the last '#'; a trailing '#' gives an empty relation. -/
def splitObjectRelation (s : String) : String × String :=
  match lastIdxOf? '#' s.toList with
  | none => (s, "")
  | some i => (String.ofList (s.toList.take i), String.ofList (s.toList.drop (i + 1)))

/-- `tuple.GetType` -/
def getType (s : String) : String := (splitObject s).1

/-- `_, userRelation := tuple.SplitObjectRelation(t.User)` -/
def userRel (s : String) : String := (splitObjectRelation s).2

structure UserParts where
  typ : String
  id  : String
  rel : String
deriving DecidableEq, Repr, Inhabited

/-- `tuple.ToUserParts`: the three user columns of the SQL schema. -/
def toUserParts (u : String) : UserParts :=
  let orl := splitObjectRelation u
  let ti := splitObject orl.1
  ⟨ti.1, ti.2, orl.2⟩

/-- `tuple.FromUserParts` -/
def fromUserParts (p : UserParts) : String :=
  (if p.typ = "" then "" else p.typ ++ ":") ++ p.id ++ (if p.rel = "" then "" else "#" ++ p.rel)

/-- `strings.HasPrefix` -/
def hasPrefix (s p : String) : Bool := p.toList.isPrefixOf s.toList

/-- `unicode.IsControl` (Latin-1 table) -/
def isControl (c : Char) : Bool := c.toNat < 0x20 || (0x7F ≤ c.toNat && c.toNat ≤ 0x9F)

/-- state of the scanner in `tuple.IsValidUserset` -/
structure UsState where
  ndx : Nat := 0
  state : Nat := 0
  idLen : Nat := 0
  relLen : Nat := 0

/-- `tuple.IsValidUserset`, statement by statement. -/
def isValidUsersetAux : UsState → List Char → Bool
  | st, [] => st.relLen > 0
  | st, c :: cs =>
    if isControl c then false
    else if c = ':' then
      if st.state > 0 || st.ndx = 0 then false else isValidUsersetAux { st with ndx := st.ndx + 1, state := 1 } cs
    else if c = '#' then
      if st.state > 1 || st.idLen = 0 then false else isValidUsersetAux { st with ndx := st.ndx + 1, state := 2 } cs
    else if c = ' ' then false
    else if c = '*' then
      if st.state > 0 then false else isValidUsersetAux { st with ndx := st.ndx + 1 } cs
    else
      isValidUsersetAux { st with ndx := st.ndx + 1,
                                  idLen := if st.state = 1 then st.idLen + 1 else st.idLen,
                                  relLen := if st.state = 2 then st.relLen + 1 else st.relLen } cs

def isValidUserset (s : String) : Bool := isValidUsersetAux {} s.toList

/-- `tuple.IsWildcard`: "*" or "type:*" -/
def isWildcard (s : String) : Bool :=
  s = "*" || ((splitObject s).1 ≠ "" && (splitObject s).2 = "*")

/-- `tuple.GetUserTypeFromUser(u) == tuple.UserSet` (also the `user_type` column of the SQL schema) -/
def isUsersetUser (u : String) : Bool := isValidUserset u || isWildcard u

/-! ### filters -/

/-- `storage.ReadFilter` (= `ReadUserTupleFilter`) -/
structure ReadFilter where
  object : String := ""
  relation : String := ""
  user : String := ""
  conditions : List String := []
deriving DecidableEq, Repr, Inhabited

/-- `openfgav1.RelationReference.RelationOrWildcard` -/
inductive RefKind where
  | relation (r : String)
  | wildcard
  | plain
deriving DecidableEq, Repr, Inhabited

/-- `openfgav1.RelationReference` -/
structure Restriction where
  typ : String
  kind : RefKind
deriving DecidableEq, Repr, Inhabited

/-- `RelationReference.GetRelation()` -/
def Restriction.relationStr (r : Restriction) : String :=
  match r.kind with
  | .relation x => x
  | _ => ""

/-- `storage.ReadUsersetTuplesFilter` -/
structure UsersetFilter where
  object : String := ""
  relation : String := ""
  restrictions : List Restriction := []
  conditions : List String := []
deriving DecidableEq, Repr, Inhabited

/-- `openfgav1.ObjectRelation` -/
structure ObjRel where
  object : String
  relation : String := ""
deriving DecidableEq, Repr, Inhabited

/-- `storage.ReadStartingWithUserFilter`; `objectIDs = none` is a nil `SortedSet`. -/
structure RswuFilter where
  objectType : String
  relation : String
  userFilter : List ObjRel := []
  objectIDs : Option (List String) := none
  conditions : List String := []
deriving DecidableEq, Repr, Inhabited

/-- `len(filter.Conditions) > 0 && !slices.Contains(filter.Conditions, t.ConditionName)` negated:
an empty list is "no filter", `""` selects the unconditioned tuples. -/
def condOk (cs : List String) (t : TupleRec) : Bool := cs.isEmpty || cs.contains t.condName

/-! ### the memory backend, as written -/

/-- `memory.match(t, target)` -/
def matchT (t : TupleRec) (object relation user : String) : Bool :=
  (if object ≠ "" then
      (if (splitObject object).2 = "" then decide ((splitObject object).1 = t.objType)
       else decide ((splitObject object).1 = t.objType) && decide ((splitObject object).2 = t.objId))
    else true)
  && (relation = "" || t.relation = relation)
  && (if user ≠ "" then
        (if (toUserParts user).id ≠ "" then decide (t.user = user)
         else hasPrefix t.user ((toUserParts user).typ ++ ":"))
      else true)

/-- The places of memory.go where today's source differs from the documented filter.  Each switch is
read off the source by the extractor (`Gen.StoreRead`); `beforeFix` is the tree as first seen (snapshot 469a15f,
before commit 5575d87 repaired `rutCondFirst` and `rutBreakOnMatch`). -/
structure MemShape where
  /-- `read`: the `Object == "" && Relation == "" && User == ""` shortcut copies every tuple without looking at `Conditions` -/
  readShortcutSkipsConds : Bool
  /-- `ReadUsersetTuples`: the `Conditions` test stands before the first `append` (false: after the loop, dead) -/
  rutCondFirst : Bool
  /-- `ReadUsersetTuples`: the restriction loop leaves after the first matching restriction -/
  rutBreakOnMatch : Bool
  /-- `ReadUsersetTuples`: the restriction test `GetType() == userType && GetRelation() == userRelation` does not
  look at the kind of the reference, so a reference without relation and without wildcard selects `type:*` -/
  rutPlainMatchesWildcard : Bool
  /-- `ReadStartingWithUser`: the user-filter loop leaves after the first matching entry -/
  rswuBreakOnMatch : Bool
  /-- `ReadStartingWithUser`: an empty non-nil `ObjectIDs` set is treated like nil (no filter) -/
  rswuEmptyIdsMeansAll : Bool
deriving DecidableEq, Repr, Inhabited

/-- memory.go of snapshot 469a15f (before the F4a/F4b repair 5575d87) -/
def MemShape.beforeFix : MemShape := ⟨true, false, false, true, false, false⟩
/-- memory.go with every switch on the documented side -/
def MemShape.fixed : MemShape := ⟨false, true, true, false, true, false⟩

/-- `MemoryBackend.read` without pagination (`Read`) -/
def memRead (sh : MemShape) (s : List TupleRec) (f : ReadFilter) : List TupleRec :=
  if f.object = "" ∧ f.relation = "" ∧ f.user = "" then
    (if sh.readShortcutSkipsConds then s else s.filter (condOk f.conditions))
  else
    s.filter (fun t => matchT t f.object f.relation f.user && condOk f.conditions t)

/-- `MemoryBackend.ReadUserTuple`: first tuple that matches and passes the condition filter -/
def memReadUserTuple (s : List TupleRec) (f : ReadFilter) : Option TupleRec :=
  match s with
  | [] => none
  | t :: ts =>
    if matchT t f.object f.relation f.user then
      (if !f.conditions.isEmpty && !f.conditions.contains t.condName then memReadUserTuple ts f else some t)
    else memReadUserTuple ts f

/-- the inner loop `for _, allowedType := range filter.AllowedUserTypeRestrictions` for one tuple:
the copies of `t` that get appended -/
def memRestrOk (plainMatches : Bool) (t : TupleRec) (r : Restriction) : Bool :=
  r.typ = getType t.user && r.relationStr = userRel t.user && (plainMatches || r.kind ≠ .plain)

def rutRestrLoop (brk plainMatches : Bool) (t : TupleRec) : List Restriction → List TupleRec
  | [] => []
  | r :: rs =>
    if memRestrOk plainMatches t r then
      t :: (if brk then [] else rutRestrLoop brk plainMatches t rs)
    else rutRestrLoop brk plainMatches t rs

/-- one iteration of the outer loop of `ReadUsersetTuples` -/
def rutBody (sh : MemShape) (f : UsersetFilter) (t : TupleRec) : List TupleRec :=
  if matchT t f.object f.relation "" && isUsersetUser t.user then
    if sh.rutCondFirst && !condOk f.conditions t then []
    else if f.restrictions.isEmpty then [t]
    else rutRestrLoop sh.rutBreakOnMatch sh.rutPlainMatchesWildcard t f.restrictions
    -- as written, the `Conditions` test follows here, after every append: it has no effect
  else []

/-- `MemoryBackend.ReadUsersetTuples` -/
def memReadUsersetTuples (sh : MemShape) (s : List TupleRec) (f : UsersetFilter) : List TupleRec :=
  s.flatMap (rutBody sh f)

/-- `targetUser` of the `ReadStartingWithUser` loop -/
def targetUser (u : ObjRel) : String :=
  if u.relation ≠ "" then u.object ++ "#" ++ u.relation else u.object

def rswuUserLoop (brk : Bool) (t : TupleRec) : List ObjRel → List TupleRec
  | [] => []
  | u :: us =>
    if targetUser u ≠ t.user then rswuUserLoop brk t us
    else t :: (if brk then [] else rswuUserLoop brk t us)

/-- `filter.ObjectIDs != nil && !filter.ObjectIDs.Exists(t.ObjectID)` (negated) -/
def idsOk (emptyMeansAll : Bool) (ids : Option (List String)) (t : TupleRec) : Bool :=
  match ids with
  | none => true
  | some l => (emptyMeansAll && l.isEmpty) || l.contains t.objId

def rswuBody (sh : MemShape) (f : RswuFilter) (t : TupleRec) : List TupleRec :=
  if t.objType ≠ f.objectType then []
  else if t.relation ≠ f.relation then []
  else if !idsOk sh.rswuEmptyIdsMeansAll f.objectIDs t then []
  else if !condOk f.conditions t then []
  else rswuUserLoop sh.rswuBreakOnMatch t f.userFilter

/-- insertion into a list sorted by object id (stable) -/
def insertById (t : TupleRec) : List TupleRec → List TupleRec
  | [] => [t]
  | x :: xs => if t.objId < x.objId then t :: x :: xs else x :: insertById t xs

/-- `sort.Slice(matches, ObjectID <)`: Go's sort is not stable; any sorted permutation is a legal
outcome.  The model uses the stable one; the theorems only speak about `Perm` and sortedness. -/
def sortById : List TupleRec → List TupleRec
  | [] => []
  | t :: ts => insertById t (sortById ts)

/-- the matches of `MemoryBackend.ReadStartingWithUser` before sorting -/
def memRswuMatches (sh : MemShape) (s : List TupleRec) (f : RswuFilter) : List TupleRec :=
  s.flatMap (rswuBody sh f)

def memReadStartingWithUser (sh : MemShape) (s : List TupleRec) (f : RswuFilter) : List TupleRec :=
  sortById (memRswuMatches sh s f)

/-! ### the sqlite backend: rows and WHERE clauses -/

/-- the columns of table `tuple` that the read paths look at (written by `sqlite.write`) -/
structure Row where
  objType : String
  objId : String
  relation : String
  uTyp : String
  uId : String
  uRel : String
  isUserset : Bool
  condName : String
deriving DecidableEq, Repr, Inhabited

/-- what `sqlite.write` inserts for a tuple -/
def rowOf (t : TupleRec) : Row :=
  ⟨t.objType, t.objId, t.relation, (toUserParts t.user).typ, (toUserParts t.user).id, (toUserParts t.user).rel,
   isUsersetUser t.user, t.condName⟩

structure SqlShape where
  /-- `read`: a user filter `type:id` without relation also constrains `user_relation = ''`
  (false: the column is left unconstrained, as written) -/
  userNoRelPinsEmpty : Bool
  /-- the same for the `UserFilter` entries of `ReadStartingWithUser` -/
  rswuUserNoRelPinsEmpty : Bool
  /-- `ReadStartingWithUser`: an empty non-nil `ObjectIDs` adds no `object_id IN (...)` clause -/
  rswuEmptyIdsMeansAll : Bool
deriving DecidableEq, Repr, Inhabited

def SqlShape.asWritten : SqlShape := ⟨false, false, true⟩
def SqlShape.fixed : SqlShape := ⟨true, true, false⟩

/-- `COALESCE(condition_name, '') IN (...)`, only added when `len(filter.Conditions) > 0` -/
def sqlCondOk (cs : List String) (r : Row) : Bool := cs.isEmpty || cs.contains r.condName

/-- WHERE clause of `sqlite.read` -/
def sqlReadWhere (sh : SqlShape) (f : ReadFilter) (r : Row) : Bool :=
  ((splitObject f.object).1 = "" || r.objType = (splitObject f.object).1)
  && ((splitObject f.object).2 = "" || r.objId = (splitObject f.object).2)
  && (f.relation = "" || r.relation = f.relation)
  && (f.user = "" ||
       (((toUserParts f.user).typ = "" || r.uTyp = (toUserParts f.user).typ)
        && ((toUserParts f.user).id = "" || r.uId = (toUserParts f.user).id)
        && (if (toUserParts f.user).rel = "" then
              (!sh.userNoRelPinsEmpty || (toUserParts f.user).id = "" || r.uRel = "")
            else r.uRel = (toUserParts f.user).rel)))
  && sqlCondOk f.conditions r

def sqlRead (sh : SqlShape) (s : List TupleRec) (f : ReadFilter) : List TupleRec :=
  s.filter (fun t => sqlReadWhere sh f (rowOf t))

/-- WHERE clause of `sqlite.ReadUserTuple`: every key column is pinned -/
def sqlReadUserTupleWhere (f : ReadFilter) (r : Row) : Bool :=
  r.objType = (splitObject f.object).1 && r.objId = (splitObject f.object).2
  && r.relation = f.relation
  && r.uTyp = (toUserParts f.user).typ && r.uId = (toUserParts f.user).id && r.uRel = (toUserParts f.user).rel
  && r.isUserset = isUsersetUser f.user
  && sqlCondOk f.conditions r

def sqlReadUserTuple (s : List TupleRec) (f : ReadFilter) : Option TupleRec :=
  s.find? (fun t => sqlReadUserTupleWhere f (rowOf t))

/-- one `orConditions` entry of `sqlite.ReadUsersetTuples` (a `plain` reference adds none) -/
def sqlRestrOk (x : Restriction) (r : Row) : Bool :=
  match x.kind with
  | .relation rel => r.uTyp = x.typ && r.uRel = rel
  | .wildcard => r.uTyp = x.typ && r.uId = "*"
  | .plain => false

def sqlReadUsersetWhere (f : UsersetFilter) (r : Row) : Bool :=
  r.isUserset
  && ((splitObject f.object).1 = "" || r.objType = (splitObject f.object).1)
  && ((splitObject f.object).2 = "" || r.objId = (splitObject f.object).2)
  && (f.relation = "" || r.relation = f.relation)
  && (f.restrictions.isEmpty || f.restrictions.any (fun x => sqlRestrOk x r))
  && sqlCondOk f.conditions r

def sqlReadUsersetTuples (s : List TupleRec) (f : UsersetFilter) : List TupleRec :=
  s.filter (fun t => sqlReadUsersetWhere f (rowOf t))

/-- one `targetUsersArg` entry of `sqlite.ReadStartingWithUser` (`ToUserPartsFromObjectRelation`) -/
def sqlTargetOk (sh : SqlShape) (u : ObjRel) (r : Row) : Bool :=
  r.uTyp = (splitObject u.object).1 && r.uId = (splitObject u.object).2
  && (if u.relation = "" then (!sh.rswuUserNoRelPinsEmpty || r.uRel = "") else r.uRel = u.relation)

/-- `if filter.ObjectIDs != nil && filter.ObjectIDs.Size() > 0 { … object_id IN (…) }` -/
def sqlIdsOk (emptyMeansAll : Bool) (ids : Option (List String)) (r : Row) : Bool :=
  match ids with
  | none => true
  | some l => (emptyMeansAll && l.isEmpty) || l.contains r.objId

def sqlRswuWhere (sh : SqlShape) (f : RswuFilter) (r : Row) : Bool :=
  r.objType = f.objectType && r.relation = f.relation
  && f.userFilter.any (fun u => sqlTargetOk sh u r)
  && sqlIdsOk sh.rswuEmptyIdsMeansAll f.objectIDs r
  && sqlCondOk f.conditions r

/-- rows matched by `sqlite.ReadStartingWithUser` (returned `ORDER BY object_id`) -/
def sqlRswuMatches (sh : SqlShape) (s : List TupleRec) (f : RswuFilter) : List TupleRec :=
  s.filter (fun t => sqlRswuWhere sh f (rowOf t))

def sqlReadStartingWithUser (sh : SqlShape) (s : List TupleRec) (f : RswuFilter) : List TupleRec :=
  sortById (sqlRswuMatches sh s f)

/-! ### the documented meaning (pkg/storage/storage.go) -/

/-- object filter: `""` = any, `"type:"` = every object of the type, `"type:id"` = that object -/
def specObjectOk (fo : String) (t : TupleRec) : Bool :=
  fo = "" || ((splitObject fo).1 = t.objType && ((splitObject fo).2 = "" || (splitObject fo).2 = t.objId))

/-- user filter: `""` = any, `"type:"` = every user string of that type (objects, usersets, wildcard),
anything else = exactly that user string -/
def specUserOk (fu : String) (t : TupleRec) : Bool :=
  fu = "" || (if (toUserParts fu).id = "" then hasPrefix t.user ((toUserParts fu).typ ++ ":") else t.user = fu)

def specReadPred (f : ReadFilter) (t : TupleRec) : Bool :=
  specObjectOk f.object t && (f.relation = "" || t.relation = f.relation) && specUserOk f.user t
  && condOk f.conditions t

/-- `Read`: "those tuples which match the tupleKey" (+ "Conditions … will be used to filter the results") -/
def specRead (s : List TupleRec) (f : ReadFilter) : List TupleRec := s.filter (specReadPred f)

/-- `ReadUserTuple`: "one tuple that matches the provided key exactly" (the key is unique in a store) -/
def specReadUserTuple (s : List TupleRec) (f : ReadFilter) : Option TupleRec := s.find? (specReadPred f)

/-- "allowedTypesForUser=[group#member]" selects usersets `group:…#member`; a wildcard reference selects `type:*` -/
def specRestrOk (x : Restriction) (t : TupleRec) : Bool :=
  match x.kind with
  | .relation rel => x.typ = getType t.user && rel = userRel t.user
  | .wildcard => x.typ = getType t.user && userRel t.user = ""
  | .plain => false

def specUsersetPred (f : UsersetFilter) (t : TupleRec) : Bool :=
  specObjectOk f.object t && (f.relation = "" || t.relation = f.relation) && isUsersetUser t.user
  && (f.restrictions.isEmpty || f.restrictions.any (fun x => specRestrOk x t))
  && condOk f.conditions t

/-- `ReadUsersetTuples`: "all userset tuples for a specified object and relation", restricted to the
allowed user types if any are given, and to the condition names if any are given -/
def specReadUsersetTuples (s : List TupleRec) (f : UsersetFilter) : List TupleRec := s.filter (specUsersetPred f)

/-- `ObjectIDs`: "the intersection between this filter and what is in the database"; nil = no filter -/
def specIdsOk (ids : Option (List String)) (t : TupleRec) : Bool :=
  match ids with
  | none => true
  | some l => l.contains t.objId

def specRswuPred (f : RswuFilter) (t : TupleRec) : Bool :=
  t.objType = f.objectType && t.relation = f.relation
  && f.userFilter.any (fun u => targetUser u = t.user)
  && specIdsOk f.objectIDs t
  && condOk f.conditions t

/-- `ReadStartingWithUser`: reverse read; each matching tuple once; as a multiset (the order is "sorted by
object id" when asked for) -/
def specReadStartingWithUser (s : List TupleRec) (f : RswuFilter) : List TupleRec := s.filter (specRswuPred f)

/-! ### what the caller gets back: `TupleRecord.AsTuple` -/

/-- `tuple.NewRelationshipCondition(name, ctx)`: no name → no condition at all (the context is dropped);
a nil context becomes the empty struct. -/
def asCondition (name : String) (ctx : Option Bytes) : Option (String × Bytes) :=
  if name = "" then none else some (name, ctx.getD [])

/-- `sqlcommon.MarshalRelationshipCondition` + the scan in `SQLTupleIterator.next`: an empty context is stored as NULL -/
def sqlStoreCtx (ctx : Option Bytes) : Option Bytes :=
  match ctx with
  | some (b :: bs) => some (b :: bs)
  | _ => none

end OpenFGAVerif.Model.StoreRead
