/-
Model of the store registry of the two backends (C16; the paging of the listing is C14's):

  sqlite   table `store` (id primary key, name, deleted_at); CreateStore = INSERT, DeleteStore = UPDATE … SET deleted_at
           WHERE id = ?, GetStore = SELECT … WHERE id = ? AND deleted_at IS NULL, ListStores = SELECT … WHERE <sq.And list>
           ORDER BY id — the sq.And list is `[deleted_at IS NULL]` followed by one appended predicate per option
           (ids, name, continuation id), exactly as `Gen.SqlWhere.sqlWhereVars` records it;
  memory   map id ↦ store; DeleteStore = delete(map, id); ListStores = collect, ids filter, name filter, sort by id.

and of how squirrel splices WHERE parts (`SqlWhere`): parts are joined with AND; a raw string containing a top-level OR
is spliced verbatim, so SQL's precedence (AND binds tighter) makes everything after the OR a disjunct of its own.
Core Lean only.
-/
namespace OpenFGAVerif.Model.StoreRegistry

structure Row where
  id : Nat
  name : Nat
  deleted : Bool
  deriving DecidableEq, Repr

/-- ListStores options: id list ([] = none), name, continuation id -/
structure Opts where
  ids : List Nat
  name : Option Nat
  from_ : Option Nat

inductive Pred where
  | notDeleted
  | idIn (ids : List Nat)
  | nameEq (n : Nat)
  | idGe (k : Nat)
  deriving DecidableEq, Repr

def Pred.holds : Pred → Row → Bool
  | .notDeleted, r => !r.deleted
  | .idIn ids, r => ids.contains r.id
  | .nameEq n, r => decide (r.name = n)
  | .idGe k, r => decide (k ≤ r.id)

/-- `sq.And{…}` -/
def whereAnd (ps : List Pred) (r : Row) : Bool := ps.all (fun p => p.holds r)

/-- the predicates appended after the initial element, one per option that is given -/
def listAppends (o : Opts) : List Pred :=
  (if o.ids.isEmpty then [] else [Pred.idIn o.ids]) ++
  (match o.name with | some n => [Pred.nameEq n] | none => []) ++
  (match o.from_ with | some k => [Pred.idGe k] | none => [])

/-- sqlite ListStores' WHERE list as it is written: `whereClause := sq.And{deleted_at IS NULL}` then pure appends -/
def listWhere (o : Opts) : List Pred := Pred.notDeleted :: listAppends o

def insertById (x : Row) : List Row → List Row
  | [] => [x]
  | y :: ys => if x.id ≤ y.id then x :: y :: ys else y :: insertById x ys

/-- ORDER BY id / sort.SliceStable by id -/
def sortById (l : List Row) : List Row := l.foldr insertById []

def hasId (tbl : List Row) (a : Nat) : Bool := tbl.any (fun r => decide (r.id = a))

inductive Op where
  | create (i n : Nat)
  | delete (b : Nat)

/-! ### sqlite -/

/-- `UPDATE store SET deleted_at = now WHERE id = ?` on one row -/
def markDeleted (b : Nat) (r : Row) : Row := if r.id = b then { r with deleted := true } else r

def newRow (i n : Nat) : Row := { id := i, name := n, deleted := false }

def sqlStep (tbl : List Row) : Op → List Row
  | .create i n => if hasId tbl i then tbl else tbl ++ [newRow i n]   -- primary key
  | .delete b => tbl.map (markDeleted b)

def sqlRun (tbl : List Row) (ops : List Op) : List Row := ops.foldl sqlStep tbl

def sqlListWith (w : Opts → List Pred) (tbl : List Row) (o : Opts) : List Row := sortById (tbl.filter (whereAnd (w o)))

def sqlListStores (tbl : List Row) (o : Opts) : List Row := sqlListWith listWhere tbl o

def sqlGetStore (tbl : List Row) (a : Nat) : Option Row := (tbl.filter (fun r => decide (r.id = a) && !r.deleted)).head?

/-- the off-by-one variant: with a name filter the list is rebuilt as `name :: whereClause[1:]`, losing the first element -/
def listWhereDropFirst (o : Opts) : List Pred :=
  match o.name with
  | some n => Pred.nameEq n :: ((if o.ids.isEmpty then [] else [Pred.idIn o.ids]) ++ (match o.from_ with | some k => [Pred.idGe k] | none => []))
  | none => listWhere o

/-! ### memory -/

def memStep (m : List Row) : Op → List Row
  | .create i n => if hasId m i then m else m ++ [newRow i n]
  | .delete b => m.filter (fun r => !decide (r.id = b))

def memRun (m : List Row) (ops : List Op) : List Row := ops.foldl memStep m

/-- the ids filter of memory.ListStores rebuilds the list in the caller's order -/
def memIdsFilter (m : List Row) (ids : List Nat) : List Row :=
  if ids.isEmpty then m else ids.flatMap (fun i => m.filter (fun r => decide (r.id = i)))

def memNameFilter (m : List Row) : Option Nat → List Row
  | none => m
  | some n => m.filter (fun r => decide (r.name = n))

def memListStores (m : List Row) (o : Opts) : List Row := sortById (memNameFilter (memIdsFilter m o.ids) o.name)

def memGetStore (m : List Row) (a : Nat) : Option Row := (m.filter (fun r => decide (r.id = a))).head?

end OpenFGAVerif.Model.StoreRegistry

namespace OpenFGAVerif.Model.SqlWhere

/-- a WHERE part as squirrel splices it between its ANDs -/
inductive Part (ρ : Type) where
  /-- sq.Eq / sq.And / sq.Or / sq.Expr without OR / one literal "( … )": an atomic or parenthesised unit -/
  | closed (p : ρ → Bool)
  /-- a raw string "a OR m₁ OR … OR b" spliced verbatim -/
  | rawOr (first : ρ → Bool) (mid : List (ρ → Bool)) (last : ρ → Bool)

/-- SQL precedence (AND over OR); `acc` = the conjunction collected since the last top-level OR -/
def eval {ρ : Type} : List (Part ρ) → (ρ → Bool) → ρ → Bool
  | [], acc, r => acc r
  | .closed p :: rest, acc, r => eval rest (fun x => acc x && p x) r
  | .rawOr a mid b :: rest, acc, r => (acc r && a r) || mid.any (fun m => m r) || eval rest b r

def select {ρ : Type} (parts : List (Part ρ)) (tbl : List ρ) : List ρ := tbl.filter (eval parts (fun _ => true))

def allClosed {ρ : Type} : List (Part ρ) → Bool
  | [] => true
  | .closed _ :: rest => allClosed rest
  | .rawOr _ _ _ :: _ => false

/-- the conjunction of the closed parts -/
def holdsAll {ρ : Type} : List (Part ρ) → ρ → Bool
  | [], _ => true
  | .closed p :: rest, r => p r && holdsAll rest r
  | .rawOr _ _ _ :: _, _ => false

end OpenFGAVerif.Model.SqlWhere
