/-
Shared store vocabulary (core Lean only) for the store models:
  Model/StoreWrite.lean (C12, C15: write path + changelog)   and   Model/StoreRead.lean (C13, C14: read path).

Kept tiny and stable on purpose.  Everything that is a ULID or a timestamp in the Go code is a `Nat`
here (rank / milliseconds); the order of `StoreState.tuples` is the insertion order (= ULID order of
the `tuple` table in the SQL backends, = slice order of `MemoryBackend.tuples[store]`).
-/
namespace OpenFGAVerif.Model.StoreTypes

abbrev Bytes := List UInt8

/-- `storage.TupleRecord` without `Store`, `Ulid`, `InsertedAt`.
  * `user` is the user string as stored by the memory backend ("user:anne", "group:g#member", "user:*").
  * `condName = ""` means "no condition" (`TupleKey.Condition == nil`).
  * `condCtx = none` is a nil `*structpb.Struct`; `some b` is a non-nil struct whose canonical
    (deterministic) serialisation is `b` (`some []` = the empty struct `{}`). -/
structure TupleRec where
  objType  : String
  objId    : String
  relation : String
  user     : String
  condName : String := ""
  condCtx  : Option Bytes := none
deriving DecidableEq, Repr, Inhabited

/-- the (object, relation, user) triple that identifies a tuple inside a store -/
structure TupleKey where
  objType  : String
  objId    : String
  relation : String
  user     : String
deriving DecidableEq, Repr, Inhabited

def TupleRec.key (t : TupleRec) : TupleKey := ⟨t.objType, t.objId, t.relation, t.user⟩

/-- the tuple with its condition removed (what a delete change records) -/
def TupleRec.redact (t : TupleRec) : TupleRec := { t with condName := "", condCtx := none }

inductive Op where
  | write
  | delete
deriving DecidableEq, Repr, Inhabited

/-- one changelog row: `tupleChangeRec` (memory) / a row of table `changelog` (SQL).
    `ulid` is the rank of the row's ULID, `ts` its timestamp (ms). -/
structure Change where
  tuple : TupleRec
  op    : Op
  ulid  : Nat
  ts    : Nat
deriving DecidableEq, Repr, Inhabited

/-- the part of a datastore that belongs to one store id -/
structure StoreState where
  tuples  : List TupleRec := []
  changes : List Change := []
deriving DecidableEq, Repr, Inhabited

def StoreState.empty : StoreState := {}

end OpenFGAVerif.Model.StoreTypes
