/-
Write path + changelog of the tuple stores (core Lean only).  Used by C12 and C15.

Mirrors, step for step:
  * pkg/storage/memory/memory.go   `match`, `find`, `sanitizeTuplesWriteDelete`, `Write` (delete loop, write loop),
                                    `ReadChanges` (type filter, horizon `break`, `slices.Reverse`)
  * pkg/storage/sqlite/sqlite.go   `write` (BEGIN, select existing, plan, DELETE, INSERT tuple, INSERT changelog, COMMIT;
                                    deferred Rollback), `ReadChanges` (WHERE inserted_at <= now-h, ORDER BY ulid asc|desc)
  * pkg/server/commands/write.go   `validateNoDuplicatesAndCorrectSize`, `parseOptionOnDuplicate`, `parseOptionOnMissing`

ULIDs are ranks (`Nat`): the ULID of a new changelog row is larger than every ULID already in the log
(oklog/ulid monotonic entropy + a non-decreasing clock: trusted, checked by the correspondence), so the rank of a
new row is its position in the log.  Timestamps are `Nat` (ms).

What is *assumed* about the SQL engine (and only here): a statement executed on a transaction changes only the
transaction's working copy; COMMIT publishes the working copy atomically; ROLLBACK / a lost connection / a crash
before COMMIT discards it; the UNIQUE key on `tuple` rejects an INSERT statement as a whole.
-/
import OpenFGAVerif.Model.StoreTypes

namespace OpenFGAVerif.Model.StoreWrite
open OpenFGAVerif.Model.StoreTypes

/-! ## pkg/tuple string helpers (only what `match` needs) -/

def splitAtFirst (c : Char) : List Char → Option (List Char × List Char)
  | [] => none
  | x :: xs =>
    if x = c then some ([], xs)
    else match splitAtFirst c xs with
      | none => none
      | some (a, b) => some (x :: a, b)

/-- `tuple.SplitObject`: cut at the first ':'; no ':' → ("", s) -/
def splitObject (s : String) : String × String :=
  match splitAtFirst ':' s.toList with
  | none => ("", s)
  | some (a, b) => (String.ofList a, String.ofList b)

/-- `tuple.SplitObjectRelation`: cut at the last '#'; no '#' → (s, "") -/
def splitObjectRelation (s : String) : String × String :=
  match splitAtFirst '#' s.toList.reverse with
  | none => (s, "")
  | some (relRev, objRev) => (String.ofList objRev.reverse, String.ofList relRev.reverse)

/-- `tuple.ToUserParts`: (user object type, user object id, user relation) -/
def userParts (u : String) : String × String × String :=
  let (uo, ur) := splitObjectRelation u
  let (ut, uid) := splitObject uo
  (ut, uid, ur)

def hasPrefix (s p : String) : Bool := p.toList.isPrefixOf s.toList

/-- `tuple.BuildObject` -/
def buildObject (t : TupleRec) : String := t.objType ++ ":" ++ t.objId

/-! ## conditions -/

/-- `tuple.NewRelationshipCondition` as applied by `TupleRecord.AsTuple`, by the change records and by the SQL
    read path: no name → no condition at all; a name with a nil context → the empty struct. -/
def normCond (t : TupleRec) : TupleRec :=
  if t.condName = "" then { t with condCtx := none }
  else match t.condCtx with
    | none => { t with condCtx := some [] }
    | some _ => t

/-- the comparison both backends make between the *stored* condition and the requested one
    (memory: `record.ConditionName == name && record.ConditionContext.String() == ctx.String()`;
     sqlite: `proto.Equal(existing.GetKey().GetCondition(), tk.GetCondition())` where `existing` went through
     `normCond` when it was read back).  A nil context and an empty context are *different* here. -/
def condEq (stored req : TupleRec) : Bool :=
  stored.condName == req.condName && stored.condCtx == req.condCtx

/-- what the property means by "the same condition": name and context agree, an absent context being the
    empty context -/
def semCondEq (stored req : TupleRec) : Bool :=
  (normCond stored).condName == (normCond req).condName && (normCond stored).condCtx == (normCond req).condCtx

/-- source text of the comparison once both sides go through `NewRelationshipCondition` (memory / SQL) -/
def memCompareNormalisedText : String :=
  "proto.Equal( tupleUtils.NewRelationshipCondition(record.ConditionName, record.ConditionContext), tupleUtils.NewRelationshipCondition(tk.GetCondition().GetName(), tk.GetCondition().GetContext()), )"
def sqlCompareNormalisedText : String :=
  "proto.Equal(existingTuple.GetKey().GetCondition(), tupleUtils.NewRelationshipCondition(tk.GetCondition().GetName(), tk.GetCondition().GetContext()))"

/-- the comparison the model is run with, chosen by the source text of the `if` under on_duplicate=ignore: the
    normalising comparison if the text is the normalised form, the raw comparison (finding F13) for anything else -/
def ceqOfSource (text normalisedText : String) : TupleRec → TupleRec → Bool :=
  if text == normalisedText then semCondEq else condEq

/-! ## options and errors -/

structure WriteOpts where
  /-- `OnMissingDelete == OnMissingDeleteIgnore` -/
  ignoreMissing : Bool := false
  /-- `OnDuplicateInsert == OnDuplicateInsertIgnore` -/
  ignoreDup : Bool := false
deriving DecidableEq, Repr, Inhabited

inductive WriteErr where
  | invalidDelete      -- InvalidWriteInputError(DELETE)  (wraps ErrInvalidWriteInput)
  | invalidWrite       -- InvalidWriteInputError(WRITE)   (wraps ErrInvalidWriteInput)
  | condConflict       -- TupleConditionConflictError     (wraps ErrTransactionalWriteFailed)
  | conflictOnDelete   -- ErrWriteConflictOnDelete        (wraps ErrTransactionalWriteFailed)
  | conflictOnInsert   -- ErrWriteConflictOnInsert        (wraps ErrTransactionalWriteFailed)
  | sqlError           -- any other driver / engine error ("sql error: …")
  | cmdEmpty           -- commands: no deletes and no writes
  | cmdDuplicate       -- commands: DuplicateTupleInWrite
  | cmdBadOption       -- commands: invalid on_duplicate / on_missing
  | cmdInvalidKey      -- commands: a delete key with a malformed object / relation / user
deriving DecidableEq, Repr, Inhabited

def WriteErr.name : WriteErr → String
  | .invalidDelete => "invalid-delete"
  | .invalidWrite => "invalid-write"
  | .condConflict => "cond-conflict"
  | .conflictOnDelete => "conflict-delete"
  | .conflictOnInsert => "conflict-insert"
  | .sqlError => "sqlerr"
  | .cmdEmpty => "cmd-empty"
  | .cmdDuplicate => "cmd-duplicate"
  | .cmdBadOption => "cmd-badoption"
  | .cmdInvalidKey => "cmd-invalid-key"

/-! ## memory backend -/

/-- memory.go `match(t, target)`.  The request key arrives split (`SplitObject(target.Object)`); the whole object
    being empty is `objType = "" ∧ objId = ""`. -/
def matchRec (t : TupleRec) (k : TupleKey) : Bool :=
  (if k.objType = "" ∧ k.objId = "" then true
   else if k.objId = "" then k.objType == t.objType
   else k.objType == t.objType && k.objId == t.objId)
  && (k.relation == "" || t.relation == k.relation)
  && (if k.user = "" then true
      else
        let p := userParts k.user
        if p.2.1 ≠ "" then t.user == k.user else hasPrefix t.user (p.1 ++ ":"))

/-- memory.go `find` -/
def find (records : List TupleRec) (k : TupleKey) : Option TupleRec :=
  records.find? (fun r => matchRec r k)

/-- first loop of `sanitizeTuplesWriteDelete` (index `i`, accumulator `duplicateDeletes`) -/
def sanitizeDeletes (records : List TupleRec) (o : WriteOpts) : Nat → List TupleKey → List Nat → Except WriteErr (List Nat)
  | _, [], acc => .ok acc
  | i, k :: ks, acc =>
    if (find records k).isNone then
      if o.ignoreMissing then sanitizeDeletes records o (i + 1) ks (acc ++ [i])
      else .error .invalidDelete
    else sanitizeDeletes records o (i + 1) ks acc

/-- second loop of `sanitizeTuplesWriteDelete` -/
def sanitizeWrites (ceq : TupleRec → TupleRec → Bool) (records : List TupleRec) (o : WriteOpts) : Nat → List TupleRec → List Nat → Except WriteErr (List Nat)
  | _, [], acc => .ok acc
  | i, w :: ws, acc =>
    match find records w.key with
    | some r =>
      if o.ignoreDup then
        if ceq r w then sanitizeWrites ceq records o (i + 1) ws (acc ++ [i])
        else .error .condConflict
      else .error .invalidWrite
    | none => sanitizeWrites ceq records o (i + 1) ws acc

def sanitize (ceq : TupleRec → TupleRec → Bool) (records : List TupleRec) (dels : List TupleKey) (writes : List TupleRec) (o : WriteOpts) :
    Except WriteErr (List Nat × List Nat) :=
  match sanitizeDeletes records o 0 dels [] with
  | .error e => .error e
  | .ok dd =>
    match sanitizeWrites ceq records o 0 writes [] with
    | .error e => .error e
    | .ok dw => .ok (dd, dw)

/-- inner loop `for i, k := range deletes` of the `Delete:` loop: is `tr` dropped? -/
def deleteInner (tr : TupleRec) (dupDeletes : List Nat) : Nat → List TupleKey → Bool
  | _, [] => false
  | i, k :: ks =>
    if matchRec tr k then
      if dupDeletes.contains i then deleteInner tr dupDeletes (i + 1) ks   -- "noop for duplicate delete": continue
      else true                                                            -- record the change, `continue Delete`
    else deleteInner tr dupDeletes (i + 1) ks

/-- append one change record; its ULID is the next rank -/
def pushChange (ch : List Change) (t : TupleRec) (op : Op) (now : Nat) : List Change :=
  ch ++ [{ tuple := t, op := op, ulid := ch.length, ts := now }]

/-- the `Delete:` loop over `s.tuples[store]`; `recs` = `records`, `ch` = `s.changes[store]` -/
def deleteLoop (dupDeletes : List Nat) (dels : List TupleKey) (now : Nat) :
    List TupleRec → List TupleRec → List Change → List TupleRec × List Change
  | [], recs, ch => (recs, ch)
  | tr :: rest, recs, ch =>
    if deleteInner tr dupDeletes 0 dels then
      -- the change carries the stored tuple's own key, condition redacted
      deleteLoop dupDeletes dels now rest recs (pushChange ch tr.redact .delete now)
    else deleteLoop dupDeletes dels now rest (recs ++ [tr]) ch

/-- the `Write:` loop over `writes` -/
def writeLoop (now : Nat) : List TupleRec → List TupleRec → List Change → List TupleRec × List Change
  | [], recs, ch => (recs, ch)
  | t :: ts, recs, ch =>
    if recs.any (fun et => matchRec et t.key) then writeLoop now ts recs ch     -- `continue Write`
    else writeLoop now ts (recs ++ [t]) (pushChange ch (normCond t) .write now)

/-- `MemoryBackend.Write` (one store).  Returns the state after the call and the error, if any. -/
def memWrite (ceq : TupleRec → TupleRec → Bool) (s : StoreState) (dels : List TupleKey) (writes : List TupleRec) (o : WriteOpts) (now : Nat) :
    StoreState × Option WriteErr :=
  match sanitize ceq s.tuples dels writes o with
  | .error e => (s, some e)
  | .ok (dd, _) =>
    let r1 := deleteLoop dd dels now s.tuples [] s.changes
    let r2 := writeLoop now writes r1.1 r1.2
    ({ tuples := r2.1, changes := r2.2 }, none)

/-- what `Read` shows of a stored record (`TupleRecord.AsTuple`) -/
def memView (s : StoreState) : List TupleRec := s.tuples.map normCond

/-! ## declarative specification of one Write -/

/-- the stored tuple with this key -/
def stored (s : StoreState) (k : TupleKey) : Option TupleRec := s.tuples.find? (fun t => t.key == k)

def pushAll (ch : List Change) (items : List (TupleRec × Op)) (now : Nat) : List Change :=
  items.foldl (fun ch it => pushChange ch it.1 it.2 now) ch

/-- `ceq`: comparison of conditions; `reqOrder`: delete changes in request order (SQL) or in store order (memory);
    `norm`: what is kept of a written tuple (`id` for memory, `normCond` for SQL). -/
def specWrite (ceq : TupleRec → TupleRec → Bool) (reqOrder : Bool) (norm : TupleRec → TupleRec)
    (s : StoreState) (dels : List TupleKey) (writes : List TupleRec) (o : WriteOpts) (now : Nat) :
    Except WriteErr StoreState :=
  if !o.ignoreMissing && dels.any (fun k => (stored s k).isNone) then .error .invalidDelete
  else if !o.ignoreDup && writes.any (fun w => (stored s w.key).isSome) then .error .invalidWrite
  else if writes.any (fun w => (stored s w.key).any (fun e => !ceq e w)) then .error .condConflict
  else
    let effDel : List TupleRec :=
      if reqOrder then dels.filterMap (fun k => stored s k)
      else s.tuples.filter (fun t => dels.contains t.key)
    let effW := writes.filter (fun w => (stored s w.key).isNone)
    .ok { tuples := s.tuples.filter (fun t => !dels.contains t.key) ++ effW.map norm,
          changes := pushAll s.changes (effDel.map (fun t => (t.redact, Op.delete)) ++ effW.map (fun w => (normCond w, Op.write))) now }

/-- request keys are well formed: object id, relation and user id present (what API validation guarantees for writes) -/
def WfKey (k : TupleKey) : Prop := k.objId ≠ "" ∧ k.relation ≠ "" ∧ k.user ≠ "" ∧ (userParts k.user).2.1 ≠ ""

instance (k : TupleKey) : Decidable (WfKey k) := by unfold WfKey; infer_instance

/-! ## SQL backend (sqlite.write) -/

/-- facts about `sqlite.write` that come from the source (see Gen.StoreWrite): is each statement run on the
    transaction (`RunWith(txn)`), is the rollback deferred right after BEGIN -/
structure SqlCfg where
  selectInTxn : Bool := true
  deleteInTxn : Bool := true
  insertInTxn : Bool := true
  changelogInTxn : Bool := true
  rollbackDeferred : Bool := true
deriving DecidableEq, Repr, Inhabited

def SqlCfg.good : SqlCfg := {}

/-- the database: the committed (visible, durable) state and the working copy of the open transaction -/
structure Db where
  committed : StoreState
  pending : Option StoreState := none
deriving DecidableEq, Repr, Inhabited

/-- failure injection: operation number `idx` of the write (0 = BEGIN, 1 = SELECT, …, last = COMMIT) returns an
    error; `after` = the engine executed the statement before the error surfaced (lost reply / dying connection) -/
structure Fail where
  idx : Nat
  after : Bool
deriving DecidableEq, Repr, Inhabited

inductive Stmt where
  | deleteTuples (keys : List TupleKey)
  | insertTuples (rows : List TupleRec)
  | insertChangelog (rows : List (TupleRec × Op))
  | commit
deriving DecidableEq, Repr, Inhabited

def Stmt.kind : Stmt → String
  | .deleteTuples _ => "delete"
  | .insertTuples _ => "insert"
  | .insertChangelog _ => "changelog"
  | .commit => "commit"

def Stmt.inTxn (cfg : SqlCfg) : Stmt → Bool
  | .deleteTuples _ => cfg.deleteInTxn
  | .insertTuples _ => cfg.insertInTxn
  | .insertChangelog _ => cfg.changelogInTxn
  | .commit => true

/-- engine semantics of one data statement on a state (trusted): DELETE … WHERE (k1 OR k2 …) with the `RowsAffected`
    check, INSERT INTO tuple (all-or-nothing, UNIQUE key), INSERT INTO changelog -/
def execStmt (now : Nat) (st : StoreState) : Stmt → Except WriteErr StoreState
  | .deleteTuples keys =>
    let kept := st.tuples.filter (fun t => !keys.contains t.key)
    if st.tuples.length - kept.length != keys.length then .error .conflictOnDelete
    else .ok { st with tuples := kept }
  | .insertTuples rows =>
    if rows.any (fun r => st.tuples.any (fun t => t.key == r.key)) || (rows.map (·.key)).eraseDups.length != rows.length
    then .error .conflictOnInsert
    else .ok { st with tuples := st.tuples ++ rows }
  | .insertChangelog rows => .ok { st with changes := pushAll st.changes rows now }
  | .commit => .ok st

/-- steps 4 and 5 of `write`: from the rows found by the SELECT compute what to delete, insert and log -/
def sqlPlanDeletes (existing : List TupleRec) (o : WriteOpts) : List TupleKey → List TupleKey → Except WriteErr (List TupleKey)
  | [], acc => .ok acc
  | k :: ks, acc =>
    if existing.any (fun t => t.key == k) then sqlPlanDeletes existing o ks (acc ++ [k])
    else if o.ignoreMissing then sqlPlanDeletes existing o ks acc
    else .error .invalidDelete

def sqlPlanWrites (ceq : TupleRec → TupleRec → Bool) (existing : List TupleRec) (o : WriteOpts) : List TupleRec → List TupleRec → Except WriteErr (List TupleRec)
  | [], acc => .ok acc
  | w :: ws, acc =>
    match existing.find? (fun t => t.key == w.key) with
    | some e =>
      if o.ignoreDup then
        if ceq e w then sqlPlanWrites ceq existing o ws acc
        else .error .condConflict
      else .error .invalidWrite
    | none => sqlPlanWrites ceq existing o ws (acc ++ [w])

/-- run the data statements and the COMMIT; `i` = operation number of the head statement -/
def runStmts (cfg : SqlCfg) (now : Nat) (f : Option Fail) : Db → List Stmt → Nat → Db × Option WriteErr
  | db, [], _ => (if cfg.rollbackDeferred then { db with pending := none } else db, none)
  | db, st :: rest, i =>
    let rollback (d : Db) : Db := if cfg.rollbackDeferred then { d with pending := none } else d
    let tx := db.pending.getD db.committed
    let failing : Option Bool := match f with | some fl => if fl.idx = i then some fl.after else none | none => none
    match st with
    | .commit =>
      match failing with
      | some _ => (rollback db, some .sqlError)                  -- COMMIT failed: nothing published
      | none => ({ committed := tx, pending := none }, none)     -- `return nil`
    | _ =>
      let applied : Except WriteErr Db :=
        if st.inTxn cfg then (execStmt now tx st).map (fun tx' => { db with pending := some tx' })
        else (execStmt now db.committed st).map (fun c' => { db with committed := c' })   -- autocommit outside the txn
      match failing with
      | some false => (rollback db, some .sqlError)
      | some true =>
        match st, applied with
        | _, .ok db' => (rollback db', some .sqlError)              -- executed, then the reply was lost
        | .insertTuples _, .error e => (rollback db, some e)        -- the engine's own (constraint) error comes first
        | _, .error _ => (rollback db, some .sqlError)              -- DELETE ran; its RowsAffected test is never reached
      | none =>
        match applied with
        | .error e => (rollback db, some e)
        | .ok db' => runStmts cfg now f db' rest (i + 1)

/-- the changelog row of a delete is built from the request key (`SplitObject`, `ToUserParts`), without condition -/
def keyRec (k : TupleKey) : TupleRec := { objType := k.objType, objId := k.objId, relation := k.relation, user := k.user }

/-- the statement list of one write (empty batches are not sent) -/
def sqlStmts (delKeys : List TupleKey) (rows : List TupleRec) : List Stmt :=
  (if delKeys.isEmpty then [] else [Stmt.deleteTuples delKeys])
  ++ (if rows.isEmpty then [] else [Stmt.insertTuples (rows.map normCond)])
  ++ (if delKeys.isEmpty && rows.isEmpty then []
      else [Stmt.insertChangelog (delKeys.map (fun k => (keyRec k, Op.delete))
                                   ++ rows.map (fun w => (normCond w, Op.write)))])
  ++ [Stmt.commit]

def firesAt (f : Option Fail) (i : Nat) : Bool :=
  match f with
  | some fl => fl.idx == i
  | none => false

/-- the deferred `txn.Rollback()` -/
def txRollback (cfg : SqlCfg) (d : Db) : Db := if cfg.rollbackDeferred then { d with pending := none } else d

/-- `Datastore.write` (sqlite).  `f` = injected failure. Requests are assumed to fit one batch (≤ 100 keys). -/
def sqlWrite (ceq : TupleRec → TupleRec → Bool) (cfg : SqlCfg) (db : Db) (dels : List TupleKey) (writes : List TupleRec) (o : WriteOpts) (now : Nat)
    (f : Option Fail) : Db × Option WriteErr :=
  -- op 0: BEGIN
  if firesAt f 0 then (db, some .sqlError) else
  let db1 : Db := { db with pending := some db.committed }
  let keys := (dels ++ writes.map (·.key)).eraseDups
  if keys.isEmpty then (txRollback cfg db1, none) else
  -- op 1: SELECT existing rows (reads inside or outside the transaction see the same committed rows here)
  if firesAt f 1 then (txRollback cfg db1, some .sqlError) else
  let existing := db.committed.tuples.filter (fun t => keys.contains t.key)
  match sqlPlanDeletes existing o dels [] with
  | .error e => (txRollback cfg db1, some e)
  | .ok delKeys =>
    match sqlPlanWrites ceq existing o writes [] with
    | .error e => (txRollback cfg db1, some e)
    | .ok rows => runStmts cfg now f db1 (sqlStmts delKeys rows) 2

/-- operation kinds of the data statements as far as they get (a statement error ends the write: deferred Rollback) -/
def stmtTrace (now : Nat) : StoreState → List Stmt → List String
  | _, [] => ["rollback"]
  | tx, st :: rest =>
    st.kind :: (match st with
      | .commit => []
      | _ => match execStmt now tx st with
        | .error _ => ["rollback"]
        | .ok tx' => stmtTrace now tx' rest)

/-- the driver-level operation trace of a write without injected failure (what the wrapped `database/sql` driver
    sees): used by the correspondence -/
def sqlTrace (ceq : TupleRec → TupleRec → Bool) (db : Db) (dels : List TupleKey) (writes : List TupleRec) (o : WriteOpts) : List String :=
  let keys := (dels ++ writes.map (·.key)).eraseDups
  if keys.isEmpty then ["begin", "rollback"] else
  let existing := db.committed.tuples.filter (fun t => keys.contains t.key)
  match sqlPlanDeletes existing o dels [] with
  | .error _ => ["begin", "select", "rollback"]
  | .ok delKeys =>
    match sqlPlanWrites ceq existing o writes [] with
    | .error _ => ["begin", "select", "rollback"]
    | .ok rows => ["begin", "select"] ++ stmtTrace 0 db.committed (sqlStmts delKeys rows)

/-! ## commands.WriteCommand (option parsing + duplicate check in front of the datastore) -/

/-- `parseOptionOnDuplicate` / `parseOptionOnMissing`: `table` = the literals of the switch with the value they
    select (`true` = ignore); anything else is a validation error -/
def parseOption (table : List (String × Bool)) (s : String) : Option Bool :=
  (table.find? (fun e => e.1 == s)).map (·.2)

def hasDupKeys : List TupleKey → Bool
  | [] => false
  | k :: ks => ks.contains k || hasDupKeys ks

def noneOf (bad : List Char) (s : String) : Bool := s.toList.all (fun c => !bad.contains c && !(c.toNat < 32 || c.toNat == 127))

/-- `tuple.IsValidObject` (on the split object), `tuple.IsValidRelation`; `IsValidUser` is only modelled as
    "non-empty, no space" (user strings are the subject of C18 / C29) -/
def validDeleteKey (k : TupleKey) : Bool :=
  (k.objType != "" && k.objId != "" && noneOf ['#', ' ', ':'] k.objType && noneOf ['#', ' ', ':'] k.objId)
  && (k.relation != "" && noneOf ['#', ':', '@', ' '] k.relation)
  && (k.user != "" && noneOf [' '] k.user)

/-- the part of `WriteCommand.Execute` in front of the datastore: `validateWriteRequest` (at least one item; every
    delete key well formed — `checkDeletes`, a fact of the source; no key twice in deletes ++ writes; validation of
    the written tuples against the model is assumed to pass), then the two option parsers -/
def cmdFront (dupTable missTable : List (String × Bool)) (checkDeletes : Bool) (dels : List TupleKey) (writes : List TupleRec)
    (onDuplicate onMissing : String) : Except WriteErr WriteOpts :=
  if dels.isEmpty && writes.isEmpty then .error .cmdEmpty
  else if checkDeletes && dels.any (fun k => !validDeleteKey k) then .error .cmdInvalidKey
  else if hasDupKeys (dels ++ writes.map (·.key)) then .error .cmdDuplicate
  else match parseOption dupTable onDuplicate with
    | none => .error .cmdBadOption
    | some igD =>
      match parseOption missTable onMissing with
      | none => .error .cmdBadOption
      | some igM => .ok { ignoreMissing := igM, ignoreDup := igD }

/-- `WriteCommand.Execute` over the memory backend -/
def cmdWrite (ceq : TupleRec → TupleRec → Bool) (dupTable missTable : List (String × Bool)) (checkDeletes : Bool) (s : StoreState) (dels : List TupleKey) (writes : List TupleRec)
    (onDuplicate onMissing : String) (now : Nat) : StoreState × Option WriteErr :=
  match cmdFront dupTable missTable checkDeletes dels writes onDuplicate onMissing with
  | .error e => (s, some e)
  | .ok o => memWrite ceq s dels writes o now

/-! ## changelog reads -/

/-- memory.go ReadChanges type test: `strings.HasPrefix(change.TupleKey.Object, objectType+":")` -/
def memTypeMatch (typ : String) (c : Change) : Bool :=
  typ == "" || hasPrefix (buildObject c.tuple) (typ ++ ":")

/-- the scan loop of memory.ReadChanges (no continuation token): type test, then the horizon test which
    *breaks* out of the loop.  `now`, `horizon` in ms. -/
def memScan (typ : String) (now horizon : Nat) : List Change → List Change
  | [] => []
  | c :: cs =>
    if memTypeMatch typ c then
      if c.ts + horizon > now then []          -- `After(now.Add(-horizonOffset))` → break
      else c :: memScan typ now horizon cs
    else memScan typ now horizon cs

/-- memory.ReadChanges with an empty token and a page that holds everything; `none` = ErrNotFound -/
def memReadChanges (s : StoreState) (typ : String) (now horizon : Nat) (desc : Bool) : Option (List Change) :=
  let all := memScan typ now horizon s.changes
  if all.isEmpty then none else some (if desc then all.reverse else all)

/-- insertion sort by ULID rank (`ORDER BY ulid asc|desc`) -/
def insertBy (le : Nat → Nat → Bool) (c : Change) : List Change → List Change
  | [] => [c]
  | d :: ds => if le c.ulid d.ulid then c :: d :: ds else d :: insertBy le c ds

def sortBy (le : Nat → Nat → Bool) : List Change → List Change
  | [] => []
  | c :: cs => insertBy le c (sortBy le cs)

/-- sqlite.ReadChanges: WHERE store … AND inserted_at <= now - horizon [AND object_type = typ] ORDER BY ulid asc|desc -/
def sqlReadChanges (s : StoreState) (typ : String) (now horizon : Nat) (desc : Bool) : Option (List Change) :=
  let rows := s.changes.filter (fun c => c.ts + horizon ≤ now && (typ == "" || c.tuple.objType == typ))
  let sorted := if desc then sortBy (fun a b => decide (a ≥ b)) rows else sortBy (fun a b => decide (a ≤ b)) rows
  if sorted.isEmpty then none else some sorted

/-- replay a changelog, oldest first, onto a tuple list -/
def replay : List TupleRec → List Change → List TupleRec
  | ts, [] => ts
  | ts, c :: cs =>
    match c.op with
    | .write => replay (ts ++ [c.tuple]) cs
    | .delete => replay (ts.filter (fun t => !(t.key == c.tuple.key))) cs

end OpenFGAVerif.Model.StoreWrite
