/-
Model of continuation-token handling (pkg/encoder, pkg/encrypter).  Core Lean only.

  StringContinuationTokenSerializer.Serialize / Deserialize     → `serialize` / `deserialize`
  Base64Encoder (encoding/base64 URLEncoding, padded, lenient)   → `b64encode` / `b64decode`
  GCMEncrypter (AES-GCM is *abstract*: a structure `AEAD`)       → `gcmEncrypt` / `gcmDecrypt`
  TokenEncoder.Encode / Decode                                   → `tokenEncode` / `tokenDecode`

Separators and stage orders are parameters; the instances used by the theorems
come from `Gen.Token`, regenerated from the Go source on every run.
-/
namespace OpenFGAVerif.Model.Token

abbrev Bytes := List UInt8

/-! ### serializer -/

/-- `Serialize(ulid, objType)`: error on empty ulid, else `ulid ++ sep ++ objType`. -/
def serialize (sep : Bytes) (ulid objType : Bytes) : Option Bytes :=
  if ulid = [] then none else some (ulid ++ sep ++ objType)

/-- `strings.Cut(s, sep)` for a one-byte separator: split at the first occurrence. -/
def cut1 (b : UInt8) : Bytes → Option (Bytes × Bytes)
  | [] => none
  | x :: xs =>
    if x = b then some ([], xs)
    else match cut1 b xs with
      | none => none
      | some (l, r) => some (x :: l, r)

/-- `strings.Cut` for an arbitrary separator (first occurrence; empty separator cuts at 0). -/
def cut (sep : Bytes) (s : Bytes) : Option (Bytes × Bytes) :=
  match sep with
  | [b] => cut1 b s
  | _ =>
    let rec go (fuel : Nat) (pre : Bytes) (s : Bytes) : Option (Bytes × Bytes) :=
      if sep.isPrefixOf s then some (pre.reverse, s.drop sep.length)
      else match fuel, s with
        | fuel + 1, x :: xs => go fuel (x :: pre) xs
        | _, _ => none
    go s.length [] s

/-- `Deserialize(token)`: `!found || ulid == ""` is an error. -/
def deserialize (sep : Bytes) (tok : Bytes) : Option (Bytes × Bytes) :=
  match cut sep tok with
  | none => none
  | some (u, t) => if u = [] then none else some (u, t)

/-! ### ReadChanges token gate (pkg/server/commands/read_changes.go, `Execute` up to the backend call) -/

/-- What `ReadChangesQuery.Execute` does with the (already decoded) token and the request's type filter:
an empty token starts from the beginning (or the request's start time), an undecipherable one is
`ErrInvalidContinuationToken`, one issued for another type filter is `ErrMismatchObjectType`, otherwise
the backend is asked to continue after `u`. -/
inductive Gate where
  | start
  | invalid
  | mismatch
  | resume (u : Bytes)
  deriving DecidableEq, Repr

def rcGate (sep : Bytes) (tok reqType : Bytes) : Gate :=
  if tok = [] then .start
  else match deserialize sep tok with
    | none => .invalid
    | some (u, t) => if t ≠ reqType then .mismatch else .resume u

/-- The token the query issues for the next page: `Serialize(contUlid, req.GetType())`; no token when the
backend reports no further position. -/
def rcIssue (sep : Bytes) (contUlid reqType : Bytes) : Option Bytes :=
  if contUlid = [] then some [] else serialize sep contUlid reqType

/-! ### base64, URL alphabet, '=' padding, Go's lenient decoder -/

def alphabet : List UInt8 :=
  [65, 66, 67, 68, 69, 70, 71, 72, 73, 74, 75, 76, 77, 78, 79, 80, 81, 82, 83, 84, 85, 86, 87, 88, 89, 90,
   97, 98, 99, 100, 101, 102, 103, 104, 105, 106, 107, 108, 109, 110, 111, 112, 113, 114, 115, 116, 117, 118,
   119, 120, 121, 122, 48, 49, 50, 51, 52, 53, 54, 55, 56, 57, 45, 95]

def pad : UInt8 := 61  -- '='

def encChar (i : Nat) : UInt8 := alphabet.getD i 0

def decChar (c : UInt8) : Option Nat :=
  let i := alphabet.idxOf c
  if i < 64 then some i else none

def b64encode : Bytes → Bytes
  | [] => []
  | [a] => [encChar (a.toNat / 4), encChar (a.toNat % 4 * 16), pad, pad]
  | [a, b] => [encChar (a.toNat / 4), encChar (a.toNat % 4 * 16 + b.toNat / 16), encChar (b.toNat % 16 * 4), pad]
  | a :: b :: c :: rest =>
      encChar (a.toNat / 4) :: encChar (a.toNat % 4 * 16 + b.toNat / 16)
        :: encChar (b.toNat % 16 * 4 + c.toNat / 64) :: encChar (c.toNat % 64) :: b64encode rest

/-- Strict decoding of '\r','\n'-free input, quantum by quantum.  Padding is only legal in the last
quantum ("xx==" or "xxx=").  Go's non-strict mode ignores the unused low bits of the last sextet
before padding. -/
def b64decodeCore : Bytes → Option Bytes
  | [] => some []
  | w :: x :: y :: z :: rest =>
      if y = pad then
        if z = pad ∧ rest = [] then do
          let s0 ← decChar w; let s1 ← decChar x
          pure [UInt8.ofNat (s0 * 4 + s1 / 16)]
        else none
      else if z = pad then
        if rest = [] then do
          let s0 ← decChar w; let s1 ← decChar x; let s2 ← decChar y
          pure [UInt8.ofNat (s0 * 4 + s1 / 16), UInt8.ofNat (s1 % 16 * 16 + s2 / 4)]
        else none
      else do
        let s0 ← decChar w; let s1 ← decChar x; let s2 ← decChar y; let s3 ← decChar z
        let r ← b64decodeCore rest
        pure (UInt8.ofNat (s0 * 4 + s1 / 16) :: UInt8.ofNat (s1 % 16 * 16 + s2 / 4) :: UInt8.ofNat (s2 % 4 * 64 + s3) :: r)
  | _ => none

def isNewline (c : UInt8) : Bool := c = 10 || c = 13

/-- `base64.URLEncoding.DecodeString`: newline characters are skipped wherever they occur. -/
def b64decode (s : Bytes) : Option Bytes :=
  b64decodeCore (s.filter (fun c => !isNewline c))

/-! ### AES-GCM as an abstract AEAD -/

/-- What the model assumes about `cipher.AEAD` (crypto/aes + crypto/cipher are trusted, not verified):
a nonce size, `seal`/`open` functions and the *correctness* law.  Integrity is a separate
hypothesis of the theorems that need it; nothing is an axiom. -/
structure AEAD where
  nonceSize : Nat
  /-- nonce → plaintext → ciphertext ‖ tag (without the nonce) -/
  sealF : Bytes → Bytes → Bytes
  /-- nonce → ciphertext ‖ tag → plaintext, or failure -/
  openF : Bytes → Bytes → Option Bytes

def AEAD.Correct (a : AEAD) : Prop :=
  ∀ nonce plain, nonce.length = a.nonceSize → a.openF nonce (a.sealF nonce plain) = some plain

/-- `GCMEncrypter.Encrypt`: empty data passes through; otherwise nonce ‖ Seal(nonce, data). -/
def gcmEncrypt (a : AEAD) (emptyPass : Bool) (nonce : Bytes) (data : Bytes) : Bytes :=
  if emptyPass && data.isEmpty then data else nonce ++ a.sealF nonce data

/-- `GCMEncrypter.Decrypt`: empty data passes through; shorter than a nonce is an error. -/
def gcmDecrypt (a : AEAD) (emptyPass : Bool) (data : Bytes) : Option Bytes :=
  if emptyPass && data.isEmpty then some data
  else if data.length < a.nonceSize then none
  else a.openF (data.take a.nonceSize) (data.drop a.nonceSize)

/-! ### TokenEncoder: the stages are data (regenerated from the source) -/

inductive Stage where
  | encrypt | b64encode | b64decode | decrypt | unknown
  deriving DecidableEq, Repr

def stageOfName (s : String) : Stage :=
  if s = "encrypter.Encrypt" then .encrypt
  else if s = "encoder.Encode" then .b64encode
  else if s = "encoder.Decode" then .b64decode
  else if s = "encrypter.Decrypt" then .decrypt
  else .unknown

def applyStage (a : AEAD) (emptyPass : Bool × Bool) (nonce : Bytes) (st : Stage) (x : Bytes) : Option Bytes :=
  match st with
  | .encrypt => some (gcmEncrypt a emptyPass.1 nonce x)
  | .b64encode => some (b64encode x)
  | .b64decode => b64decode x
  | .decrypt => gcmDecrypt a emptyPass.2 x
  | .unknown => none

def runStages (a : AEAD) (emptyPass : Bool × Bool) (nonce : Bytes) : List Stage → Bytes → Option Bytes
  | [], x => some x
  | s :: ss, x => match applyStage a emptyPass nonce s x with
    | none => none
    | some y => runStages a emptyPass nonce ss y

end OpenFGAVerif.Model.Token
