/-
Model of pkg/tuple/tuple.go — every function there that only looks at strings.  Core Lean only.

Go strings are byte strings: `Bytes = List UInt8`.  `for ndx, chr := range s` decodes UTF-8 with
`runtime.decoderune` (invalid bytes become U+FFFD, width 1); that decoder is modelled in full
(`decodeRune`, `runes`), `unicode.IsControl` is the Latin-1 table lookup (`isControl`).

  SplitObject / BuildObject / GetType / ObjectKey                  → `splitObject` / `buildObject` / `getType`
  SplitObjectRelation / ToObjectRelationString / GetRelation       → `splitObjectRelation` / `toObjectRelationString` / `getRelation`
  GetObjectRelationAsString                                        → `getObjectRelationAsString`
  UserProtoToString / StringToUserProto                            → `userProtoToString` / `stringToUserProto`
  ToUserParts / FromUserParts / ToUserPartsFromObjectRelation      → `toUserParts` / `fromUserParts` / `toUserPartsFromObjectRelation`
  IsValidObject / IsValidRelation / IsValidUserID / IsValidUserset → `isValidObject` / `isValidRelation` / `isValidUserID` / `isValidUserset`
  IsValidUser / IsObjectRelation / IsWildcard / IsTypedWildcard    → `isValidUser` / `isObjectRelation` / `isWildcard` / `isTypedWildcard`
  TypedPublicWildcard / GetUserTypeFromUser                        → `typedPublicWildcard` / `getUserTypeFromUser`
  TupleKeyToString / (*Tuple).String / TupleKeyWithConditionToString → `tupleKeyToString` / `tupleKeyWithConditionToString`
  ParseTupleString (MustParseTupleString = same, panics on error)  → `parseTupleString`
  IsSelfDefining / UsersetMatchTypeAndRelation                     → `isSelfDefining` / `usersetMatchTypeAndRelation`

At the end: the string-only part of internal/validation/validation.go (ValidateObject / ValidateRelation /
ValidateUser / ValidateUserObjectRelation, tupleset user shape) with the type system as an oracle — reusable for C18.

The separator bytes and the `switch chr` tables are named constants here; `Props/C29.lean` ties each
of them to the literals the extractor finds in the Go source (`Gen.TupleStr`).
-/
namespace OpenFGAVerif.Model.TupleStr

abbrev Bytes := List UInt8

/-! ### separators (tied to the source by `Props/C29.lean`) -/

def cColon : UInt8 := 58   -- ':'
def cHash  : UInt8 := 35   -- '#'
def cAt    : UInt8 := 64   -- '@'
def cStar  : UInt8 := 42   -- '*'
def cSpace : UInt8 := 32   -- ' '
def cRParen : UInt8 := 41  -- ')'

/-- `const Wildcard = "*"` -/
def wildcard : Bytes := [cStar]
/-- the literal written by `TupleKeyWithConditionToString` before the condition name -/
def condPrefix : Bytes := [32, 40, 99, 111, 110, 100, 105, 116, 105, 111, 110, 32]  -- " (condition "

/-! ### UTF-8 decoding as done by `for … range s` -/

/-- continuation byte: `locb <= b && b <= hicb` -/
def isCont (b : UInt8) : Bool := 0x80 ≤ b && b ≤ 0xBF

def runeError : Nat := 0xFFFD

/-- The range loop on the non-empty string `b :: t`: `(rune, width)`.
`b < runeSelf` is the loop's fast path, everything else is `runtime.decoderune`. -/
def decodeRune (b : UInt8) (t : Bytes) : Nat × Nat :=
  if b < 0x80 then (b.toNat, 1)
  else if 0xC0 ≤ b && b < 0xE0 then
    match t with
    | b1 :: _ =>
      if isCont b1 then
        let r := (b.toNat % 32) * 64 + b1.toNat % 64
        if 0x7F < r then (r, 2) else (runeError, 1)
      else (runeError, 1)
    | _ => (runeError, 1)
  else if 0xE0 ≤ b && b < 0xF0 then
    match t with
    | b1 :: b2 :: _ =>
      if isCont b1 && isCont b2 then
        let r := (b.toNat % 16) * 4096 + (b1.toNat % 64) * 64 + b2.toNat % 64
        if 0x7FF < r && !(0xD800 ≤ r && r ≤ 0xDFFF) then (r, 3) else (runeError, 1)
      else (runeError, 1)
    | _ => (runeError, 1)
  else if 0xF0 ≤ b && b < 0xF8 then
    match t with
    | b1 :: b2 :: b3 :: _ =>
      if isCont b1 && isCont b2 && isCont b3 then
        let r := (b.toNat % 8) * 262144 + (b1.toNat % 64) * 4096 + (b2.toNat % 64) * 64 + b3.toNat % 64
        if 0xFFFF < r && r ≤ 0x10FFFF then (r, 4) else (runeError, 1)
      else (runeError, 1)
    | _ => (runeError, 1)
  else (runeError, 1)

/-- `(ndx, chr)` pairs of `for ndx, chr := range s`, starting at byte offset `k`; `skip` bytes
belong to the rune decoded last and are passed over. -/
def runesAux (k skip : Nat) : Bytes → List (Nat × Nat)
  | [] => []
  | b :: t =>
    match skip with
    | 0 => (k, (decodeRune b t).1) :: runesAux (k + 1) ((decodeRune b t).2 - 1) t
    | skip + 1 => runesAux (k + 1) skip t

def runes (s : Bytes) : List (Nat × Nat) := runesAux 0 0 s

/-- `unicode.IsControl`: `properties[uint8(r)]&pC != 0` for `r ≤ MaxLatin1`, else false; the table has
`pC` exactly for U+0000–U+001F and U+007F–U+009F. -/
def isControl (r : Nat) : Bool := r < 0x20 || (0x7F ≤ r && r ≤ 0x9F)

/-! ### byte-string helpers (package `strings`) -/

/-- `strings.IndexByte` (`none` = -1) -/
def indexByte (c : UInt8) : Bytes → Option Nat
  | [] => none
  | x :: xs => if x = c then some 0 else (indexByte c xs).map (· + 1)

/-- `strings.LastIndexByte` -/
def lastIndexByte (c : UInt8) : Bytes → Option Nat
  | [] => none
  | x :: xs =>
    match lastIndexByte c xs with
    | some n => some (n + 1)
    | none => if x = c then some 0 else none

/-- `strings.Cut(s, string(c))` for a one-byte separator -/
def cut (c : UInt8) (s : Bytes) : Option (Bytes × Bytes) :=
  match indexByte c s with
  | none => none
  | some n => some (s.take n, s.drop (n + 1))

/-! ### objects and object#relation -/

def splitObject (s : Bytes) : Bytes × Bytes :=
  match indexByte cColon s with
  | none => ([], s)
  | some n => (s.take n, s.drop (n + 1))

def buildObject (t i : Bytes) : Bytes := t ++ [cColon] ++ i

def getType (s : Bytes) : Bytes := (splitObject s).1

def splitObjectRelation (s : Bytes) : Bytes × Bytes :=
  match lastIndexByte cHash s with
  | none => (s, [])
  | some i => if i = s.length - 1 then (s.take i, []) else (s.take i, s.drop (i + 1))

def getRelation (s : Bytes) : Bytes := (splitObjectRelation s).2

def toObjectRelationString (o r : Bytes) : Bytes := o ++ [cHash] ++ r

def getObjectRelationAsString (o r : Bytes) : Bytes :=
  if r ≠ [] then o ++ [cHash] ++ r else o

/-! ### structured users -/

/-- `openfgav1.User` (oneof): typed wildcard, userset, object. -/
inductive User where
  | wildcard (type : Bytes)
  | userset (type id relation : Bytes)
  | object (type id : Bytes)
  deriving DecidableEq, Repr

def userProtoToString : User → Bytes
  | .wildcard t => t ++ [cColon, cStar]
  | .userset t i r => t ++ [cColon] ++ i ++ [cHash] ++ r
  | .object t i => t ++ [cColon] ++ i

def stringToUserProto (s : Bytes) : User :=
  let (userObj, userRel) := splitObjectRelation s
  let (userObjType, userObjID) := splitObject userObj
  if userRel = [] ∧ userObjID = [cStar] then .wildcard userObjType
  else if userRel = [] then .object userObjType userObjID
  else .userset userObjType userObjID userRel

def toUserParts (s : Bytes) : Bytes × Bytes × Bytes :=
  let (userObject, userRelation) := splitObjectRelation s
  let (userObjectType, userObjectID) := splitObject userObject
  (userObjectType, userObjectID, userRelation)

def toUserPartsFromObjectRelation (o r : Bytes) : Bytes × Bytes × Bytes :=
  let (t, i) := splitObject o
  (t, i, r)

/-- `FromUserParts`: the byte buffer is filled left to right; `size > w` is always true
(`size = len(t)+len(i)+len(r)+2`), it is kept as in the source. -/
def fromUserParts (t i r : Bytes) : Bytes :=
  let size := t.length + i.length + r.length + 2
  let w := t.length
  let buf := if w > 0 ∧ size > w then t ++ [cColon] else t
  let buf := buf ++ i
  if r.length > 0 then buf ++ [cHash] ++ r else buf

/-! ### validity predicates -/

/-- `case '#', ' ': return false` of `IsValidObject` -/
def objectReject : List Nat := [35, 32]
/-- `case '#', ':', '@', ' ': return false` of `IsValidRelation` -/
def relationReject : List Nat := [35, 58, 64, 32]
/-- `case '#', ':', ' ': return false` of `IsValidUserID` -/
def userIDReject : List Nat := [35, 58, 32]

def isValidObjectLoop : List (Nat × Nat) → Nat → Nat → Bool
  | [], _, idLen => decide (idLen > 0)
  | (ndx, chr) :: rest, state, idLen =>
    if isControl chr then false
    else if objectReject.contains chr then false
    else if chr = 58 then
      if state > 0 || ndx == 0 then false else isValidObjectLoop rest 1 idLen
    else isValidObjectLoop rest state (idLen + state)

def isValidObject (s : Bytes) : Bool := isValidObjectLoop (runes s) 0 0

def countLoop (reject : List Nat) : List (Nat × Nat) → Nat → Bool
  | [], count => decide (count > 0)
  | (_, chr) :: rest, count =>
    if isControl chr then false
    else if reject.contains chr then false
    else countLoop reject rest (count + 1)

def isValidRelation (s : Bytes) : Bool := countLoop relationReject (runes s) 0
def isValidUserID (s : Bytes) : Bool := countLoop userIDReject (runes s) 0

def isValidUsersetLoop : List (Nat × Nat) → Nat → Nat → Nat → Bool
  | [], _, _, relLen => decide (relLen > 0)
  | (ndx, chr) :: rest, state, idLen, relLen =>
    if isControl chr then false
    else if chr = 58 then
      if state > 0 || ndx == 0 then false else isValidUsersetLoop rest 1 idLen relLen
    else if chr = 35 then
      if state > 1 || idLen == 0 then false else isValidUsersetLoop rest 2 idLen relLen
    else if chr = 32 then false
    else if chr = 42 then
      if state > 0 then false else isValidUsersetLoop rest state idLen relLen
    else
      match state with
      | 1 => isValidUsersetLoop rest state (idLen + 1) relLen
      | 2 => isValidUsersetLoop rest state idLen (relLen + 1)
      | _ => isValidUsersetLoop rest state idLen relLen

def isValidUserset (s : Bytes) : Bool := isValidUsersetLoop (runes s) 0 0 0

def isValidUser (s : Bytes) : Bool :=
  s == wildcard || isValidUserID s || isValidObject s || isValidUserset s

def isObjectRelation (s : Bytes) : Bool := isValidUserset s

def isTypedWildcard (s : Bytes) : Bool :=
  let (t, i) := splitObject s
  t ≠ [] && i == wildcard

def isWildcard (s : Bytes) : Bool := s == wildcard || isTypedWildcard s

def typedPublicWildcard (t : Bytes) : Bytes := buildObject t wildcard

/-- `GetUserTypeFromUser`: `true` = `UserSet`, `false` = `User`. -/
def getUserTypeFromUser (s : Bytes) : Bool := isObjectRelation s || isWildcard s

/-! ### tuple keys -/

structure TK where
  object : Bytes
  relation : Bytes
  user : Bytes
  deriving DecidableEq, Repr

def tupleKeyToString (tk : TK) : Bytes :=
  tk.object ++ [cHash] ++ tk.relation ++ [cAt] ++ tk.user

/-- `cond = none`: `tk.GetCondition() == nil`; `some name` otherwise (the name may be empty). -/
def tupleKeyWithConditionToString (tk : TK) (cond : Option Bytes) : Bytes :=
  match cond with
  | none => tupleKeyToString tk
  | some name => tupleKeyToString tk ++ condPrefix ++ name ++ [cRParen]

inductive ParseErr where
  | noHash | badObject | noAt | badRelation | badUser
  deriving DecidableEq, Repr

def parseTupleString (s : Bytes) : Except ParseErr TK :=
  match cut cHash s with
  | none => .error .noHash
  | some (object, rhs) =>
    if !isValidObject object then .error .badObject
    else match cut cAt rhs with
      | none => .error .noAt
      | some (relation, user) =>
        if !isValidRelation relation then .error .badRelation
        else if !isValidUser user then .error .badUser
        else .ok ⟨object, relation, user⟩

def isSelfDefining (tk : TK) : Bool :=
  let (userObject, userRelation) := splitObjectRelation tk.user
  tk.relation == userRelation && tk.object == userObject

def usersetMatchTypeAndRelation (userset relation typee : Bytes) : Bool :=
  let (userObjectType, _, userRelation) := toUserParts userset
  relation == userRelation && typee == userObjectType

/-! ### internal/validation/validation.go — the parts that only look at strings (reusable for C18)

The type system is an oracle (`TypeSys`): `GetTypeDefinition` / `GetRelation` results are parameters. -/

/-- outcome of `typesys.GetRelation(objectType, relation)` -/
inductive RelLookup where
  | found | typeUndefined | relationUndefined | otherErr
  deriving DecidableEq, Repr

structure TypeSys where
  /-- `typesys.GetTypeDefinition(t)` finds the type -/
  hasType : Bytes → Bool
  getRelation : Bytes → Bytes → RelLookup
  /-- `typesystem.IsSchemaVersionSupported(typesys.GetSchemaVersion())` -/
  schemaSupported : Bool

inductive ValErr where
  | objectFormat            -- "invalid 'object' field format"
  | objectTypedWildcard     -- "the 'object' field cannot reference a typed wildcard"
  | typeNotFound (t : Bytes)
  | relationMalformed       -- "the 'relation' field is malformed"
  | relationNotFound (t r : Bytes)
  | relationOther           -- any other error of GetRelation (returned as is by ValidateRelation)
  | userMalformed           -- "the 'user' field is malformed"
  | userNotObjectOrUserset  -- "the 'user' field must be an object … or an 'object#relation' or a typed wildcard"
  | tuplesetWildcard        -- "unexpected wildcard relationship with tupleset relation"
  | tuplesetUser            -- "unexpected user … with tupleset relation"
  deriving DecidableEq, Repr

/-- `ValidateObject` -/
def validateObject (ts : TypeSys) (object : Bytes) : Option ValErr :=
  if !isValidObject object then some .objectFormat
  else
    let (objectType, id) := splitObject object
    if id = wildcard then some .objectTypedWildcard
    else if !ts.hasType objectType then some (.typeNotFound objectType)
    else none

/-- `ValidateRelation` -/
def validateRelation (ts : TypeSys) (object relation : Bytes) : Option ValErr :=
  if !isValidRelation relation then some .relationMalformed
  else
    let objectType := getType object
    match ts.getRelation objectType relation with
    | .found => none
    | .typeUndefined => some (.typeNotFound objectType)
    | .relationUndefined => some (.relationNotFound objectType relation)
    | .otherErr => some .relationOther

/-- `ValidateUser` (note: in the userset branch an error of `GetRelation` other than the two known
ones is swallowed, as in the source). -/
def validateUser (ts : TypeSys) (user : Bytes) : Option ValErr :=
  if !isValidUser user then some .userMalformed
  else
    let isObj := isValidObject user
    let isUs := isObjectRelation user
    let (userObject, userRelation) := splitObjectRelation user
    let userObjectType := getType userObject
    let schemaErr : Option ValErr :=
      if ts.schemaSupported then
        if !isObj && !isUs then some .userNotObjectOrUserset
        else if !ts.hasType userObjectType then some (.typeNotFound userObjectType)
        else none
      else none
    match schemaErr with
    | some e => some e
    | none =>
      if isUs then
        match ts.getRelation userObjectType userRelation with
        | .typeUndefined => some (.typeNotFound userObjectType)
        | .relationUndefined => some (.relationNotFound userObjectType userRelation)
        | _ => none
      else none

/-- `ValidateUserObjectRelation`: user, then object, then relation. -/
def validateUserObjectRelation (ts : TypeSys) (tk : TK) : Option ValErr :=
  match validateUser ts tk.user with
  | some e => some e
  | none =>
    match validateObject ts tk.object with
    | some e => some e
    | none => validateRelation ts tk.object tk.relation

/-- the user-shape checks of `validateTuplesetRestrictions` (after the relation is known to be a tupleset) -/
def tuplesetUserShape (user : Bytes) : Option ValErr :=
  if isWildcard user then some .tuplesetWildcard
  else if !isValidObject user then some .tuplesetUser
  else none

end OpenFGAVerif.Model.TupleStr
