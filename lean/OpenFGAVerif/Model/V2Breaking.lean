/-
Model of the breaking-change detector `pkg/server/commands/v2breaking`: schema-shape predicates that the
server evaluates to log "potential v2 Check resolution breaking change" (`CheckReason` after a
weighted-graph answer `false` for a userset subject; `CheckReasonFromV2Error` / `CheckExclusionReason` /
`CheckReason` after a fallback).  The predicates read the model only.

  CheckReason              self_referential_userset → alias_userset → computed_userset_self_object → ttu_userset
  CheckExclusionReason     userset subject: a Difference anywhere in the target rewrite; otherwise a Difference whose base
                           branch reaches a typed wildcard of the subject's type (walk across computed / TTU edges with a
                           *shared* visited map, `branchAcceptsWildcard` with a fresh one per Difference)
  CheckReasonFromV2Error   the two request-shape errors
-/
import OpenFGAVerif.Spec.Vocab

namespace OpenFGAVerif.V2Breaking
open OpenFGAVerif.Vocab

def reasonSelfReferential : String := "self_referential_userset"
def reasonAlias : String := "alias_userset"
def reasonComputedSelfObj : String := "computed_userset_self_object"
def reasonTTU : String := "ttu_userset"
def reasonUsersetExclusion : String := "userset_with_exclusion"
def reasonWildcardExclusion : String := "wildcard_with_exclusion"

/-- `rewriteContainsComputedUserset` -/
def containsComputed (rel : String) : Rewrite → Bool
  | .this => false
  | .computed r => r = rel
  | .ttu _ _ => false
  | .union cs => cs.attach.any (fun ⟨c, _⟩ => containsComputed rel c)
  | .inter cs => cs.attach.any (fun ⟨c, _⟩ => containsComputed rel c)
  | .diff b s => containsComputed rel b || containsComputed rel s

/-- `rewriteContainsDifference` -/
def containsDifference : Rewrite → Bool
  | .diff _ _ => true
  | .union cs => cs.attach.any (fun ⟨c, _⟩ => containsDifference c)
  | .inter cs => cs.attach.any (fun ⟨c, _⟩ => containsDifference c)
  | _ => false

def restrsOf (m : Model) (typ rel : String) : Option (List Restr) := (m.findRel typ rel).map (·.restrs)

/-- `rewriteContainsTTUForUser` -/
def containsTTUForUser (m : Model) (targetType : String) (ut ur : String) : Rewrite → Bool
  | .ttu ts cr => cr = ur && (match restrsOf m targetType ts with
      | some rs => rs.any (fun r => r.typ = ut)
      | none => false)
  | .union cs => cs.attach.any (fun ⟨c, _⟩ => containsTTUForUser m targetType ut ur c)
  | .inter cs => cs.attach.any (fun ⟨c, _⟩ => containsTTUForUser m targetType ut ur c)
  | .diff b s => containsTTUForUser m targetType ut ur b || containsTTUForUser m targetType ut ur s
  | _ => false

/-- `typesystem.ResolveComputedRelation`: follow computed usersets down to a directly assignable relation -/
def resolveComputed (m : Model) : Nat → String → String → Option String
  | 0, _, _ => none
  | f + 1, typ, rel =>
    match m.findRel typ rel with
    | none => none
    | some rd =>
      match rd.rewrite with
      | .computed r => resolveComputed m f typ r
      | .this => some rel
      | _ => none

/-- `usersetAliasesTargetRelation` -/
def usersetAliases (m : Model) (targetType targetRel ut ur : String) : Bool :=
  match restrsOf m targetType targetRel with
  | none => false
  | some rs =>
    let us := rs.filter (fun r => r.rel ≠ "" && r.typ = ut)
    !us.any (fun r => r.rel = ur) && us.any (fun r => resolveComputed m 16 r.typ r.rel = some ur)

/-- `CheckReason` ("" = none) -/
def checkReason (m : Model) (rq : Req) : String :=
  if rq.user = rq.obj ++ "#" ++ rq.rel then reasonSelfReferential
  else
    let uo := (splitUserset rq.user).1
    let ur := (splitUserset rq.user).2
    let ut := typeOf uo
    let tt := typeOf rq.obj
    if usersetAliases m tt rq.rel ut ur then reasonAlias
    else match m.findRel tt rq.rel with
      | none => ""
      | some rd =>
        if uo = rq.obj && containsComputed ur rd.rewrite then reasonComputedSelfObj
        else if containsTTUForUser m tt ut ur rd.rewrite then reasonTTU
        else ""

/-- `branchAcceptsWildcard`; the visited list is threaded (a Go map shared by the whole walk) -/
def branchAccepts (m : Model) (ut : String) : Nat → String → String → Rewrite → List String → Bool × List String
  | 0, _, _, _, vis => (false, vis)
  | f + 1, typ, rel, rw, vis =>
    match rw with
    | .this =>
      ((match restrsOf m typ rel with
        | some rs => rs.any (fun r => r.typ = ut && r.wild)
        | none => false), vis)
    | .computed r =>
      let key := typ ++ "#" ++ r
      if vis.contains key then (false, vis)
      else match m.findRel typ r with
        | none => (false, vis)
        | some rd => branchAccepts m ut f typ r rd.rewrite (key :: vis)
    | .ttu ts cr =>
      match restrsOf m typ ts with
      | none => (false, vis)
      | some rs =>
        rs.foldl (fun (acc : Bool × List String) dr =>
          if acc.1 then acc
          else
            let key := dr.typ ++ "#" ++ cr
            if acc.2.contains key then acc
            else match m.findRel dr.typ cr with
              | none => acc
              | some rd => branchAccepts m ut f dr.typ cr rd.rewrite (key :: acc.2)) (false, vis)
    | .union cs =>
      cs.foldl (fun (acc : Bool × List String) c => if acc.1 then acc else branchAccepts m ut f typ rel c acc.2) (false, vis)
    | .inter cs =>
      cs.foldl (fun (acc : Bool × List String) c => if acc.1 then acc else branchAccepts m ut f typ rel c acc.2) (false, vis)
    | .diff b _ => branchAccepts m ut f typ rel b vis

/-- `walkForWildcardUnderDifference` -/
def walkDiff (m : Model) (ut : String) : Nat → String → String → Rewrite → List String → Bool × List String
  | 0, _, _, _, vis => (false, vis)
  | f + 1, typ, rel, rw, vis =>
    match rw with
    | .diff b s =>
      if (branchAccepts m ut 64 typ rel b []).1 then (true, vis)
      else
        let r1 := walkDiff m ut f typ rel b vis
        if r1.1 then r1 else walkDiff m ut f typ rel s r1.2
    | .union cs =>
      cs.foldl (fun (acc : Bool × List String) c => if acc.1 then acc else walkDiff m ut f typ rel c acc.2) (false, vis)
    | .inter cs =>
      cs.foldl (fun (acc : Bool × List String) c => if acc.1 then acc else walkDiff m ut f typ rel c acc.2) (false, vis)
    | .computed r =>
      let key := typ ++ "#" ++ r
      if vis.contains key then (false, vis)
      else match m.findRel typ r with
        | none => (false, vis)
        | some rd => walkDiff m ut f typ r rd.rewrite (key :: vis)
    | .ttu ts cr =>
      match restrsOf m typ ts with
      | none => (false, vis)
      | some rs =>
        rs.foldl (fun (acc : Bool × List String) dr =>
          if acc.1 then acc
          else
            let key := dr.typ ++ "#" ++ cr
            if acc.2.contains key then acc
            else match m.findRel dr.typ cr with
              | none => acc
              | some rd => walkDiff m ut f dr.typ cr rd.rewrite (key :: acc.2)) (false, vis)
    | .this => (false, vis)

/-- `CheckExclusionReason` -/
def checkExclusionReason (m : Model) (rq : Req) : String :=
  let tt := typeOf rq.obj
  match m.findRel tt rq.rel with
  | none => ""
  | some rd =>
    if isUserset rq.user then (if containsDifference rd.rewrite then reasonUsersetExclusion else "")
    else
      let ut := typeOf (splitUserset rq.user).1
      if (walkDiff m ut 64 tt rq.rel rd.rewrite []).1 then reasonWildcardExclusion else ""

/-- `CheckReasonFromV2Error` on the two request-shape errors -/
def reasonFromShape (wildcardShape : Bool) : String :=
  if wildcardShape then reasonWildcardExclusion else reasonUsersetExclusion

end OpenFGAVerif.V2Breaking
