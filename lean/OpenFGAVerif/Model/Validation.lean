/-
Model of tuple validation, step for step (core Lean only):

  internal/validation/validation.go   ValidateUser / ValidateObject / ValidateRelation
                                      ValidateUserObjectRelation, ValidateTupleForRead, ValidateTupleForWrite
                                      validateTuplesetRestrictions, validateTypeRestrictions, validateCondition,
                                      ValidateStruct (forbidden characters)
  pkg/server/commands/write.go        validateWriteRequest (per written tuple: ValidateTupleForWrite, validateNotImplicit,
                                      context size limit; per deleted key: IsValidObject, IsValidRelation, IsValidUser)
  pkg/server/commands/check_command.go validateCheckRequest (contextual tuples: ValidateTupleForWrite only)
  openfga/api  *.pb.validate.go       TupleKey / TupleKeyWithoutCondition / RelationshipCondition (request validation
                                      run by Server.Write / Server.Check before the command)
  google.golang.org/protobuf          proto.Size of a structpb.Struct (`structSize`)

Strings are byte lists; the string functions of `pkg/tuple` come from `Model.TupleStr` (verified by C29), the
context cast from `Model.Condition` (C25).  Every function returns the *class* of the first error the code
reports, in the code's order, so that the correspondence also notices re-ordered or dropped steps.
-/
import OpenFGAVerif.Model.TupleStr
import OpenFGAVerif.Model.Condition

namespace OpenFGAVerif.Model.Validation
open OpenFGAVerif.Model.TupleStr (Bytes cColon cHash cAt cStar cSpace wildcard runes isControl indexByte lastIndexByte splitObject buildObject getType splitObjectRelation getRelation toObjectRelationString getObjectRelationAsString toUserParts isValidObject isValidRelation isValidUserID isValidUserset isValidUser isObjectRelation isTypedWildcard isWildcard typedPublicWildcard)
open OpenFGAVerif.Model.Condition (PVal Ctx TypeRef castContext Res Std getLast)

/-! ### the typesystem, as far as validation reads it -/

/-- `RelationReference.RelationOrWildcard` -/
inductive RKind where
  | obj                       -- `user`
  | wild                      -- `user:*`
  | rel (r : Bytes)           -- `group#member`
  deriving Repr, DecidableEq, Inhabited

/-- `openfgav1.RelationReference` -/
structure Restr where
  typ : Bytes
  kind : RKind
  cond : Bytes                -- "" = no condition
  deriving Repr, DecidableEq, Inhabited

/-- `GetRelation()` of a relation reference -/
def Restr.relation (r : Restr) : Bytes := match r.kind with | .rel x => x | _ => []
/-- `GetWildcard() != nil` -/
def Restr.isWild (r : Restr) : Bool := match r.kind with | .wild => true | _ => false
/-- `GetRelationOrWildcard() != nil` -/
def Restr.hasRelOrWild (r : Restr) : Bool := match r.kind with | .obj => false | _ => true

structure RelDef where
  name : Bytes
  /-- the rewrite is exactly `this` (`Userset_This`) -/
  direct : Bool
  /-- `TypeInfo.DirectlyRelatedUserTypes` = `Metadata.Relations[name].DirectlyRelatedUserTypes` -/
  restrs : List Restr
  deriving Repr, Inhabited

structure TypeDef where
  name : Bytes
  rels : List RelDef
  /-- tupleset relations of every tuple-to-userset rewrite of the type (`ttuRelations[type]`, flattened) -/
  tuplesets : List Bytes
  deriving Repr, Inhabited

structure CondDef where
  name : Bytes
  params : List (String × TypeRef)
  deriving Repr, Inhabited

structure Model where
  types : List TypeDef
  conds : List CondDef
  deriving Repr, Inhabited

/-- `openfgav1.TupleKey`; `cond = none` is `GetCondition() == nil` -/
structure Tuple where
  obj : Bytes
  rel : Bytes
  user : Bytes
  cond : Option (Bytes × Ctx)
  deriving Repr, Inhabited

def Model.findType (m : Model) (t : Bytes) : Option TypeDef := m.types.find? (·.name == t)

inductive RelLookup where
  | typeUndefined | relUndefined | found (rd : RelDef)
  deriving Repr, Inhabited

/-- `typesystem.GetRelation` (ErrObjectTypeUndefined / ErrRelationUndefined) -/
def Model.getRelation (m : Model) (t r : Bytes) : RelLookup :=
  match m.findType t with
  | none => .typeUndefined
  | some td =>
    match td.rels.find? (·.name == r) with
    | none => .relUndefined
    | some rd => .found rd

/-- `typesystem.IsTuplesetRelation` (after the relation was found) -/
def Model.isTupleset (m : Model) (t r : Bytes) : Bool :=
  match m.findType t with
  | none => false
  | some td => td.tuplesets.contains r

def Model.findCond (m : Model) (n : Bytes) : Option CondDef := m.conds.find? (·.name == n)

/-! ### error classes -/

inductive Err where
  | proto               -- request validation (`req.Validate()`)
  | userMalformed       -- "the 'user' field is malformed"
  | userShape           -- "the 'user' field must be an object … or an 'object#relation' or a typed wildcard"
  | typeNotFound        -- tuple.TypeNotFoundError
  | relNotFound         -- tuple.RelationNotFoundError
  | objectFormat        -- "invalid 'object' field format"
  | objectWildcard      -- "the 'object' field cannot reference a typed wildcard"
  | relMalformed        -- "the 'relation' field is malformed"
  | tupleset            -- validateTuplesetRestrictions
  | typeRestr           -- validateTypeRestrictions
  | condMissing         -- "condition is missing"
  | condForbidden       -- "condition name contains forbidden characters"
  | condUndefined       -- "undefined condition"
  | condInvalid         -- "invalid condition for type restriction"
  | ctxForbidden        -- ValidateStruct
  | ctxType             -- CastContextToTypedParameters failed
  | ctxParam            -- "found invalid context parameter"
  | implicit            -- "cannot write a tuple that is implicit"
  | ctxSize             -- "condition context size limit exceeded"
  | panic               -- a converter panicked
  deriving Repr, DecidableEq, Inhabited

def Err.name : Err → String
  | .proto => "proto" | .userMalformed => "user-malformed" | .userShape => "user-shape"
  | .typeNotFound => "type-not-found" | .relNotFound => "relation-not-found" | .objectFormat => "object-format"
  | .objectWildcard => "object-wildcard" | .relMalformed => "relation-malformed" | .tupleset => "tupleset"
  | .typeRestr => "type-restriction" | .condMissing => "condition-missing" | .condForbidden => "condition-forbidden"
  | .condUndefined => "condition-undefined" | .condInvalid => "condition-invalid" | .ctxForbidden => "context-forbidden"
  | .ctxType => "context-type" | .ctxParam => "context-parameter" | .implicit => "implicit" | .ctxSize => "context-size"
  | .panic => "panic"

abbrev R := Except Err Unit

instance : DecidableEq R := fun a b =>
  match a, b with
  | .ok (), .ok () => isTrue rfl
  | .error e, .error e' =>
    if h : e = e' then isTrue (by rw [h]) else isFalse (fun x => by cases x; exact h rfl)
  | .ok _, .error _ => isFalse (fun x => by cases x)
  | .error _, .ok _ => isFalse (fun x => by cases x)

/-! ### forbidden characters (`utils.ContainsForbiddenChars` = `strings.ContainsFunc(s, unicode.IsControl)`) -/

def forbiddenBytes (s : Bytes) : Bool := (runes s).any (fun p => isControl p.2)

def forbiddenString (s : String) : Bool := s.toList.any (fun c => isControl c.toNat)

mutual
/-- `validateValueForbiddenChars` -/
def valueForbidden : PVal → Bool
  | .str s => forbiddenBytes s
  | .list xs => listForbidden xs
  | .struct fs => fieldsForbidden fs
  | _ => false
def listForbidden : List PVal → Bool
  | [] => false
  | x :: xs => valueForbidden x || listForbidden xs
/-- `ValidateStruct` (any key or value with a control character) -/
def fieldsForbidden : List (String × PVal) → Bool
  | [] => false
  | (k, v) :: rest => forbiddenString k || valueForbidden v || fieldsForbidden rest
end

/-! ### `proto.Size` of a `structpb.Struct` -/

/-- length of a protobuf varint -/
def varintLen (n : Nat) : Nat :=
  if n < 128 then 1 else if n < 16384 then 2 else if n < 2097152 then 3 else if n < 268435456 then 4 else 5

/-- a length-delimited field with a one-byte tag -/
def lenField (n : Nat) : Nat := 1 + varintLen n + n

mutual
/-- encoded size of a `structpb.Value` (the oneof member is always emitted) -/
def valueSize : PVal → Nat
  | .null => 2                       -- tag 1 (varint) + 0
  | .num _ => 9                      -- tag 2 (fixed64)
  | .str s => lenField s.length      -- tag 3
  | .bool _ => 2                     -- tag 4
  | .struct fs => lenField (fieldsSize fs)   -- tag 5
  | .list xs => lenField (listSize xs)       -- tag 6
/-- encoded size of a `structpb.ListValue`: repeated `values = 1` -/
def listSize : List PVal → Nat
  | [] => 0
  | x :: xs => lenField (valueSize x) + listSize xs
/-- encoded size of a `structpb.Struct`: map entries `fields = 1` with key = 1 and value = 2 -/
def fieldsSize : List (String × PVal) → Nat
  | [] => 0
  | (k, v) :: rest => lenField (lenField k.utf8ByteSize + lenField (valueSize v)) + fieldsSize rest
end

/-- `proto.Size(tk.GetCondition().GetContext())` (0 for a missing condition / nil context) -/
def ctxSize (t : Tuple) : Nat :=
  match t.cond with
  | none => 0
  | some (_, ctx) => fieldsSize ctx

/-! ### ValidateUserObjectRelation -/

/-- `ValidateUser` for a supported schema version (1.1 / 1.2) -/
def validateUser (m : Model) (user : Bytes) : R :=
  if !isValidUser user then .error .userMalformed
  else
    let isObj := isValidObject user
    let isUs := isObjectRelation user
    let (uo, ur) := splitObjectRelation user
    let ut := getType uo
    if !isObj && !isUs then .error .userShape
    else if (m.findType ut).isNone then .error .typeNotFound
    else if isUs then
      match m.getRelation ut ur with
      | .typeUndefined => .error .typeNotFound
      | .relUndefined => .error .relNotFound
      | .found _ => .ok ()
    else .ok ()

/-- `ValidateObject` -/
def validateObject (m : Model) (obj : Bytes) : R :=
  if !isValidObject obj then .error .objectFormat
  else
    let (ot, id) := splitObject obj
    if id == wildcard then .error .objectWildcard
    else if (m.findType ot).isNone then .error .typeNotFound
    else .ok ()

/-- `ValidateRelation` -/
def validateRelation (m : Model) (obj rel : Bytes) : R :=
  if !isValidRelation rel then .error .relMalformed
  else
    match m.getRelation (getType obj) rel with
    | .typeUndefined => .error .typeNotFound
    | .relUndefined => .error .relNotFound
    | .found _ => .ok ()

def validateUOR (m : Model) (t : Tuple) : R := do
  validateUser m t.user
  validateObject m t.obj
  validateRelation m t.obj t.rel

/-! ### ValidateTupleForRead -/

/-- `validateTuplesetRestrictions` -/
def validateTupleset (m : Model) (t : Tuple) : R :=
  let ot := getType t.obj
  match m.getRelation ot t.rel with
  | .typeUndefined => .error .typeNotFound
  | .relUndefined => .error .relNotFound
  | .found rd =>
    if !m.isTupleset ot t.rel then .ok ()
    else if !rd.direct then .error .tupleset
    else if isWildcard t.user then .error .tupleset
    else if !isValidObject t.user then .error .tupleset
    else .ok ()

/-- `validateTypeRestrictions` -/
def validateTypeRestr (rd : RelDef) (user : Bytes) : R :=
  let (uo, ur) := splitObjectRelation user
  let ut := (splitObject uo).1
  if isObjectRelation user then
    if rd.restrs.any (fun r => r.typ == ut && r.relation == ur) then .ok () else .error .typeRestr
  else if isTypedWildcard user then
    if rd.restrs.any (fun r => r.typ == ut && r.isWild) then .ok () else .error .typeRestr
  else
    if rd.restrs.any (fun r => r.typ == ut && !r.isWild && r.relation == []) then .ok () else .error .typeRestr

/-- the loop body of the unconditioned branch of `validateCondition`: does restriction `r` let the
unconditioned tuple through? -/
def uncondAdmits (r : Restr) (user : Bytes) : Bool :=
  r.cond == [] && r.typ == getType user &&
  (if r.hasRelOrWild then
     !(r.relation != [] && r.relation != getRelation user) && !(r.isWild && !isTypedWildcard user)
   else !isTypedWildcard user)

/-- the loop of the conditioned branch -/
def condAdmits (r : Restr) (user name : Bytes) : Bool := r.typ == getType user && r.cond == name

/-- the context part of `validateCondition`: ValidateStruct, CastContextToTypedParameters, undeclared keys -/
def validateContext (std : Std) (cd : CondDef) (ctx : Ctx) : R :=
  if fieldsForbidden ctx then .error .ctxForbidden
  else
    match castContext std cd.params ctx with
    | .typeErr => .error .ctxType
    | .panic => .error .panic
    | .ok typed =>
      if ctx.all (fun kv => (getLast typed kv.1).isSome) then .ok () else .error .ctxParam

/-- `validateCondition` -/
def validateCondition (std : Std) (m : Model) (rd : RelDef) (t : Tuple) : R :=
  match t.cond with
  | none => if rd.restrs.any (fun r => uncondAdmits r t.user) then .ok () else .error .condMissing
  | some (name, ctx) =>
    if forbiddenBytes name then .error .condForbidden
    else
      match m.findCond name with
      | none => .error .condUndefined
      | some cd =>
        if !rd.restrs.any (fun r => condAdmits r t.user name) then .error .condInvalid
        else validateContext std cd ctx

/-- `ValidateTupleForRead` (schema 1.1: `HasTypeInfo` is always true) -/
def validateForRead (std : Std) (m : Model) (t : Tuple) : R := do
  validateTupleset m t
  match m.getRelation (getType t.obj) t.rel with
  | .typeUndefined => .error .typeNotFound
  | .relUndefined => .error .relNotFound
  | .found rd =>
    validateTypeRestr rd t.user
    validateCondition std m rd t

/-- `ValidateTupleForWrite` -/
def validateForWrite (std : Std) (m : Model) (t : Tuple) : R := do
  validateUOR m t
  validateForRead std m t

/-! ### the two paths -/

/-- `validateNotImplicit` / `tuple.IsSelfDefining` -/
def isImplicit (t : Tuple) : Bool :=
  let (uo, ur) := splitObjectRelation t.user
  t.rel == ur && t.obj == uo

/-- one written tuple in `WriteCommand.validateWriteRequest` -/
def writeCheck (std : Std) (limit : Nat) (m : Model) (t : Tuple) : R :=
  match validateForWrite std m t with
  | .error e => .error e
  | .ok _ =>
    if isImplicit t then .error .implicit
    else if ctxSize t > limit then .error .ctxSize
    else .ok ()

/-- one contextual tuple in `validateCheckRequest` (Check, and the same loop in ListObjects / ListUsers / Expand) -/
def contextualCheck (std : Std) (m : Model) (t : Tuple) : R := validateForWrite std m t

/-- one deleted key in `validateWriteRequest`: `IsValidObject`, `IsValidRelation`, `IsValidUser`, in this order
(`Gen.Validation.deleteChecks`) -/
def deleteCheck (obj rel user : Bytes) : R :=
  if !isValidObject obj then .error .objectFormat
  else if !isValidRelation rel then .error .relMalformed
  else if !isValidUser user then .error .userMalformed
  else .ok ()

/-! ### `WriteCommand.Execute`: validate everything, then one datastore call -/

structure WriteReq where
  deletes : List (Bytes × Bytes × Bytes)
  writes : List Tuple

def checkAll {α : Type} (f : α → R) : List α → R
  | [] => .ok ()
  | x :: xs => do f x; checkAll f xs

/-- the validation loops of `validateWriteRequest` (writes first, then deletes; the duplicate / batch-size checks
belong to C12) -/
def validateWriteRequest (std : Std) (limit : Nat) (m : Model) (req : WriteReq) : R := do
  checkAll (writeCheck std limit m) req.writes
  checkAll (fun k => deleteCheck k.1 k.2.1 k.2.2) req.deletes

/-- `Execute` over an abstract datastore `ds` (state `S`, its own errors `E`): the request is validated first and the
datastore is only called when validation passed -/
def execute {S E : Type} (ds : S → WriteReq → Except E S) (std : Std) (limit : Nat) (m : Model) (st : S) (req : WriteReq) :
    S × Except (Err ⊕ E) Unit :=
  match validateWriteRequest std limit m req with
  | .error e => (st, .error (.inl e))
  | .ok _ =>
    match ds st req with
    | .error e => (st, .error (.inr e))      -- the datastore's own atomicity is C12's business
    | .ok st' => (st', .ok ())

/-! ### request validation in front of the commands (generated protoc-gen-validate code) -/

/-- `\s` of RE2: `[\t\n\f\r ]` -/
def reSpace (r : Nat) : Bool := r == 9 || r == 10 || r == 12 || r == 13 || r == 32

/-- `^[^\s]{lo,hi}$` on the runes of the string -/
def matchNoSpace (lo hi : Nat) (s : Bytes) : Bool :=
  let rs := runes s
  lo ≤ rs.length && rs.length ≤ hi && rs.all (fun p => !reSpace p.2)

/-- `^[^:#@\s]{1,50}$` -/
def matchRelation (s : Bytes) : Bool :=
  let rs := runes s
  1 ≤ rs.length && rs.length ≤ 50 && rs.all (fun p => !reSpace p.2 && p.2 != 58 && p.2 != 35 && p.2 != 64)

/-- `TupleKeyWithoutCondition.Validate` (empty relation / object are skipped: `ignore_empty`) -/
def protoKey (obj rel user : Bytes) : Bool :=
  user.length ≤ 512 && (rel == [] || matchRelation rel) && (obj == [] || matchNoSpace 2 256 obj)

/-- `TupleKey.Validate` -/
def protoTuple (t : Tuple) : Bool :=
  protoKey t.obj t.rel t.user &&
  (match t.cond with | none => true | some (name, _) => matchNoSpace 2 256 name)

/-- `Server.Write` with one written tuple -/
def apiWrite (std : Std) (limit : Nat) (m : Model) (t : Tuple) : R :=
  if !protoTuple t then .error .proto else writeCheck std limit m t

/-- `Server.Check` with one contextual tuple -/
def apiContextual (std : Std) (m : Model) (t : Tuple) : R :=
  if !protoTuple t then .error .proto else contextualCheck std m t

/-- `Server.Write` with one deleted key -/
def apiDelete (obj rel user : Bytes) : R :=
  if !protoKey obj rel user then .error .proto else deleteCheck obj rel user

/-! ### the memory backend's `match` (what an accepted delete key removes) -/

/-- `memory.match(record, key)` for a stored tuple `(obj, rel, user)` -/
def memMatch (sobj srel suser : Bytes) (kobj krel kuser : Bytes) : Bool :=
  (kobj == [] ||
    (let (kt, kid) := splitObject kobj
     let (st, sid) := splitObject sobj
     if kid == [] then kt == st else kt == st && kid == sid)) &&
  (krel == [] || srel == krel) &&
  (kuser == [] ||
    (let (ut, uid, _) := toUserParts kuser
     if uid != [] then suser == kuser else (ut ++ [cColon]).isPrefixOf suser))

end OpenFGAVerif.Model.Validation
