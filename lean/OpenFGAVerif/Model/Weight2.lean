/-
Set level of the weight-two strategy of the default Check engine (`internal/graph/weight_two_resolver.go`):

  fastPathDirect   → `leafIt`     one iterator over the objects of a type on which the subject holds a
                                   directly assignable relation: `ReadStartingWithUser` (subject and, when the
                                   relation is publicly assignable, the subject type's wildcard), contextual
                                   tuples merged in by `OrderedCombinedIterator`, which **drops every further
                                   tuple of an object it has already yielded** — *before*
                                   `IteratorReadStartingFromUser` applies the validity and condition filters
                                   (`Order.code`; finding F9).  `Order.repaired` filters first.
  fastPathRewrite  → `leftChan`   direct / computed / union / intersection / difference over the stream
                                   operations of `Model/Weight2Streams.lean`; a tuple-to-userset child
                                   contributes nothing (`fastPathNoop`)
  produceLeftChannels, weight2Userset, weight2TTU → `usersetLefts`, `ttuLefts`, `usersetRight`, `ttuRight`
  weight2 (the consumer loop) → `consume`, a function of an explicit schedule (which `select` case fires,
                                   in which order the left channels are drained, when the context is
                                   cancelled and where cancellation truncates the producers) and
                                   `answers`, the set of outcomes over all schedules without cancellation.

The applicability predicates `UsersetUseWeight2Resolver` / `TTUUseWeight2Resolver` come from the real
typesystem through `Aux` (`w2:` / `tw2:` keys); `w1Rel` is the checkable reason why they may hold: every
rewrite the fast path walks is "weight one" for the subject's type (no userset restriction and no
tuple-to-userset parent through which the subject's type could be reached).
-/
import OpenFGAVerif.Model.CheckV1
import OpenFGAVerif.Model.Weight2Streams

namespace OpenFGAVerif.Weight2
open OpenFGAVerif.Vocab OpenFGAVerif.CheckV1

/-- where the per-object de-duplication happens relative to the validity / condition filters -/
inductive Order where
  | code       -- OrderedCombinedIterator first, filters after (what the code does: F9)
  | repaired   -- filters first, de-duplication after
  deriving DecidableEq, Repr

structure Cfg where
  order : Order := .code
  /-- `IteratorMinBatchThreshold` -/
  thr : Nat := 100
  deriving Repr

/-! ### fastPathDirect -/

/-- `typesys.IsPubliclyAssignable(typ#rel, userType)` -/
def pubAssignable (restrs : List Restr) (ut : String) : Bool := restrs.any (fun x => x.typ = ut && x.wild)

/-- `checkutil.userFilter`: the subject itself and, for a publicly assignable relation, its type's wildcard -/
def matchesUserFilter (w : World) (pub : Bool) (t : Tuple) : Bool :=
  t.user = w.req.user ||
    (pub && !isTypedWildcard w.req.user && isTypedWildcard t.user && userType t.user = userType w.req.user)

def leObj (a b : Tuple) : Bool := !(b.obj < a.obj)

/-- the tuples `CombinedTupleReader.ReadStartingWithUser(…, WithResultsSortedAscending)` iterates over, in
order, before de-duplication: contextual tuples (already sorted by `NewCombinedTupleReader`) merged with the
stored ones (sorted by the datastore; stable for the memory store up to 12 matches), contextual first on
equal objects (`headMin > head` is strict). -/
def leafRows (w : World) (typ rel : String) (pub : Bool) : List Tuple :=
  let sel := fun (t : Tuple) => typeOf t.obj = typ && t.rel = rel && matchesUserFilter w pub t
  (w.ctxTuples.filter sel).merge ((w.stored.filter sel).mergeSort leObj) leObj

/-- `OrderedCombinedIterator.head`: heads whose object equals the last yielded object are discarded -/
def dedupGo (last : Option String) : List Tuple → List Tuple
  | [] => []
  | t :: rest => if last = some t.obj then dedupGo last rest else t :: dedupGo (some t.obj) rest

def dedupByObj (ts : List Tuple) : List Tuple := dedupGo none ts

/-- the iterator handed to the stream machinery plus a ghost flag: a condition error was swallowed
(`ConditionsFilteredTupleKeyIterator` reports an error only when no tuple passed at all) -/
structure LeafIt where
  it : It String
  swallowed : Bool
  deriving Repr

/-- the filters of `IteratorReadStartingFromUser` around the de-duplicating iterator, over abstract
validity / condition outcomes (so that the order of the two steps can be evaluated on small data) -/
def leafCore (order : Order) (rows : List Tuple) (valid : Tuple → Bool) (cond : Tuple → CondVal) : LeafIt :=
  let rows1 := match order with
    | .code => dedupByObj rows
    | .repaired => rows
  let vs := rows1.filter valid
  let passed := vs.filter (fun t => cond t = .tt)
  let sawErr := vs.any (fun t => cond t = .err)
  let passed1 := match order with
    | .code => passed
    | .repaired => dedupByObj passed
  { it := { items := passed1.map (·.obj), failAtEnd := sawErr && passed.isEmpty },
    swallowed := sawErr && !passed.isEmpty }

def leafPub (w : World) (typ rel : String) : Bool :=
  match w.model.findRel typ rel with
  | some rd => pubAssignable rd.restrs (userType w.req.user)
  | none => false

def leafOf (w : World) (cfg : Cfg) (typ rel : String) : LeafIt :=
  leafCore cfg.order (leafRows w typ rel (leafPub w typ rel)) (validForRead w.model) (evalCond w.model w.req.ctx)

/-! ### fastPathRewrite -/

inductive LeftR where
  | chan (c : Chan String) (swallowed : Bool)
  | setupErr       -- `fastPathComputed`: relation not found ⇒ the handler fails before anything is read
  | fuel           -- the model ran out of fuel (not reachable for validated models, see `w1Rel`)
  deriving Repr

def LeftR.isFuel : LeftR → Bool
  | .fuel => true
  | _ => false

def LeftR.isSetupErr : LeftR → Bool
  | .setupErr => true
  | _ => false

def LeftR.chan? : LeftR → Option (Chan String)
  | .chan c _ => some c
  | _ => none

def LeftR.sw : LeftR → Bool
  | .chan _ s => s
  | _ => false

def LeftR.combine (rs : List LeftR) (op : List (Chan String) → Option (Chan String)) : LeftR :=
  if rs.any LeftR.isFuel then .fuel
  else if rs.any LeftR.isSetupErr then .setupErr
  else
    match op (rs.filterMap LeftR.chan?) with
    | some c => .chan c (rs.any LeftR.sw)
    | none => .fuel

/-- `fastPathOperationSetup(…, fastPathDifference, base, subtract)`: `BaseIndex = 0`, `DifferenceIndex = 1` -/
def diffOp (thr : Nat) (cs : List (Chan String)) : Option (Chan String) :=
  match cs with
  | [cb, csub] => fastPathDifference thr 0 1 cb csub
  | _ => none

/-- `fastPathRewrite(req{object type typ, relation rel}, rewrite)` -/
def leftChan (w : World) (cfg : Cfg) (typ : String) : Nat → String → Rewrite → LeftR
  | 0, _, _ => .fuel
  | fuel + 1, rel, rw =>
    match rw with
    | .this => let l := leafOf w cfg typ rel; .chan [.iter l.it] l.swallowed
    | .computed r' =>
      match w.model.findRel typ r' with
      | none => .setupErr
      | some rd => leftChan w cfg typ fuel r' rd.rewrite
    | .ttu _ _ => .chan [] false
    | .union cs => LeftR.combine (cs.map (leftChan w cfg typ fuel rel)) (fastPathUnion cfg.thr)
    | .inter cs => LeftR.combine (cs.map (leftChan w cfg typ fuel rel)) (fastPathIntersection cfg.thr)
    | .diff b s =>
      LeftR.combine [leftChan w cfg typ fuel rel b, leftChan w cfg typ fuel rel s] (diffOp cfg.thr)

def leftFuel : Nat := 64

/-- one left channel per relation reference whose relation exists (`produceLeftChannels`) -/
def leftOfRel (w : World) (cfg : Cfg) (typ rel : String) : Option LeftR :=
  match w.model.findRel typ rel with
  | none => none                                        -- `continue`
  | some rd => some (leftChan w cfg typ leftFuel rel rd.rewrite)

/-! ### the right-hand side: the usersets / parents stored on the object -/

structure Right where
  /-- what the mapper yields for the tuples that pass the filters, in order -/
  passed : List String
  sawErr : Bool
  deriving Repr

/-- `weight2Userset`: userset tuples of the single restriction `x`, mapped to the userset's object -/
def usersetRight (w : World) (o r : String) (x : Restr) : Right :=
  let f := filterIter w (usersetTuples w o r [x])
  { passed := f.passed.map (fun t => (splitUserset t.user).1), sawErr := f.sawErr }

/-- `weight2TTU`: tupleset tuples, mapped to their user field -/
def ttuRight (w : World) (o tupleset : String) : Right :=
  let f := filterIter w (w.all.filter (fun t => t.obj = o && t.rel = tupleset))
  { passed := f.passed.map (·.user), sawErr := f.sawErr }

def usersetLefts (w : World) (cfg : Cfg) (x : Restr) : List LeftR :=
  (leftOfRel w cfg x.typ x.rel).toList

/-- `GetDirectlyRelatedUserTypes(objectType, tuplesetRelation)`: `none` = relation undefined (handler error) -/
def ttuLefts (w : World) (cfg : Cfg) (typ tupleset computed : String) : Option (List LeftR) :=
  match w.model.findRel typ tupleset with
  | none => none
  | some rd => some (rd.restrs.filterMap (fun p => leftOfRel w cfg p.typ computed))

/-! ### the consumer loop of `weight2`, for an explicit schedule -/

inductive Ans where
  | T | F
  | E            -- an error of the handler (condition evaluation, panic, …)
  | cancelled    -- `ctx.Err()` returned
  deriving DecidableEq, Repr

/-- what the scheduler does at one `select`: which case fires.  `cancel` = the context gets cancelled now
(nothing is received); afterwards `ctxDone` is enabled. -/
inductive Pick where
  | left | right | ctxDone | cancel
  deriving DecidableEq, Repr

structure CState where
  leftQ : List (Msg String)     -- what will still arrive on the fan-in channel, in arrival order
  rightQ : List String          -- usersets still to arrive on the right channel
  rightErr : Bool               -- the right producer ends with an error message
  leftOpen : Bool := true
  rightOpen : Bool := true
  leftSet : List String := []
  rightSet : List String := []
  lastErr : Bool := false       -- `lastErr != nil` (only handler errors are remembered here)
  ctxErr : Bool := false
  deriving Repr

/-- consuming one left message: `for { t, err := msg.Iter.Next(ctx) … }` — `some` = matched -/
def consumeIter (st : CState) : List String → CState × Bool
  | [] => (st, false)
  | t :: rest =>
    let st' := { st with leftSet := t :: st.leftSet }
    if st.rightSet.contains t then (st', true) else consumeIter st' rest

/-- `ConsumerLoop`.  `none` = the schedule ended before the loop did. -/
def consumeLoop : List Pick → CState → Option Ans
  | [], st => if st.leftOpen || st.rightOpen then none else some (if st.lastErr then .E else .F)
  | p :: sched, st =>
    if !(st.leftOpen || st.rightOpen) then some (if st.lastErr then .E else .F)
    else match p with
      | .cancel => consumeLoop sched { st with ctxErr := true }
      | .ctxDone =>
        if st.ctxErr then some .cancelled                       -- `case <-ctx.Done(): lastErr = ctx.Err(); break ConsumerLoop`
        else consumeLoop sched st                               -- not enabled: the scheduler picks again
      | .left =>
        match st.leftQ with
        | [] =>                                                 -- `!ok`
          let st' := { st with leftOpen := false }
          if st.leftSet.isEmpty then
            some (if st.ctxErr then .cancelled else if st.lastErr then .E else .F)
          else consumeLoop sched st'
        | .err :: _ => some .E                                  -- `lastErr = msg.Err; break ConsumerLoop`
        | .iter it :: q =>
          let (st1, hit) := consumeIter { st with leftQ := q } it.items
          if hit then some .T
          else consumeLoop sched (if it.failAtEnd then { st1 with lastErr := true } else st1)
      | .right =>
        match st.rightQ with
        | [] =>
          if st.rightErr then consumeLoop sched { st with rightErr := false, lastErr := true }   -- `lastErr = msg.err; continue`
          else consumeLoop sched { st with rightOpen := false }
        | u :: q =>
          let st' := { st with rightQ := q, rightSet := u :: st.rightSet }
          if st.leftSet.contains u then some .T else consumeLoop sched st'

/-- the whole of `weight2`: the first `select` (context or first right-hand message), then the loop -/
def consume (sched : List Pick) (leftQ : List (Msg String)) (right : Right) (cancelledAtStart : Bool) : Option Ans :=
  if cancelledAtStart then
    -- both cases of the first select are enabled; the right-hand one is taken by the schedules below via `.right` first
    match sched with
    | .ctxDone :: _ => some .cancelled
    | _ =>
      match right.passed with
      | [] => if right.sawErr then some .E else some .cancelled        -- `return res, ctx.Err()`
      | u :: q => consumeLoop sched { leftQ := leftQ, rightQ := q, rightErr := false, rightSet := [u], ctxErr := true }
  else
    match right.passed with
    | [] => if right.sawErr then some .E else some .F
    | u :: q => consumeLoop sched { leftQ := leftQ, rightQ := q, rightErr := false, rightSet := [u] }

/-! ### all outcomes without cancellation -/

/-- the messages of a channel that the consumer can see: up to and excluding the first error message -/
def beforeErr : Chan String → Chan String
  | [] => []
  | .err :: _ => []
  | m :: rest => m :: beforeErr rest

def hasErrMsg (c : Chan String) : Bool := c.any (fun m => match m with | .err => true | _ => false)

def hasFailIt (c : Chan String) : Bool := (beforeErr c).any (fun m => match m with | .iter it => it.failAtEnd | _ => false)

/-- every answer some schedule (without cancellation) can produce -/
def answers (lefts : List (Chan String)) (right : Right) : List Ans :=
  match right.passed with
  | [] => if right.sawErr then [.E] else [.F]
  | _ =>
    if lefts.isEmpty then [.F] else                    -- `len(leftChans) == 0`
    let avail := lefts.flatMap (fun c => Chan.items (beforeErr c))
    let hit := right.passed.any (fun u => avail.contains u)
    let err := lefts.any hasErrMsg
    let fail := lefts.any hasFailIt
    if hit then (if err then [.T, .E] else [.T])
    else if err || fail then [.E] else [.F]

/-- result of a weight-two handler: the possible answers, and whether some iterator swallowed a condition
error (then `T`/`F` are tainted exactly as in `Model/Dfs.lean`) -/
structure Result where
  answers : List Ans
  tainted : Bool
  deriving Repr

def resultOf (lefts : List LeftR) (right : Right) : Result :=
  if lefts.any LeftR.isFuel then { answers := [], tainted := false }
  else if lefts.any LeftR.isSetupErr then { answers := [.E], tainted := false }
  else
    { answers := answers (lefts.filterMap LeftR.chan?) right,
      tainted := lefts.any LeftR.sw || (right.sawErr && !right.passed.isEmpty) }

def weight2Userset (w : World) (cfg : Cfg) (o r : String) (x : Restr) : Result :=
  resultOf (usersetLefts w cfg x) (usersetRight w o r x)

def weight2TTU (w : World) (cfg : Cfg) (o tupleset computed : String) : Result :=
  match ttuLefts w cfg (typeOf o) tupleset computed with
  | none => { answers := [.E], tainted := false }
  | some ls => resultOf ls (ttuRight w o tupleset)

/-! ### applicability, as a checkable predicate on the model and the path table -/

def pathFalse (w : World) (typ rel : String) : Bool := !(w.aux.get s!"path:{typ}#{rel}" true)

/-- the rewrite only reaches the subject's type through directly assigned subjects / wildcards -/
def w1Rewrite (w : World) (typ : String) : Nat → List Restr → Rewrite → Bool
  | 0, _, _ => false
  | fuel + 1, restrs, rw =>
    match rw with
    | .this => restrs.all (fun x => x.rel = "" || ((w.model.findRel x.typ x.rel).isSome && pathFalse w x.typ x.rel))
    | .computed r' =>
      r' ≠ "" &&
      (match w.model.findRel typ r' with
       | none => false
       | some rd => w.aux.get s!"path:{typ}#{r'}" true && w1Rewrite w typ fuel rd.restrs rd.rewrite)
    | .ttu ts cr =>
      cr ≠ "" &&
      (match w.model.findRel typ ts with
       | none => true
       | some rd => rd.restrs.all (fun p => (w.model.findRel p.typ cr).isNone || pathFalse w p.typ cr))
    | .union cs => cs.all (w1Rewrite w typ fuel restrs)
    | .inter cs => !cs.isEmpty && cs.all (w1Rewrite w typ fuel restrs)
    | .diff b s => w1Rewrite w typ fuel restrs b && w1Rewrite w typ fuel restrs s

def w1Rel (w : World) (typ rel : String) : Bool :=
  rel ≠ "" &&
  (match w.model.findRel typ rel with
   | none => false
   | some rd => w.aux.get s!"path:{typ}#{rel}" true && w1Rewrite w typ leftFuel rd.restrs rd.rewrite)

end OpenFGAVerif.Weight2
