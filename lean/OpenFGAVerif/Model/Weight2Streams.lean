/-
Stream level of the weight-two fast path of the default Check engine
(`internal/graph/weight_two_resolver.go` over `internal/iterator/stream.go`).

A producer (a `fastPath*` function) sends a finite sequence of messages on a channel and closes it: each
message is an iterator of object ids (`Msg.iter`) or an error (`Msg.err`).  A consumer wraps the channel
in an `iterator.Stream` (current buffer + source channel) and works on the *heads* of several streams:

  Stream.Head / Next / SkipToTargetObject / Drain / fetchSource / isDone, Streams.CleanDone,
  iterator.NextItemInSliceStreams, addNextItemInSliceStreamsToBatch,
  fastPathUnion, fastPathIntersection, fastPathDifference

are modelled statement by statement; loops take fuel (`none` = fuel exhausted, excluded by the spec
theorems for fuel ≥ `weights ss + 2`).  The receives on the source channels block, so the messages a
set operation *sends* are a function of the messages its children send; the goroutine scheduling only
matters at the very end (fan-in into the `weight2` consumer loop), which is the set level
(`Model/Weight2.lean`).

Not modelled: context cancellation (`ctx.Err() != nil` ⇒ the operation stops early and whatever it
produced is discarded by the cancelled consumer), the `tuple.IsValidObject(target)` test of
`SkipToTargetObject` (object ids come from stored or validated contextual tuples), `Streams.Stop`.

The element type is generic (`α` with a decidable `<`): the code compares Go strings with `==`, `<`, `>`.
-/
namespace OpenFGAVerif.Weight2

/-- what `Head` / `Next` of an iterator report: a value, `ErrIteratorDone`, or another error -/
inductive Res (α : Type) where
  | val (a : α)
  | done
  | fail
  deriving Repr, DecidableEq

/-- a `storage.Iterator[string]` as the fast path sees it: the remaining items and whether it reports an
error instead of `Done` when exhausted (`ConditionsFilteredTupleKeyIterator` whose only tuples could not
be evaluated).  Batches produced by the set operations are static iterators (`failAtEnd = false`). -/
structure It (α : Type) where
  items : List α
  failAtEnd : Bool := false
  deriving Repr, DecidableEq

inductive Msg (α : Type) where
  | iter (it : It α)
  | err
  deriving Repr, DecidableEq

/-- the messages a producer sends before it closes its channel -/
abbrev Chan (α : Type) := List (Msg α)

structure Stream (α : Type) where
  idx : Nat
  buffer : Option (It α)
  closed : Bool            -- `sourceIsClosed`
  source : Chan α
  deriving Repr

variable {α : Type}

def mkStream (idx : Nat) (c : Chan α) : Stream α := { idx := idx, buffer := none, closed := false, source := c }

/-- `iterator.NewStream(idx, producerChan)` for every child, `iterator.NewStreams` -/
def mkStreams (cs : List (Chan α)) : List (Stream α) := cs.zipIdx.map (fun p => mkStream p.2 p.1)

/-- `Stream.Head`: an exhausted buffer is dropped (`s.buffer = nil`) and reported as Done -/
def Stream.head (s : Stream α) : Res α × Stream α :=
  match s.buffer with
  | none => (.done, s)
  | some it =>
    match it.items with
    | x :: _ => (.val x, s)
    | [] => if it.failAtEnd then (.fail, s) else (.done, { s with buffer := none })

/-- `Stream.Next` (after a reported error the conditions filter forgets it: the next call says Done) -/
def Stream.next (s : Stream α) : Res α × Stream α :=
  match s.buffer with
  | none => (.done, s)
  | some it =>
    match it.items with
    | x :: rest => (.val x, { s with buffer := some { it with items := rest } })
    | [] => if it.failAtEnd then (.fail, { s with buffer := some { items := [], failAtEnd := false } })
            else (.done, { s with buffer := none })

/-- `Stream.fetchSource`: `none` = an error message was received -/
def Stream.fetch (s : Stream α) : Option (Stream α) :=
  if s.buffer.isSome || s.closed then some s
  else match s.source with
    | [] => some { s with closed := true }
    | .err :: _ => none
    | .iter it :: rest => some { s with buffer := some it, source := rest }

def Stream.isDone (s : Stream α) : Bool := s.closed && s.buffer.isNone

/-- the loop of `Streams.CleanDone` that polls every stream, in order; stops at the first error -/
def fetchAll : List (Stream α) → Option (List (Stream α))
  | [] => some []
  | s :: rest =>
    match s.fetch with
    | none => none
    | some s' => (fetchAll rest).map (s' :: ·)

/-- `Streams.CleanDone`: poll, then drop the streams that are closed and drained -/
def cleanDone (ss : List (Stream α)) : Option (List (Stream α)) :=
  (fetchAll ss).map (fun l => l.filter (fun s => !s.isDone))

/-- `SkipToTargetObject`: advance within the current buffer until its head is ≥ target.
`none` = a non-Done error.  (`fuel` ≥ buffer length + 1.) -/
def Stream.skipTo [LT α] [DecidableLT α] (target : α) : Nat → Stream α → Option (Stream α)
  | 0, s => some s
  | fuel + 1, s =>
    if s.buffer.isNone then some s
    else match s.head with
      | (.done, s') => some s'
      | (.fail, _) => none
      | (.val t, s') =>
        if ¬ t < target then some s'
        else match s'.next with
          | (.val _, s'') => Stream.skipTo target fuel s''
          | (.done, s'') => some s''
          | (.fail, _) => none

def Stream.skipFuel (s : Stream α) : Nat :=
  match s.buffer with
  | none => 1
  | some it => it.items.length + 1

/-- `Stream.Drain`: all remaining items of the current buffer; `none` = a non-Done error -/
def Stream.drain (s : Stream α) : Option (List α × Stream α) :=
  match s.buffer with
  | none => some ([], s)
  | some it => if it.failAtEnd then none else some (it.items, { s with buffer := none })

/-- the heads of all streams, in order, as the `for idx, stream := range iterStreams` loops see them -/
inductive Heads (α : Type) where
  | all (hs : List α)                 -- every stream has a head (streams unchanged)
  | notAll (ss : List (Stream α))     -- `allIters = false; break`: the stream that reported Done lost its buffer
  | fail                              -- a non-Done error: sent to the consumer, the operation returns

def scanHeads : List (Stream α) → Heads α
  | [] => .all []
  | s :: rest =>
    match s.head with
    | (.fail, _) => .fail
    | (.done, s') => .notAll (s' :: rest)
    | (.val v, _) =>
      match scanHeads rest with
      | .all hs => .all (v :: hs)
      | .notAll rest' => .notAll (s :: rest')
      | .fail => .fail

/-- the min-selection of `fastPathUnion`: `if idx == 0 { minObject = v }; if minObject == v { append idx }
else if minObject > v { minObject = v; iters = [idx] }` -/
def selMinGo [LT α] [DecidableLT α] [DecidableEq α] : List α → Nat → α → List Nat → α × List Nat
  | [], _, m, is => (m, is)
  | v :: rest, i, m, is =>
    if m = v then selMinGo rest (i + 1) m (is ++ [i])
    else if v < m then selMinGo rest (i + 1) v [i]
    else selMinGo rest (i + 1) m is

/-- `none`: no streams (`minObject = ""`, no indices) -/
def selMin [LT α] [DecidableLT α] [DecidableEq α] (hs : List α) : Option (α × List Nat) :=
  match hs with
  | [] => none
  | v :: _ => some (selMinGo hs 0 v [])

/-- the max-selection of `fastPathIntersection` (`else if maxObject < v`) -/
def selMaxGo [LT α] [DecidableLT α] [DecidableEq α] : List α → Nat → α → List Nat → α × List Nat
  | [], _, m, is => (m, is)
  | v :: rest, i, m, is =>
    if m = v then selMaxGo rest (i + 1) m (is ++ [i])
    else if m < v then selMaxGo rest (i + 1) v [i]
    else selMaxGo rest (i + 1) m is

def selMax [LT α] [DecidableLT α] [DecidableEq α] (hs : List α) : Option (α × List Nat) :=
  match hs with
  | [] => none
  | v :: _ => some (selMaxGo hs 0 v [])

/-- `iterator.NextItemInSliceStreams`: `Next` on every listed stream, the last item wins; any error
(including Done, and an index out of range, which panics and is recovered as an error message) ⇒ `none`.
The item is `none` when no index was given (Go: the empty string). -/
def nextInSlice (ss : List (Stream α)) : List Nat → Option α → Option (Option α × List (Stream α))
  | [], item => some (item, ss)
  | i :: is, _ =>
    match ss[i]? with
    | none => none
    | some s =>
      match s.next with
      | (.val a, s') => nextInSlice (ss.set i s') is (some a)
      | _ => none

/-- state of a set operation: the batch being filled and the messages sent so far -/
structure Acc (α : Type) where
  batch : List α
  sent : Chan α
  deriving Repr

def Acc.empty : Acc α := { batch := [], sent := [] }

def Acc.sendErr (a : Acc α) : Acc α := { a with sent := a.sent ++ [.err] }

/-- the deferred flush: `if len(batch) > 0 { send batch }; close(outChan)` -/
def Acc.finish (a : Acc α) : Chan α :=
  if a.batch.length > 0 then a.sent ++ [.iter { items := a.batch }] else a.sent

/-- `if len(batch) > IteratorMinBatchThreshold { send batch; batch = make([]string, 0) }` -/
def Acc.maybeFlush (thr : Nat) (a : Acc α) : Acc α :=
  if a.batch.length > thr then { batch := [], sent := a.sent ++ [.iter { items := a.batch }] } else a

/-- `addNextItemInSliceStreamsToBatch`: on error the message is sent and the batch is **dropped**
(`return nil, err` assigned to `batch`), so the deferred flush sends nothing. -/
def addNext (thr : Nat) (ss : List (Stream α)) (idxs : List Nat) (a : Acc α) :
    Except (Acc α) (Acc α × List (Stream α)) :=
  match nextInSlice ss idxs none with
  | none => .error { batch := [], sent := a.sent ++ [.err] }
  | some (item, ss') =>
    let a1 : Acc α := match item with
      | some x => { a with batch := a.batch ++ [x] }
      | none => a
    .ok (a1.maybeFlush thr, ss')

/-! ### fastPathUnion -/

def unionLoop [LT α] [DecidableLT α] [DecidableEq α] (thr : Nat) :
    Nat → List (Stream α) → Acc α → Option (Chan α)
  | 0, _, _ => none
  | fuel + 1, ss, a =>
    if ss.length = 0 then some a.finish            -- `for streams.GetActiveStreamsCount() > 0`
    else match cleanDone ss with
      | none => some a.sendErr.finish
      | some ss1 =>
        match scanHeads ss1 with
        | .fail => some a.sendErr.finish
        | .notAll ss2 => unionLoop thr fuel ss2 a   -- `continue`
        | .all hs =>
          let idxs := match selMin hs with
            | some (_, is) => is
            | none => []
          match addNext thr ss1 idxs a with
          | .error a' => some a'.finish
          | .ok (a', ss2) => unionLoop thr fuel ss2 a'

/-! ### fastPathIntersection -/

/-- the loop `for _, stream := range iterStreams { SkipToTargetObject(maxObject) }` -/
def skipAll [LT α] [DecidableLT α] (target : α) : List (Stream α) → Option (List (Stream α))
  | [] => some []
  | s :: rest =>
    match s.skipTo target s.skipFuel with
    | none => none
    | some s' => (skipAll target rest).map (s' :: ·)

def interLoop [LT α] [DecidableLT α] [DecidableEq α] (thr total : Nat) :
    Nat → List (Stream α) → Acc α → Option (Chan α)
  | 0, _, _ => none
  | fuel + 1, ss, a =>
    if ss.length ≠ total then some a.finish        -- `for streams.GetActiveStreamsCount() == childrenTotal`
    else match cleanDone ss with
      | none => some a.sendErr.finish
      | some ss1 =>
        if ss1.length ≠ total then some a.finish    -- short circuit
        else match scanHeads ss1 with
          | .fail => some a.sendErr.finish
          | .notAll ss2 => interLoop thr total fuel ss2 a
          | .all hs =>
            match selMax hs with
            | none =>
              -- no children at all: `len(itersWithEqualObject) == childrenTotal` (0 = 0), nothing to advance
              match addNext thr ss1 [] a with
              | .error a' => some a'.finish
              | .ok (a', ss2) => interLoop thr total fuel ss2 a'
            | some (mx, idxs) =>
              if idxs.length = total then
                match addNext thr ss1 idxs a with
                | .error a' => some a'.finish
                | .ok (a', ss2) => interLoop thr total fuel ss2 a'
              else match skipAll mx ss1 with
                | none => some a.sendErr.finish
                | some ss2 => interLoop thr total fuel ss2 a

/-! ### fastPathDifference -/

/-- the final phase: `// drain the base` -/
def drainLoop (thr : Nat) : Nat → List (Stream α) → Acc α → Option (Chan α)
  | 0, _, _ => none
  | fuel + 1, ss, a =>
    match ss with
    | [s] =>                                           -- `for len(iterStreams) == 1`
      match s.drain with
      | none => some a.sendErr.finish
      | some (items, s') =>
        let a1 : Acc α := ({ a with batch := a.batch ++ items } : Acc α).maybeFlush thr
        match cleanDone [s'] with
        | none => some a1.sendErr.finish
        | some ss' => drainLoop thr fuel ss' a1
    | _ => some a.finish

def diffTail (thr baseIndex : Nat) (fuel : Nat) (ss : List (Stream α)) (a : Acc α) : Option (Chan α) :=
  match cleanDone ss with
  | none => some a.sendErr.finish
  | some ss1 =>
    match ss1 with
    | [s] => if s.idx = baseIndex then drainLoop thr fuel ss1 a else some a.finish
    | _ => some a.finish

def diffLoop [LT α] [DecidableLT α] [DecidableEq α] (thr baseIndex diffIndex : Nat) :
    Nat → List (Stream α) → Acc α → Option (Chan α)
  | 0, _, _ => none
  | fuel + 1, ss, a =>
    if ss.length ≠ 2 then diffTail thr baseIndex fuel ss a      -- `for streams.GetActiveStreamsCount() == 2`
    else match cleanDone ss with
      | none => some a.sendErr.finish
      | some ss1 =>
        if ss1.length ≠ 2 then diffTail thr baseIndex fuel ss1 a   -- `break`
        else match scanHeads ss1 with
          | .fail => some a.sendErr.finish
          | .notAll ss2 => diffLoop thr baseIndex diffIndex fuel ss2 a
          | .all hs =>
            match hs[baseIndex]?, hs[diffIndex]? with
            | some base, some diff =>
              if base = diff then
                match nextInSlice ss1 [baseIndex, diffIndex] none with
                | none => some a.sendErr.finish
                | some (_, ss2) => diffLoop thr baseIndex diffIndex fuel ss2 a
              else if base < diff then
                match addNext thr ss1 [baseIndex] a with
                | .error a' => some a'.finish
                | .ok (a', ss2) => diffLoop thr baseIndex diffIndex fuel ss2 a'
              else
                match ss1[diffIndex]? with
                | none => some a.sendErr.finish
                | some sd =>
                  match sd.skipTo base sd.skipFuel with
                  | none => some a.sendErr.finish
                  | some sd' => diffLoop thr baseIndex diffIndex fuel (ss1.set diffIndex sd') a
            | _, _ => some a.sendErr.finish   -- not reachable with indices 0 and 1 and two streams

/-! ### the three operations as functions from the children's channels to the output channel -/

def Msg.weight : Msg α → Nat
  | .iter it => 3 + 2 * it.items.length + (if it.failAtEnd then 1 else 0)
  | .err => 3

def Stream.weight (s : Stream α) : Nat :=
  (if s.closed then 0 else 1) +
  (match s.buffer with
   | none => 0
   | some it => 2 + 2 * it.items.length + (if it.failAtEnd then 1 else 0)) +
  (s.source.map Msg.weight).sum

def weights (ss : List (Stream α)) : Nat := (ss.map Stream.weight).sum

/-- enough fuel for every loop above -/
def fuelFor (cs : List (Chan α)) : Nat := 2 * weights (mkStreams cs) + 4

def fastPathUnion [LT α] [DecidableLT α] [DecidableEq α] (thr : Nat) (cs : List (Chan α)) : Option (Chan α) :=
  unionLoop thr (fuelFor cs) (mkStreams cs) Acc.empty

def fastPathIntersection [LT α] [DecidableLT α] [DecidableEq α] (thr : Nat) (cs : List (Chan α)) : Option (Chan α) :=
  interLoop thr cs.length (fuelFor cs) (mkStreams cs) Acc.empty

def fastPathDifference [LT α] [DecidableLT α] [DecidableEq α] (thr baseIndex diffIndex : Nat)
    (base sub : Chan α) : Option (Chan α) :=
  diffLoop thr baseIndex diffIndex (fuelFor [base, sub]) (mkStreams [base, sub]) Acc.empty

/-! ### reading a channel -/

def Msg.items : Msg α → List α
  | .iter it => it.items
  | .err => []

/-- all object ids a channel carries, in order -/
def Chan.items (c : Chan α) : List α := c.flatMap Msg.items

def Msg.clean : Msg α → Bool
  | .iter it => !it.failAtEnd
  | .err => false

/-- no error message and no failing iterator -/
def Chan.clean (c : Chan α) : Bool := c.all Msg.clean

end OpenFGAVerif.Weight2
