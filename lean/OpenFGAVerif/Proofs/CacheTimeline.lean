/-
Invariant proofs for the cache-controller timeline model (`Model/CacheTimeline.lean`), used by C11.

The invariant `Inv` says, for every change `c` of the changelog that a completed run has acted on
(`c.ts ≤ seen`):
  * `ICovered`: either `c` is older than the iterator TTL (so every iterator entry read before it has
    expired — *if* entries live at most `iterTTL` from the start of their read), or a marker stamped
    at/after `c` and outliving every such entry covers every key of `c`;
  * `QCovered`: either `c` is older than the query TTL, or the changelog entry carries a timestamp
    `≥ c.ts` and outlives every query entry stored before `c`.
It is preserved by every event of every schedule in which write timestamps strictly increase.
-/
import OpenFGAVerif.Model.CacheTimeline

namespace OpenFGAVerif.CacheTimeline

set_option linter.unusedSectionVars false

section
variable {K : Type} [DecidableEq K] (p : Params) (depsOf : Nat → List K)

def ICovered (s : St K) (c : Change K) : Prop :=
  c.ts + p.iterTTL ≤ s.now ∨
  (∃ m, s.storeMarker = some m ∧ c.ts ≤ m.lm ∧ c.ts + p.iterTTL ≤ m.exp) ∨
  (∀ k ∈ c.keys, ∃ m, s.markers k = some m ∧ c.ts ≤ m.lm ∧ c.ts + p.iterTTL ≤ m.exp)

def QCovered (s : St K) (c : Change K) : Prop :=
  c.ts + p.queryTTL ≤ s.now ∨ ∃ e, s.cl = some e ∧ c.ts ≤ e.lm ∧ c.ts + p.queryTTL ≤ e.exp

structure Inv (s : St K) : Prop where
  sorted : s.log.Pairwise (fun a b => a.ts < b.ts)
  le_now : ∀ c ∈ s.log, c.ts ≤ s.now
  seen_le : s.seen ≤ s.now
  cl_seen : ∀ e, s.cl = some e → e.lm ≤ s.seen
  pend : ∀ pd, s.pending = some pd →
    (∃ rest, s.log = pd.logR ++ rest) ∧ pd.lastCached ≤ s.seen ∧ (∀ c ∈ s.log, c.ts ≤ s.seen → c ∈ pd.logR)
  cov : ∀ c ∈ s.log, c.ts ≤ s.seen → ICovered p s c ∧ QCovered p s c

theorem inv_init : Inv p (St.init : St K) where
  sorted := by simp [St.init]
  le_now := by simp [St.init]
  seen_le := by simp [St.init]
  cl_seen := by simp [St.init]
  pend := by simp [St.init]
  cov := by simp [St.init]

/-! ### list facts -/

theorem mem_dropWhile_or {α : Type} (f : α → Bool) (l : List α) (x : α) (h : x ∈ l) :
    x ∈ l.dropWhile f ∨ f x = true := by
  induction l with
  | nil => cases h
  | cons a t ih =>
    by_cases ha : f a = true
    · rw [List.dropWhile_cons_of_pos ha]
      rcases List.mem_cons.mp h with rfl | h'
      · exact .inr ha
      · exact ih h'
    · rw [List.dropWhile_cons_of_neg ha]; exact .inl h

theorem dropWhile_length_ne {α : Type} (f : α → Bool) (l : List α) (h : (l.dropWhile f).length ≠ l.length) :
    ∃ a t, l = a :: t ∧ f a = true := by
  cases l with
  | nil => simp at h
  | cons a t =>
    by_cases ha : f a = true
    · exact ⟨a, t, rfl, ha⟩
    · rw [List.dropWhile_cons_of_neg ha] at h; exact absurd rfl h

theorem getLast?_ts_max (l : List (Change K)) (hs : l.Pairwise (fun a b => a.ts < b.ts)) (n : Change K)
    (hn : l.getLast? = some n) : ∀ c ∈ l, c.ts ≤ n.ts := by
  induction l with
  | nil => simp at hn
  | cons a t ih =>
    intro c hc
    cases t with
    | nil =>
      simp at hn hc; subst hn; subst hc; exact Nat.le_refl _
    | cons b t' =>
      have hn' : (b :: t').getLast? = some n := by simpa [List.getLast?_cons_cons] using hn
      have hs' := (List.pairwise_cons.mp hs)
      rcases List.mem_cons.mp hc with rfl | hc'
      · have hnm : n ∈ (b :: t') := List.mem_of_getLast? hn'
        exact Nat.le_of_lt (hs'.1 n hnm)
      · exact ih hs'.2 hn' c hc'

/-- a change of the current log that is not newer than the newest change of a prefix lies in the prefix -/
theorem mem_prefix_of_le (l rest : List (Change K)) (hs : (l ++ rest).Pairwise (fun a b => a.ts < b.ts))
    (n : Change K) (hn : n ∈ l) (c : Change K) (hc : c ∈ l ++ rest) (hle : c.ts ≤ n.ts) : c ∈ l := by
  rcases List.mem_append.mp hc with h | h
  · exact h
  · have := (List.pairwise_append.mp hs).2.2 n hn c h
    omega

/-! ### monotonicity of the coverage predicates -/

theorem icovered_mono {s s' : St K} {c : Change K} (hnow : s.now ≤ s'.now)
    (hst : ∀ m, s.storeMarker = some m → ∃ m', s'.storeMarker = some m' ∧ m.lm ≤ m'.lm ∧ m.exp ≤ m'.exp)
    (hmk : ∀ k m, s.markers k = some m → ∃ m', s'.markers k = some m' ∧ m.lm ≤ m'.lm ∧ m.exp ≤ m'.exp)
    (h : ICovered p s c) : ICovered p s' c := by
  rcases h with h | ⟨m, hm, h1, h2⟩ | h
  · exact .inl (by omega)
  · obtain ⟨m', hm', a, b⟩ := hst m hm
    exact .inr (.inl ⟨m', hm', by omega, by omega⟩)
  · refine .inr (.inr ?_)
    intro k hk
    obtain ⟨m, hm, h1, h2⟩ := h k hk
    obtain ⟨m', hm', a, b⟩ := hmk k m hm
    exact ⟨m', hm', by omega, by omega⟩

theorem qcovered_mono {s s' : St K} {c : Change K} (hnow : s.now ≤ s'.now) (hcl : s'.cl = s.cl)
    (h : QCovered p s c) : QCovered p s' c := by
  rcases h with h | ⟨e, he, h1, h2⟩
  · exact .inl (by omega)
  · exact .inr ⟨e, by rw [hcl]; exact he, h1, h2⟩

/-- a state that differs only in clock, data entries and log keeps coverage -/
theorem cov_frame {s s' : St K} {c : Change K} (hnow : s.now ≤ s'.now) (hcl : s'.cl = s.cl)
    (hst : s'.storeMarker = s.storeMarker) (hmk : s'.markers = s.markers)
    (h : ICovered p s c ∧ QCovered p s c) : ICovered p s' c ∧ QCovered p s' c := by
  refine ⟨icovered_mono p hnow ?_ ?_ h.1, qcovered_mono p hnow hcl h.2⟩
  · intro m hm; exact ⟨m, by rw [hst]; exact hm, Nat.le_refl _, Nat.le_refl _⟩
  · intro k m hm; exact ⟨m, by rw [hmk]; exact hm, Nat.le_refl _, Nat.le_refl _⟩

/-! ### preservation -/

/-- what an event must satisfy for the invariant: writes get fresh timestamps -/
def EvOK : Ev K → Prop
  | .write dt _ => 1 ≤ dt
  | _ => True

theorem inv_frame {s s' : St K} (h : Inv p s) (hnow : s.now ≤ s'.now) (hlog : s'.log = s.log)
    (hcl : s'.cl = s.cl) (hst : s'.storeMarker = s.storeMarker) (hmk : s'.markers = s.markers)
    (hpd : s'.pending = s.pending) (hseen : s'.seen = s.seen) : Inv p s' where
  sorted := by rw [hlog]; exact h.sorted
  le_now := by intro c hc; rw [hlog] at hc; have := h.le_now c hc; omega
  seen_le := by rw [hseen]; have := h.seen_le; omega
  cl_seen := by intro e he; rw [hcl] at he; rw [hseen]; exact h.cl_seen e he
  pend := by
    intro pd hp; rw [hpd] at hp; rw [hlog, hseen]; exact h.pend pd hp
  cov := by
    intro c hc hle; rw [hlog] at hc; rw [hseen] at hle
    exact cov_frame p hnow hcl hst hmk (h.cov c hc hle)

theorem inv_write (hstore : p.iterTTL ≤ p.storeTTL) {s : St K} (h : Inv p s) (dt : Nat) (keys : List K) (hdt : 1 ≤ dt) :
    Inv p (step p depsOf s (.write dt keys)) := by
  have _ := hstore
  simp only [step]
  constructor
  · -- sorted
    show (s.log ++ [_]).Pairwise _
    rw [List.pairwise_append]
    refine ⟨h.sorted, by simp, ?_⟩
    intro a ha b hb
    simp at hb; subst hb
    have := h.le_now a ha
    show a.ts < s.now + dt
    omega
  · intro c hc
    show c.ts ≤ s.now + dt
    rcases List.mem_append.mp hc with hc | hc
    · have := h.le_now c hc; omega
    · simp at hc; subst hc; exact Nat.le_refl _
  · show s.seen ≤ s.now + dt
    have := h.seen_le; omega
  · exact h.cl_seen
  · intro pd hp
    obtain ⟨⟨rest, hr⟩, h2, h3⟩ := h.pend pd hp
    refine ⟨⟨rest ++ [_], by show s.log ++ [_] = _; rw [hr, List.append_assoc]⟩, h2, ?_⟩
    intro c hc hle
    rcases List.mem_append.mp hc with hc | hc
    · exact h3 c hc hle
    · simp at hc; subst hc
      have := h.seen_le
      have hle' : s.now + dt ≤ s.seen := hle
      omega
  · intro c hc hle
    rcases List.mem_append.mp hc with hc | hc
    · exact cov_frame p (s := s) (by show s.now ≤ s.now + dt; omega) rfl rfl rfl (h.cov c hc hle)
    · simp at hc; subst hc
      have := h.seen_le
      have hle' : s.now + dt ≤ s.seen := hle
      omega

theorem inv_runRead {s : St K} (h : Inv p s) : Inv p (step p depsOf s .runRead) := by
  simp only [step]
  cases hp : s.pending with
  | some pd => simpa [hp] using h
  | none =>
    simp only []
    refine { sorted := h.sorted, le_now := h.le_now, seen_le := h.seen_le, cl_seen := h.cl_seen, pend := ?_, cov := ?_ }
    · intro pd hpd
      simp at hpd; subst hpd
      refine ⟨⟨[], by simp⟩, ?_, fun c hc _ => hc⟩
      show invTime s ≤ s.seen
      unfold invTime
      cases hcl : s.cl with
      | none => simp
      | some e =>
        simp only []
        split
        · exact h.cl_seen e hcl
        · exact Nat.zero_le _
    · intro c hc hle
      exact cov_frame p (s := s) (Nat.le_refl _) rfl rfl rfl (h.cov c hc hle)

theorem page_reverse (l : List (Change K)) : (page p l).reverse = l.drop (l.length - p.pageSize) := by
  unfold page
  rw [List.reverse_take]
  simp

theorem inv_runEnd (hstore : p.iterTTL ≤ p.storeTTL) {s : St K} (h : Inv p s) (d0 d1 d2 : Nat) :
    Inv p (step p depsOf s (.runEnd d0 d1 d2)) := by
  simp only [step]
  cases hp : s.pending with
  | none => simpa [hp] using h
  | some pd =>
    simp only []
    obtain ⟨⟨rest, hrest⟩, hlc, hall⟩ := h.pend pd hp
    cases hn : newest pd.logR with
    | none =>
      -- error path: the changelog was empty at the read
      simp only []
      have hnil : pd.logR = [] := by
        unfold newest at hn; exact List.getLast?_eq_none_iff.mp hn
      refine { sorted := h.sorted, le_now := ?_, seen_le := ?_, cl_seen := h.cl_seen, pend := by simp, cov := ?_ }
      · intro c hc; have := h.le_now c hc; show c.ts ≤ s.now + d0 + d1 + d2; omega
      · have := h.seen_le; show s.seen ≤ s.now + d0 + d1 + d2; omega
      · intro c hc hle
        have := hall c hc hle
        rw [hnil] at this; cases this
    | some n =>
      simp only []
      have hnmem : n ∈ pd.logR := List.mem_of_getLast? hn
      have hsortR : pd.logR.Pairwise (fun a b => a.ts < b.ts) := by
        have := h.sorted; rw [hrest] at this; exact (List.pairwise_append.mp this).1
      have hmax := getLast?_ts_max pd.logR hsortR n hn
      have hnlog : n ∈ s.log := by rw [hrest]; exact List.mem_append_left _ hnmem
      have hn_now : n.ts ≤ s.now := h.le_now n hnlog
      -- membership in the snapshot for everything the new `seen` covers
      have hinR : ∀ c ∈ s.log, c.ts ≤ max s.seen n.ts → c ∈ pd.logR := by
        intro c hc hle
        by_cases h1 : c.ts ≤ s.seen
        · exact hall c hc h1
        · have : c.ts ≤ n.ts := by
            rcases Nat.le_total s.seen n.ts with hh | hh
            · rw [Nat.max_eq_right hh] at hle; exact hle
            · rw [Nat.max_eq_left hh] at hle; exact absurd hle h1
          have hs := h.sorted; rw [hrest] at hs
          exact mem_prefix_of_le pd.logR rest hs n hnmem c (by rw [← hrest]; exact hc) this
      -- the query side holds for every change of the snapshot, whatever the branch
      have hq : ∀ (s' : St K), s'.now = s.now + d0 + d1 + d2 →
          s'.cl = some { lm := n.ts, checked := s.now + d0, exp := s.now + d0 + p.queryTTL } →
          ∀ c ∈ pd.logR, QCovered p s' c := by
        intro s' _ hcl c hc
        refine .inr ⟨_, hcl, hmax c hc, ?_⟩
        have : c.ts ≤ s.now := h.le_now c (by rw [hrest]; exact List.mem_append_left _ hc)
        show c.ts + p.queryTTL ≤ s.now + d0 + p.queryTTL
        omega
      -- the common part of the three result states
      have base : ∀ (s' : St K), s'.now = s.now + d0 + d1 + d2 → s'.log = s.log → s'.pending = none →
          s'.seen = max s.seen n.ts →
          s'.cl = some { lm := n.ts, checked := s.now + d0, exp := s.now + d0 + p.queryTTL } →
          (∀ c ∈ pd.logR, c.ts ≤ max s.seen n.ts → ICovered p s' c) → Inv p s' := by
        intro s' hnow hlog hpend hseen hcl hic
        refine { sorted := by rw [hlog]; exact h.sorted, le_now := ?_, seen_le := ?_, cl_seen := ?_, pend := ?_, cov := ?_ }
        · intro c hc; rw [hlog] at hc; have := h.le_now c hc; omega
        · rw [hseen, hnow]; have := h.seen_le
          exact Nat.max_le.mpr ⟨by omega, by omega⟩
        · intro e he; rw [hcl] at he; cases he; rw [hseen]; exact Nat.le_max_right _ _
        · intro pd' hpd'; rw [hpend] at hpd'; cases hpd'
        · intro c hc hle
          rw [hlog] at hc; rw [hseen] at hle
          have hcR := hinR c hc hle
          exact ⟨hic c hcR hle, hq s' hnow hcl c hcR⟩
      by_cases hnone : n.ts ≤ pd.lastCached
      · -- no new change: nothing is invalidated
        rw [if_pos hnone]
        refine base _ rfl rfl rfl rfl rfl ?_
        intro c hc hle
        have hseen : max s.seen n.ts = s.seen := Nat.max_eq_left (by omega)
        rw [hseen] at hle
        have hclog : c ∈ s.log := by rw [hrest]; exact List.mem_append_left _ hc
        refine icovered_mono p (s := s) (by show s.now ≤ s.now + d0 + d1 + d2; omega) ?_ ?_ (h.cov c hclog hle).1
        · intro m hm; exact ⟨m, hm, Nat.le_refl _, Nat.le_refl _⟩
        · intro k m hm; exact ⟨m, hm, Nat.le_refl _, Nat.le_refl _⟩
      · rw [if_neg hnone]
        by_cases hfull : (inWindowSuffix p (s.now + d0 + d1) (page p pd.logR)).length = (page p pd.logR).length
        · -- full invalidation
          rw [if_pos hfull]
          refine base _ rfl rfl rfl rfl rfl ?_
          intro c hc _
          have : c.ts ≤ s.now := h.le_now c (by rw [hrest]; exact List.mem_append_left _ hc)
          exact .inr (.inl ⟨_, rfl, by show c.ts ≤ s.now + d0 + d1 + d2; omega,
            by show c.ts + p.iterTTL ≤ s.now + d0 + d1 + d2 + p.storeTTL; omega⟩)
        · -- partial invalidation
          rw [if_neg hfull]
          refine base _ rfl rfl rfl rfl rfl ?_
          intro c hc hle
          have hc_now : c.ts ≤ s.now := h.le_now c (by rw [hrest]; exact List.mem_append_left _ hc)
          -- the window test on `c`
          by_cases hout : c.ts + p.iterTTL ≤ s.now + d0 + d1
          · exact .inl (by show c.ts + p.iterTTL ≤ s.now + d0 + d1 + d2; omega)
          · -- `c` is inside the window: it must be among the marked changes
            have hmarked : c ∈ inWindowSuffix p (s.now + d0 + d1) (page p pd.logR) := by
              unfold inWindowSuffix
              rw [page_reverse]
              -- is `c` in the page?
              have hsplit : pd.logR = pd.logR.take (pd.logR.length - p.pageSize) ++ pd.logR.drop (pd.logR.length - p.pageSize) :=
                (List.take_append_drop _ _).symm
              have hcm : c ∈ pd.logR.take (pd.logR.length - p.pageSize) ++ pd.logR.drop (pd.logR.length - p.pageSize) := by
                rw [← hsplit]; exact hc
              rcases List.mem_append.mp hcm with hpre | hsuf
              · -- older than the whole page: the oldest change of the page was dropped, so it is outside
                -- the window, and so is `c`
                exfalso
                have hne : (List.dropWhile (fun c => decide (c.ts + p.iterTTL ≤ s.now + d0 + d1))
                    (pd.logR.drop (pd.logR.length - p.pageSize))).length ≠
                    (pd.logR.drop (pd.logR.length - p.pageSize)).length := by
                  have := hfull
                  unfold inWindowSuffix at this
                  rw [page_reverse] at this
                  intro heq; apply this
                  rw [heq, ← page_reverse p pd.logR, List.length_reverse]
                obtain ⟨a, t, hat, hfa⟩ := dropWhile_length_ne _ _ hne
                have ha_mem : a ∈ pd.logR.drop (pd.logR.length - p.pageSize) := by rw [hat]; simp
                have hs2 : (pd.logR.take (pd.logR.length - p.pageSize) ++ pd.logR.drop (pd.logR.length - p.pageSize)).Pairwise
                    (fun a b => a.ts < b.ts) := by rw [← hsplit]; exact hsortR
                have hlt := (List.pairwise_append.mp hs2).2.2 c hpre a ha_mem
                have : a.ts + p.iterTTL ≤ s.now + d0 + d1 := by simpa using hfa
                omega
              · have hmd := mem_dropWhile_or (fun x : Change K => decide (x.ts + p.iterTTL ≤ s.now + d0 + d1))
                  (pd.logR.drop (pd.logR.length - p.pageSize)) c hsuf
                rcases hmd with hm | hf
                · exact hm
                · exact absurd (by simpa using hf) hout
            refine .inr (.inr ?_)
            intro k hk
            refine ⟨{ lm := s.now + d0 + d1 + d2, exp := s.now + d0 + d1 + d2 + p.iterTTL }, ?_,
              by show c.ts ≤ s.now + d0 + d1 + d2; omega,
              by show c.ts + p.iterTTL ≤ s.now + d0 + d1 + d2 + p.iterTTL; omega⟩
            show setMarkers p _ _ s.markers k = _
            unfold setMarkers
            have : k ∈ List.flatMap (fun x => x.keys) (inWindowSuffix p (s.now + d0 + d1) (page p pd.logR)) :=
              List.mem_flatMap.mpr ⟨c, hmarked, hk⟩
            rw [if_pos this]

theorem inv_step (hstore : p.iterTTL ≤ p.storeTTL) {s : St K} (h : Inv p s) (ev : Ev K) (hev : EvOK ev) :
    Inv p (step p depsOf s ev) := by
  cases ev with
  | tick dt => exact inv_frame p h (by show s.now ≤ s.now + dt; omega) rfl rfl rfl rfl rfl rfl
  | write dt keys => exact inv_write p depsOf hstore h dt keys hev
  | popIter key age life store =>
    simp only [step]; split
    · exact inv_frame p h (Nat.le_refl _) rfl rfl rfl rfl rfl rfl
    · exact h
  | popQuery key age life => exact inv_frame p h (Nat.le_refl _) rfl rfl rfl rfl rfl rfl
  | runRead => exact inv_runRead p depsOf h
  | runEnd d0 d1 d2 => exact inv_runEnd p depsOf hstore h d0 d1 d2
  | lookupIter key =>
    simp only [step]; split
    · split
      · exact inv_frame p h (Nat.le_refl _) rfl rfl rfl rfl rfl rfl
      · exact h
    · exact h
  | evict iter key =>
    simp only [step]; split
    · exact inv_frame p h (Nat.le_refl _) rfl rfl rfl rfl rfl rfl
    · exact inv_frame p h (Nat.le_refl _) rfl rfl rfl rfl rfl rfl

theorem strict_cons (ev : Ev K) (evs : List (Ev K)) (h : StrictWrites (ev :: evs)) : EvOK ev ∧ StrictWrites evs := by
  cases ev <;> simp_all [StrictWrites, EvOK]

theorem inv_run (hstore : p.iterTTL ≤ p.storeTTL) (evs : List (Ev K)) {s : St K} (h : Inv p s) (hs : StrictWrites evs) :
    Inv p (run p depsOf s evs) := by
  induction evs generalizing s with
  | nil => exact h
  | cons ev evs ih =>
    obtain ⟨h1, h2⟩ := strict_cons ev evs hs
    exact ih (inv_step p depsOf hstore h ev h1) h2

theorem strict_append (a b : List (Ev K)) : StrictWrites (a ++ b) ↔ StrictWrites a ∧ StrictWrites b := by
  induction a with
  | nil => simp [StrictWrites]
  | cons ev a ih => cases ev <;> simp [StrictWrites, ih, and_assoc]

theorem run_append (s : St K) (a b : List (Ev K)) : run p depsOf s (a ++ b) = run p depsOf (run p depsOf s a) b := by
  simp [run, List.foldl_append]

/-! ### lifetimes of the data entries -/

def ILife (s : St K) : Prop := ∀ key e, s.iters key = some e → e.exp ≤ e.lm + p.iterTTL
def QLife (s : St K) : Prop := ∀ key q, s.queries key = some q → q.exp ≤ q.lm + p.queryTTL

theorem ilife_step {s : St K} (h : ILife p s) (h2 : s.now ≤ s.now) (ev : Ev K) (hev : IterLifeOK p [ev]) :
    ILife p (step p depsOf s ev) := by
  have _ := h2
  cases ev with
  | popIter key age life store =>
    simp only [step]; split
    · intro k e he
      simp only [] at he
      split at he
      · cases he
        show s.now + life ≤ s.now - age + p.iterTTL
        have : age + life ≤ p.iterTTL := hev.1
        -- `now - age` is truncated: the entry cannot be older than the clock
        by_cases hage : age ≤ s.now
        · omega
        · omega
      · exact h k e he
    · exact h
  | lookupIter key =>
    simp only [step]; split
    · split
      · intro k e he; simp only [] at he; split at he
        · cases he
        · exact h k e he
      · exact h
    · exact h
  | evict iter key =>
    simp only [step]; split
    · intro k e he; simp only [] at he; split at he
      · cases he
      · exact h k e he
    · exact h
  | tick dt => exact h
  | write dt keys => exact h
  | popQuery key age life => exact h
  | runRead => simp only [step]; split <;> exact h
  | runEnd d0 d1 d2 =>
    simp only [step]; split
    · exact h
    · split
      · exact h
      · split
        · exact h
        · split <;> exact h

theorem ilife_cons (ev : Ev K) (evs : List (Ev K)) (h : IterLifeOK p (ev :: evs)) : IterLifeOK p [ev] ∧ IterLifeOK p evs := by
  cases ev <;> simp_all [IterLifeOK]

theorem ilife_run (evs : List (Ev K)) {s : St K} (h : ILife p s) (hs : IterLifeOK p evs) : ILife p (run p depsOf s evs) := by
  induction evs generalizing s with
  | nil => exact h
  | cons ev evs ih =>
    obtain ⟨h1, h2⟩ := ilife_cons p ev evs hs
    exact ih (ilife_step p depsOf h (Nat.le_refl _) ev h1) h2

theorem qlife_step {s : St K} (h : QLife p s) (ev : Ev K) (hev : QueryLifeOK p [ev]) :
    QLife p (step p depsOf s ev) := by
  cases ev with
  | popQuery key age life =>
    intro k q hq
    simp only [step] at hq
    split at hq
    · cases hq
      show s.now + life ≤ s.now + p.queryTTL
      have : life ≤ p.queryTTL := hev.1
      omega
    · exact h k q hq
  | evict iter key =>
    simp only [step]; split
    · exact h
    · intro k q hq; simp only [] at hq; split at hq
      · cases hq
      · exact h k q hq
  | tick dt => exact h
  | write dt keys => exact h
  | popIter key age life store => simp only [step]; split <;> exact h
  | runRead => simp only [step]; split <;> exact h
  | lookupIter key =>
    simp only [step]; split
    · split <;> exact h
    · exact h
  | runEnd d0 d1 d2 =>
    simp only [step]; split
    · exact h
    · split
      · exact h
      · split
        · exact h
        · split <;> exact h

theorem qlife_cons (ev : Ev K) (evs : List (Ev K)) (h : QueryLifeOK p (ev :: evs)) : QueryLifeOK p [ev] ∧ QueryLifeOK p evs := by
  cases ev <;> simp_all [QueryLifeOK]

theorem qlife_run (evs : List (Ev K)) {s : St K} (h : QLife p s) (hs : QueryLifeOK p evs) : QLife p (run p depsOf s evs) := by
  induction evs generalizing s with
  | nil => exact h
  | cons ev evs ih =>
    obtain ⟨h1, h2⟩ := qlife_cons p ev evs hs
    exact ih (qlife_step p depsOf h ev h1) h2

/-! ### lookups against a covered change -/

theorem markerInvalidates_true {now ts : Nat} {m : Marker} (h1 : now < m.exp) (h2 : ts < m.lm) :
    markerInvalidates now ts (some m) = true := by
  simp [markerInvalidates, h1, h2]

/-- **iterator lookups**: an entry whose read started before a covered change it depends on is never
served, provided it lives at most `iterTTL` from the start of its read. -/
theorem iter_hit_fresh {s : St K} {c : Change K} {key : Nat} {e : IterEntry}
    (hcov : ICovered p s c) (hhit : iterHit depsOf s key = some e)
    (hdep : ∃ k ∈ depsOf key, k ∈ c.keys) (hlife : e.exp ≤ e.lm + p.iterTTL) : c.ts ≤ e.lm := by
  unfold iterHit at hhit
  cases hi : s.iters key with
  | none => simp [hi] at hhit
  | some e' =>
    simp only [hi] at hhit
    split at hhit
    · rename_i hcond
      have hee : e' = e := Option.some.inj hhit
      rw [hee] at hcond
      simp only [Bool.and_eq_true, decide_eq_true_eq, Bool.not_eq_true'] at hcond
      obtain ⟨halive, hvalid⟩ := hcond
      refine Nat.le_of_not_lt fun hlt => ?_
      rcases hcov with h | ⟨m, hm, h1, h2⟩ | h
      · omega
      · have : invalidAt s e.lm (depsOf key) = true := by
          unfold invalidAt
          rw [hm, markerInvalidates_true (by omega) (by omega)]; rfl
        rw [this] at hvalid; cases hvalid
      · obtain ⟨k, hk1, hk2⟩ := hdep
        obtain ⟨m, hm, h1, h2⟩ := h k hk2
        have : invalidAt s e.lm (depsOf key) = true := by
          unfold invalidAt
          have : (depsOf key).any (fun k => markerInvalidates s.now e.lm (s.markers k)) = true :=
            List.any_eq_true.mpr ⟨k, hk1, by rw [hm]; exact markerInvalidates_true (by omega) (by omega)⟩
          rw [this]; simp
        rw [this] at hvalid; cases hvalid
    · cases hhit

/-- **query lookups**: an entry stored before (or at) a covered change is never served, provided it
lives at most `queryTTL`. -/
theorem query_hit_fresh {s : St K} {c : Change K} {key : Nat} {q : QEntry}
    (hcov : QCovered p s c) (hhit : queryHit s key = some q) (hlife : q.exp ≤ q.lm + p.queryTTL) :
    c.ts < q.lm := by
  unfold queryHit at hhit
  cases hi : s.queries key with
  | none => simp [hi] at hhit
  | some q' =>
    simp only [hi] at hhit
    split at hhit
    · rename_i hcond
      have hqq : q' = q := Option.some.inj hhit
      rw [hqq] at hcond
      simp only [Bool.and_eq_true, decide_eq_true_eq] at hcond
      obtain ⟨halive, hvalid⟩ := hcond
      rcases hcov with h | ⟨e, he, h1, h2⟩
      · omega
      · unfold invTime at hvalid
        rw [he] at hvalid
        simp only [] at hvalid
        split at hvalid
        · omega
        · omega
    · cases hhit

/-! ### what a completed run establishes -/

theorem seen_mono_step (s : St K) (ev : Ev K) : s.seen ≤ (step p depsOf s ev).seen := by
  cases ev with
  | runEnd d0 d1 d2 =>
    simp only [step]; split
    · exact Nat.le_refl _
    · split
      · exact Nat.le_refl _
      · split
        · exact Nat.le_max_left _ _
        · split <;> exact Nat.le_max_left _ _
  | popIter key age life store => simp only [step]; split <;> exact Nat.le_refl _
  | runRead => simp only [step]; split <;> exact Nat.le_refl _
  | lookupIter key =>
    simp only [step]; split
    · split <;> exact Nat.le_refl _
    · exact Nat.le_refl _
  | evict iter key => simp only [step]; split <;> exact Nat.le_refl _
  | tick dt => exact Nat.le_refl _
  | write dt keys => exact Nat.le_refl _
  | popQuery key age life => exact Nat.le_refl _

theorem seen_mono_run (evs : List (Ev K)) (s : St K) : s.seen ≤ (run p depsOf s evs).seen := by
  induction evs generalizing s with
  | nil => exact Nat.le_refl _
  | cons ev evs ih => exact Nat.le_trans (seen_mono_step p depsOf s ev) (ih _)

theorem log_mono_step (s : St K) (ev : Ev K) (c : Change K) (hc : c ∈ s.log) : c ∈ (step p depsOf s ev).log := by
  cases ev with
  | write dt keys => exact List.mem_append_left _ hc
  | runEnd d0 d1 d2 =>
    simp only [step]; split
    · exact hc
    · split
      · exact hc
      · split
        · exact hc
        · split <;> exact hc
  | popIter key age life store => simp only [step]; split <;> exact hc
  | runRead => simp only [step]; split <;> exact hc
  | lookupIter key =>
    simp only [step]; split
    · split <;> exact hc
    · exact hc
  | evict iter key => simp only [step]; split <;> exact hc
  | tick dt => exact hc
  | popQuery key age life => exact hc

theorem log_mono_run (evs : List (Ev K)) (s : St K) (c : Change K) (hc : c ∈ s.log) : c ∈ (run p depsOf s evs).log := by
  induction evs generalizing s with
  | nil => exact hc
  | cons ev evs ih => exact ih _ (log_mono_step p depsOf s ev c hc)

/-- a run in flight stays in flight (with the same snapshot) until its `runEnd` -/
theorem pending_keep_step (s : St K) (ev : Ev K) (pd : Pending K) (hp : s.pending = some pd) (hev : NoRunEnd [ev]) :
    (step p depsOf s ev).pending = some pd := by
  cases ev with
  | runEnd d0 d1 d2 => cases hev
  | runRead => simp only [step, hp]
  | popIter key age life store => simp only [step]; split <;> exact hp
  | lookupIter key =>
    simp only [step]; split
    · split <;> exact hp
    · exact hp
  | evict iter key => simp only [step]; split <;> exact hp
  | tick dt => exact hp
  | write dt keys => exact hp
  | popQuery key age life => exact hp

theorem noRunEnd_cons (ev : Ev K) (evs : List (Ev K)) (h : NoRunEnd (ev :: evs)) : NoRunEnd [ev] ∧ NoRunEnd evs := by
  cases ev <;> simp_all [NoRunEnd]

theorem pending_keep_run (evs : List (Ev K)) (s : St K) (pd : Pending K) (hp : s.pending = some pd) (hev : NoRunEnd evs) :
    (run p depsOf s evs).pending = some pd := by
  induction evs generalizing s with
  | nil => exact hp
  | cons ev evs ih =>
    obtain ⟨h1, h2⟩ := noRunEnd_cons ev evs hev
    exact ih _ (pending_keep_step p depsOf s ev pd hp h1) h2

/-- the end of a run whose snapshot contains `w` raises `seen` to at least `w.ts` -/
theorem runEnd_sees {s : St K} (h : Inv p s) (pd : Pending K) (hp : s.pending = some pd) (w : Change K)
    (hw : w ∈ pd.logR) (d0 d1 d2 : Nat) : w.ts ≤ (step p depsOf s (.runEnd d0 d1 d2)).seen := by
  obtain ⟨⟨rest, hrest⟩, _, _⟩ := h.pend pd hp
  have hsortR : pd.logR.Pairwise (fun a b => a.ts < b.ts) := by
    have := h.sorted; rw [hrest] at this; exact (List.pairwise_append.mp this).1
  simp only [step, hp]
  cases hn : newest pd.logR with
  | none =>
    have : pd.logR = [] := by unfold newest at hn; exact List.getLast?_eq_none_iff.mp hn
    rw [this] at hw; cases hw
  | some n =>
    have hmax := getLast?_ts_max pd.logR hsortR n hn w hw
    simp only []
    split
    · exact Nat.le_trans hmax (Nat.le_max_right _ _)
    · split <;> exact Nat.le_trans hmax (Nat.le_max_right _ _)

/-! ### a run only adds / refreshes control entries (every schedule, no hypothesis) -/

theorem getLast?_ts_max_le (l : List (Change K)) (hs : l.Pairwise (fun a b => a.ts ≤ b.ts)) (n : Change K)
    (hn : l.getLast? = some n) : ∀ c ∈ l, c.ts ≤ n.ts := by
  induction l with
  | nil => simp at hn
  | cons a t ih =>
    intro c hc
    cases t with
    | nil =>
      simp at hn hc; subst hn; subst hc; exact Nat.le_refl _
    | cons b t' =>
      have hn' : (b :: t').getLast? = some n := by simpa [List.getLast?_cons_cons] using hn
      have hs' := (List.pairwise_cons.mp hs)
      rcases List.mem_cons.mp hc with rfl | hc'
      · exact hs'.1 n (List.mem_of_getLast? hn')
      · exact ih hs'.2 hn' c hc'

/-- well-formed control entries: stamped in the past, expiring at most their TTL after the stamp; the
changelog entry carries the timestamp of a logged change that every later snapshot contains -/
structure Inv2 (s : St K) : Prop where
  store_wf : ∀ m, s.storeMarker = some m → m.lm ≤ s.now ∧ m.exp ≤ m.lm + p.storeTTL
  marker_wf : ∀ k m, s.markers k = some m → m.lm ≤ s.now ∧ m.exp ≤ m.lm + p.iterTTL
  cl_exp : ∀ e, s.cl = some e → e.exp ≤ s.now + p.queryTTL
  sorted_le : s.log.Pairwise (fun a b => a.ts ≤ b.ts)
  le_now : ∀ c ∈ s.log, c.ts ≤ s.now
  pend_sub : ∀ pd, s.pending = some pd → ∃ rest, s.log = pd.logR ++ rest
  cl_in : ∀ e, s.cl = some e → ∃ c ∈ s.log, c.ts = e.lm
  pend_cl : ∀ pd e, s.pending = some pd → s.cl = some e → ∃ c ∈ pd.logR, c.ts = e.lm

theorem inv2_init : Inv2 p (St.init : St K) where
  store_wf := by simp [St.init]
  marker_wf := by simp [St.init]
  cl_exp := by simp [St.init]
  sorted_le := by simp [St.init]
  le_now := by simp [St.init]
  pend_sub := by simp [St.init]
  cl_in := by simp [St.init]
  pend_cl := by simp [St.init]

theorem inv2_frame {s s' : St K} (h : Inv2 p s) (hnow : s.now ≤ s'.now) (hlog : s'.log = s.log)
    (hcl : s'.cl = s.cl) (hst : s'.storeMarker = s.storeMarker) (hmk : s'.markers = s.markers)
    (hpd : s'.pending = s.pending) : Inv2 p s' where
  store_wf := by intro m hm; rw [hst] at hm; have := h.store_wf m hm; exact ⟨by omega, this.2⟩
  marker_wf := by intro k m hm; rw [hmk] at hm; have := h.marker_wf k m hm; exact ⟨by omega, this.2⟩
  cl_exp := by intro e he; rw [hcl] at he; have := h.cl_exp e he; omega
  sorted_le := by rw [hlog]; exact h.sorted_le
  le_now := by intro c hc; rw [hlog] at hc; have := h.le_now c hc; omega
  pend_sub := by intro pd hp; rw [hpd] at hp; rw [hlog]; exact h.pend_sub pd hp
  cl_in := by intro e he; rw [hcl] at he; rw [hlog]; exact h.cl_in e he
  pend_cl := by intro pd e hp he; rw [hpd] at hp; rw [hcl] at he; exact h.pend_cl pd e hp he

theorem inv2_step {s : St K} (h : Inv2 p s) (ev : Ev K) : Inv2 p (step p depsOf s ev) := by
  cases ev with
  | tick dt => exact inv2_frame p h (by show s.now ≤ s.now + dt; omega) rfl rfl rfl rfl rfl
  | write dt keys =>
    simp only [step]
    refine { store_wf := ?_, marker_wf := ?_, cl_exp := ?_, sorted_le := ?_, le_now := ?_, pend_sub := ?_, cl_in := ?_, pend_cl := h.pend_cl }
    · intro m hm; have := h.store_wf m hm; exact ⟨by show m.lm ≤ s.now + dt; omega, this.2⟩
    · intro k m hm; have := h.marker_wf k m hm; exact ⟨by show m.lm ≤ s.now + dt; omega, this.2⟩
    · intro e he; have := h.cl_exp e he; show e.exp ≤ s.now + dt + p.queryTTL; omega
    · show (s.log ++ [_]).Pairwise _
      rw [List.pairwise_append]
      refine ⟨h.sorted_le, by simp, ?_⟩
      intro a ha b hb
      simp at hb; subst hb
      have := h.le_now a ha
      show a.ts ≤ s.now + dt
      omega
    · intro c hc
      show c.ts ≤ s.now + dt
      rcases List.mem_append.mp hc with hc | hc
      · have := h.le_now c hc; omega
      · simp at hc; subst hc; exact Nat.le_refl _
    · intro pd hp
      obtain ⟨rest, hr⟩ := h.pend_sub pd hp
      exact ⟨rest ++ [_], by show s.log ++ [_] = _; rw [hr, List.append_assoc]⟩
    · intro e he
      obtain ⟨c, hc, hce⟩ := h.cl_in e he
      exact ⟨c, List.mem_append_left _ hc, hce⟩
  | popIter key age life store =>
    simp only [step]; split
    · exact inv2_frame p h (Nat.le_refl _) rfl rfl rfl rfl rfl
    · exact h
  | popQuery key age life => exact inv2_frame p h (Nat.le_refl _) rfl rfl rfl rfl rfl
  | runRead =>
    simp only [step]
    cases hp : s.pending with
    | some pd => simpa [hp] using h
    | none =>
      simp only []
      refine { store_wf := h.store_wf, marker_wf := h.marker_wf, cl_exp := h.cl_exp, sorted_le := h.sorted_le,
               le_now := h.le_now, pend_sub := ?_, cl_in := h.cl_in, pend_cl := ?_ }
      · intro pd hpd; simp at hpd; subst hpd; exact ⟨[], by simp⟩
      · intro pd e hpd he; simp at hpd; subst hpd; exact h.cl_in e he
  | lookupIter key =>
    simp only [step]; split
    · split
      · exact inv2_frame p h (Nat.le_refl _) rfl rfl rfl rfl rfl
      · exact h
    · exact h
  | evict iter key =>
    simp only [step]; split
    · exact inv2_frame p h (Nat.le_refl _) rfl rfl rfl rfl rfl
    · exact inv2_frame p h (Nat.le_refl _) rfl rfl rfl rfl rfl
  | runEnd d0 d1 d2 =>
    simp only [step]
    cases hp : s.pending with
    | none => simpa [hp] using h
    | some pd =>
      simp only []
      obtain ⟨rest, hrest⟩ := h.pend_sub pd hp
      have hmk_old : ∀ k m, s.markers k = some m → m.lm ≤ s.now + d0 + d1 + d2 ∧ m.exp ≤ m.lm + p.iterTTL := by
        intro k m hm; have := h.marker_wf k m hm; exact ⟨by omega, this.2⟩
      have hst_old : ∀ m, s.storeMarker = some m → m.lm ≤ s.now + d0 + d1 + d2 ∧ m.exp ≤ m.lm + p.storeTTL := by
        intro m hm; have := h.store_wf m hm; exact ⟨by omega, this.2⟩
      have hle : ∀ c ∈ s.log, c.ts ≤ s.now + d0 + d1 + d2 := by
        intro c hc; have := h.le_now c hc; omega
      cases hn : newest pd.logR with
      | none =>
        simp only []
        refine { store_wf := ?_, marker_wf := hmk_old, cl_exp := ?_, sorted_le := h.sorted_le, le_now := hle,
                 pend_sub := by simp, cl_in := h.cl_in, pend_cl := by simp }
        · intro m hm; simp at hm; subst hm; exact ⟨Nat.le_refl _, Nat.le_refl _⟩
        · intro e he; have := h.cl_exp e he; show e.exp ≤ s.now + d0 + d1 + d2 + p.queryTTL; omega
      | some n =>
        simp only []
        have hnlog : n ∈ s.log := by rw [hrest]; exact List.mem_append_left _ (List.mem_of_getLast? hn)
        have hclexp : ∀ e, some ({ lm := n.ts, checked := s.now + d0, exp := s.now + d0 + p.queryTTL } : ClEntry) = some e →
            e.exp ≤ s.now + d0 + d1 + d2 + p.queryTTL := by
          intro e he; cases he; show s.now + d0 + p.queryTTL ≤ _; omega
        have hclin : ∀ e, some ({ lm := n.ts, checked := s.now + d0, exp := s.now + d0 + p.queryTTL } : ClEntry) = some e →
            ∃ c ∈ s.log, c.ts = e.lm := by
          intro e he; cases he; exact ⟨n, hnlog, rfl⟩
        split
        · exact { store_wf := hst_old, marker_wf := hmk_old, cl_exp := hclexp, sorted_le := h.sorted_le, le_now := hle,
                  pend_sub := by simp, cl_in := hclin, pend_cl := by simp }
        · split
          · refine { store_wf := ?_, marker_wf := hmk_old, cl_exp := hclexp, sorted_le := h.sorted_le, le_now := hle,
                     pend_sub := by simp, cl_in := hclin, pend_cl := by simp }
            intro m hm; simp at hm; subst hm; exact ⟨Nat.le_refl _, Nat.le_refl _⟩
          · refine { store_wf := hst_old, marker_wf := ?_, cl_exp := hclexp, sorted_le := h.sorted_le, le_now := hle,
                     pend_sub := by simp, cl_in := hclin, pend_cl := by simp }
            intro k m hm
            simp only [setMarkers] at hm
            split at hm
            · cases hm; exact ⟨Nat.le_refl _, Nat.le_refl _⟩
            · exact hmk_old k m hm

theorem inv2_run (evs : List (Ev K)) {s : St K} (h : Inv2 p s) : Inv2 p (run p depsOf s evs) := by
  induction evs generalizing s with
  | nil => exact h
  | cons ev evs ih => exact ih (inv2_step p depsOf h ev)

theorem invalidAt_congr {s1 s2 : St K} (h1 : s1.now = s2.now) (h2 : s1.storeMarker = s2.storeMarker)
    (h3 : s1.markers = s2.markers) (ts : Nat) (deps : List K) : invalidAt s1 ts deps = invalidAt s2 ts deps := by
  unfold invalidAt; rw [h1, h2, h3]

theorem invTime_congr {s1 s2 : St K} (h1 : s1.now = s2.now) (h2 : s1.cl = s2.cl) : invTime s1 = invTime s2 := by
  unfold invTime; rw [h1, h2]

theorem markerInvalidates_replace {now ts tM ttl : Nat} {m : Marker} (hlm : m.lm ≤ tM) (hexp : m.exp ≤ m.lm + ttl)
    (h : markerInvalidates now ts (some m) = true) (hnow : now = tM) :
    markerInvalidates now ts (some { lm := tM, exp := tM + ttl }) = true := by
  simp only [markerInvalidates, Bool.and_eq_true, decide_eq_true_eq] at h ⊢
  omega

/-- the clock of the state after `runEnd` -/
def endTime (s : St K) (d0 d1 d2 : Nat) : Nat := s.now + d0 + d1 + d2

/-- **what was invalid stays invalid**: compared with just letting the time pass, the end of a run
never makes `isInvalidAt` false -/
theorem run_keeps_invalid {s : St K} (h : Inv2 p s) (pd : Pending K) (hp : s.pending = some pd) (d0 d1 d2 : Nat)
    (ts : Nat) (deps : List K)
    (hv : invalidAt ({ s with now := endTime s d0 d1 d2 } : St K) ts deps = true) :
    invalidAt (step p depsOf s (.runEnd d0 d1 d2)) ts deps = true := by
  have store_case : ∀ (mk : K → Option Marker), (∀ k, mk k = s.markers k) →
      invalidAt ({ s with now := endTime s d0 d1 d2, storeMarker := some { lm := endTime s d0 d1 d2, exp := endTime s d0 d1 d2 + p.storeTTL }, markers := mk } : St K) ts deps = true := by
    intro mk hmk
    unfold invalidAt at hv ⊢
    simp only [Bool.or_eq_true] at hv ⊢
    rcases hv with hv | hv
    · left
      cases hm : s.storeMarker with
      | none => simp [hm, markerInvalidates] at hv
      | some m =>
        rw [hm] at hv
        have := h.store_wf m hm
        exact markerInvalidates_replace (by unfold endTime; omega) this.2 hv rfl
    · right
      simp only [hmk]; exact hv
  simp only [step, hp]
  cases hn : newest pd.logR with
  | none =>
    simp only []
    rw [← store_case s.markers (fun _ => rfl)]
    exact invalidAt_congr rfl rfl rfl ts deps
  | some n =>
    simp only []
    split
    · -- none
      rw [← hv]
      exact invalidAt_congr rfl rfl rfl ts deps
    · split
      · rw [← store_case s.markers (fun _ => rfl)]
        exact invalidAt_congr rfl rfl rfl ts deps
      · have hgoal : ∀ (ks : List K), invalidAt ({ s with now := endTime s d0 d1 d2, markers := setMarkers p (endTime s d0 d1 d2) ks s.markers } : St K) ts deps = true := by
          intro ks
          unfold invalidAt at hv ⊢
          simp only [Bool.or_eq_true] at hv ⊢
          rcases hv with hv | hv
          · left; exact hv
          · right
            obtain ⟨k, hk, hkv⟩ := List.any_eq_true.mp hv
            refine List.any_eq_true.mpr ⟨k, hk, ?_⟩
            simp only [setMarkers]
            split
            · cases hm : s.markers k with
              | none => simp [hm, markerInvalidates] at hkv
              | some m =>
                simp only [hm] at hkv
                have hw := h.marker_wf k m hm
                exact markerInvalidates_replace (ttl := p.iterTTL) (tM := endTime s d0 d1 d2) (by unfold endTime; omega) hw.2 hkv rfl
            · exact hkv
        rw [← hgoal ((inWindowSuffix p (s.now + d0 + d1) (page p pd.logR)).flatMap (·.keys))]
        exact invalidAt_congr rfl rfl rfl ts deps

/-- **the invalidation time never goes back** -/
theorem run_raises_invTime {s : St K} (h : Inv2 p s) (pd : Pending K) (hp : s.pending = some pd) (d0 d1 d2 : Nat) :
    invTime ({ s with now := endTime s d0 d1 d2 } : St K) ≤ invTime (step p depsOf s (.runEnd d0 d1 d2)) := by
  simp only [step, hp]
  cases hn : newest pd.logR with
  | none =>
    simp only []
    unfold invTime endTime
    exact Nat.le_refl _
  | some n =>
    have hmain : invTime ({ s with now := endTime s d0 d1 d2 } : St K) ≤
        invTime ({ s with now := endTime s d0 d1 d2, cl := some { lm := n.ts, checked := s.now + d0, exp := s.now + d0 + p.queryTTL } } : St K) := by
      unfold invTime
      cases hcl : s.cl with
      | none => simp
      | some e =>
        simp only []
        split
        · rename_i halive
          have hexp := h.cl_exp e hcl
          have : endTime s d0 d1 d2 < s.now + d0 + p.queryTTL := by
            have : endTime s d0 d1 d2 < e.exp := halive
            omega
          rw [if_pos this]
          obtain ⟨c, hc, hce⟩ := h.pend_cl pd e hp hcl
          obtain ⟨rest, hrest⟩ := h.pend_sub pd hp
          have hsortR : pd.logR.Pairwise (fun a b => a.ts ≤ b.ts) := by
            have := h.sorted_le; rw [hrest] at this; exact (List.pairwise_append.mp this).1
          have := getLast?_ts_max_le pd.logR hsortR n hn c hc
          show e.lm ≤ n.ts
          omega
        · exact Nat.zero_le _
    simp only []
    split
    · exact Nat.le_trans hmain (Nat.le_of_eq (invTime_congr rfl rfl))
    · split
      · exact Nat.le_trans hmain (Nat.le_of_eq (invTime_congr rfl rfl))
      · exact Nat.le_trans hmain (Nat.le_of_eq (invTime_congr rfl rfl))

end
end OpenFGAVerif.CacheTimeline
