/-
Instantiation of `Proofs.DfsTermination` for the default Check engine (`Model.CheckV1`): the two hypotheses of
`evalF_no_fuel_abort` hold for `sysOf w` whenever the authorization model passes a **decidable** check
(`rankOK`): a rank table on (type, relation) that strictly decreases along every computed-userset edge — the
consequence of `typesystem` validation ("no computed-userset-only cycle").  The driver of C20 computes a
candidate table (`rankTable`) and evaluates `rankOK` on every generated model.

* `ranked_sysOf`     : `rankOK m rk R → Ranked (sysOf w) (rank of node) R`
* `ruleHeight_sysOf` : every rule of `sysOf w` has height `≤ maxRewriteHeight m + 4`
* `check_no_fuel_abort`: `CheckV1.check` with fuel `≥ checkFuelBound` never returns the fuel-exhaustion outcome.
-/
import OpenFGAVerif.Model.CheckV1
import OpenFGAVerif.Proofs.DfsTermination

namespace OpenFGAVerif.CheckV1Termination
open OpenFGAVerif.Vocab OpenFGAVerif.BoolSys OpenFGAVerif.CheckV1 OpenFGAVerif.DfsTermination OpenFGAVerif.Dfs

mutual
def rwHeight : Rewrite → Nat
  | .this => 1
  | .computed _ => 1
  | .ttu _ _ => 1
  | .union cs => rwHeightL cs + 1
  | .inter cs => rwHeightL cs + 1
  | .diff b s => max (rwHeight b) (rwHeight s) + 1
def rwHeightL : List Rewrite → Nat
  | [] => 0
  | c :: cs => max (rwHeight c) (rwHeightL cs)
end

mutual
/-- the relations a rewrite reaches through computed-userset edges (no dispatch) -/
def computeds : Rewrite → List String
  | .this => []
  | .computed r => [r]
  | .ttu _ _ => []
  | .union cs => computedsL cs
  | .inter cs => computedsL cs
  | .diff b s => computeds b ++ computeds s
def computedsL : List Rewrite → List String
  | [] => []
  | c :: cs => computeds c ++ computedsL cs
end

/-- decidable: `rk` is bounded by `R` and strictly decreases along every computed-userset edge -/
def rankOK (m : Model) (rk : String → String → Nat) (R : Nat) : Bool :=
  m.types.all (fun t => t.rels.all (fun rd =>
    rk t.name rd.name ≤ R && (computeds rd.rewrite).all (fun r' => rk t.name r' < rk t.name rd.name)))

def maxRewriteHeight (m : Model) : Nat :=
  m.types.foldr (fun t acc => max (t.rels.foldr (fun rd a => max (rwHeight rd.rewrite) a) 0) acc) 0

/-- a candidate rank table: longest computed-userset chain below (type, relation), by `n` rounds of
relaxation (`n` = number of relations of the type suffices for an acyclic model) -/
def relaxRound (t : TypeDef) (cur : String → Nat) : String → Nat := fun r =>
  match t.rels.find? (·.name = r) with
  | none => 0
  | some rd => (computeds rd.rewrite).foldr (fun r' acc => max (cur r' + 1) acc) 0

def rankTable (m : Model) : String → String → Nat := fun typ r =>
  match m.types.find? (·.name = typ) with
  | none => 0
  | some t => (Nat.repeat (relaxRound t) t.rels.length (fun _ => 0)) r

def nodeRank (rk : String → String → Nat) (R : Nat) (n : Node) : Nat := min (rk (typeOf n.1) n.2) R

/-! ### no non-dispatching node in the `this` and tuple-to-userset rules -/

abbrev NoND (rank : Node → Nat) (e : Expr Node) : Prop := NDBelow rank 0 e

variable {rank : Node → Nat}

theorem mem_ite_single {α : Type} {c : Bool} {x e : α} (h : e ∈ (if c = true then [x] else [])) : c = true ∧ e = x := by
  cases c <;> simp at h ⊢
  exact h

theorem noND_kidsOf (w : World) (f : Filtered) (child : Tuple → Option (Expr Node))
    (hc : ∀ t e, child t = some e → ∃ n, e = .node true n) : ∀ e ∈ kidsOf w f child, NoND rank e := by
  intro e he
  unfold kidsOf at he
  split at he
  · rcases List.mem_append.mp he with h | h
    · obtain ⟨t, _, ht⟩ := List.mem_filterMap.mp h
      obtain ⟨n, rfl⟩ := hc t e ht
      exact .nodeD n
    · obtain ⟨t, _, ht⟩ := List.mem_filterMap.mp h
      cases hct : child t with
      | none => simp [hct] at ht
      | some c =>
        obtain ⟨n, rfl⟩ := hc t c hct
        simp only [hct, Option.map_some, Option.some.injEq] at ht
        subst ht
        refine .and _ ?_
        intro e' he'
        simp only [List.mem_cons, List.not_mem_nil, or_false] at he'
        rcases he' with rfl | rfl
        · exact .lit _
        · exact .nodeD n
  · rcases List.mem_append.mp he with h | h
    · obtain ⟨t, _, ht⟩ := List.mem_filterMap.mp h
      obtain ⟨n, rfl⟩ := hc t e ht
      exact .nodeD n
    · unfold errTail at h
      split at h
      · split at h <;> (simp only [List.mem_cons, List.not_mem_nil, or_false] at h; subst h; exact .lit _)
      · cases h

theorem noND_usersetHandler (w : World) (o r : String) (rs : List Restr) : NoND rank (usersetHandler w o r rs) := by
  unfold usersetHandler
  exact .or _ (noND_kidsOf w _ _ (fun t e h => ⟨splitUserset t.user, by simpa using h.symm⟩))

theorem noND_usersetsExpr (w : World) (o r : String) (restrs : List Restr) : NoND rank (usersetsExpr w o r restrs) := by
  unfold usersetsExpr
  simp only
  split
  · exact noND_usersetHandler w o r _
  · refine .or _ ?_
    intro e he
    rcases List.mem_append.mp he with h | h
    · obtain ⟨x, _, rfl⟩ := List.mem_map.mp h
      exact noND_usersetHandler w o r _
    · split at h
      · cases h
      · simp only [List.mem_cons, List.not_mem_nil, or_false] at h
        subst h
        exact noND_usersetHandler w o r _

theorem noND_directLeaf (w : World) (o r : String) : NoND rank (directLeaf w o r) := by
  unfold directLeaf
  split
  · exact .lit _
  · split
    · exact .lit _
    · split <;> exact .lit _

theorem noND_publicLeaf (w : World) (o r : String) : NoND rank (publicLeaf w o r) := by
  unfold publicLeaf
  simp only
  split
  · exact .lit _
  · split <;> exact .lit _

theorem noND_directExpr (w : World) (o r : String) (restrs : List Restr) : NoND rank (directExpr w o r restrs) := by
  unfold directExpr
  refine .or _ ?_
  intro e he
  rcases List.mem_append.mp he with h | h
  · rcases List.mem_append.mp h with h | h
    · obtain ⟨_, rfl⟩ := mem_ite_single h; exact noND_directLeaf w o r
    · obtain ⟨_, rfl⟩ := mem_ite_single h; exact noND_publicLeaf w o r
  · obtain ⟨_, rfl⟩ := mem_ite_single h; exact noND_usersetsExpr w o r restrs

theorem noND_ttuExpr (w : World) (o ts cr : String) : NoND rank (ttuExpr w o ts cr) := by
  unfold ttuExpr
  simp only
  refine .or _ (noND_kidsOf w _ _ ?_)
  intro t e h
  split at h
  · cases h
  · exact ⟨_, (Option.some.inj h).symm⟩

/-! ### ranked -/

mutual
theorem nd_rewrite (w : World) (o r : String) (restrs : List Restr) (K : Nat) :
    ∀ rw, (∀ r' ∈ computeds rw, rank (o, r') < K) → NDBelow rank K (rewriteExpr w o r restrs rw)
  | .this, _ => by rw [rewriteExpr]; exact (noND_directExpr w o r restrs).mono (Nat.zero_le _)
  | .computed r', h => by rw [rewriteExpr]; exact .nodeN _ (h r' (by simp [computeds]))
  | .ttu ts cr, _ => by rw [rewriteExpr]; exact (noND_ttuExpr w o ts cr).mono (Nat.zero_le _)
  | .union cs, h => by
      rw [rewriteExpr]
      exact .or _ (nd_rewriteL w o r restrs K cs (by simpa [computeds] using h))
  | .inter cs, h => by
      rw [rewriteExpr]
      exact .and _ (nd_rewriteL w o r restrs K cs (by simpa [computeds] using h))
  | .diff b s, h => by
      rw [rewriteExpr]
      exact .diff _ _ (nd_rewrite w o r restrs K b (fun r' hr => h r' (by simp [computeds, hr])))
        (nd_rewrite w o r restrs K s (fun r' hr => h r' (by simp [computeds, hr])))
theorem nd_rewriteL (w : World) (o r : String) (restrs : List Restr) (K : Nat) :
    ∀ cs, (∀ r' ∈ computedsL cs, rank (o, r') < K) → ∀ e ∈ cs.map (rewriteExpr w o r restrs), NDBelow rank K e
  | [], _, e, he => by cases he
  | c0 :: cs, h, e, he => by
      rw [List.map_cons] at he
      rcases List.mem_cons.mp he with rfl | he'
      · exact nd_rewrite w o r restrs K c0 (fun r' hr => h r' (by simp [computedsL, hr]))
      · exact nd_rewriteL w o r restrs K cs (fun r' hr => h r' (by simp [computedsL, hr])) e he'
end

theorem findRel_mem (m : Model) (typ rel : String) (rd : RelDef) (h : m.findRel typ rel = some rd) :
    ∃ t ∈ m.types, t.name = typ ∧ rd ∈ t.rels ∧ rd.name = rel := by
  unfold Model.findRel at h
  cases ht : m.types.find? (fun t => t.name = typ) with
  | none => simp [ht] at h
  | some t =>
    simp only [ht] at h
    refine ⟨t, List.mem_of_find?_eq_some ht, ?_, List.mem_of_find?_eq_some h, ?_⟩
    · simpa using List.find?_some ht
    · simpa using List.find?_some h

/-- **Ranked.** A model that passes `rankOK` gives a ranked rule system for every tuple set and request. -/
theorem ranked_sysOf (w : World) (rk : String → String → Nat) (R : Nat) (hok : rankOK w.model rk R = true) :
    Ranked (sysOf w) (nodeRank rk R) R := by
  constructor
  · intro n; exact Nat.min_le_right _ _
  · intro n
    obtain ⟨o, r⟩ := n
    show NDBelow _ _ (ruleOf w (o, r))
    unfold ruleOf
    simp only
    split
    · exact .lit _
    · split
      · exact .lit _
      · rename_i rd hfind
        split
        · exact .lit _
        · obtain ⟨t, ht, hname, hrd, hrel⟩ := findRel_mem _ _ _ _ hfind
          simp only [rankOK, List.all_eq_true, Bool.and_eq_true, decide_eq_true_eq] at hok
          obtain ⟨hle, hlt⟩ := hok t ht rd hrd
          apply nd_rewrite w o r rd.restrs _
          intro r' hr'
          have := hlt r' hr'
          simp only [nodeRank]
          rw [hname, hrel] at this hle
          omega

/-! ### rule heights -/

theorem heightL_le {N : Type} (es : List (Expr N)) (h : Nat) (hall : ∀ e ∈ es, height e ≤ h) : heightL es ≤ h := by
  induction es with
  | nil => simp [heightL]
  | cons a as ih =>
    simp only [heightL]
    exact Nat.max_le.mpr ⟨hall a (List.mem_cons_self ..), ih (fun e he => hall e (List.mem_cons_of_mem _ he))⟩

theorem height_or_le {N : Type} (es : List (Expr N)) (h : Nat) (hall : ∀ e ∈ es, height e ≤ h) : height (.or es) ≤ h + 1 := by
  simp only [height]; exact Nat.succ_le_succ (heightL_le es h hall)

theorem height_and_le {N : Type} (es : List (Expr N)) (h : Nat) (hall : ∀ e ∈ es, height e ≤ h) : height (.and es) ≤ h + 1 := by
  simp only [height]; exact Nat.succ_le_succ (heightL_le es h hall)

theorem height_kidsOf (w : World) (f : Filtered) (child : Tuple → Option (Expr Node))
    (hc : ∀ t e, child t = some e → ∃ n, e = .node true n) : ∀ e ∈ kidsOf w f child, height e ≤ 2 := by
  intro e he
  unfold kidsOf at he
  split at he
  · rcases List.mem_append.mp he with h | h
    · obtain ⟨t, _, ht⟩ := List.mem_filterMap.mp h
      obtain ⟨n, rfl⟩ := hc t e ht
      simp [height]
    · obtain ⟨t, _, ht⟩ := List.mem_filterMap.mp h
      cases hct : child t with
      | none => simp [hct] at ht
      | some c =>
        obtain ⟨n, rfl⟩ := hc t c hct
        simp only [hct, Option.map_some, Option.some.injEq] at ht
        subst ht
        simp [height, heightL]
  · rcases List.mem_append.mp he with h | h
    · obtain ⟨t, _, ht⟩ := List.mem_filterMap.mp h
      obtain ⟨n, rfl⟩ := hc t e ht
      simp [height]
    · unfold errTail at h
      split at h
      · split at h <;> (simp only [List.mem_cons, List.not_mem_nil, or_false] at h; subst h; simp [height])
      · cases h

theorem height_usersetHandler (w : World) (o r : String) (rs : List Restr) : height (usersetHandler w o r rs) ≤ 3 := by
  unfold usersetHandler
  exact height_or_le _ 2 (height_kidsOf w _ _ (fun t e h => ⟨splitUserset t.user, by simpa using h.symm⟩))

theorem height_usersetsExpr (w : World) (o r : String) (restrs : List Restr) : height (usersetsExpr w o r restrs) ≤ 4 := by
  unfold usersetsExpr
  simp only
  split
  · exact Nat.le_succ_of_le (height_usersetHandler w o r _)
  · refine height_or_le _ 3 ?_
    intro e he
    rcases List.mem_append.mp he with h | h
    · obtain ⟨x, _, rfl⟩ := List.mem_map.mp h
      exact height_usersetHandler w o r _
    · split at h
      · cases h
      · simp only [List.mem_cons, List.not_mem_nil, or_false] at h
        subst h
        exact height_usersetHandler w o r _

theorem height_directLeaf (w : World) (o r : String) : height (directLeaf w o r) ≤ 1 := by
  unfold directLeaf
  split
  · simp [height]
  · split
    · simp [height]
    · split <;> simp [height]

theorem height_publicLeaf (w : World) (o r : String) : height (publicLeaf w o r) ≤ 1 := by
  unfold publicLeaf
  simp only
  split
  · simp [height]
  · split <;> simp [height]

theorem height_directExpr (w : World) (o r : String) (restrs : List Restr) : height (directExpr w o r restrs) ≤ 5 := by
  unfold directExpr
  refine height_or_le _ 4 ?_
  intro e he
  rcases List.mem_append.mp he with h | h
  · rcases List.mem_append.mp h with h | h
    · obtain ⟨_, rfl⟩ := mem_ite_single h
      exact Nat.le_trans (height_directLeaf w o r) (by decide)
    · obtain ⟨_, rfl⟩ := mem_ite_single h
      exact Nat.le_trans (height_publicLeaf w o r) (by decide)
  · obtain ⟨_, rfl⟩ := mem_ite_single h; exact height_usersetsExpr w o r restrs

theorem height_ttuExpr (w : World) (o ts cr : String) : height (ttuExpr w o ts cr) ≤ 3 := by
  unfold ttuExpr
  simp only
  refine height_or_le _ 2 (height_kidsOf w _ _ ?_)
  intro t e h
  split at h
  · cases h
  · exact ⟨_, (Option.some.inj h).symm⟩

theorem rwHeight_le_rwHeightL {cs : List Rewrite} {c : Rewrite} (h : c ∈ cs) : rwHeight c ≤ rwHeightL cs := by
  induction cs with
  | nil => cases h
  | cons a as ih =>
    simp only [rwHeightL]
    rcases List.mem_cons.mp h with rfl | h'
    · exact Nat.le_max_left _ _
    · exact Nat.le_trans (ih h') (Nat.le_max_right _ _)

mutual
theorem height_rewrite (w : World) (o r : String) (restrs : List Restr) :
    ∀ rw, height (rewriteExpr w o r restrs rw) ≤ rwHeight rw + 4
  | .this => by rw [rewriteExpr]; simpa [rwHeight] using height_directExpr w o r restrs
  | .computed r' => by rw [rewriteExpr]; simp [height, rwHeight]
  | .ttu ts cr => by
      rw [rewriteExpr]
      exact Nat.le_trans (height_ttuExpr w o ts cr) (by simp [rwHeight])
  | .union cs => by
      rw [rewriteExpr]
      have := height_or_le (cs.map (rewriteExpr w o r restrs)) (rwHeightL cs + 4) (height_rewriteL w o r restrs cs)
      simp only [rwHeight]; omega
  | .inter cs => by
      rw [rewriteExpr]
      have := height_and_le (cs.map (rewriteExpr w o r restrs)) (rwHeightL cs + 4) (height_rewriteL w o r restrs cs)
      simp only [rwHeight]; omega
  | .diff b s => by
      rw [rewriteExpr]
      have hb := height_rewrite w o r restrs b
      have hs := height_rewrite w o r restrs s
      simp only [height, rwHeight]
      have h1 := Nat.le_max_left (rwHeight b) (rwHeight s)
      have h2 := Nat.le_max_right (rwHeight b) (rwHeight s)
      have : max (height (rewriteExpr w o r restrs b)) (height (rewriteExpr w o r restrs s)) ≤ max (rwHeight b) (rwHeight s) + 4 :=
        Nat.max_le.mpr ⟨by omega, by omega⟩
      omega
theorem height_rewriteL (w : World) (o r : String) (restrs : List Restr) :
    ∀ cs, ∀ e ∈ cs.map (rewriteExpr w o r restrs), height e ≤ rwHeightL cs + 4
  | [], e, he => by cases he
  | c0 :: cs, e, he => by
      rw [List.map_cons] at he
      simp only [rwHeightL]
      rcases List.mem_cons.mp he with rfl | he'
      · have := height_rewrite w o r restrs c0
        have := Nat.le_max_left (rwHeight c0) (rwHeightL cs)
        omega
      · have := height_rewriteL w o r restrs cs e he'
        have := Nat.le_max_right (rwHeight c0) (rwHeightL cs)
        omega
end

theorem rwHeight_le_max (m : Model) (t : TypeDef) (rd : RelDef) (ht : t ∈ m.types) (hrd : rd ∈ t.rels) :
    rwHeight rd.rewrite ≤ maxRewriteHeight m := by
  unfold maxRewriteHeight
  have inner : ∀ (rels : List RelDef), rd ∈ rels → rwHeight rd.rewrite ≤ rels.foldr (fun rd a => max (rwHeight rd.rewrite) a) 0 := by
    intro rels
    induction rels with
    | nil => intro h; cases h
    | cons a as ih =>
      intro h
      simp only [List.foldr_cons]
      rcases List.mem_cons.mp h with rfl | h'
      · exact Nat.le_max_left _ _
      · exact Nat.le_trans (ih h') (Nat.le_max_right _ _)
  have outer : ∀ (ts : List TypeDef), t ∈ ts →
      t.rels.foldr (fun rd a => max (rwHeight rd.rewrite) a) 0 ≤
        ts.foldr (fun t acc => max (t.rels.foldr (fun rd a => max (rwHeight rd.rewrite) a) 0) acc) 0 := by
    intro ts
    induction ts with
    | nil => intro h; cases h
    | cons a as ih =>
      intro h
      simp only [List.foldr_cons]
      rcases List.mem_cons.mp h with rfl | h'
      · exact Nat.le_max_left _ _
      · exact Nat.le_trans (ih h') (Nat.le_max_right _ _)
  exact Nat.le_trans (inner t.rels hrd) (outer m.types ht)

/-- **Rule heights.** Every rule of the engine's system is at most `maxRewriteHeight + 4` high. -/
theorem ruleHeight_sysOf (w : World) : RuleHeight (sysOf w) (maxRewriteHeight w.model + 4) := by
  intro n
  obtain ⟨o, r⟩ := n
  show height (ruleOf w (o, r)) ≤ _
  unfold ruleOf
  simp only
  split
  · simp [height]
  · split
    · simp [height]
    · rename_i rd hfind
      split
      · simp [height]
      · obtain ⟨t, ht, _, hrd, _⟩ := findRel_mem _ _ _ _ hfind
        exact Nat.le_trans (height_rewrite w o r rd.restrs rd.rewrite)
          (Nat.add_le_add_right (rwHeight_le_max w.model t rd ht hrd) 4)

/-- fuel that suffices for `CheckV1.check` on world `w` with depth limit `maxDepth` and rank bound `R` -/
def checkFuelBound (m : Model) (maxDepth R : Nat) : Nat := 1 + (maxRewriteHeight m + 4 + 1) * ((R + 1) * (maxDepth + 1))

/-- **C20 (a) for the Check engine.** For a model that passes `rankOK`, every tuple set (stored and
contextual, cyclic or not), request, schedule and sub-problem cache: `check` with `checkFuelBound` fuel never
returns the fuel-exhaustion outcome — every evaluation path ends by itself (leaf, depth limit or path cut). -/
theorem check_no_fuel_abort (w : World) (rk : String → String → Nat) (R maxDepth : Nat) (sc : Sched)
    (cache : Node → Option Bool) (hok : rankOK w.model rk R = true) (hm : 0 < maxDepth) (fuel : Nat)
    (hf : checkFuelBound w.model maxDepth R ≤ fuel) :
    check w maxDepth sc fuel cache ≠ .err .abort :=
  evalF_root_no_fuel_abort (sysOf w) maxDepth sc cache (nodeRank rk R) R (maxRewriteHeight w.model + 4)
    (ranked_sysOf w rk R hok) (ruleHeight_sysOf w) hm (w.req.obj, w.req.rel) fuel hf

end OpenFGAVerif.CheckV1Termination
