/-
C04, Check: moving tuples between the contextual tuples and the store does not change the semantics of
the default engine's rules (`Model/CheckV1.lean`), hence not the answer.

`SameTuples w1 w2`: same model, aux tables, request and rule flavour; the tuples visible to the engine
(`World.all` = contextual ++ stored) have the same members; tuple keys are unique on both sides (a
contextual tuple with the key of a stored tuple cannot be written, and the store has one tuple per key).

  * `rules_sim`            `Sim true (ruleOf w1 n) (ruleOf w2 n)` — the rule expressions have the same shape,
                           and the children of every handler (`or` over dispatched usersets / tuple-to-userset
                           targets / error tail) are the same SET of oracle-free expressions; the direct
                           leaf and the public-wildcard leaf are literally equal
  * `semantics_eq`         both systems stratified ⇒ `D` and `P` of the two worlds coincide
  * `c04_check`            untainted decisions of the two worlds (any schedules, any depth limits) agree
  * `c04_check_split`      the instance "contextual `c` over store `s`" versus "store `s ++ c`, no
                           contextual tuples", for any order `NewCombinedTupleReader` puts `c` in
-/
import OpenFGAVerif.Proofs.RefRules
import OpenFGAVerif.Model.CombinedReader

namespace OpenFGAVerif.CtxSplit
open OpenFGAVerif.Vocab OpenFGAVerif.BoolSys OpenFGAVerif.CheckV1 OpenFGAVerif.Dfs OpenFGAVerif.RefRules

/-- one tuple per (object, relation, user) -/
def KeyUnique (l : List Tuple) : Prop :=
  ∀ a ∈ l, ∀ b ∈ l, a.obj = b.obj → a.rel = b.rel → a.user = b.user → a = b

structure SameTuples (w1 w2 : World) : Prop where
  model : w1.model = w2.model
  aux : w1.aux = w2.aux
  req : w1.req = w2.req
  ideal : w1.ideal = w2.ideal
  mem : ∀ t, t ∈ w1.all ↔ t ∈ w2.all
  uniq1 : KeyUnique w1.all
  uniq2 : KeyUnique w2.all

theorem SameTuples.symm {w1 w2 : World} (h : SameTuples w1 w2) : SameTuples w2 w1 :=
  ⟨h.model.symm, h.aux.symm, h.req.symm, h.ideal.symm, fun t => (h.mem t).symm, h.uniq2, h.uniq1⟩

/-! ### oracle-free expressions and set-equal `or` lists -/

/-- the truth of `e` does not depend on the negation oracle -/
def OracleFree {N : Type} (e : Expr N) : Prop :=
  ∀ (leaf : Leaf → Prop) (neg1 neg2 : Expr N → Prop) (S : N → Prop), Holds leaf neg1 S e → Holds leaf neg2 S e

theorem oracleFree_lit {N : Type} (v : Leaf) : OracleFree (N := N) (.lit v) :=
  fun _ _ _ _ h => .lit (holds_lit_iff.mp h)

theorem oracleFree_node {N : Type} (d : Bool) (n : N) : OracleFree (.node d n) :=
  fun _ _ _ _ h => .node (holds_node_iff.mp h)

theorem oracleFree_and {N : Type} (es : List (Expr N)) (h : ∀ e ∈ es, OracleFree e) : OracleFree (.and es) :=
  fun leaf n1 n2 S hh => holds_and_iff.mpr (fun e he => h e he leaf n1 n2 S (holds_and_iff.mp hh e he))

/-- two `or` nodes over the same set of oracle-free children mean the same (order and multiplicity of
the children are irrelevant) -/
theorem atom_or_of_sameSet {N : Type} (l1 l2 : List (Expr N)) (hm : ∀ e, e ∈ l1 ↔ e ∈ l2)
    (hf : ∀ e ∈ l1, OracleFree e) : Atom (.or l1) (.or l2) := by
  refine ⟨fun n1 n2 S => ⟨?_, ?_⟩, fun n1 n2 S => ?_⟩
  · intro h
    obtain ⟨e, he, hh⟩ := holds_or_iff.mp h
    exact holds_or_iff.mpr ⟨e, (hm e).mp he, hf e he _ _ _ _ hh⟩
  · intro h
    obtain ⟨e, he, hh⟩ := holds_or_iff.mp h
    exact holds_or_iff.mpr ⟨e, (hm e).mpr he, hf e ((hm e).mpr he) _ _ _ _ hh⟩
  · intro h
    obtain ⟨e, he, hh⟩ := holds_or_iff.mp h
    exact holds_or_iff.mpr ⟨e, (hm e).mpr he, hf e ((hm e).mpr he) _ _ _ _ hh⟩

/-! ### the filtered iteration only depends on the set of tuples -/

theorem filterIter_congr (w1 w2 : World) (hmod : w1.model = w2.model) (hreq : w1.req = w2.req)
    (ts1 ts2 : List Tuple) (hm : ∀ t, t ∈ ts1 ↔ t ∈ ts2) :
    (∀ t, t ∈ (filterIter w1 ts1).passed ↔ t ∈ (filterIter w2 ts2).passed) ∧
    (∀ t, t ∈ (filterIter w1 ts1).errs ↔ t ∈ (filterIter w2 ts2).errs) ∧
    (filterIter w1 ts1).sawErr = (filterIter w2 ts2).sawErr ∧
    (filterIter w1 ts1).passed.isEmpty = (filterIter w2 ts2).passed.isEmpty := by
  have hp : ∀ t, t ∈ (filterIter w1 ts1).passed ↔ t ∈ (filterIter w2 ts2).passed := by
    intro t; simp only [filterIter, List.mem_filter, hmod, hreq, hm]
  have he : ∀ t, t ∈ (filterIter w1 ts1).errs ↔ t ∈ (filterIter w2 ts2).errs := by
    intro t; simp only [filterIter, List.mem_filter, hmod, hreq, hm]
  refine ⟨hp, he, ?_, ?_⟩
  · rw [Bool.eq_iff_iff]
    simp only [filterIter, List.any_eq_true, List.mem_filter, hmod, hreq, hm]
  · rw [Bool.eq_iff_iff]
    simp only [List.isEmpty_iff]
    constructor
    · intro h
      apply List.eq_nil_iff_forall_not_mem.mpr
      intro t ht
      have := (hp t).mpr ht
      rw [h] at this; cases this
    · intro h
      apply List.eq_nil_iff_forall_not_mem.mpr
      intro t ht
      have := (hp t).mp ht
      rw [h] at this; cases this

theorem errTail_congr {N : Type} (f1 f2 : Filtered) (h1 : f1.sawErr = f2.sawErr)
    (h2 : f1.passed.isEmpty = f2.passed.isEmpty) : errTail (N := N) f1 = errTail f2 := by
  simp [errTail, h1, h2]

/-- the children of a handler for two filtered iterations over the same set of tuples -/
theorem kids_atom_congr (w1 w2 : World) (hid : w1.ideal = w2.ideal) (f1 f2 : Filtered)
    (hp : ∀ t, t ∈ f1.passed ↔ t ∈ f2.passed) (he : ∀ t, t ∈ f1.errs ↔ t ∈ f2.errs)
    (hs : f1.sawErr = f2.sawErr) (hem : f1.passed.isEmpty = f2.passed.isEmpty)
    (child : Tuple → Option (Expr Node)) (hchild : ∀ t c, child t = some c → ∃ d n, c = .node d n) :
    Atom (.or (kidsOf w1 f1 child)) (.or (kidsOf w2 f2 child)) := by
  apply atom_or_of_sameSet
  · intro e
    unfold kidsOf
    rw [← hid]
    split
    · simp only [List.mem_append, List.mem_filterMap, hp, he]
    · simp only [List.mem_append, List.mem_filterMap, hp, errTail_congr (N := Node) f1 f2 hs hem]
  · intro e hmem
    unfold kidsOf at hmem
    split at hmem
    · rcases List.mem_append.mp hmem with hmem | hmem
      · obtain ⟨t, _, ht⟩ := List.mem_filterMap.mp hmem
        obtain ⟨d, n, rfl⟩ := hchild t e ht
        exact oracleFree_node d n
      · obtain ⟨t, _, ht⟩ := List.mem_filterMap.mp hmem
        cases hct : child t with
        | none => simp [hct] at ht
        | some c =>
          simp [hct] at ht
          subst ht
          obtain ⟨d, n, rfl⟩ := hchild t c hct
          apply oracleFree_and
          intro e he
          rcases List.mem_cons.mp he with rfl | he
          · exact oracleFree_lit _
          · have : e = .node d n := by simpa using he
            subst this
            exact oracleFree_node d n
    · rcases List.mem_append.mp hmem with hmem | hmem
      · obtain ⟨t, _, ht⟩ := List.mem_filterMap.mp hmem
        obtain ⟨d, n, rfl⟩ := hchild t e ht
        exact oracleFree_node d n
      · rcases mem_errTail hmem with rfl | rfl <;> exact oracleFree_lit _

/-! ### the reads of the engine -/

theorem isTypedWildcard_userRel (u : String) (h : isTypedWildcard u = true) : userRel u = "" := by
  simp only [isTypedWildcard, isUserset, Bool.and_eq_true, Bool.not_eq_eq_eq_not, Bool.not_true,
    decide_eq_false_iff_not, ne_eq, Decidable.not_not] at h
  exact h.2

/-- `usersetTuples` as a set: the usersets on `o#r` matching one of the restrictions, wherever they are
stored (a typed wildcard never matches a userset restriction) -/
theorem mem_usersetTuples (w : World) (o r : String) (rs : List Restr) (hrs : ∀ x ∈ rs, x.rel ≠ "") (t : Tuple) :
    t ∈ usersetTuples w o r rs ↔
      t ∈ w.all ∧ t.obj = o ∧ t.rel = r ∧ isUserset t.user = true ∧
        ∃ x ∈ rs, x.typ = userType t.user ∧ x.rel = userRel t.user := by
  simp only [usersetTuples, World.all, List.mem_append, List.mem_filter, List.mem_flatMap, List.mem_map,
    Bool.and_eq_true, decide_eq_true_eq, List.any_eq_true, Bool.or_eq_true]
  constructor
  · rintro (⟨h1, ⟨⟨h2, h3⟩, h4⟩, x, hx, h5, h6⟩ | ⟨t', ⟨h1, ⟨h2, h3⟩, h4⟩, x, ⟨hx, h5, h6⟩, rfl⟩)
    · exact ⟨Or.inl h1, h2, h3, h4, x, hx, h5, h6⟩
    · rcases h4 with h4 | h4
      · exact ⟨Or.inr h1, h2, h3, h4, x, hx, h5, h6⟩
      · exact absurd (h6.trans (isTypedWildcard_userRel _ h4)) (hrs x hx)
  · rintro ⟨h1 | h1, h2, h3, h4, x, hx, h5, h6⟩
    · exact Or.inl ⟨h1, ⟨⟨h2, h3⟩, h4⟩, x, hx, h5, h6⟩
    · exact Or.inr ⟨t, ⟨h1, ⟨h2, h3⟩, Or.inl h4⟩, x, ⟨hx, h5, h6⟩, rfl⟩

/-- a search for a key finds the same tuple in two lists with the same members and unique keys -/
theorem find_congr (l1 l2 : List Tuple) (hm : ∀ t, t ∈ l1 ↔ t ∈ l2) (p : Tuple → Bool)
    (hu : ∀ a ∈ l1, ∀ b ∈ l1, p a = true → p b = true → a = b) : l1.find? p = l2.find? p := by
  cases h1 : l1.find? p with
  | none =>
    symm
    apply List.find?_eq_none.mpr
    intro x hx
    exact List.find?_eq_none.mp h1 x ((hm x).mpr hx)
  | some a =>
    have ha := List.find?_some h1
    have ham := List.mem_of_find?_eq_some h1
    cases h2 : l2.find? p with
    | none => exact absurd ha (List.find?_eq_none.mp h2 a ((hm a).mp ham))
    | some b =>
      have hb := List.find?_some h2
      have hbm := (hm b).mpr (List.mem_of_find?_eq_some h2)
      rw [hu a ham b hbm ha hb]

/-! ### the rules -/

section
variable (w1 w2 : World) (h : SameTuples w1 w2)
include h

theorem directLeaf_eq (o r : String) : directLeaf w1 o r = directLeaf w2 o r := by
  unfold directLeaf
  have hf : w1.all.find? (fun t => t.obj = o && t.rel = r && t.user = w1.req.user) =
      w2.all.find? (fun t => t.obj = o && t.rel = r && t.user = w2.req.user) := by
    rw [← h.req]
    apply find_congr _ _ h.mem
    intro a ha b hb pa pb
    simp only [Bool.and_eq_true, decide_eq_true_eq] at pa pb
    exact h.uniq1 a ha b hb (pa.1.1.trans pb.1.1.symm) (pa.1.2.trans pb.1.2.symm) (pa.2.trans pb.2.symm)
  rw [hf, h.model, h.req]

theorem publicLeaf_eq (o r : String) : publicLeaf w1 o r = publicLeaf w2 o r := by
  simp only [publicLeaf]
  have hm : ∀ t, t ∈ w1.all.filter (fun t => t.obj = o && t.rel = r && isTypedWildcard t.user && userType t.user = userType w1.req.user) ↔
      t ∈ w2.all.filter (fun t => t.obj = o && t.rel = r && isTypedWildcard t.user && userType t.user = userType w2.req.user) := by
    intro t; simp only [List.mem_filter, h.mem, h.req]
  obtain ⟨_, _, h3, h4⟩ := filterIter_congr w1 w2 h.model h.req _ _ hm
  rw [h3, h4]

theorem usersetHandler_sim (o r : String) (rs : List Restr) (hrs : ∀ x ∈ rs, x.rel ≠ "") :
    Sim true (usersetHandler w1 o r rs) (usersetHandler w2 o r rs) := by
  refine .atom ?_
  have hm : ∀ t, t ∈ usersetTuples w1 o r rs ↔ t ∈ usersetTuples w2 o r rs := by
    intro t; rw [mem_usersetTuples w1 o r rs hrs, mem_usersetTuples w2 o r rs hrs, h.mem]
  obtain ⟨h1, h2, h3, h4⟩ := filterIter_congr w1 w2 h.model h.req _ _ hm
  exact kids_atom_congr w1 w2 h.ideal _ _ h1 h2 h3 h4 (fun t => some (.node true (splitUserset t.user)))
    (fun t c hc => ⟨true, splitUserset t.user, by cases hc; rfl⟩)

theorem ttuExpr_sim (o ts cr : String) : Sim true (ttuExpr w1 o ts cr) (ttuExpr w2 o ts cr) := by
  refine .atom ?_
  have hm : ∀ t, t ∈ w1.all.filter (fun t => t.obj = o && t.rel = ts) ↔ t ∈ w2.all.filter (fun t => t.obj = o && t.rel = ts) := by
    intro t; simp only [List.mem_filter, h.mem]
  obtain ⟨h1, h2, h3, h4⟩ := filterIter_congr w1 w2 h.model h.req _ _ hm
  unfold ttuExpr
  rw [h.model]
  refine kids_atom_congr w1 w2 h.ideal _ _ h1 h2 h3 h4 _ ?_
  intro t c hc
  simp only at hc
  split at hc
  · cases hc
  · cases hc; exact ⟨_, _, rfl⟩

theorem usersetsExpr_sim (o r : String) (restrs : List Restr) :
    Sim true (usersetsExpr w1 o r restrs) (usersetsExpr w2 o r restrs) := by
  have hus : ∀ x ∈ restrs.filter (fun x => x.rel ≠ ""), x.rel ≠ "" := by
    intro x hx; simpa using (List.mem_filter.mp hx).2
  simp only [usersetsExpr, h.req, h.aux]
  split
  · exact usersetHandler_sim w1 w2 h o r _ hus
  · refine (SimL.append (SimL.map _ _ _ (fun x hx => usersetHandler_sim w1 w2 h o r [x] ?_)) ?_).or
    · intro y hy
      have : y = x := by simpa using hy
      subst this
      exact hus y (List.mem_filter.mp hx).1
    · exact SimL.ite_singleton' _ (usersetHandler_sim w1 w2 h o r _ (fun x hx => hus x (List.mem_filter.mp hx).1))

theorem directExpr_sim (o r : String) (restrs : List Restr) :
    Sim true (directExpr w1 o r restrs) (directExpr w2 o r restrs) := by
  obtain ⟨v1, hv1⟩ := directLeaf_lit w2 o r
  obtain ⟨v2, hv2⟩ := publicLeaf_lit w2 o r
  simp only [directExpr, h.req, directLeaf_eq w1 w2 h, publicLeaf_eq w1 w2 h]
  refine (SimL.append (SimL.append ?_ ?_) ?_).or
  · exact SimL.ite_singleton _ (hv1 ▸ .atom (.lit v1))
  · exact SimL.ite_singleton _ (hv2 ▸ .atom (.lit v2))
  · exact SimL.ite_singleton _ (usersetsExpr_sim w1 w2 h o r restrs)

theorem rewriteExpr_sim (o r : String) (restrs : List Restr) :
    ∀ rw, Sim true (rewriteExpr w1 o r restrs rw) (rewriteExpr w2 o r restrs rw) := by
  intro rw
  induction rw using Rewrite.ind with
  | this => rw [rewriteExpr, rewriteExpr]; exact directExpr_sim w1 w2 h o r restrs
  | computed r' => rw [rewriteExpr, rewriteExpr]; exact .atom (.node false (o, r'))
  | ttu ts cr => rw [rewriteExpr, rewriteExpr]; exact ttuExpr_sim w1 w2 h o ts cr
  | union cs ih => rw [rewriteExpr, rewriteExpr]; exact (SimL.map _ _ _ (fun c hc => ih c hc)).or
  | inter cs ih => rw [rewriteExpr, rewriteExpr]; exact (SimL.map _ _ _ (fun c hc => ih c hc)).and
  | diff b s ihb ihs => rw [rewriteExpr, rewriteExpr]; exact .diff rfl ihb ihs

/-- **The rules of the two worlds refine each other** (apply with `h.symm` for the other direction). -/
theorem rules_sim (n : Node) : Sim true (ruleOf w1 n) (ruleOf w2 n) := by
  obtain ⟨o, r⟩ := n
  simp only [ruleOf, h.req, h.model, h.aux]
  split
  · exact .atom (.lit _)
  · split
    · exact .atom (.lit _)
    · split
      · exact .atom (.lit _)
      · exact rewriteExpr_sim w1 w2 h o r _ _

end

/-! ### semantics and answers -/

/-- **Same semantics**: with both rule systems free of negation through recursion, a sub-problem
definitely / possibly holds in one world iff it does in the other. -/
theorem semantics_eq (w1 w2 : World) (h : SameTuples w1 w2) (rk1 rk2 : Node → Nat)
    (hs1 : Stratified (sysOf w1) rk1) (hs2 : Stratified (sysOf w2) rk2) (n : Node) :
    (D (sysOf w1) (stratInterp (sysOf w1) rk1) [] n ↔ D (sysOf w2) (stratInterp (sysOf w2) rk2) [] n) ∧
    (P (sysOf w1) (stratInterp (sysOf w1) rk1) [] n ↔ P (sysOf w2) (stratInterp (sysOf w2) rk2) [] n) := by
  have a := stratified_refines hs1 hs2 (fun m => rules_sim w1 w2 h m) n
  have b := stratified_refines hs2 hs1 (fun m => rules_sim w2 w1 h.symm m) n
  exact ⟨⟨a.1, b.1⟩, ⟨b.2, a.2⟩⟩

/-- **c04_check**: untainted decisions of the default engine on two worlds that only differ in where the
tuples live agree, whatever the schedules and the depth limits. -/
theorem c04_check (w1 w2 : World) (h : SameTuples w1 w2) (rk1 rk2 : Node → Nat)
    (hs1 : Stratified (sysOf w1) rk1) (hs2 : Stratified (sysOf w2) rk2)
    (d1 d2 : Nat) (a1 c1 a2 c2 : Bool)
    (e1 : Eval (sysOf w1) noFacts d1 0 [] (rootExpr w1) (.ok a1 c1 false))
    (e2 : Eval (sysOf w2) noFacts d2 0 [] (rootExpr w2) (.ok a2 c2 false)) : a1 = a2 := by
  have s1 := check_sound_all_schedules_stratified w1 rk1 hs1 d1 a1 c1 e1
  have s2 := check_sound_all_schedules_stratified w2 rk2 hs2 d2 a2 c2 e2
  have hroot : rootExpr w1 = rootExpr w2 := by simp [rootExpr, h.req]
  have sem := semantics_eq w1 w2 h rk1 rk2 hs1 hs2 (w1.req.obj, w1.req.rel)
  have dp1 : ∀ n, D (sysOf w1) (stratInterp (sysOf w1) rk1) [] n → P (sysOf w1) (stratInterp (sysOf w1) rk1) [] n :=
    D_sub_P _ _ (consistent_stratInterp _ rk1) []
  cases a1 <;> cases a2 <;> try rfl
  · -- false / true
    have hd2 : D (sysOf w2) (stratInterp (sysOf w2) rk2) [] (w1.req.obj, w1.req.rel) := by
      have := s2.1 rfl
      unfold C01.SemDef at this
      rw [← hroot] at this
      exact holds_node_iff.mp this
    exact absurd (Holds.node (dp1 _ (sem.1.mpr hd2))) (s1.2 rfl)
  · -- true / false
    have hd1 : D (sysOf w1) (stratInterp (sysOf w1) rk1) [] (w1.req.obj, w1.req.rel) :=
      holds_node_iff.mp (s1.1 rfl)
    have hp2 : P (sysOf w2) (stratInterp (sysOf w2) rk2) [] (w1.req.obj, w1.req.rel) := sem.2.mp (dp1 _ hd1)
    have := s2.2 rfl
    unfold C01.SemPoss at this
    rw [← hroot] at this
    exact absurd (Holds.node hp2) this

/-! ### the split instance -/

theorem mem_insertByObj (t x : Tuple) (l : List Tuple) :
    x ∈ Model.CombinedReader.insertByObj t l ↔ x = t ∨ x ∈ l := by
  induction l with
  | nil => simp [Model.CombinedReader.insertByObj]
  | cons y ys ih =>
    unfold Model.CombinedReader.insertByObj
    split
    · simp
    · simp only [List.mem_cons, ih]
      constructor
      · rintro (h | h | h)
        · exact Or.inr (Or.inl h)
        · exact Or.inl h
        · exact Or.inr (Or.inr h)
      · rintro (h | h | h)
        · exact Or.inr (Or.inl h)
        · exact Or.inl h
        · exact Or.inr (Or.inr h)

theorem mem_orderCtx (ts : List Tuple) (x : Tuple) : x ∈ Model.CombinedReader.orderCtx ts ↔ x ∈ ts := by
  unfold Model.CombinedReader.orderCtx
  have key : ∀ (l acc : List Tuple),
      x ∈ l.foldl (fun acc t => Model.CombinedReader.insertByObj t acc) acc ↔ x ∈ l ∨ x ∈ acc := by
    intro l
    induction l with
    | nil => simp
    | cons y ys ih =>
      intro acc
      simp only [List.foldl_cons, ih, mem_insertByObj, List.mem_cons]
      constructor
      · rintro (h | h | h)
        · exact Or.inl (Or.inr h)
        · exact Or.inl (Or.inl h)
        · exact Or.inr h
      · rintro ((h | h) | h)
        · exact Or.inr (Or.inl h)
        · exact Or.inl h
        · exact Or.inr (Or.inr h)
  simpa using key ts []

/-- the request with contextual tuples `c` over the store `s` -/
def splitWorld (w : World) (c s : List Tuple) : World :=
  { w with ctxTuples := Model.CombinedReader.orderCtx c, stored := s }

/-- the same request without contextual tuples over the store `s ++ c` -/
def mergedWorld (w : World) (c s : List Tuple) : World :=
  { w with ctxTuples := [], stored := s ++ c }

theorem split_sameTuples (w : World) (c s : List Tuple) (hu : KeyUnique (s ++ c)) :
    SameTuples (splitWorld w c s) (mergedWorld w c s) := by
  refine ⟨rfl, rfl, rfl, rfl, ?_, ?_, ?_⟩
  · intro t
    simp only [splitWorld, mergedWorld, World.all, List.mem_append, mem_orderCtx, List.nil_append]
    exact Or.comm
  · intro a ha b hb
    simp only [splitWorld, World.all, List.mem_append, mem_orderCtx] at ha hb
    exact hu a (List.mem_append.mpr ha.symm) b (List.mem_append.mpr hb.symm)
  · intro a ha b hb
    simp only [mergedWorld, World.all, List.nil_append] at ha hb
    exact hu a ha b hb

/-- **c04_check for a split**: Check with contextual tuples `c` over the store `s` and Check without
contextual tuples over `s ++ c` give the same untainted answer (keys of `c` and `s` pairwise different). -/
theorem c04_check_split (w : World) (c s : List Tuple) (hu : KeyUnique (s ++ c)) (rk1 rk2 : Node → Nat)
    (hs1 : Stratified (sysOf (splitWorld w c s)) rk1) (hs2 : Stratified (sysOf (mergedWorld w c s)) rk2)
    (d1 d2 : Nat) (a1 c1 a2 c2 : Bool)
    (e1 : Eval (sysOf (splitWorld w c s)) noFacts d1 0 [] (rootExpr (splitWorld w c s)) (.ok a1 c1 false))
    (e2 : Eval (sysOf (mergedWorld w c s)) noFacts d2 0 [] (rootExpr (mergedWorld w c s)) (.ok a2 c2 false)) :
    a1 = a2 :=
  c04_check _ _ (split_sameTuples w c s hu) rk1 rk2 hs1 hs2 d1 d2 a1 c1 a2 c2 e1 e2

end OpenFGAVerif.CtxSplit
