/-
Inductive invariant of the cycle-group protocol model (`Model.Cycle`) and its preservation by every action.
Used by `Props.C21`.
-/
import OpenFGAVerif.Model.Cycle

namespace OpenFGAVerif.Proofs.Cycle
open OpenFGAVerif.Model.Cycle

/-! ## counting over `List.range` -/

def cnt (n : Nat) (p : Nat → Bool) : Nat := ((List.range n).filter p).length

theorem cnt_succ (n : Nat) (p : Nat → Bool) : cnt (n + 1) p = cnt n p + (if p n then 1 else 0) := by
  simp [cnt, List.range_succ, List.filter_append]
  by_cases h : p n <;> simp [h]

theorem cnt_congr (n : Nat) (p q : Nat → Bool) (h : ∀ i, i < n → p i = q i) : cnt n p = cnt n q := by
  induction n with
  | zero => simp [cnt]
  | succ n ih =>
    rw [cnt_succ, cnt_succ, ih (fun i hi => h i (by omega)), h n (by omega)]

/-- changing the predicate at one index below `n` changes the count accordingly -/
theorem cnt_upd (n : Nat) (p : Nat → Bool) (i : Nat) (b : Bool) (hi : i < n) :
    cnt n (fun j => if j = i then b else p j) + (if p i then 1 else 0) = cnt n p + (if b then 1 else 0) := by
  induction n with
  | zero => omega
  | succ n ih =>
    rw [cnt_succ, cnt_succ]
    by_cases h : i = n
    · subst h
      have : cnt i (fun j => if j = i then b else p j) = cnt i p :=
        cnt_congr _ _ _ (fun j hj => by simp [show j ≠ i by omega])
      simp [this]; omega
    · have := ih (by omega)
      simp [show n ≠ i by omega]; omega

theorem cnt_zero_iff (n : Nat) (p : Nat → Bool) : cnt n p = 0 ↔ ∀ i, i < n → p i = false := by
  induction n with
  | zero => simp [cnt]
  | succ n ih =>
    rw [cnt_succ]
    constructor
    · intro h i hi
      have h1 : cnt n p = 0 := by omega
      by_cases e : i = n
      · subst e; by_cases hp : p i <;> simp [hp] at h ⊢
      · exact (ih.mp h1) i (by omega)
    · intro h
      have := ih.mpr (fun i hi => h i (by omega))
      simp [this, h n (by omega)]

theorem cnt_all (n : Nat) (p : Nat → Bool) (h : ∀ i, i < n → p i = true) : cnt n p = n := by
  induction n with
  | zero => simp [cnt]
  | succ n ih => rw [cnt_succ, ih (fun i hi => h i (by omega)), h n (by omega)]; simp

/-! ## ranks -/

def rank : PC → Nat
  | .running => 0 | .reported => 1 | .waiting => 2 | .passed => 3 | .cleaning => 4 | .done => 5 | .exited => 6

/-- the member still holds the increment it received in `Join` -/
def nr (pc : PC) : Bool := pc == .running || pc == .reported

theorem nr_iff (pc : PC) : nr pc = true ↔ rank pc ≤ 1 := by cases pc <;> simp [nr, rank]

theorem notReadyCount_eq (t : Topo) (s : St) : notReadyCount t s = cnt t.n (fun i => nr (s.pc i)) := rfl

/-- predecessor in the wake-up chain: `next (pred j) = j` -/
def pred (t : Topo) (j : Nat) : Nat := if j = t.n - 1 then 0 else j + 1

theorem next_lt (t : Topo) (i : Nat) (hn : 0 < t.n) (hi : i < t.n) : t.next i < t.n := by
  unfold Topo.next; split <;> omega

theorem next_inj (t : Topo) (i j : Nat) (hi : i < t.n) (hj : j < t.n) (h : t.next i = t.next j) : i = j := by
  unfold Topo.next at h; split at h <;> split at h <;> omega

theorem next_succ (t : Topo) (i : Nat) : t.next (i + 1) = i := by simp [Topo.next]

/-! ## Pool lemmas -/

@[simp] theorem set_inflight (p : Pool) (i : Nat) : (p.set i).inflight = p.inflight := by
  unfold Pool.set; split <;> rfl
@[simp] theorem set_total (p : Pool) (i : Nat) : (p.set i).total = p.total := by
  unfold Pool.set; split <;> rfl
@[simp] theorem set_zero (p : Pool) (i : Nat) : (p.set i).zero = p.zero := by
  unfold Pool.set; split <;> rfl
@[simp] theorem set_qClosed (p : Pool) (i : Nat) : (p.set i).qClosed = p.qClosed := by
  unfold Pool.set; split <;> rfl
@[simp] theorem set_regs (p : Pool) (i : Nat) : (p.set i).regs = p.regs := by
  unfold Pool.set; split <;> rfl
theorem set_pend (p : Pool) (i : Nat) (h : p.pend i = true) : (p.set i).pend = upd p.pend i false := by
  unfold Pool.set; simp [h]
theorem set_ready (p : Pool) (i : Nat) (h : p.pend i = true) :
    (p.set i).readyClosed = (p.readyClosed || !((List.range p.regs).any (upd p.pend i false))) := by
  unfold Pool.set; simp [h, Pool.anyPending]

/-! ## The invariant -/

/-- structural part (everything except the counter equations) -/
structure InvS (t : Topo) (s : St) : Prop where
  regs : s.pool.regs = t.n
  total : t.n ≤ s.pool.total
  pend : ∀ i, i < t.n → (s.pool.pend i = true ↔ s.pc i = .running)
  ready : s.pool.readyClosed = true ↔ ∀ i, i < t.n → s.pc i ≠ .running
  zeroQ : s.pool.qClosed = s.pool.zero
  beyond : ∀ i, i < t.n → 3 ≤ rank (s.pc i) → s.pool.qClosed = true
  msgsValid : ∀ m, m ∈ s.msgs → m.src < t.n ∧ m.k < t.nl m.src
  wokenBy : ∀ i, i < t.n → s.woken (t.next i) = true → 5 ≤ rank (s.pc i)
  wakes : ∀ i, i < t.n → 5 ≤ rank (s.pc i) → s.woken (t.next i) = true
  awake : ∀ i, i < t.n → 4 ≤ rank (s.pc i) → i ≠ t.leader → s.woken i = true
  closedLe : ∀ i, i < t.n → s.closed i ≤ t.nl i
  closedPos : ∀ i, i < t.n → 0 < s.closed i → 4 ≤ rank (s.pc i)
  closedAll : ∀ i, i < t.n → 5 ≤ rank (s.pc i) → s.closed i = t.nl i

structure Inv (t : Topo) (s : St) : Prop extends InvS t s where
  /-- **the in-flight counter** = members that have not executed the `Dec` of SignalReady + cyclical messages between `Inc` and `Dec` -/
  counting : s.pool.inflight = ((notReadyCount t s + s.msgs.length : Nat) : Int)
  /-- a goroutine is about to close (or has closed) the latch only if the counter is 0 -/
  latchQ : (0 < s.pendingLatch ∨ s.pool.zero = true) → s.pool.inflight = 0
  /-- when the counter is 0 somebody is about to close (or has closed) the latch -/
  qLatch : s.pool.inflight = 0 → (0 < s.pendingLatch ∨ s.pool.zero = true)

theorem inv_init (t : Topo) (hn : 0 < t.n) : Inv t (init t 1) := by
  have hc : notReadyCount t (init t 1) = t.n := cnt_all _ _ (fun i _ => by simp [init])
  refine { regs := rfl, total := ?_, pend := ?_, ready := ?_, zeroQ := rfl, beyond := ?_, msgsValid := ?_,
           wokenBy := ?_, wakes := ?_, awake := ?_, closedLe := ?_, closedPos := ?_, closedAll := ?_,
           counting := ?_, latchQ := ?_, qLatch := ?_ }
  · simp [init]
  · intro i hi; simp [init, hi]
  · simp [init]; exact ⟨0, hn⟩
  · intro i _ h; simp [init, rank] at h
  · intro m h; simp [init] at h
  · intro i _ h; simp [init] at h
  · intro i _ h; simp [init, rank] at h
  · intro i _ h; simp [init, rank] at h
  · intro i _; simp [init]
  · intro i _ h; simp [init] at h
  · intro i _ h; simp [init, rank] at h
  · simp [hc]; simp [init]
  · simp [init]
  · intro h; simp [init] at h; omega

/-! ## helper lemmas -/

theorem nrc_move (t : Topo) (s s' : St) (i : Nat) (v : PC) (hi : i < t.n) (hpc : s'.pc = upd s.pc i v) :
    notReadyCount t s' + (if nr (s.pc i) then 1 else 0) = notReadyCount t s + (if nr v then 1 else 0) := by
  rw [notReadyCount_eq, notReadyCount_eq, hpc]
  have : (fun j => nr (upd s.pc i v j)) = (fun j => if j = i then nr v else nr (s.pc j)) := by
    funext j; simp only [upd]; split <;> rfl
  rw [this]
  exact cnt_upd t.n (fun j => nr (s.pc j)) i (nr v) hi

theorem nrc_same (t : Topo) (s s' : St) (hpc : s'.pc = s.pc) : notReadyCount t s' = notReadyCount t s := by
  rw [notReadyCount_eq, notReadyCount_eq, hpc]

theorem inflight_nonneg {t : Topo} {s : St} (h : Inv t s) : 0 ≤ s.pool.inflight := by
  rw [h.counting]; omega

/-- with the invariant, `inflight = 0` is exactly quiescence -/
theorem quiescent_iff {t : Topo} {s : St} (h : Inv t s) : quiescent t s ↔ s.pool.inflight = 0 := by
  rw [h.counting]
  constructor
  · intro ⟨h1, h2⟩
    have : notReadyCount t s = 0 := by
      rw [notReadyCount_eq, cnt_zero_iff]
      intro i hi
      have := h1 i hi
      cases hp : s.pc i <;> simp_all [nr]
    simp [this, h2]
  · intro h0
    have h1 : notReadyCount t s = 0 := by omega
    have h2 : s.msgs.length = 0 := by omega
    rw [notReadyCount_eq, cnt_zero_iff] at h1
    refine ⟨fun i hi => ?_, List.length_eq_zero_iff.mp h2⟩
    have := h1 i hi
    cases hp : s.pc i <;> simp_all [nr]

theorem not_active_of_quiescent {t : Topo} {s : St} (hq : quiescent t s) (i : Nat) (hi : i < t.n) :
    active t s i = false := by
  obtain ⟨h1, h2⟩ := hq
  have := (h1 i hi).1
  simp [active, h2, this]

@[simp] theorem decStep_pc (s : St) : (decStep s).pc = s.pc := rfl
@[simp] theorem decStep_msgs (s : St) : (decStep s).msgs = s.msgs := rfl
@[simp] theorem decStep_woken (s : St) : (decStep s).woken = s.woken := rfl
@[simp] theorem decStep_closed (s : St) : (decStep s).closed = s.closed := rfl
@[simp] theorem decStep_pool (s : St) : (decStep s).pool = { s.pool with inflight := s.pool.inflight - 1 } := rfl
theorem decStep_pl (s : St) :
    (decStep s).pendingLatch = if s.pool.inflight - 1 = 0 then s.pendingLatch + 1 else s.pendingLatch := by
  simp [decStep, Pool.decAdd]

theorem upd_pc_cases (pc : Nat → PC) (i : Nat) (v : PC) (j : Nat) :
    (j = i ∧ upd pc i v j = v) ∨ (j ≠ i ∧ upd pc i v j = pc j) := by
  by_cases e : j = i
  · left; subst e; simp
  · right; exact ⟨e, upd_other pc i j v e⟩

/-- a member advances its pc (never back to `running`); pool flags, wake flags, listeners, messages unchanged -/
theorem invS_pcmove {t : Topo} {s s' : St} (h : InvS t s) (i : Nat) (hi : i < t.n) (v : PC)
    (hpc : s'.pc = upd s.pc i v) (hpool : s'.pool = s.pool) (hmsgs : s'.msgs = s.msgs)
    (hwmono : ∀ j, s.woken j = true → s'.woken j = true)
    (hwnew : ∀ j, j < t.n → s'.woken (t.next j) = true → s.woken (t.next j) = true ∨ (j = i ∧ 5 ≤ rank v))
    (hclosed : s'.closed = s.closed)
    (hmono : rank (s.pc i) ≤ rank v) (hv : v ≠ .running) (hold : s.pc i ≠ .running)
    (hq : 3 ≤ rank v → s.pool.qClosed = true)
    (haw : 4 ≤ rank v → i ≠ t.leader → s.woken i = true)
    (hwk : 5 ≤ rank v → s'.woken (t.next i) = true)
    (hcl : 5 ≤ rank v → s.closed i = t.nl i) : InvS t s' := by
  refine { regs := ?_, total := ?_, pend := ?_, ready := ?_, zeroQ := ?_, beyond := ?_, msgsValid := ?_,
           wokenBy := ?_, wakes := ?_, awake := ?_, closedLe := ?_, closedPos := ?_, closedAll := ?_ }
  · rw [hpool]; exact h.regs
  · rw [hpool]; exact h.total
  · intro j hj; rw [hpool, hpc]
    rcases upd_pc_cases s.pc i v j with ⟨e, hv'⟩ | ⟨e, hv'⟩
    · rw [hv']; subst e
      constructor
      · intro hp; exact absurd ((h.pend j hj).mp hp) hold
      · intro e; exact absurd e hv
    · rw [hv']; exact h.pend j hj
  · rw [hpool, hpc, h.ready]
    constructor
    · intro hall j hj
      rcases upd_pc_cases s.pc i v j with ⟨e, hv'⟩ | ⟨e, hv'⟩
      · rw [hv']; exact hv
      · rw [hv']; exact hall j hj
    · intro hall j hj
      by_cases e : j = i
      · subst e; exact hold
      · have := hall j hj; rwa [upd_other _ _ _ _ e] at this
  · rw [hpool]; exact h.zeroQ
  · intro j hj hr; rw [hpool]; rw [hpc] at hr
    rcases upd_pc_cases s.pc i v j with ⟨e, hv'⟩ | ⟨e, hv'⟩
    · rw [hv'] at hr; exact hq hr
    · rw [hv'] at hr; exact h.beyond j hj hr
  · rw [hmsgs]; exact h.msgsValid
  · intro j hj hw; rw [hpc]
    rcases hwnew j hj hw with hw | ⟨e, h5⟩
    · rcases upd_pc_cases s.pc i v j with ⟨e, hv'⟩ | ⟨e, hv'⟩
      · rw [hv']; subst e; have := h.wokenBy j hj hw; omega
      · rw [hv']; exact h.wokenBy j hj hw
    · subst e; simpa using h5
  · intro j hj hr; rw [hpc] at hr
    rcases upd_pc_cases s.pc i v j with ⟨e, hv'⟩ | ⟨e, hv'⟩
    · rw [hv'] at hr; subst e; exact hwk hr
    · rw [hv'] at hr; exact hwmono _ (h.wakes j hj hr)
  · intro j hj hr hl; rw [hpc] at hr
    rcases upd_pc_cases s.pc i v j with ⟨e, hv'⟩ | ⟨e, hv'⟩
    · rw [hv'] at hr; subst e; exact hwmono _ (haw hr hl)
    · rw [hv'] at hr; exact hwmono _ (h.awake j hj hr hl)
  · rw [hclosed]; exact h.closedLe
  · intro j hj hc; rw [hclosed] at hc; rw [hpc]
    rcases upd_pc_cases s.pc i v j with ⟨e, hv'⟩ | ⟨e, hv'⟩
    · rw [hv']; subst e; have := h.closedPos j hj hc; omega
    · rw [hv']; exact h.closedPos j hj hc
  · intro j hj hr; rw [hclosed]; rw [hpc] at hr
    rcases upd_pc_cases s.pc i v j with ⟨e, hv'⟩ | ⟨e, hv'⟩
    · rw [hv'] at hr; subst e; exact hcl hr
    · rw [hv'] at hr; exact h.closedAll j hj hr

/-- the counter part is untouched by a pc move between two pcs that are both past SignalReady -/
theorem inv_of_invS_same_count {t : Topo} {s s' : St} (h : Inv t s) (hS : InvS t s')
    (hpool : s'.pool = s.pool) (hpl : s'.pendingLatch = s.pendingLatch) (hmsgs : s'.msgs = s.msgs)
    (hc : notReadyCount t s' = notReadyCount t s) : Inv t s' :=
  { hS with
    counting := by rw [hpool, hmsgs, hc]; exact h.counting
    latchQ := by rw [hpool, hpl]; exact h.latchQ
    qLatch := by rw [hpool, hpl]; exact h.qLatch }

theorem inv_pcmove {t : Topo} {s s' : St} (h : Inv t s) (i : Nat) (hi : i < t.n) (v : PC)
    (hpc : s'.pc = upd s.pc i v) (hpool : s'.pool = s.pool) (hpl : s'.pendingLatch = s.pendingLatch)
    (hmsgs : s'.msgs = s.msgs)
    (hwmono : ∀ j, s.woken j = true → s'.woken j = true)
    (hwnew : ∀ j, j < t.n → s'.woken (t.next j) = true → s.woken (t.next j) = true ∨ (j = i ∧ 5 ≤ rank v))
    (hclosed : s'.closed = s.closed)
    (hmono : rank (s.pc i) ≤ rank v) (hold : 2 ≤ rank (s.pc i))
    (hq : 3 ≤ rank v → s.pool.qClosed = true)
    (haw : 4 ≤ rank v → i ≠ t.leader → s.woken i = true)
    (hwk : 5 ≤ rank v → s'.woken (t.next i) = true)
    (hcl : 5 ≤ rank v → s.closed i = t.nl i) : Inv t s' := by
  have hr0 : rank PC.running = 0 := rfl
  have hv : v ≠ .running := by intro e; rw [e] at hmono; omega
  have hold' : s.pc i ≠ .running := by intro e; rw [e] at hold; omega
  have hS := invS_pcmove h.toInvS i hi v hpc hpool hmsgs hwmono hwnew hclosed hmono hv hold' hq haw hwk hcl
  refine inv_of_invS_same_count h hS hpool hpl hmsgs ?_
  have := nrc_move t s s' i v hi hpc
  have h1 : nr (s.pc i) = false := by
    cases hp : nr (s.pc i)
    · rfl
    · have := (nr_iff _).mp hp; omega
  have h2 : nr v = false := by
    cases hp : nr v
    · rfl
    · have := (nr_iff _).mp hp; omega
  simpa [h1, h2] using this

/-! ## preservation, action by action -/

theorem inv_msgInc {t : Topo} {s : St} (h : Inv t s) (i k : Nat) (hi : i < t.n) (hk : k < t.nl i)
    (ha : active t s i = true) :
    Inv t { s with pool := s.pool.inc, msgs := ⟨i, k⟩ :: s.msgs } := by
  have hnq : s.pool.inflight ≠ 0 := fun h0 => by
    have := not_active_of_quiescent ((quiescent_iff h).mpr h0) i hi
    simp [this] at ha
  have hnn := inflight_nonneg h
  refine { regs := h.regs, counting := ?_, total := ?_, pend := h.pend, ready := h.ready, latchQ := ?_, qLatch := ?_,
           zeroQ := h.zeroQ, beyond := h.beyond, msgsValid := ?_, wokenBy := h.wokenBy, wakes := h.wakes,
           awake := h.awake, closedLe := h.closedLe, closedPos := h.closedPos, closedAll := h.closedAll }
  · show t.n ≤ s.pool.total + 1
    have := h.total; omega
  · intro m hm
    simp at hm
    rcases hm with rfl | hm
    · exact ⟨hi, hk⟩
    · exact h.msgsValid m hm
  · show s.pool.inflight + 1 = ((notReadyCount t s + (s.msgs.length + 1) : Nat) : Int)
    rw [h.counting]; omega
  · intro hp; exact absurd (h.latchQ hp) hnq
  · intro h0
    have : s.pool.inflight + 1 = 0 := h0
    omega

/-- common part of the two `Dec` actions: a state `s1` that satisfies the structural invariant and whose counter is one
too high, followed by `decStep` -/
theorem inv_decStep {t : Topo} {s s1 : St} (h : Inv t s) (hS : InvS t s1)
    (hpool : s1.pool = s.pool) (hpl : s1.pendingLatch = s.pendingLatch)
    (hcount : s.pool.inflight = ((notReadyCount t s1 + s1.msgs.length : Nat) : Int) + 1) :
    Inv t (decStep s1) := by
  have hne : s.pool.inflight ≠ 0 := by omega
  have hnp : ¬ (0 < s.pendingLatch ∨ s.pool.zero = true) := fun hp => hne (h.latchQ hp)
  refine { regs := ?_, counting := ?_, total := ?_, pend := ?_, ready := ?_, latchQ := ?_, qLatch := ?_,
           zeroQ := ?_, beyond := ?_, msgsValid := hS.msgsValid, wokenBy := hS.wokenBy, wakes := hS.wakes,
           awake := hS.awake, closedLe := hS.closedLe, closedPos := hS.closedPos, closedAll := hS.closedAll }
  · simpa using hS.regs
  · simpa using hS.total
  · simpa using hS.pend
  · simpa using hS.ready
  · simpa using hS.zeroQ
  · simpa using hS.beyond
  · simp only [decStep_pool, hpool]
    rw [nrc_same t s1 (decStep s1) rfl]
    show s.pool.inflight - 1 = _
    simp only [decStep_msgs]; omega
  · rw [decStep_pl, hpool, hpl]
    simp only [decStep_pool, hpool]
    intro hp
    show s.pool.inflight - 1 = 0
    split at hp
    · assumption
    · exact absurd hp hnp
  · rw [decStep_pl, hpool, hpl]
    simp only [decStep_pool, hpool]
    intro h0
    have h0' : s.pool.inflight - 1 = 0 := h0
    left; simp [h0']

theorem inv_msgDone {t : Topo} {s : St} (h : Inv t s) (i k : Nat) (hm : (⟨i, k⟩ : Msg) ∈ s.msgs) :
    Inv t (decStep { s with msgs := s.msgs.erase ⟨i, k⟩ }) := by
  refine inv_decStep (s1 := { s with msgs := s.msgs.erase ⟨i, k⟩ }) h ?_ rfl rfl ?_
  · exact { h.toInvS with msgsValid := fun m hm' => h.msgsValid m (List.mem_of_mem_erase hm') }
  · have := nrc_same t s { s with msgs := s.msgs.erase ⟨i, k⟩ } rfl
    rw [this, h.counting]
    simp only [List.length_erase_of_mem hm]
    have : 0 < s.msgs.length := List.length_pos_of_mem hm
    omega

theorem inv_srDec {t : Topo} {s : St} (h : Inv t s) (i : Nat) (hi : i < t.n) (hpc : s.pc i = .reported) :
    Inv t (decStep { s with pc := upd s.pc i .waiting }) := by
  refine inv_decStep (s1 := { s with pc := upd s.pc i .waiting }) h ?_ rfl rfl ?_
  · exact invS_pcmove h.toInvS i hi .waiting rfl rfl rfl (fun _ h => h) (fun _ _ h => Or.inl h) rfl (by simp [hpc, rank]) (by simp) (by simp [hpc])
      (by simp [rank]) (by simp [rank]) (by simp [rank]) (by simp [rank])
  · have := nrc_move t s { s with pc := upd s.pc i .waiting } i .waiting hi rfl
    simp [hpc, nr] at this
    rw [h.counting]
    show ((notReadyCount t s + s.msgs.length : Nat) : Int) = ((notReadyCount t _ + s.msgs.length : Nat) : Int) + 1
    omega

theorem inv_report {t : Topo} {s : St} (h : Inv t s) (i : Nat) (hi : i < t.n) (hpc : s.pc i = .running) :
    Inv t { s with pc := upd s.pc i .reported, pool := s.pool.set i } := by
  have hpi : s.pool.pend i = true := (h.pend i hi).mpr hpc
  refine { regs := ?_, counting := ?_, total := ?_, pend := ?_, ready := ?_, latchQ := ?_, qLatch := ?_,
           zeroQ := ?_, beyond := ?_, msgsValid := h.msgsValid, wokenBy := ?_, wakes := ?_,
           awake := ?_, closedLe := h.closedLe, closedPos := ?_, closedAll := ?_ }
  · simp [h.regs]
  · simp [h.total]
  · intro j hj
    simp only [set_pend _ _ hpi]
    rcases upd_pc_cases s.pc i .reported j with ⟨e, hv⟩ | ⟨e, hv⟩
    · subst e; simp
    · rw [hv, upd_other _ _ _ _ e]; exact h.pend j hj
  · simp only [set_ready _ _ hpi, h.regs]
    have hnr : s.pool.readyClosed = false := by
      cases hr : s.pool.readyClosed
      · rfl
      · exact absurd hpc (h.ready.mp hr i hi)
    simp only [hnr, Bool.false_or, Bool.not_eq_true', List.any_eq_false, List.mem_range]
    constructor
    · intro hall j hj
      rcases upd_pc_cases s.pc i .reported j with ⟨e, hv⟩ | ⟨e, hv⟩
      · rw [hv]; simp
      · rw [hv]
        have := hall j hj
        rw [upd_other _ _ _ _ e] at this
        intro hrun; exact this ((h.pend j hj).mpr hrun)
    · intro hall j hj
      by_cases e : j = i
      · subst e; simp
      · rw [upd_other _ _ _ _ e]
        have := hall j hj
        rw [upd_other _ _ _ _ e] at this
        intro hp; exact this ((h.pend j hj).mp hp)
  · simpa using h.zeroQ
  · intro j hj hr
    simp only [set_qClosed]
    dsimp only at hr
    rcases upd_pc_cases s.pc i .reported j with ⟨e, hv⟩ | ⟨e, hv⟩
    · rw [hv] at hr; simp [rank] at hr
    · rw [hv] at hr; exact h.beyond j hj hr
  · intro j hj hw
    rcases upd_pc_cases s.pc i .reported j with ⟨e, hv⟩ | ⟨e, hv⟩
    · subst e; have := h.wokenBy j hj hw; rw [hpc] at this; simp [rank] at this
    · show 5 ≤ rank (upd s.pc i .reported j); rw [hv]; exact h.wokenBy j hj hw
  · intro j hj hr
    rcases upd_pc_cases s.pc i .reported j with ⟨e, hv⟩ | ⟨e, hv⟩
    · have hr' : 5 ≤ rank (upd s.pc i .reported j) := hr
      rw [hv] at hr'; simp [rank] at hr'
    · have hr' : 5 ≤ rank (upd s.pc i .reported j) := hr
      rw [hv] at hr'; exact h.wakes j hj hr'
  · intro j hj hr hl
    rcases upd_pc_cases s.pc i .reported j with ⟨e, hv⟩ | ⟨e, hv⟩
    · have hr' : 4 ≤ rank (upd s.pc i .reported j) := hr
      rw [hv] at hr'; simp [rank] at hr'
    · have hr' : 4 ≤ rank (upd s.pc i .reported j) := hr
      rw [hv] at hr'; exact h.awake j hj hr' hl
  · intro j hj hc
    rcases upd_pc_cases s.pc i .reported j with ⟨e, hv⟩ | ⟨e, hv⟩
    · subst e; have := h.closedPos j hj hc; rw [hpc] at this; simp [rank] at this
    · show 4 ≤ rank (upd s.pc i .reported j); rw [hv]; exact h.closedPos j hj hc
  · intro j hj hr
    rcases upd_pc_cases s.pc i .reported j with ⟨e, hv⟩ | ⟨e, hv⟩
    · have hr' : 5 ≤ rank (upd s.pc i .reported j) := hr
      rw [hv] at hr'; simp [rank] at hr'
    · have hr' : 5 ≤ rank (upd s.pc i .reported j) := hr
      rw [hv] at hr'; exact h.closedAll j hj hr'
  · have := nrc_move t s { s with pc := upd s.pc i .reported, pool := s.pool.set i } i .reported hi rfl
    simp [hpc, nr] at this
    simp only [set_inflight]
    rw [this]; exact h.counting
  · simpa using h.latchQ
  · simpa using h.qLatch

theorem inv_latch {t : Topo} {s : St} (h : Inv t s) (hp : 0 < s.pendingLatch) :
    Inv t { s with pendingLatch := s.pendingLatch - 1, pool := s.pool.latchSwap } := by
  have h0 : s.pool.inflight = 0 := h.latchQ (Or.inl hp)
  by_cases hz : s.pool.zero = true
  · have : s.pool.latchSwap = s.pool := by simp [Pool.latchSwap, hz]
    rw [this]
    exact { h.toInvS with
      counting := h.counting
      latchQ := fun _ => h0
      qLatch := fun _ => Or.inr hz }
  · have hsw : s.pool.latchSwap = { s.pool with zero := true, qClosed := true } := by simp [Pool.latchSwap, hz]
    rw [hsw]
    exact { regs := h.regs, total := h.total, pend := h.pend, ready := h.ready, zeroQ := rfl,
            beyond := fun _ _ _ => rfl, msgsValid := h.msgsValid, wokenBy := h.wokenBy, wakes := h.wakes,
            awake := h.awake, closedLe := h.closedLe, closedPos := h.closedPos, closedAll := h.closedAll,
            counting := h.counting, latchQ := fun _ => h0, qLatch := fun _ => Or.inr rfl }

theorem inv_waitDone {t : Topo} {s : St} (h : Inv t s) (i : Nat) (hi : i < t.n) (hpc : s.pc i = .waiting)
    (hw : s.pool.waitPassable = true) : Inv t { s with pc := upd s.pc i .passed } := by
  have hq : s.pool.qClosed = true := by
    have ht := h.total
    simp [Pool.waitPassable] at hw
    rcases hw.2 with h0 | h1
    · omega
    · exact h1
  exact inv_pcmove h i hi .passed rfl rfl rfl rfl (fun _ h => h) (fun _ _ h => Or.inl h) rfl (by simp [hpc, rank]) (by simp [hpc, rank])
    (fun _ => hq) (by simp [rank]) (by simp [rank]) (by simp [rank])

theorem inv_beginCleanup {t : Topo} {s : St} (h : Inv t s) (i : Nat) (hi : i < t.n) (hpc : s.pc i = .passed)
    (hl : i = t.leader) : Inv t { s with pc := upd s.pc i .cleaning } :=
  inv_pcmove h i hi .cleaning rfl rfl rfl rfl (fun _ h => h) (fun _ _ h => Or.inl h) rfl (by simp [hpc, rank]) (by simp [hpc, rank])
    (fun _ => h.beyond i hi (by simp [hpc, rank])) (fun _ hne => absurd hl hne) (by simp [rank]) (by simp [rank])

theorem inv_sleepDone {t : Topo} {s : St} (h : Inv t s) (i : Nat) (hi : i < t.n) (hpc : s.pc i = .passed)
    (hw : s.woken i = true) : Inv t { s with pc := upd s.pc i .cleaning } :=
  inv_pcmove h i hi .cleaning rfl rfl rfl rfl (fun _ h => h) (fun _ _ h => Or.inl h) rfl (by simp [hpc, rank]) (by simp [hpc, rank])
    (fun _ => h.beyond i hi (by simp [hpc, rank])) (fun _ _ => hw) (by simp [rank]) (by simp [rank])

theorem inv_exit {t : Topo} {s : St} (h : Inv t s) (i : Nat) (hi : i < t.n) (hpc : s.pc i = .done) :
    Inv t { s with pc := upd s.pc i .exited } :=
  inv_pcmove h i hi .exited rfl rfl rfl rfl (fun _ h => h) (fun _ _ h => Or.inl h) rfl (by simp [hpc, rank]) (by simp [hpc, rank])
    (fun _ => h.beyond i hi (by simp [hpc, rank]))
    (fun _ hne => h.awake i hi (by simp [hpc, rank]) hne)
    (fun _ => h.wakes i hi (by simp [hpc, rank]))
    (fun _ => h.closedAll i hi (by simp [hpc, rank]))

theorem inv_closeNext {t : Topo} {s : St} (h : Inv t s) (i : Nat) (hi : i < t.n) (hpc : s.pc i = .cleaning)
    (hc : s.closed i < t.nl i) : Inv t { s with closed := upd s.closed i (s.closed i + 1) } := by
  have hS : InvS t { s with closed := upd s.closed i (s.closed i + 1) } :=
    { h.toInvS with
      closedLe := by
        intro j hj; dsimp only
        by_cases e : j = i
        · subst e; simp; omega
        · rw [upd_other _ _ _ _ e]; exact h.closedLe j hj
      closedPos := by
        intro j hj hp; dsimp only at hp ⊢
        by_cases e : j = i
        · subst e; simp [hpc, rank]
        · rw [upd_other _ _ _ _ e] at hp; exact h.closedPos j hj hp
      closedAll := by
        intro j hj hr; dsimp only at hr ⊢
        by_cases e : j = i
        · subst e; rw [hpc] at hr; simp [rank] at hr
        · rw [upd_other _ _ _ _ e]; exact h.closedAll j hj hr }
  exact inv_of_invS_same_count h hS rfl rfl rfl (nrc_same t s _ rfl)

theorem upd_true_mono (w : Nat → Bool) (x j : Nat) (h : w j = true) : upd w x true j = true := by
  by_cases e : j = x
  · subst e; simp
  · rw [upd_other _ _ _ _ e]; exact h

theorem inv_wake {t : Topo} {s : St} (h : Inv t s) (i : Nat) (hi : i < t.n) (hpc : s.pc i = .cleaning)
    (hc : s.closed i = t.nl i) :
    Inv t { s with pc := upd s.pc i .done, woken := upd s.woken (t.next i) true } :=
  inv_pcmove h i hi .done rfl rfl rfl rfl (fun j hj => upd_true_mono _ _ _ hj)
    (fun j hj hw => by
      by_cases e : t.next j = t.next i
      · exact Or.inr ⟨next_inj t j i hj hi e, by simp [rank]⟩
      · left; have hw' : upd s.woken (t.next i) true (t.next j) = true := hw
        rwa [upd_other _ _ _ _ e] at hw')
    rfl (by simp [hpc, rank]) (by simp [hpc, rank])
    (fun _ => h.beyond i hi (by simp [hpc, rank]))
    (fun _ hne => h.awake i hi (by simp [hpc, rank]) hne)
    (fun _ => by simp) (fun _ => hc)

/-! ## every action preserves the invariant; every reachable state satisfies it -/

theorem step_inv {t : Topo} {s s' : St} (h : Inv t s) (a : Act) (hs : step t s a = some s') : Inv t s' := by
  cases a with
  | msgInc i k =>
    simp only [step] at hs; split at hs
    · rename_i hg; obtain ⟨hi, hk, ha⟩ := hg
      injection hs with hs; subst hs; exact inv_msgInc h i k hi hk ha
    · simp at hs
  | msgDone i k =>
    simp only [step] at hs; split at hs
    · rename_i hg; injection hs with hs; subst hs; exact inv_msgDone h i k hg
    · simp at hs
  | report i =>
    simp only [step] at hs; split at hs
    · rename_i hg; injection hs with hs; subst hs; exact inv_report h i hg.1 hg.2
    · simp at hs
  | srDec i =>
    simp only [step] at hs; split at hs
    · rename_i hg; injection hs with hs; subst hs; exact inv_srDec h i hg.1 hg.2
    · simp at hs
  | latch =>
    simp only [step] at hs; split at hs
    · rename_i hg; injection hs with hs; subst hs; exact inv_latch h hg
    · simp at hs
  | waitDone i =>
    simp only [step] at hs; split at hs
    · rename_i hg; injection hs with hs; subst hs; exact inv_waitDone h i hg.1 hg.2.1 hg.2.2
    · simp at hs
  | beginCleanup i =>
    simp only [step] at hs; split at hs
    · rename_i hg; injection hs with hs; subst hs; exact inv_beginCleanup h i hg.1 hg.2.1 hg.2.2
    · simp at hs
  | sleepDone i =>
    simp only [step] at hs; split at hs
    · rename_i hg; injection hs with hs; subst hs; exact inv_sleepDone h i hg.1 hg.2.1 hg.2.2.2
    · simp at hs
  | closeNext i =>
    simp only [step] at hs; split at hs
    · rename_i hg; injection hs with hs; subst hs; exact inv_closeNext h i hg.1 hg.2.1 hg.2.2
    · simp at hs
  | wake i =>
    simp only [step] at hs; split at hs
    · rename_i hg; injection hs with hs; subst hs; exact inv_wake h i hg.1 hg.2.1 hg.2.2
    · simp at hs
  | exit i =>
    simp only [step] at hs; split at hs
    · rename_i hg; injection hs with hs; subst hs; exact inv_exit h i hg.1 hg.2.1
    · simp at hs

theorem run_inv {t : Topo} (acts : List Act) {s s' : St} (h : Inv t s) (hr : run t s acts = some s') : Inv t s' := by
  induction acts generalizing s with
  | nil => simp [run] at hr; subst hr; exact h
  | cons a as ih =>
    simp only [run] at hr
    cases hs : step t s a with
    | none => simp [hs] at hr
    | some s1 => rw [hs] at hr; exact ih (step_inv h a hs) hr

theorem reachable_inv {t : Topo} (hn : 0 < t.n) {s : St} (hr : Reachable t s) : Inv t s := by
  obtain ⟨acts, hrun⟩ := hr
  exact run_inv acts (inv_init t hn) hrun

theorem run_append {t : Topo} (a b : List Act) (s : St) :
    run t s (a ++ b) = (run t s a).bind (fun s' => run t s' b) := by
  induction a generalizing s with
  | nil => simp [run]
  | cons x xs ih =>
    simp only [List.cons_append, run]
    cases step t s x with
    | none => simp
    | some s1 => simp [ih]

theorem reachable_step {t : Topo} {s s' : St} (hr : Reachable t s) (a : Act) (hs : step t s a = some s') :
    Reachable t s' := by
  obtain ⟨acts, hrun⟩ := hr
  refine ⟨acts ++ [a], ?_⟩
  rw [run_append, hrun]; simp [run, hs]

theorem reachable_run {t : Topo} {s s' : St} (hr : Reachable t s) (acts : List Act) (hs : run t s acts = some s') :
    Reachable t s' := by
  obtain ⟨a0, hrun⟩ := hr
  refine ⟨a0 ++ acts, ?_⟩
  rw [run_append, hrun]; simpa using hs

end OpenFGAVerif.Proofs.Cycle
