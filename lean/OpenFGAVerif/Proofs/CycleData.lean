/-
Invariants of the dataflow-level model of the cycle group (`Model.CycleData`): soundness and coverage of the
de-duplicating workers with respect to the least fixpoint of the dataflow equations, and the link between tasks and
the message tokens of the protocol level.  Used by `Props.C21` (`no_lost_object`).
-/
import OpenFGAVerif.Proofs.CycleLive
import OpenFGAVerif.Model.CycleData

namespace OpenFGAVerif.Proofs.CycleData
open OpenFGAVerif.Model.Cycle OpenFGAVerif.Model.CycleData OpenFGAVerif.Proofs.Cycle

/-! ## task lists -/

theorem mem_replace {ts : List Task} {T T' X : Task} (h : X ∈ replace ts T T') : X = T' ∨ X ∈ ts := by
  simp only [replace, List.mem_cons] at h
  rcases h with h | h
  · exact Or.inl h
  · exact Or.inr (List.mem_of_mem_erase h)

theorem mem_replace_of_ne {ts : List Task} {T T' X : Task} (h : X ∈ ts) (hne : X ≠ T) : X ∈ replace ts T T' := by
  simp only [replace, List.mem_cons]
  exact Or.inr ((List.mem_erase_of_ne hne).mpr h)

theorem mem_replace_new {ts : List Task} {T T' : Task} : T' ∈ replace ts T T' := by simp [replace]

theorem forall_replace {ts : List Task} {T T' : Task} {P : Task → Prop} (h : ∀ X, X ∈ ts → P X) (h' : P T') :
    ∀ X, X ∈ replace ts T T' → P X := by
  intro X hX
  rcases mem_replace hX with rfl | hX
  · exact h'
  · exact h X hX

/-- a witness among the tasks survives the replacement of `T` by `T'`, unless it was `T` itself -/
theorem exists_replace {ts : List Task} {T T' : Task} {Q : Task → Prop} (h : ∃ X, X ∈ ts ∧ Q X) :
    (∃ X, X ∈ replace ts T T' ∧ Q X) ∨ Q T := by
  obtain ⟨X, hX, hQ⟩ := h
  by_cases e : X = T
  · subst e; exact Or.inr hQ
  · exact Or.inl ⟨X, mem_replace_of_ne hX e, hQ⟩

theorem exists_replace_mono {ts : List Task} {T T' : Task} {Q : Task → Prop} (h : ∃ X, X ∈ ts ∧ Q X) (hm : Q T → Q T') :
    ∃ X, X ∈ replace ts T T' ∧ Q X := by
  rcases exists_replace (T := T) (T' := T') h with h | h
  · exact h
  · exact ⟨T', mem_replace_new, hm h⟩

theorem exists_erase {ts : List Task} {T : Task} {Q : Task → Prop} (h : ∃ X, X ∈ ts ∧ Q X) :
    (∃ X, X ∈ ts.erase T ∧ Q X) ∨ Q T := by
  obtain ⟨X, hX, hQ⟩ := h
  by_cases e : X = T
  · subst e; exact Or.inr hQ
  · exact Or.inl ⟨X, (List.mem_erase_of_ne e).mpr hX, hQ⟩

/-- token count of a task list -/
def tokCount (ts : List Task) (m : Msg) : Nat := (ts.filterMap cycTok).count m

theorem tokCount_cons (T : Task) (ts : List Task) (m : Msg) :
    tokCount (T :: ts) m = (if cycTok T = some m then 1 else 0) + tokCount ts m := by
  unfold tokCount
  cases h : cycTok T with
  | none => simp [List.filterMap_cons, h]
  | some x =>
    simp only [List.filterMap_cons, h, List.count_cons]
    by_cases e : x = m
    · subst e; simp; omega
    · have : ¬ (some x = some m) := fun hh => e (Option.some.inj hh)
      simp [e, this]

theorem tokCount_erase {T : Task} {ts : List Task} (h : T ∈ ts) (m : Msg) :
    tokCount (ts.erase T) m + (if cycTok T = some m then 1 else 0) = tokCount ts m := by
  induction ts with
  | nil => simp at h
  | cons X xs ih =>
    by_cases e : X = T
    · subst e
      simp only [List.erase_cons_head]
      rw [tokCount_cons]; omega
    · have hT : T ∈ xs := by
        simp only [List.mem_cons] at h
        rcases h with h | h
        · exact absurd h.symm e
        · exact h
      have hx : (X :: xs).erase T = X :: xs.erase T := by
        simp [List.erase_cons, e]
      rw [hx, tokCount_cons, tokCount_cons]
      have := ih hT
      omega

theorem tokCount_replace {T T' : Task} {ts : List Task} (h : T ∈ ts) (hs : cycTok T' = cycTok T) (m : Msg) :
    tokCount (replace ts T T') m = tokCount ts m := by
  unfold replace
  rw [tokCount_cons, hs]
  have := tokCount_erase h m
  omega

/-! ## pending work predicates -/

def PRes (ts : List Task) (i : Nat) (r : Val) : Prop := ∃ T, T ∈ ts ∧ (T.owner = i ∧ r ∈ T.results)
def PRaw (ts : List Task) (j k : Nat) (v : Val) : Prop := ∃ T, T ∈ ts ∧ (T.src = some (j, k) ∧ v ∈ T.rawIn)
def POut (ts : List Task) (j k : Nat) (v : Val) : Prop :=
  ∃ T, T ∈ ts ∧ (T.owner = j ∧ (v ∈ T.buf ∨ ∃ vs, (some k, vs) ∈ T.pend ∧ v ∈ vs))
def PExt (ts : List Task) (j : Nat) (v : Val) : Prop :=
  ∃ T, T ∈ ts ∧ (T.owner = j ∧ (v ∈ T.buf ∨ ∃ vs, ((none : Option Nat), vs) ∈ T.pend ∧ v ∈ vs))

/-! ## the invariant (uncancelled runs) -/

structure DInv (c : Cfg) (s : DSt) : Prop where
  pinv : Inv c.topo s.p
  nc : s.cancelled = false
  wfOwner : ∀ T, T ∈ s.tasks → T.owner < c.topo.n
  wfSrc : ∀ T, T ∈ s.tasks → ∀ j k, T.src = some (j, k) → j < c.topo.n ∧ (c.topo.outs j)[k]? = some T.owner
  wfPend : ∀ T, T ∈ s.tasks → ∀ k vs, (some k, vs) ∈ T.pend → k < c.topo.nl T.owner
  tok : ∀ m, s.p.msgs.count m = tokCount s.tasks m
  stdRun : ∀ T, T ∈ s.tasks → T.src = none → s.p.pc T.owner = .running
  todoRun : ∀ i, s.p.pc i ≠ .running → s.stdTodo i = []
  todoSub : ∀ i b, b ∈ s.stdTodo i → b ∈ c.stdIn i
  sOut : ∀ i r, r ∈ s.out i → Derivable c i r
  sRes : ∀ T, T ∈ s.tasks → ∀ r, r ∈ T.results → Derivable c T.owner r
  sBuf : ∀ T, T ∈ s.tasks → ∀ r, r ∈ T.buf → r ∈ s.out T.owner
  sPend : ∀ T, T ∈ s.tasks → ∀ e, e ∈ T.pend → ∀ r, r ∈ e.2 → r ∈ s.out T.owner
  sRaw : ∀ T, T ∈ s.tasks → ∀ j k, T.src = some (j, k) → ∀ v, v ∈ T.rawIn → v ∈ s.out j
  sExt : ∀ i r, r ∈ s.extOut i → r ∈ s.out i
  c1 : ∀ i, i < c.topo.n → ∀ b, b ∈ c.stdIn i → ∀ r, r ∈ b → b ∈ s.stdTodo i ∨ PRes s.tasks i r ∨ r ∈ s.out i
  c2 : ∀ j k, j < c.topo.n → k < c.topo.nl j → ∀ v, v ∈ s.out j → POut s.tasks j k v ∨ PRaw s.tasks j k v ∨ v ∈ s.seen j k
  c3 : ∀ j k i, (c.topo.outs j)[k]? = some i → ∀ v, v ∈ s.seen j k → ∀ r, r ∈ c.f j k v → PRes s.tasks i r ∨ r ∈ s.out i
  c4 : ∀ j v, v ∈ s.out j → PExt s.tasks j v ∨ v ∈ s.extOut j

theorem dinv_init (c : Cfg) (hn : 0 < c.topo.n) : DInv c (dinit c) := by
  refine { pinv := inv_init c.topo hn, nc := rfl, wfOwner := ?_, wfSrc := ?_, wfPend := ?_, tok := ?_, stdRun := ?_,
           todoRun := ?_, todoSub := ?_, sOut := ?_, sRes := ?_, sBuf := ?_, sPend := ?_, sRaw := ?_, sExt := ?_,
           c1 := ?_, c2 := ?_, c3 := ?_, c4 := ?_ }
  all_goals simp [dinit, init, tokCount]
  · intro i _ b hb r _; exact Or.inl hb

/-! ## facts about protocol steps -/

theorem step_msgInc_eq {t : Topo} {p p' : St} {i k : Nat} (h : step t p (.msgInc i k) = some p') :
    p' = { p with pool := p.pool.inc, msgs := ⟨i, k⟩ :: p.msgs } ∧ i < t.n ∧ k < t.nl i := by
  simp only [step] at h; split at h
  · rename_i hg; injection h with h; exact ⟨h.symm, hg.1, hg.2.1⟩
  · simp at h

theorem step_msgDone_eq {t : Topo} {p p' : St} {i k : Nat} (h : step t p (.msgDone i k) = some p') :
    p' = decStep { p with msgs := p.msgs.erase ⟨i, k⟩ } ∧ (⟨i, k⟩ : Msg) ∈ p.msgs := by
  simp only [step] at h; split at h
  · rename_i hg; injection h with h; exact ⟨h.symm, hg⟩
  · simp at h

theorem step_liftable_msgs {t : Topo} {p p' : St} {a : Act} (hl : liftable a = true) (h : step t p a = some p') :
    p'.msgs = p.msgs := by
  cases a <;> simp [liftable] at hl <;> simp only [step] at h <;> split at h <;>
    first | (injection h with h; subst h; rfl) | (simp at h)

theorem upd_ne_running {pc : Nat → PC} {i x : Nat} {v : PC} (hv : v ≠ .running) (h : upd pc i v x = .running) :
    pc x = .running ∧ x ≠ i := by
  by_cases e : x = i
  · subst e; simp at h; exact absurd h hv
  · rw [upd_other _ _ _ _ e] at h; exact ⟨h, e⟩

/-- a lifted protocol step never makes a member `running`, and only `report x` ends the `running` phase of `x` -/
theorem step_liftable_running {t : Topo} {p p' : St} {a : Act} (hl : liftable a = true) (h : step t p a = some p') (x : Nat) :
    (p'.pc x = .running → p.pc x = .running) ∧ (p.pc x = .running → p'.pc x = .running ∨ a = .report x) := by
  cases a <;> simp [liftable] at hl <;> simp only [step] at h <;> split at h <;>
    first
    | (simp at h; done)
    | (rename_i hg; injection h with h; subst h
       first
       | exact ⟨id, Or.inl⟩
       | (refine ⟨fun hh => (upd_ne_running (by simp) hh).1, fun hh => ?_⟩
          rename_i i
          by_cases e : x = i
          · subst e
            first
            | exact Or.inr rfl
            | (exfalso; simp_all)
          · left; dsimp only; rw [upd_other _ _ _ _ e]; exact hh))

theorem tokCount_pos {ts : List Task} {T : Task} {m : Msg} (h : T ∈ ts) (hm : cycTok T = some m) : 0 < tokCount ts m := by
  have := tokCount_erase h m
  simp [hm] at this; omega

/-- in a quiescent state (counter 0) there is no task at all -/
theorem no_tasks_of_zero {c : Cfg} {s : DSt} (h : DInv c s) (h0 : s.p.pool.inflight = 0) : s.tasks = [] := by
  have hq := (quiescent_iff h.pinv).mpr h0
  cases ht : s.tasks with
  | nil => rfl
  | cons T rest =>
    exfalso
    have hT : T ∈ s.tasks := by rw [ht]; simp
    cases hs : T.src with
    | none => exact (hq.1 _ (h.wfOwner T hT)).1 (h.stdRun T hT hs)
    | some jk =>
      have hm : cycTok T = some ⟨jk.1, jk.2⟩ := by simp [cycTok, hs]
      have := tokCount_pos hT hm
      rw [← h.tok, hq.2] at this
      simp at this

/-- once a listener is closed or a member is past `WaitForAllReady`, the counter is 0 -/
theorem zero_of_teardown {c : Cfg} {s : DSt} (h : DInv c s) (i : Nat) (hi : i < c.topo.n)
    (ht : 3 ≤ rank (s.p.pc i) ∨ 0 < s.p.closed i ∨ s.p.pool.qClosed = true) : s.p.pool.inflight = 0 := by
  have hq : s.p.pool.qClosed = true := by
    rcases ht with h3 | hc | hq
    · exact h.pinv.beyond i hi h3
    · exact h.pinv.beyond i hi (by have := h.pinv.closedPos i hi hc; omega)
    · exact hq
  exact h.pinv.latchQ (Or.inr (by rw [← h.pinv.zeroQ]; exact hq))

end OpenFGAVerif.Proofs.CycleData
