/-
Invariants of the dataflow-level model of the cycle group (`Model.CycleData`): soundness and coverage of the
de-duplicating workers with respect to the least fixpoint of the dataflow equations, and the link between tasks and
the message tokens of the protocol level.  Used by `Props.C21` (`no_lost_object`).
-/
import OpenFGAVerif.Proofs.CycleLive
import OpenFGAVerif.Model.CycleData

namespace OpenFGAVerif.Proofs.CycleData
open OpenFGAVerif.Model.Cycle OpenFGAVerif.Model.CycleData OpenFGAVerif.Proofs.Cycle

/-! ## task lists -/

theorem mem_replace {ts : List Task} {T T' X : Task} (h : X ∈ replace ts T T') : X = T' ∨ X ∈ ts := by
  simp only [replace, List.mem_cons] at h
  rcases h with h | h
  · exact Or.inl h
  · exact Or.inr (List.mem_of_mem_erase h)

theorem mem_replace_of_ne {ts : List Task} {T T' X : Task} (h : X ∈ ts) (hne : X ≠ T) : X ∈ replace ts T T' := by
  simp only [replace, List.mem_cons]
  exact Or.inr ((List.mem_erase_of_ne hne).mpr h)

theorem mem_replace_new {ts : List Task} {T T' : Task} : T' ∈ replace ts T T' := by simp [replace]

theorem forall_replace {ts : List Task} {T T' : Task} {P : Task → Prop} (h : ∀ X, X ∈ ts → P X) (h' : P T') :
    ∀ X, X ∈ replace ts T T' → P X := by
  intro X hX
  rcases mem_replace hX with rfl | hX
  · exact h'
  · exact h X hX

/-- a witness among the tasks survives the replacement of `T` by `T'`, unless it was `T` itself -/
theorem exists_replace {ts : List Task} {T T' : Task} {Q : Task → Prop} (h : ∃ X, X ∈ ts ∧ Q X) :
    (∃ X, X ∈ replace ts T T' ∧ Q X) ∨ Q T := by
  obtain ⟨X, hX, hQ⟩ := h
  by_cases e : X = T
  · subst e; exact Or.inr hQ
  · exact Or.inl ⟨X, mem_replace_of_ne hX e, hQ⟩

theorem exists_replace_mono {ts : List Task} {T T' : Task} {Q : Task → Prop} (h : ∃ X, X ∈ ts ∧ Q X) (hm : Q T → Q T') :
    ∃ X, X ∈ replace ts T T' ∧ Q X := by
  rcases exists_replace (T := T) (T' := T') h with h | h
  · exact h
  · exact ⟨T', mem_replace_new, hm h⟩

theorem exists_erase {ts : List Task} {T : Task} {Q : Task → Prop} (h : ∃ X, X ∈ ts ∧ Q X) :
    (∃ X, X ∈ ts.erase T ∧ Q X) ∨ Q T := by
  obtain ⟨X, hX, hQ⟩ := h
  by_cases e : X = T
  · subst e; exact Or.inr hQ
  · exact Or.inl ⟨X, (List.mem_erase_of_ne e).mpr hX, hQ⟩

/-- token count of a task list -/
def tokCount (ts : List Task) (m : Msg) : Nat := (ts.filterMap cycTok).count m

theorem tokCount_cons (T : Task) (ts : List Task) (m : Msg) :
    tokCount (T :: ts) m = (if cycTok T = some m then 1 else 0) + tokCount ts m := by
  unfold tokCount
  cases h : cycTok T with
  | none => simp [List.filterMap_cons, h]
  | some x =>
    simp only [List.filterMap_cons, h, List.count_cons]
    by_cases e : x = m
    · subst e; simp; omega
    · have : ¬ (some x = some m) := fun hh => e (Option.some.inj hh)
      simp [e, this]

theorem tokCount_erase {T : Task} {ts : List Task} (h : T ∈ ts) (m : Msg) :
    tokCount (ts.erase T) m + (if cycTok T = some m then 1 else 0) = tokCount ts m := by
  induction ts with
  | nil => simp at h
  | cons X xs ih =>
    by_cases e : X = T
    · subst e
      simp only [List.erase_cons_head]
      rw [tokCount_cons]; omega
    · have hT : T ∈ xs := by
        simp only [List.mem_cons] at h
        rcases h with h | h
        · exact absurd h.symm e
        · exact h
      have hx : (X :: xs).erase T = X :: xs.erase T := by
        simp [List.erase_cons, e]
      rw [hx, tokCount_cons, tokCount_cons]
      have := ih hT
      omega

theorem tokCount_replace {T T' : Task} {ts : List Task} (h : T ∈ ts) (hs : cycTok T' = cycTok T) (m : Msg) :
    tokCount (replace ts T T') m = tokCount ts m := by
  unfold replace
  rw [tokCount_cons, hs]
  have := tokCount_erase h m
  omega

/-! ## pending work predicates -/

def PRes (ts : List Task) (i : Nat) (r : Val) : Prop := ∃ T, T ∈ ts ∧ (T.owner = i ∧ r ∈ T.results)
def PRaw (ts : List Task) (j k : Nat) (v : Val) : Prop := ∃ T, T ∈ ts ∧ (T.src = some (j, k) ∧ v ∈ T.rawIn)
def POut (ts : List Task) (j k : Nat) (v : Val) : Prop :=
  ∃ T, T ∈ ts ∧ (T.owner = j ∧ (v ∈ T.buf ∨ ∃ vs, (some k, vs) ∈ T.pend ∧ v ∈ vs))
def PExt (ts : List Task) (j : Nat) (v : Val) : Prop :=
  ∃ T, T ∈ ts ∧ (T.owner = j ∧ (v ∈ T.buf ∨ ∃ vs, ((none : Option Nat), vs) ∈ T.pend ∧ v ∈ vs))

/-! ## the invariant (uncancelled runs) -/

structure DInv (c : Cfg) (s : DSt) : Prop where
  pinv : Inv c.topo s.p
  nc : s.cancelled = false
  wfOwner : ∀ T, T ∈ s.tasks → T.owner < c.topo.n
  wfSrc : ∀ T, T ∈ s.tasks → ∀ j k, T.src = some (j, k) → j < c.topo.n ∧ (c.topo.outs j)[k]? = some T.owner
  wfPend : ∀ T, T ∈ s.tasks → ∀ k vs, (some k, vs) ∈ T.pend → k < c.topo.nl T.owner
  tok : ∀ m, s.p.msgs.count m = tokCount s.tasks m
  stdRun : ∀ T, T ∈ s.tasks → T.src = none → s.p.pc T.owner = .running
  todoRun : ∀ i, s.p.pc i ≠ .running → s.stdTodo i = []
  todoSub : ∀ i b, b ∈ s.stdTodo i → b ∈ c.stdIn i
  sOut : ∀ i r, r ∈ s.out i → Derivable c i r
  sRes : ∀ T, T ∈ s.tasks → ∀ r, r ∈ T.results → Derivable c T.owner r
  sBuf : ∀ T, T ∈ s.tasks → ∀ r, r ∈ T.buf → r ∈ s.out T.owner
  sPend : ∀ T, T ∈ s.tasks → ∀ e, e ∈ T.pend → ∀ r, r ∈ e.2 → r ∈ s.out T.owner
  sRaw : ∀ T, T ∈ s.tasks → ∀ j k, T.src = some (j, k) → ∀ v, v ∈ T.rawIn → v ∈ s.out j
  sExt : ∀ i r, r ∈ s.extOut i → r ∈ s.out i
  c1 : ∀ i, i < c.topo.n → ∀ b, b ∈ c.stdIn i → ∀ r, r ∈ b → b ∈ s.stdTodo i ∨ PRes s.tasks i r ∨ r ∈ s.out i
  c2 : ∀ j k, j < c.topo.n → k < c.topo.nl j → ∀ v, v ∈ s.out j → POut s.tasks j k v ∨ PRaw s.tasks j k v ∨ v ∈ s.seen j k
  c3 : ∀ j k i, (c.topo.outs j)[k]? = some i → ∀ v, v ∈ s.seen j k → ∀ r, r ∈ c.f j k v → PRes s.tasks i r ∨ r ∈ s.out i
  c4 : ∀ j v, v ∈ s.out j → PExt s.tasks j v ∨ v ∈ s.extOut j

theorem dinv_init (c : Cfg) (hn : 0 < c.topo.n) : DInv c (dinit c) := by
  refine { pinv := inv_init c.topo hn, nc := rfl, wfOwner := ?_, wfSrc := ?_, wfPend := ?_, tok := ?_, stdRun := ?_,
           todoRun := ?_, todoSub := ?_, sOut := ?_, sRes := ?_, sBuf := ?_, sPend := ?_, sRaw := ?_, sExt := ?_,
           c1 := ?_, c2 := ?_, c3 := ?_, c4 := ?_ }
  all_goals simp [dinit, init, tokCount]
  · intro i _ b hb r _; exact Or.inl hb

/-! ## facts about protocol steps -/

theorem step_msgInc_eq {t : Topo} {p p' : St} {i k : Nat} (h : step t p (.msgInc i k) = some p') :
    p' = { p with pool := p.pool.inc, msgs := ⟨i, k⟩ :: p.msgs } ∧ i < t.n ∧ k < t.nl i := by
  simp only [step] at h; split at h
  · rename_i hg; injection h with h; exact ⟨h.symm, hg.1, hg.2.1⟩
  · simp at h

theorem step_msgDone_eq {t : Topo} {p p' : St} {i k : Nat} (h : step t p (.msgDone i k) = some p') :
    p' = decStep { p with msgs := p.msgs.erase ⟨i, k⟩ } ∧ (⟨i, k⟩ : Msg) ∈ p.msgs := by
  simp only [step] at h; split at h
  · rename_i hg; injection h with h; exact ⟨h.symm, hg⟩
  · simp at h

theorem step_liftable_msgs {t : Topo} {p p' : St} {a : Act} (hl : liftable a = true) (h : step t p a = some p') :
    p'.msgs = p.msgs := by
  cases a <;> simp [liftable] at hl <;> simp only [step] at h <;> split at h <;>
    first | (injection h with h; subst h; rfl) | (simp at h)

theorem upd_ne_running {pc : Nat → PC} {i x : Nat} {v : PC} (hv : v ≠ .running) (h : upd pc i v x = .running) :
    pc x = .running ∧ x ≠ i := by
  by_cases e : x = i
  · subst e; simp at h; exact absurd h hv
  · rw [upd_other _ _ _ _ e] at h; exact ⟨h, e⟩

theorem running_upd (pc : Nat → PC) (i x : Nat) (v : PC) (hv : v ≠ .running) (ho : pc i ≠ .running) :
    (upd pc i v x = .running → pc x = .running) ∧ (pc x = .running → upd pc i v x = .running) := by
  refine ⟨fun h => (upd_ne_running hv h).1, fun h => ?_⟩
  by_cases e : x = i
  · subst e; exact absurd h ho
  · rw [upd_other _ _ _ _ e]; exact h

/-- a lifted protocol step never makes a member `running`, and only `report x` ends the `running` phase of `x` -/
theorem step_liftable_running {t : Topo} {p p' : St} {a : Act} (hl : liftable a = true) (h : step t p a = some p') (x : Nat) :
    (p'.pc x = .running → p.pc x = .running) ∧ (p.pc x = .running → p'.pc x = .running ∨ a = .report x) := by
  cases a with
  | msgInc i k => simp [liftable] at hl
  | msgDone i k => simp [liftable] at hl
  | report i =>
    simp only [step] at h; split at h
    · injection h with h; subst h
      refine ⟨fun hh => (upd_ne_running (by simp) hh).1, fun hh => ?_⟩
      by_cases e : x = i
      · subst e; exact Or.inr rfl
      · left; show upd p.pc i .reported x = .running; rw [upd_other _ _ _ _ e]; exact hh
    · simp at h
  | latch =>
    simp only [step] at h; split at h
    · injection h with h; subst h; exact ⟨id, Or.inl⟩
    · simp at h
  | closeNext i =>
    simp only [step] at h; split at h
    · injection h with h; subst h; exact ⟨id, Or.inl⟩
    · simp at h
  | srDec i =>
    simp only [step] at h; split at h
    · rename_i hg; injection h with h; subst h
      have := running_upd p.pc i x .waiting (by simp) (by rw [hg.2]; simp)
      exact ⟨this.1, fun hh => Or.inl (this.2 hh)⟩
    · simp at h
  | waitDone i =>
    simp only [step] at h; split at h
    · rename_i hg; injection h with h; subst h
      have := running_upd p.pc i x .passed (by simp) (by rw [hg.2.1]; simp)
      exact ⟨this.1, fun hh => Or.inl (this.2 hh)⟩
    · simp at h
  | beginCleanup i =>
    simp only [step] at h; split at h
    · rename_i hg; injection h with h; subst h
      have := running_upd p.pc i x .cleaning (by simp) (by rw [hg.2.1]; simp)
      exact ⟨this.1, fun hh => Or.inl (this.2 hh)⟩
    · simp at h
  | sleepDone i =>
    simp only [step] at h; split at h
    · rename_i hg; injection h with h; subst h
      have := running_upd p.pc i x .cleaning (by simp) (by rw [hg.2.1]; simp)
      exact ⟨this.1, fun hh => Or.inl (this.2 hh)⟩
    · simp at h
  | wake i =>
    simp only [step] at h; split at h
    · rename_i hg; injection h with h; subst h
      have := running_upd p.pc i x .done (by simp) (by rw [hg.2.1]; simp)
      exact ⟨this.1, fun hh => Or.inl (this.2 hh)⟩
    · simp at h
  | exit i =>
    simp only [step] at h; split at h
    · rename_i hg; injection h with h; subst h
      have := running_upd p.pc i x .exited (by simp) (by rw [hg.2.1]; simp)
      exact ⟨this.1, fun hh => Or.inl (this.2 hh)⟩
    · simp at h

theorem tokCount_pos {ts : List Task} {T : Task} {m : Msg} (h : T ∈ ts) (hm : cycTok T = some m) : 0 < tokCount ts m := by
  have := tokCount_erase h m
  simp [hm] at this; omega

/-- in a quiescent state (counter 0) there is no task at all -/
theorem no_tasks_of_zero {c : Cfg} {s : DSt} (h : DInv c s) (h0 : s.p.pool.inflight = 0) : s.tasks = [] := by
  have hq := (quiescent_iff h.pinv).mpr h0
  cases ht : s.tasks with
  | nil => rfl
  | cons T rest =>
    exfalso
    have hT : T ∈ s.tasks := by rw [ht]; simp
    cases hs : T.src with
    | none => exact (hq.1 _ (h.wfOwner T hT)).1 (h.stdRun T hT hs)
    | some jk =>
      have hm : cycTok T = some ⟨jk.1, jk.2⟩ := by simp [cycTok, hs]
      have := tokCount_pos hT hm
      rw [← h.tok, hq.2] at this
      simp at this

/-- once a listener is closed or a member is past `WaitForAllReady`, the counter is 0 -/
theorem zero_of_teardown {c : Cfg} {s : DSt} (h : DInv c s) (i : Nat) (hi : i < c.topo.n)
    (ht : 3 ≤ rank (s.p.pc i) ∨ 0 < s.p.closed i ∨ s.p.pool.qClosed = true) : s.p.pool.inflight = 0 := by
  have hq : s.p.pool.qClosed = true := by
    rcases ht with h3 | hc | hq
    · exact h.pinv.beyond i hi h3
    · exact h.pinv.beyond i hi (by have := h.pinv.closedPos i hi hc; omega)
    · exact hq
  exact h.pinv.latchQ (Or.inr (by rw [← h.pinv.zeroQ]; exact hq))

/-! ## preservation, action by action -/

theorem ex_cons {ts : List Task} {X : Task} {Q : Task → Prop} (h : ∃ T, T ∈ ts ∧ Q T) : ∃ T, T ∈ X :: ts ∧ Q T := by
  obtain ⟨T, hT, hQ⟩ := h; exact ⟨T, List.mem_cons_of_mem _ hT, hQ⟩

theorem inv_stdRecv {c : Cfg} {s : DSt} (h : DInv c s) (i : Nat) (b : List Val) (rest : List (List Val))
    (htodo : s.stdTodo i = b :: rest) (hi : i < c.topo.n) (hpc : s.p.pc i = .running) :
    DInv c { s with stdTodo := upd s.stdTodo i rest, tasks := ⟨i, none, [], b, [], []⟩ :: s.tasks } := by
  refine { pinv := h.pinv, nc := h.nc, wfOwner := ?_, wfSrc := ?_, wfPend := ?_, tok := ?_, stdRun := ?_,
           todoRun := ?_, todoSub := ?_, sOut := h.sOut, sRes := ?_, sBuf := ?_, sPend := ?_, sRaw := ?_, sExt := h.sExt,
           c1 := ?_, c2 := ?_, c3 := ?_, c4 := ?_ }
  · intro T hT; simp only [List.mem_cons] at hT
    rcases hT with rfl | hT
    · exact hi
    · exact h.wfOwner T hT
  · intro T hT j k hs; simp only [List.mem_cons] at hT
    rcases hT with rfl | hT
    · simp at hs
    · exact h.wfSrc T hT j k hs
  · intro T hT k vs hp; simp only [List.mem_cons] at hT
    rcases hT with rfl | hT
    · simp at hp
    · exact h.wfPend T hT k vs hp
  · intro m; dsimp only; rw [tokCount_cons]; simp [cycTok, h.tok m]
  · intro T hT hs; simp only [List.mem_cons] at hT
    rcases hT with rfl | hT
    · exact hpc
    · exact h.stdRun T hT hs
  · intro x hx; dsimp only
    by_cases e : x = i
    · subst e; exact absurd hpc hx
    · rw [upd_other _ _ _ _ e]; exact h.todoRun x hx
  · intro x b' hb'; dsimp only at hb'
    by_cases e : x = i
    · subst e; simp at hb'; exact h.todoSub x b' (by rw [htodo]; simp [hb'])
    · rw [upd_other _ _ _ _ e] at hb'; exact h.todoSub x b' hb'
  · intro T hT r hr; simp only [List.mem_cons] at hT
    rcases hT with rfl | hT
    · exact Derivable.base i b r hi (h.todoSub i b (by rw [htodo]; simp)) hr
    · exact h.sRes T hT r hr
  · intro T hT r hr; simp only [List.mem_cons] at hT
    rcases hT with rfl | hT
    · simp at hr
    · exact h.sBuf T hT r hr
  · intro T hT e he r hr; simp only [List.mem_cons] at hT
    rcases hT with rfl | hT
    · simp at he
    · exact h.sPend T hT e he r hr
  · intro T hT j k hs v hv; simp only [List.mem_cons] at hT
    rcases hT with rfl | hT
    · simp at hs
    · exact h.sRaw T hT j k hs v hv
  · intro x hx b' hb' r hr
    rcases h.c1 x hx b' hb' r hr with h1 | h1 | h1
    · by_cases e : x = i
      · subst e
        rw [htodo] at h1; simp only [List.mem_cons] at h1
        rcases h1 with rfl | h1
        · exact Or.inr (Or.inl ⟨_, List.mem_cons_self, rfl, hr⟩)
        · left; dsimp only; simp [h1]
      · left; dsimp only; rw [upd_other _ _ _ _ e]; exact h1
    · exact Or.inr (Or.inl (ex_cons h1))
    · exact Or.inr (Or.inr h1)
  · intro j k hj hk v hv
    rcases h.c2 j k hj hk v hv with h1 | h1 | h1
    · exact Or.inl (ex_cons h1)
    · exact Or.inr (Or.inl (ex_cons h1))
    · exact Or.inr (Or.inr h1)
  · intro j k x hx v hv r hr
    rcases h.c3 j k x hx v hv r hr with h1 | h1
    · exact Or.inl (ex_cons h1)
    · exact Or.inr h1
  · intro j v hv
    rcases h.c4 j v hv with h1 | h1
    · exact Or.inl (ex_cons h1)
    · exact Or.inr h1

theorem tok_replace {msgs : List Msg} {ts : List Task} {T : Task} (h : ∀ m, msgs.count m = tokCount ts m) (hT : T ∈ ts)
    (T' : Task) (hs : cycTok T' = cycTok T) : ∀ m, msgs.count m = tokCount (replace ts T T') m := by
  intro m; rw [tokCount_replace hT hs]; exact h m

theorem inv_dedup_seen {c : Cfg} {s : DSt} (h : DInv c s) (T : Task) (hT : T ∈ s.tasks) (j k : Nat) (v : Val) (rest : List Val)
    (hsrc : T.src = some (j, k)) (hraw : T.rawIn = v :: rest) (hseen : v ∈ s.seen j k) :
    DInv c { s with tasks := replace s.tasks T { T with rawIn := rest } } := by
  refine { pinv := h.pinv, nc := h.nc, wfOwner := ?_, wfSrc := ?_, wfPend := ?_, tok := ?_, stdRun := ?_,
           todoRun := h.todoRun, todoSub := h.todoSub, sOut := h.sOut, sRes := ?_, sBuf := ?_, sPend := ?_, sRaw := ?_,
           sExt := h.sExt, c1 := ?_, c2 := ?_, c3 := ?_, c4 := ?_ }
  · exact forall_replace h.wfOwner (h.wfOwner T hT)
  · exact forall_replace h.wfSrc (h.wfSrc T hT)
  · exact forall_replace h.wfPend (h.wfPend T hT)
  · exact tok_replace h.tok hT _ rfl
  · exact forall_replace h.stdRun (h.stdRun T hT)
  · exact forall_replace h.sRes (h.sRes T hT)
  · exact forall_replace h.sBuf (h.sBuf T hT)
  · exact forall_replace h.sPend (h.sPend T hT)
  · refine forall_replace h.sRaw ?_
    intro j' k' hs v' hv'
    exact h.sRaw T hT j' k' hs v' (by rw [hraw]; exact List.mem_cons_of_mem _ hv')
  · intro x hx b hb r hr
    rcases h.c1 x hx b hb r hr with h1 | h1 | h1
    · exact Or.inl h1
    · exact Or.inr (Or.inl (exists_replace_mono h1 (fun q => q)))
    · exact Or.inr (Or.inr h1)
  · intro j' k' hj hk v' hv'
    rcases h.c2 j' k' hj hk v' hv' with h1 | h1 | h1
    · exact Or.inl (exists_replace_mono h1 (fun q => q))
    · rcases exists_replace (T := T) (T' := { T with rawIn := rest }) h1 with h2 | ⟨hs, hv2⟩
      · exact Or.inr (Or.inl h2)
      · rw [hsrc] at hs; injection hs with hs; injection hs with e1 e2; subst e1; subst e2
        rw [hraw] at hv2; simp only [List.mem_cons] at hv2
        rcases hv2 with rfl | hv2
        · exact Or.inr (Or.inr hseen)
        · exact Or.inr (Or.inl ⟨_, mem_replace_new, hsrc, hv2⟩)
    · exact Or.inr (Or.inr h1)
  · intro j' k' x hx v' hv' r hr
    rcases h.c3 j' k' x hx v' hv' r hr with h1 | h1
    · exact Or.inl (exists_replace_mono h1 (fun q => q))
    · exact Or.inr h1
  · intro j' v' hv'
    rcases h.c4 j' v' hv' with h1 | h1
    · exact Or.inl (exists_replace_mono h1 (fun q => q))
    · exact Or.inr h1

theorem upd2_same (f : Nat → Nat → List Val) (j k : Nat) (v : List Val) : upd2 f j k v j k = v := by simp [upd2]
theorem upd2_mono (f : Nat → Nat → List Val) (j k : Nat) (x : Val) (a b : Nat) (y : Val) (h : y ∈ f a b) :
    y ∈ upd2 f j k (x :: f j k) a b := by
  unfold upd2; split
  · rename_i e; obtain ⟨rfl, rfl⟩ := e; exact List.mem_cons_of_mem _ h
  · exact h
theorem upd2_inv (f : Nat → Nat → List Val) (j k : Nat) (x : Val) (a b : Nat) (y : Val)
    (h : y ∈ upd2 f j k (x :: f j k) a b) : y ∈ f a b ∨ (a = j ∧ b = k ∧ y = x) := by
  unfold upd2 at h; split at h
  · rename_i e; obtain ⟨rfl, rfl⟩ := e
    simp only [List.mem_cons] at h
    rcases h with rfl | h
    · exact Or.inr ⟨rfl, rfl, rfl⟩
    · exact Or.inl h
  · exact Or.inl h

theorem inv_dedup_new {c : Cfg} {s : DSt} (h : DInv c s) (T : Task) (hT : T ∈ s.tasks) (j k : Nat) (v : Val) (rest : List Val)
    (hsrc : T.src = some (j, k)) (hraw : T.rawIn = v :: rest) :
    DInv c { s with seen := upd2 s.seen j k (v :: s.seen j k),
                    tasks := replace s.tasks T { T with rawIn := rest, results := T.results ++ c.f j k v } } := by
  have hw := h.wfSrc T hT j k hsrc
  refine { pinv := h.pinv, nc := h.nc, wfOwner := ?_, wfSrc := ?_, wfPend := ?_, tok := ?_, stdRun := ?_,
           todoRun := h.todoRun, todoSub := h.todoSub, sOut := h.sOut, sRes := ?_, sBuf := ?_, sPend := ?_, sRaw := ?_,
           sExt := h.sExt, c1 := ?_, c2 := ?_, c3 := ?_, c4 := ?_ }
  · exact forall_replace h.wfOwner (h.wfOwner T hT)
  · exact forall_replace h.wfSrc (h.wfSrc T hT)
  · exact forall_replace h.wfPend (h.wfPend T hT)
  · exact tok_replace h.tok hT _ rfl
  · exact forall_replace h.stdRun (h.stdRun T hT)
  · refine forall_replace h.sRes ?_
    intro r hr; simp only [List.mem_append] at hr
    rcases hr with hr | hr
    · exact h.sRes T hT r hr
    · exact Derivable.step j k T.owner v r hw.1 (h.sOut j v (h.sRaw T hT j k hsrc v (by rw [hraw]; simp))) hw.2 hr
  · exact forall_replace h.sBuf (h.sBuf T hT)
  · exact forall_replace h.sPend (h.sPend T hT)
  · refine forall_replace h.sRaw ?_
    intro j' k' hs v' hv'
    exact h.sRaw T hT j' k' hs v' (by rw [hraw]; exact List.mem_cons_of_mem _ hv')
  · intro x hx b hb r hr
    rcases h.c1 x hx b hb r hr with h1 | h1 | h1
    · exact Or.inl h1
    · exact Or.inr (Or.inl (exists_replace_mono h1 (fun q => ⟨q.1, List.mem_append_left _ q.2⟩)))
    · exact Or.inr (Or.inr h1)
  · intro j' k' hj hk v' hv'
    rcases h.c2 j' k' hj hk v' hv' with h1 | h1 | h1
    · exact Or.inl (exists_replace_mono h1 (fun q => q))
    · rcases exists_replace (T := T) (T' := { T with rawIn := rest, results := T.results ++ c.f j k v }) h1 with h2 | ⟨hs, hv2⟩
      · exact Or.inr (Or.inl h2)
      · rw [hsrc] at hs; injection hs with hs; injection hs with e1 e2; subst e1; subst e2
        rw [hraw] at hv2; simp only [List.mem_cons] at hv2
        rcases hv2 with rfl | hv2
        · right; right; dsimp only; rw [upd2_same]; simp
        · exact Or.inr (Or.inl ⟨_, mem_replace_new, hsrc, hv2⟩)
    · exact Or.inr (Or.inr (upd2_mono _ _ _ _ _ _ _ h1))
  · intro j' k' x hx v' hv' r hr
    rcases upd2_inv _ _ _ _ _ _ _ hv' with hold | ⟨rfl, rfl, rfl⟩
    · rcases h.c3 j' k' x hx v' hold r hr with h1 | h1
      · exact Or.inl (exists_replace_mono h1 (fun q => ⟨q.1, List.mem_append_left _ q.2⟩))
      · exact Or.inr h1
    · left
      have : x = T.owner := by rw [hw.2] at hx; injection hx with hx; exact hx.symm
      exact ⟨_, mem_replace_new, this.symm, List.mem_append_right _ hr⟩
  · intro j' v' hv'
    rcases h.c4 j' v' hv' with h1 | h1
    · exact Or.inl (exists_replace_mono h1 (fun q => q))
    · exact Or.inr h1

theorem inv_claim_dup {c : Cfg} {s : DSt} (h : DInv c s) (T : Task) (hT : T ∈ s.tasks) (r : Val) (rest : List Val)
    (hres : T.results = r :: rest) (hdup : r ∈ s.out T.owner) :
    DInv c { s with tasks := replace s.tasks T { T with results := rest } } := by
  -- a pending result of `T` is either still pending or (it was `r`) already in the output buffer
  have hP : ∀ i x, PRes s.tasks i x → PRes (replace s.tasks T { T with results := rest }) i x ∨ x ∈ s.out i := by
    intro i x hp
    rcases exists_replace (T := T) (T' := { T with results := rest }) hp with h2 | ⟨ho, hx⟩
    · exact Or.inl h2
    · rw [hres] at hx; simp only [List.mem_cons] at hx
      rcases hx with rfl | hx
      · right; rw [← ho]; exact hdup
      · exact Or.inl ⟨_, mem_replace_new, ho, hx⟩
  refine { pinv := h.pinv, nc := h.nc, wfOwner := ?_, wfSrc := ?_, wfPend := ?_, tok := ?_, stdRun := ?_,
           todoRun := h.todoRun, todoSub := h.todoSub, sOut := h.sOut, sRes := ?_, sBuf := ?_, sPend := ?_, sRaw := ?_,
           sExt := h.sExt, c1 := ?_, c2 := ?_, c3 := ?_, c4 := ?_ }
  · exact forall_replace h.wfOwner (h.wfOwner T hT)
  · exact forall_replace h.wfSrc (h.wfSrc T hT)
  · exact forall_replace h.wfPend (h.wfPend T hT)
  · exact tok_replace h.tok hT _ rfl
  · exact forall_replace h.stdRun (h.stdRun T hT)
  · refine forall_replace h.sRes ?_
    intro x hx; exact h.sRes T hT x (by rw [hres]; exact List.mem_cons_of_mem _ hx)
  · exact forall_replace h.sBuf (h.sBuf T hT)
  · exact forall_replace h.sPend (h.sPend T hT)
  · exact forall_replace h.sRaw (h.sRaw T hT)
  · intro x hx b hb y hy
    rcases h.c1 x hx b hb y hy with h1 | h1 | h1
    · exact Or.inl h1
    · rcases hP x y h1 with h2 | h2
      · exact Or.inr (Or.inl h2)
      · exact Or.inr (Or.inr h2)
    · exact Or.inr (Or.inr h1)
  · intro j' k' hj hk v' hv'
    rcases h.c2 j' k' hj hk v' hv' with h1 | h1 | h1
    · exact Or.inl (exists_replace_mono h1 (fun q => q))
    · exact Or.inr (Or.inl (exists_replace_mono h1 (fun q => q)))
    · exact Or.inr (Or.inr h1)
  · intro j' k' x hx v' hv' y hy
    rcases h.c3 j' k' x hx v' hv' y hy with h1 | h1
    · exact hP x y h1
    · exact Or.inr h1
  · intro j' v' hv'
    rcases h.c4 j' v' hv' with h1 | h1
    · exact Or.inl (exists_replace_mono h1 (fun q => q))
    · exact Or.inr h1

theorem upd_cons_mono (out : Nat → List Val) (o : Nat) (r : Val) (i : Nat) (x : Val) (h : x ∈ out i) :
    x ∈ upd out o (r :: out o) i := by
  by_cases e : i = o
  · subst e; simp [h]
  · rw [upd_other _ _ _ _ e]; exact h

theorem upd_cons_inv (out : Nat → List Val) (o : Nat) (r : Val) (i : Nat) (x : Val) (h : x ∈ upd out o (r :: out o) i) :
    x ∈ out i ∨ (i = o ∧ x = r) := by
  by_cases e : i = o
  · subst e; simp at h
    rcases h with rfl | h
    · exact Or.inr ⟨rfl, rfl⟩
    · exact Or.inl h
  · rw [upd_other _ _ _ _ e] at h; exact Or.inl h

theorem inv_claim_new {c : Cfg} {s : DSt} (h : DInv c s) (T : Task) (hT : T ∈ s.tasks) (r : Val) (rest : List Val)
    (hres : T.results = r :: rest) :
    DInv c { s with out := upd s.out T.owner (r :: s.out T.owner),
                    tasks := replace s.tasks T { T with results := rest, buf := T.buf ++ [r] } } := by
  have hmono := upd_cons_mono s.out T.owner r
  have hnew : r ∈ upd s.out T.owner (r :: s.out T.owner) T.owner := by simp
  have hP : ∀ i x, PRes s.tasks i x →
      PRes (replace s.tasks T { T with results := rest, buf := T.buf ++ [r] }) i x ∨ x ∈ upd s.out T.owner (r :: s.out T.owner) i := by
    intro i x hp
    rcases exists_replace (T := T) (T' := { T with results := rest, buf := T.buf ++ [r] }) hp with h2 | ⟨ho, hx⟩
    · exact Or.inl h2
    · rw [hres] at hx; simp only [List.mem_cons] at hx
      rcases hx with rfl | hx
      · right; rw [← ho]; exact hnew
      · exact Or.inl ⟨_, mem_replace_new, ho, hx⟩
  refine { pinv := h.pinv, nc := h.nc, wfOwner := ?_, wfSrc := ?_, wfPend := ?_, tok := ?_, stdRun := ?_,
           todoRun := h.todoRun, todoSub := h.todoSub, sOut := ?_, sRes := ?_, sBuf := ?_, sPend := ?_, sRaw := ?_,
           sExt := ?_, c1 := ?_, c2 := ?_, c3 := ?_, c4 := ?_ }
  · exact forall_replace h.wfOwner (h.wfOwner T hT)
  · exact forall_replace h.wfSrc (h.wfSrc T hT)
  · exact forall_replace h.wfPend (h.wfPend T hT)
  · exact tok_replace h.tok hT _ rfl
  · exact forall_replace h.stdRun (h.stdRun T hT)
  · intro i x hx
    rcases upd_cons_inv _ _ _ _ _ hx with hx | ⟨rfl, rfl⟩
    · exact h.sOut i x hx
    · exact h.sRes T hT _ (by rw [hres]; simp)
  · refine forall_replace h.sRes ?_
    intro x hx; exact h.sRes T hT x (by rw [hres]; exact List.mem_cons_of_mem _ hx)
  · refine forall_replace (fun X hX x hx => hmono _ _ (h.sBuf X hX x hx)) ?_
    intro x hx; simp only [List.mem_append, List.mem_singleton] at hx
    rcases hx with hx | rfl
    · exact hmono _ _ (h.sBuf T hT x hx)
    · exact hnew
  · exact forall_replace (fun X hX e he x hx => hmono _ _ (h.sPend X hX e he x hx))
      (fun e he x hx => hmono _ _ (h.sPend T hT e he x hx))
  · exact forall_replace (fun X hX j k hs v hv => hmono _ _ (h.sRaw X hX j k hs v hv))
      (fun j k hs v hv => hmono _ _ (h.sRaw T hT j k hs v hv))
  · intro i x hx; exact hmono _ _ (h.sExt i x hx)
  · intro x hx b hb y hy
    rcases h.c1 x hx b hb y hy with h1 | h1 | h1
    · exact Or.inl h1
    · rcases hP x y h1 with h2 | h2
      · exact Or.inr (Or.inl h2)
      · exact Or.inr (Or.inr h2)
    · exact Or.inr (Or.inr (hmono _ _ h1))
  · intro j' k' hj hk v' hv'
    rcases upd_cons_inv _ _ _ _ _ hv' with hv' | ⟨rfl, rfl⟩
    · rcases h.c2 j' k' hj hk v' hv' with h1 | h1 | h1
      · exact Or.inl (exists_replace_mono h1 (fun q => ⟨q.1, q.2.elim (fun b => Or.inl (List.mem_append_left _ b)) Or.inr⟩))
      · exact Or.inr (Or.inl (exists_replace_mono h1 (fun q => q)))
      · exact Or.inr (Or.inr h1)
    · exact Or.inl ⟨_, mem_replace_new, rfl, Or.inl (by simp)⟩
  · intro j' k' x hx v' hv' y hy
    rcases h.c3 j' k' x hx v' hv' y hy with h1 | h1
    · exact hP x y h1
    · exact Or.inr (hmono _ _ h1)
  · intro j' v' hv'
    rcases upd_cons_inv _ _ _ _ _ hv' with hv' | ⟨rfl, rfl⟩
    · rcases h.c4 j' v' hv' with h1 | h1
      · exact Or.inl (exists_replace_mono h1 (fun q => ⟨q.1, q.2.elim (fun b => Or.inl (List.mem_append_left _ b)) Or.inr⟩))
      · exact Or.inr h1
    · exact Or.inl ⟨_, mem_replace_new, rfl, Or.inl (by simp)⟩

def flushed (c : Cfg) (T : Task) : Task :=
  { T with buf := [], pend := (none, T.buf) :: (List.range (c.topo.nl T.owner)).map (fun k => (some k, T.buf)) }

theorem inv_flush {c : Cfg} {s : DSt} (h : DInv c s) (T : Task) (hT : T ∈ s.tasks) (hp : T.pend = []) :
    DInv c { s with tasks := replace s.tasks T (flushed c T) } := by
  have hmem : ∀ e, e ∈ (flushed c T).pend → e.2 = T.buf := by
    intro e he; simp only [flushed, List.mem_cons, List.mem_map, List.mem_range] at he
    rcases he with rfl | ⟨k, _, rfl⟩ <;> rfl
  refine { pinv := h.pinv, nc := h.nc, wfOwner := ?_, wfSrc := ?_, wfPend := ?_, tok := ?_, stdRun := ?_,
           todoRun := h.todoRun, todoSub := h.todoSub, sOut := h.sOut, sRes := ?_, sBuf := ?_, sPend := ?_, sRaw := ?_,
           sExt := h.sExt, c1 := ?_, c2 := ?_, c3 := ?_, c4 := ?_ }
  · exact forall_replace h.wfOwner (h.wfOwner T hT)
  · exact forall_replace h.wfSrc (h.wfSrc T hT)
  · refine forall_replace h.wfPend ?_
    intro k vs hk
    simp only [flushed, List.mem_cons, List.mem_map, List.mem_range] at hk
    rcases hk with hk | ⟨k', hk', he⟩
    · simp at hk
    · injection he with e1 _; injection e1 with e1; subst e1; exact hk'
  · exact tok_replace h.tok hT _ rfl
  · exact forall_replace h.stdRun (h.stdRun T hT)
  · exact forall_replace h.sRes (h.sRes T hT)
  · refine forall_replace h.sBuf ?_
    intro x hx; simp [flushed] at hx
  · refine forall_replace h.sPend ?_
    intro e he x hx; rw [hmem e he] at hx; exact h.sBuf T hT x hx
  · exact forall_replace h.sRaw (h.sRaw T hT)
  · intro x hx b hb y hy
    rcases h.c1 x hx b hb y hy with h1 | h1 | h1
    · exact Or.inl h1
    · exact Or.inr (Or.inl (exists_replace_mono h1 (fun q => q)))
    · exact Or.inr (Or.inr h1)
  · intro j' k' hj hk v' hv'
    rcases h.c2 j' k' hj hk v' hv' with h1 | h1 | h1
    · left
      refine exists_replace_mono h1 (fun q => ⟨q.1, ?_⟩)
      rcases q.2 with hb | ⟨vs, hvs, _⟩
      · right; refine ⟨T.buf, ?_, hb⟩
        simp only [flushed, List.mem_cons, List.mem_map, List.mem_range]
        right; exact ⟨k', by rw [q.1]; exact hk, rfl⟩
      · rw [hp] at hvs; simp at hvs
    · exact Or.inr (Or.inl (exists_replace_mono h1 (fun q => q)))
    · exact Or.inr (Or.inr h1)
  · intro j' k' x hx v' hv' y hy
    rcases h.c3 j' k' x hx v' hv' y hy with h1 | h1
    · exact Or.inl (exists_replace_mono h1 (fun q => q))
    · exact Or.inr h1
  · intro j' v' hv'
    rcases h.c4 j' v' hv' with h1 | h1
    · left
      refine exists_replace_mono h1 (fun q => ⟨q.1, ?_⟩)
      rcases q.2 with hb | ⟨vs, hvs, _⟩
      · right; exact ⟨T.buf, by simp [flushed], hb⟩
      · rw [hp] at hvs; simp at hvs
    · exact Or.inr h1

theorem upd_app_mono (e : Nat → List Val) (o : Nat) (vs : List Val) (i : Nat) (x : Val) (h : x ∈ e i) :
    x ∈ upd e o (e o ++ vs) i := by
  by_cases q : i = o
  · subst q; simp [h]
  · rw [upd_other _ _ _ _ q]; exact h

theorem inv_sendExt {c : Cfg} {s : DSt} (h : DInv c s) (T : Task) (hT : T ∈ s.tasks) (vs : List Val)
    (rest : List (Option Nat × List Val)) (hp : T.pend = (none, vs) :: rest) :
    DInv c { s with extOut := upd s.extOut T.owner (s.extOut T.owner ++ vs),
                    tasks := replace s.tasks T { T with pend := rest } } := by
  have hsub : ∀ e, e ∈ rest → e ∈ T.pend := fun e he => by rw [hp]; exact List.mem_cons_of_mem _ he
  refine { pinv := h.pinv, nc := h.nc, wfOwner := ?_, wfSrc := ?_, wfPend := ?_, tok := ?_, stdRun := ?_,
           todoRun := h.todoRun, todoSub := h.todoSub, sOut := h.sOut, sRes := ?_, sBuf := ?_, sPend := ?_, sRaw := ?_,
           sExt := ?_, c1 := ?_, c2 := ?_, c3 := ?_, c4 := ?_ }
  · exact forall_replace h.wfOwner (h.wfOwner T hT)
  · exact forall_replace h.wfSrc (h.wfSrc T hT)
  · exact forall_replace h.wfPend (fun k ws hk => h.wfPend T hT k ws (hsub _ hk))
  · exact tok_replace h.tok hT _ rfl
  · exact forall_replace h.stdRun (h.stdRun T hT)
  · exact forall_replace h.sRes (h.sRes T hT)
  · exact forall_replace h.sBuf (h.sBuf T hT)
  · exact forall_replace h.sPend (fun e he x hx => h.sPend T hT e (hsub e he) x hx)
  · exact forall_replace h.sRaw (h.sRaw T hT)
  · intro i x hx; dsimp only at hx
    by_cases q : i = T.owner
    · subst q; simp only [upd_same, List.mem_append] at hx
      rcases hx with hx | hx
      · exact h.sExt _ x hx
      · exact h.sPend T hT (none, vs) (by rw [hp]; simp) x hx
    · rw [upd_other _ _ _ _ q] at hx; exact h.sExt i x hx
  · intro x hx b hb y hy
    rcases h.c1 x hx b hb y hy with h1 | h1 | h1
    · exact Or.inl h1
    · exact Or.inr (Or.inl (exists_replace_mono h1 (fun q => q)))
    · exact Or.inr (Or.inr h1)
  · intro j' k' hj hk v' hv'
    rcases h.c2 j' k' hj hk v' hv' with h1 | h1 | h1
    · left
      refine exists_replace_mono h1 (fun q => ⟨q.1, ?_⟩)
      rcases q.2 with hb | ⟨ws, hws, hv⟩
      · exact Or.inl hb
      · right; rw [hp] at hws; simp only [List.mem_cons] at hws
        rcases hws with hws | hws
        · injection hws with e1 _; simp at e1
        · exact ⟨ws, hws, hv⟩
    · exact Or.inr (Or.inl (exists_replace_mono h1 (fun q => q)))
    · exact Or.inr (Or.inr h1)
  · intro j' k' x hx v' hv' y hy
    rcases h.c3 j' k' x hx v' hv' y hy with h1 | h1
    · exact Or.inl (exists_replace_mono h1 (fun q => q))
    · exact Or.inr h1
  · intro j' v' hv'
    rcases h.c4 j' v' hv' with h1 | h1
    · rcases exists_replace (T := T) (T' := { T with pend := rest }) h1 with h2 | ⟨ho, hq⟩
      · exact Or.inl h2
      · rcases hq with hb | ⟨ws, hws, hv⟩
        · exact Or.inl ⟨_, mem_replace_new, ho, Or.inl hb⟩
        · rw [hp] at hws; simp only [List.mem_cons] at hws
          rcases hws with hws | hws
          · injection hws with _ e2; subst e2
            right; dsimp only; rw [← ho]; simp [hv]
          · exact Or.inl ⟨_, mem_replace_new, ho, Or.inr ⟨ws, hws, hv⟩⟩
    · exact Or.inr (upd_app_mono _ _ _ _ _ h1)

theorem inv_sendCyc {c : Cfg} {s : DSt} (h : DInv c s) (hc : c.closedTopo) (T : Task) (hT : T ∈ s.tasks) (k : Nat) (vs : List Val)
    (rest : List (Option Nat × List Val)) (hp : T.pend = (some k, vs) :: rest) (p' : St) (d : Nat)
    (hstep : step c.topo s.p (.msgInc T.owner k) = some p') (hd : (c.topo.outs T.owner)[k]? = some d) :
    DInv c { s with p := p',
                    tasks := ⟨d, some (T.owner, k), vs, [], [], []⟩ :: replace s.tasks T { T with pend := rest } } := by
  have hsub : ∀ e, e ∈ rest → e ∈ T.pend := fun e he => by rw [hp]; exact List.mem_cons_of_mem _ he
  obtain ⟨hp', ho, _⟩ := step_msgInc_eq hstep
  have hpc : p'.pc = s.p.pc := by rw [hp']
  have hmsgs : p'.msgs = ⟨T.owner, k⟩ :: s.p.msgs := by rw [hp']
  have hdn : d < c.topo.n := hc T.owner ho d (List.mem_of_getElem? hd)
  refine { pinv := step_inv h.pinv _ hstep, nc := h.nc, wfOwner := ?_, wfSrc := ?_, wfPend := ?_, tok := ?_, stdRun := ?_,
           todoRun := ?_, todoSub := h.todoSub, sOut := h.sOut, sRes := ?_, sBuf := ?_, sPend := ?_, sRaw := ?_,
           sExt := h.sExt, c1 := ?_, c2 := ?_, c3 := ?_, c4 := ?_ }
  · intro X hX; simp only [List.mem_cons] at hX
    rcases hX with rfl | hX
    · exact hdn
    · exact forall_replace (T' := { T with pend := rest }) h.wfOwner (h.wfOwner T hT) X hX
  · intro X hX j' k' hs; simp only [List.mem_cons] at hX
    rcases hX with rfl | hX
    · simp only [Option.some.injEq, Prod.mk.injEq] at hs
      obtain ⟨rfl, rfl⟩ := hs; exact ⟨ho, hd⟩
    · exact forall_replace (T' := { T with pend := rest }) h.wfSrc (h.wfSrc T hT) X hX j' k' hs
  · intro X hX k' ws hk; simp only [List.mem_cons] at hX
    rcases hX with rfl | hX
    · simp at hk
    · exact forall_replace (T' := { T with pend := rest }) h.wfPend (fun k ws hk => h.wfPend T hT k ws (hsub _ hk)) X hX k' ws hk
  · intro m; dsimp only
    rw [hmsgs, tokCount_cons, tokCount_replace (T' := { T with pend := rest }) hT rfl, List.count_cons, h.tok m]
    simp only [cycTok, Option.map_some]
    by_cases e : (⟨T.owner, k⟩ : Msg) = m
    · simp [e]; omega
    · have : ¬ (some (⟨T.owner, k⟩ : Msg) = some m) := fun hh => e (Option.some.inj hh)
      simp [e, this]
  · intro X hX hs; simp only [List.mem_cons] at hX
    dsimp only; rw [hpc]
    rcases hX with rfl | hX
    · simp at hs
    · exact forall_replace (T' := { T with pend := rest }) h.stdRun (h.stdRun T hT) X hX hs
  · intro x hx; dsimp only at hx; rw [hpc] at hx; exact h.todoRun x hx
  · intro X hX x hx; simp only [List.mem_cons] at hX
    rcases hX with rfl | hX
    · simp at hx
    · exact forall_replace (T' := { T with pend := rest }) h.sRes (h.sRes T hT) X hX x hx
  · intro X hX x hx; simp only [List.mem_cons] at hX
    rcases hX with rfl | hX
    · simp at hx
    · exact forall_replace (T' := { T with pend := rest }) h.sBuf (h.sBuf T hT) X hX x hx
  · intro X hX e he x hx; simp only [List.mem_cons] at hX
    rcases hX with rfl | hX
    · simp at he
    · exact forall_replace (T' := { T with pend := rest }) h.sPend (fun e he x hx => h.sPend T hT e (hsub e he) x hx) X hX e he x hx
  · intro X hX j' k' hs v hv; simp only [List.mem_cons] at hX
    rcases hX with rfl | hX
    · simp only [Option.some.injEq, Prod.mk.injEq] at hs
      obtain ⟨rfl, rfl⟩ := hs
      exact h.sPend T hT (some k, vs) (by rw [hp]; simp) v hv
    · exact forall_replace (T' := { T with pend := rest }) h.sRaw (h.sRaw T hT) X hX j' k' hs v hv
  · intro x hx b hb y hy
    rcases h.c1 x hx b hb y hy with h1 | h1 | h1
    · exact Or.inl h1
    · exact Or.inr (Or.inl (ex_cons (exists_replace_mono (T' := { T with pend := rest }) h1 (fun q => q))))
    · exact Or.inr (Or.inr h1)
  · intro j' k' hj hk v' hv'
    rcases h.c2 j' k' hj hk v' hv' with h1 | h1 | h1
    · rcases exists_replace (T := T) (T' := { T with pend := rest }) h1 with h2 | ⟨hown, hq⟩
      · exact Or.inl (ex_cons h2)
      · rcases hq with hb | ⟨ws, hws, hv⟩
        · exact Or.inl (ex_cons ⟨_, mem_replace_new, hown, Or.inl hb⟩)
        · rw [hp] at hws; simp only [List.mem_cons] at hws
          rcases hws with hws | hws
          · simp only [Prod.mk.injEq, Option.some.injEq] at hws
            obtain ⟨rfl, rfl⟩ := hws
            right; left
            exact ⟨_, List.mem_cons_self, by rw [hown], hv⟩
          · exact Or.inl (ex_cons ⟨_, mem_replace_new, hown, Or.inr ⟨ws, hws, hv⟩⟩)
    · exact Or.inr (Or.inl (ex_cons (exists_replace_mono (T' := { T with pend := rest }) h1 (fun q => q))))
    · exact Or.inr (Or.inr h1)
  · intro j' k' x hx v' hv' y hy
    rcases h.c3 j' k' x hx v' hv' y hy with h1 | h1
    · exact Or.inl (ex_cons (exists_replace_mono (T' := { T with pend := rest }) h1 (fun q => q)))
    · exact Or.inr h1
  · intro j' v' hv'
    rcases h.c4 j' v' hv' with h1 | h1
    · left
      refine ex_cons (exists_replace_mono (T' := { T with pend := rest }) h1 (fun q => ⟨q.1, ?_⟩))
      rcases q.2 with hb | ⟨ws, hws, hv⟩
      · exact Or.inl hb
      · right; rw [hp] at hws; simp only [List.mem_cons] at hws
        rcases hws with hws | hws
        · injection hws with e1 _; simp at e1
        · exact ⟨ws, hws, hv⟩
    · exact Or.inr h1

/-- removing a task that has nothing left to do -/
theorem inv_remove {c : Cfg} {s : DSt} (h : DInv c s) (T : Task) (hT : T ∈ s.tasks) (p' : St)
    (hraw : T.rawIn = []) (hres : T.results = []) (hbuf : T.buf = []) (hpend : T.pend = [])
    (hpinv : Inv c.topo p') (hpc : p'.pc = s.p.pc)
    (htok : ∀ m, p'.msgs.count m + (if cycTok T = some m then 1 else 0) = s.p.msgs.count m) :
    DInv c { s with p := p', tasks := s.tasks.erase T } := by
  have hsub : ∀ X, X ∈ s.tasks.erase T → X ∈ s.tasks := fun X hX => List.mem_of_mem_erase hX
  refine { pinv := hpinv, nc := h.nc, wfOwner := fun X hX => h.wfOwner X (hsub X hX),
           wfSrc := fun X hX => h.wfSrc X (hsub X hX), wfPend := fun X hX => h.wfPend X (hsub X hX), tok := ?_,
           stdRun := ?_, todoRun := ?_, todoSub := h.todoSub, sOut := h.sOut,
           sRes := fun X hX => h.sRes X (hsub X hX), sBuf := fun X hX => h.sBuf X (hsub X hX),
           sPend := fun X hX => h.sPend X (hsub X hX), sRaw := fun X hX => h.sRaw X (hsub X hX),
           sExt := h.sExt, c1 := ?_, c2 := ?_, c3 := ?_, c4 := ?_ }
  · intro m
    have h1 := htok m
    have h2 := tokCount_erase hT m
    have h3 := h.tok m
    dsimp only; omega
  · intro X hX hs; dsimp only; rw [hpc]; exact h.stdRun X (hsub X hX) hs
  · intro x hx; dsimp only at hx; rw [hpc] at hx; exact h.todoRun x hx
  · intro x hx b hb y hy
    rcases h.c1 x hx b hb y hy with h1 | h1 | h1
    · exact Or.inl h1
    · rcases exists_erase (T := T) h1 with h2 | ⟨_, hy'⟩
      · exact Or.inr (Or.inl h2)
      · rw [hres] at hy'; simp at hy'
    · exact Or.inr (Or.inr h1)
  · intro j' k' hj hk v' hv'
    rcases h.c2 j' k' hj hk v' hv' with h1 | h1 | h1
    · rcases exists_erase (T := T) h1 with h2 | ⟨_, hq⟩
      · exact Or.inl h2
      · rw [hbuf, hpend] at hq; simp at hq
    · rcases exists_erase (T := T) h1 with h2 | ⟨_, hq⟩
      · exact Or.inr (Or.inl h2)
      · rw [hraw] at hq; simp at hq
    · exact Or.inr (Or.inr h1)
  · intro j' k' x hx v' hv' y hy
    rcases h.c3 j' k' x hx v' hv' y hy with h1 | h1
    · rcases exists_erase (T := T) h1 with h2 | ⟨_, hy'⟩
      · exact Or.inl h2
      · rw [hres] at hy'; simp at hy'
    · exact Or.inr h1
  · intro j' v' hv'
    rcases h.c4 j' v' hv' with h1 | h1
    · rcases exists_erase (T := T) h1 with h2 | ⟨_, hq⟩
      · exact Or.inl h2
      · rw [hbuf, hpend] at hq; simp at hq
    · exact Or.inr h1

theorem inv_proto {c : Cfg} {s : DSt} (h : DInv c s) (a : Act) (hl : liftable a = true) (p' : St)
    (hstep : step c.topo s.p a = some p')
    (hrep : ∀ i, a = .report i → s.stdTodo i = [] ∧ ∀ T, T ∈ s.tasks → T.src = none → T.owner ≠ i) :
    DInv c { s with p := p' } := by
  have hm := step_liftable_msgs hl hstep
  have hr := step_liftable_running hl hstep
  refine { pinv := step_inv h.pinv a hstep, nc := h.nc, wfOwner := h.wfOwner, wfSrc := h.wfSrc, wfPend := h.wfPend, tok := ?_,
           stdRun := ?_, todoRun := ?_, todoSub := h.todoSub, sOut := h.sOut, sRes := h.sRes, sBuf := h.sBuf,
           sPend := h.sPend, sRaw := h.sRaw, sExt := h.sExt, c1 := h.c1, c2 := h.c2, c3 := h.c3, c4 := h.c4 }
  · intro m; dsimp only; rw [hm]; exact h.tok m
  · intro T hT hs; dsimp only
    rcases (hr T.owner).2 (h.stdRun T hT hs) with h1 | h1
    · exact h1
    · exact absurd rfl ((hrep _ h1).2 T hT hs)
  · intro x hx; dsimp only at hx
    by_cases e : s.p.pc x = .running
    · rcases (hr x).2 e with h1 | h1
      · exact absurd h1 hx
      · exact (hrep _ h1).1
    · exact h.todoRun x e

/-! ## every action preserves the invariant (as long as the run is not cancelled) -/

theorem inv_taskEnd {c : Cfg} {s s' : DSt} (h : DInv c s) (T : Task) (hT : T ∈ s.tasks)
    (hraw : T.rawIn = []) (hres : T.results = []) (hbuf : T.buf = []) (hpend : T.pend = [])
    (hs : (match T.src with
      | none => some { s with tasks := s.tasks.erase T }
      | some (j, k) =>
        match step c.topo s.p (.msgDone j k) with
        | some p' => some { s with p := p', tasks := s.tasks.erase T }
        | none => none) = some s') : DInv c s' := by
  split at hs
  · rename_i hsrc
    injection hs with hs; subst hs
    exact inv_remove h T hT s.p hraw hres hbuf hpend h.pinv rfl (fun m => by simp [cycTok, hsrc])
  · rename_i j k hsrc
    split at hs
    · rename_i p' hstep
      injection hs with hs; subst hs
      obtain ⟨hp', hmem⟩ := step_msgDone_eq hstep
      refine inv_remove h T hT p' hraw hres hbuf hpend (step_inv h.pinv _ hstep) (by rw [hp']; rfl) ?_
      intro m
      have hm : p'.msgs = s.p.msgs.erase ⟨j, k⟩ := by rw [hp']; rfl
      rw [hm]
      simp only [cycTok, hsrc, Option.map_some]
      by_cases e : (⟨j, k⟩ : Msg) = m
      · subst e
        have := List.count_erase_self (a := (⟨j, k⟩ : Msg)) (l := s.p.msgs)
        have hpos : 0 < s.p.msgs.count ⟨j, k⟩ := List.count_pos_iff.mpr hmem
        simp; omega
      · have : ¬ (some (⟨j, k⟩ : Msg) = some m) := fun hh => e (Option.some.inj hh)
        simp only [this, if_false, Nat.add_zero]
        exact List.count_erase_of_ne (Ne.symm e)
    · simp at hs

theorem dstep_inv {c : Cfg} {s s' : DSt} (hc : c.closedTopo) (h : DInv c s) (a : DAct) (hs : dstep c s a = some s')
    (hnc : s'.cancelled = false) : DInv c s' := by
  cases a with
  | stdRecv i =>
    simp only [dstep] at hs
    split at hs
    · rename_i b rest htodo
      split at hs
      · rename_i hg; injection hs with hs; subst hs
        exact inv_stdRecv h i b rest htodo hg.1 hg.2.1
      · simp at hs
    · simp at hs
  | dedupIn T =>
    simp only [dstep] at hs
    split at hs
    · rename_i hT
      split at hs
      · rename_i j k v rest hsrc hraw
        split at hs
        · rename_i hseen; injection hs with hs; subst hs
          exact inv_dedup_seen h T hT j k v rest hsrc hraw hseen
        · injection hs with hs; subst hs
          exact inv_dedup_new h T hT j k v rest hsrc hraw
      · simp at hs
    · simp at hs
  | claim T =>
    simp only [dstep] at hs
    split at hs
    · rename_i hT
      split at hs
      · rename_i r rest hres
        split at hs
        · rename_i hdup; injection hs with hs; subst hs
          exact inv_claim_dup h T hT r rest hres hdup
        · injection hs with hs; subst hs
          exact inv_claim_new h T hT r rest hres
      · simp at hs
    · simp at hs
  | flush T =>
    simp only [dstep] at hs
    split at hs
    · rename_i hg; injection hs with hs; subst hs
      exact inv_flush h T hg.1 hg.2.2
    · simp at hs
  | sendExt T =>
    simp only [dstep] at hs
    split at hs
    · rename_i hT
      split at hs
      · rename_i vs rest hp; injection hs with hs; subst hs
        exact inv_sendExt h T hT vs rest hp
      · simp at hs
    · simp at hs
  | sendCyc T =>
    simp only [dstep] at hs
    split at hs
    · rename_i hT
      split at hs
      · rename_i k vs rest hp
        split at hs
        · -- a dropped send would need a cancelled run or a closed listener: impossible while a task exists
          rename_i hdrop
          exfalso
          rcases hdrop with hcn | hcl
          · rw [h.nc] at hcn; simp at hcn
          · have h0 := zero_of_teardown h T.owner (h.wfOwner T hT) (Or.inr (Or.inl (by omega)))
            have := no_tasks_of_zero h h0
            rw [this] at hT; simp at hT
        · split at hs
          · rename_i p' d hstep hd
            injection hs with hs; subst hs
            exact inv_sendCyc h hc T hT k vs rest hp p' d hstep hd
          · simp at hs
      · simp at hs
    · simp at hs
  | taskDone T =>
    simp only [dstep] at hs
    split at hs
    · rename_i hg
      exact inv_taskEnd h T hg.1 hg.2.1 hg.2.2.1 hg.2.2.2.1 hg.2.2.2.2 hs
    · simp at hs
  | proto a =>
    simp only [dstep] at hs
    split at hs
    · rename_i hl
      split at hs
      · rename_i p' hstep
        split at hs
        · rename_i i
          split at hs
          · rename_i hg; injection hs with hs; subst hs
            refine inv_proto h _ hl p' hstep ?_
            intro i' hi'
            injection hi' with hi'; subst hi'
            refine ⟨hg.1, fun T hT hsrc ho => ?_⟩
            have := List.all_eq_true.mp hg.2 T hT
            simp [ho, hsrc] at this
          · simp at hs
        · rename_i hnr
          injection hs with hs; subst hs
          exact inv_proto h _ hl p' hstep (fun i hi => absurd hi (hnr i))
      · simp at hs
    · simp at hs
  | cancel =>
    simp only [dstep] at hs; injection hs with hs; subst hs; simp at hnc
  | abort T =>
    simp only [dstep] at hs
    split at hs
    · rename_i hg; rw [h.nc] at hg; simp at hg
    · simp at hs
  | stdDrop i =>
    simp only [dstep] at hs
    split at hs
    · rename_i hg; rw [h.nc] at hg; simp at hg
    · simp at hs

end OpenFGAVerif.Proofs.CycleData
