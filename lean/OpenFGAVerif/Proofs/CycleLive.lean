/-
Progress (deadlock freedom) and the termination measure of the cycle-group protocol model.
-/
import OpenFGAVerif.Proofs.Cycle

namespace OpenFGAVerif.Proofs.Cycle
open OpenFGAVerif.Model.Cycle

/-! ## greatest index with a property -/

theorem exists_max (n : Nat) (P : Nat → Prop) [DecidablePred P] :
    (∀ i, i < n → ¬ P i) ∨ ∃ i, i < n ∧ P i ∧ ∀ j, i < j → j < n → ¬ P j := by
  induction n with
  | zero => left; intro i hi; omega
  | succ n ih =>
    by_cases hp : P n
    · right; exact ⟨n, by omega, hp, fun j h1 h2 => by omega⟩
    · rcases ih with h | ⟨i, hi, hpi, hmax⟩
      · left; intro i hi
        by_cases e : i = n
        · subst e; exact hp
        · exact h i (by omega)
      · right; refine ⟨i, by omega, hpi, fun j h1 h2 => ?_⟩
        by_cases e : j = n
        · subst e; exact hp
        · exact hmax j h1 (by omega)

/-! ## progress: in every reachable state that is not final some action is enabled -/

theorem rank_cases (pc : PC) : rank pc = 0 ∧ pc = .running ∨ rank pc = 1 ∧ pc = .reported ∨ rank pc = 2 ∧ pc = .waiting ∨
    rank pc = 3 ∧ pc = .passed ∨ rank pc = 4 ∧ pc = .cleaning ∨ rank pc = 5 ∧ pc = .done ∨ rank pc = 6 ∧ pc = .exited := by
  cases pc <;> simp [rank]

/-- An action other than a message creation is enabled in every non-final state that satisfies the invariant. -/
theorem progress_inv {t : Topo} {s : St} (hn : 0 < t.n) (h : Inv t s) :
    final t s ∨ ∃ a, (∀ i k, a ≠ Act.msgInc i k) ∧ (step t s a).isSome = true := by
  by_cases h1 : ∃ i, i < t.n ∧ s.pc i = .running
  · obtain ⟨i, hi, hpc⟩ := h1
    exact Or.inr ⟨.report i, by simp, by simp [step, hi, hpc]⟩
  by_cases h2 : ∃ i, i < t.n ∧ s.pc i = .reported
  · obtain ⟨i, hi, hpc⟩ := h2
    exact Or.inr ⟨.srDec i, by simp, by simp [step, hi, hpc]⟩
  cases hm : s.msgs with
  | cons m rest =>
    refine Or.inr ⟨.msgDone m.src m.k, by simp, ?_⟩
    have : (⟨m.src, m.k⟩ : Msg) ∈ s.msgs := by rw [hm]; cases m; simp
    simp [step, this]
  | nil =>
  have hq : quiescent t s := ⟨fun i hi => ⟨fun e => h1 ⟨i, hi, e⟩, fun e => h2 ⟨i, hi, e⟩⟩, hm⟩
  have h0 : s.pool.inflight = 0 := (quiescent_iff h).mp hq
  rcases h.qLatch h0 with hp | hz
  · exact Or.inr ⟨.latch, by simp, by simp [step, hp]⟩
  have hqc : s.pool.qClosed = true := by rw [h.zeroQ]; exact hz
  have hrc : s.pool.readyClosed = true := h.ready.mpr (fun i hi e => h1 ⟨i, hi, e⟩)
  by_cases h3 : ∃ i, i < t.n ∧ s.pc i = .waiting
  · obtain ⟨i, hi, hpc⟩ := h3
    exact Or.inr ⟨.waitDone i, by simp, by simp [step, hi, hpc, Pool.waitPassable, hqc, hrc]⟩
  have hge3 : ∀ i, i < t.n → 3 ≤ rank (s.pc i) := by
    intro i hi
    rcases rank_cases (s.pc i) with ⟨_, e⟩ | ⟨_, e⟩ | ⟨_, e⟩ | ⟨r, _⟩ | ⟨r, _⟩ | ⟨r, _⟩ | ⟨r, _⟩
    · exact absurd ⟨i, hi, e⟩ h1
    · exact absurd ⟨i, hi, e⟩ h2
    · exact absurd ⟨i, hi, e⟩ h3
    all_goals omega
  rcases exists_max t.n (fun i => rank (s.pc i) < 5) with hall | ⟨i, hi, hlt, hmax⟩
  · -- every member has woken its successor
    have hge5 : ∀ i, i < t.n → 5 ≤ rank (s.pc i) := fun i hi => by have := hall i hi; omega
    by_cases h4 : ∃ i, i < t.n ∧ s.pc i = .done
    · obtain ⟨i, hi, hpc⟩ := h4
      refine Or.inr ⟨.exit i, by simp, ?_⟩
      have : inEdgesClosed t s i = true := by
        simp only [inEdgesClosed, List.all_eq_true, List.mem_range]
        intro j hj k hk
        have := h.closedAll j hj (hge5 j hj)
        simp [this, hk]
      simp [step, hi, hpc, this]
    · left; intro i hi
      rcases rank_cases (s.pc i) with ⟨r, _⟩ | ⟨r, _⟩ | ⟨r, _⟩ | ⟨r, _⟩ | ⟨r, _⟩ | ⟨_, e⟩ | ⟨_, e⟩
      · have := hge5 i hi; omega
      · have := hge5 i hi; omega
      · have := hge5 i hi; omega
      · have := hge5 i hi; omega
      · have := hge5 i hi; omega
      · exact absurd ⟨i, hi, e⟩ h4
      · exact e
  · -- `i` is the greatest member that has not yet woken its successor
    have h3' := hge3 i hi
    rcases rank_cases (s.pc i) with ⟨r, _⟩ | ⟨r, _⟩ | ⟨r, _⟩ | ⟨_, e⟩ | ⟨_, e⟩ | ⟨r, _⟩ | ⟨r, _⟩
    · omega
    · omega
    · omega
    · -- passed: the leader starts; every other member has been woken by its predecessor i+1
      by_cases hl : i = t.leader
      · refine Or.inr ⟨.beginCleanup i, by simp, ?_⟩
        have hg : i < t.n ∧ s.pc i = .passed ∧ i = t.leader := ⟨hi, e, hl⟩
        simp only [step, if_pos hg]; rfl
      · have hi1 : i + 1 < t.n := by unfold Topo.leader at hl; omega
        have h5 : 5 ≤ rank (s.pc (i + 1)) := by have := hmax (i + 1) (by omega) hi1; omega
        have hw := h.wakes (i + 1) hi1 h5
        rw [next_succ] at hw
        exact Or.inr ⟨.sleepDone i, by simp, by simp [step, hi, e, hl, hw]⟩
    · by_cases hc : s.closed i < t.nl i
      · exact Or.inr ⟨.closeNext i, by simp, by simp [step, hi, e, hc]⟩
      · have : s.closed i = t.nl i := by have := h.closedLe i hi; omega
        exact Or.inr ⟨.wake i, by simp, by simp [step, hi, e, this]⟩
    · omega
    · omega

/-! ## termination measure -/

def sumTo (n : Nat) (f : Nat → Nat) : Nat := ((List.range n).map f).sum

theorem sumTo_succ (n : Nat) (f : Nat → Nat) : sumTo (n + 1) f = sumTo n f + f n := by
  simp [sumTo, List.range_succ]

theorem sumTo_congr (n : Nat) (f g : Nat → Nat) (h : ∀ i, i < n → f i = g i) : sumTo n f = sumTo n g := by
  induction n with
  | zero => simp [sumTo]
  | succ n ih => rw [sumTo_succ, sumTo_succ, ih (fun i hi => h i (by omega)), h n (by omega)]

theorem sumTo_upd (n : Nat) (f : Nat → Nat) (i x : Nat) (hi : i < n) :
    sumTo n (fun j => if j = i then x else f j) + f i = sumTo n f + x := by
  induction n with
  | zero => omega
  | succ n ih =>
    rw [sumTo_succ, sumTo_succ]
    by_cases h : i = n
    · subst h
      have : sumTo i (fun j => if j = i then x else f j) = sumTo i f :=
        sumTo_congr _ _ _ (fun j hj => by simp [show j ≠ i by omega])
      simp [this]; omega
    · have := ih (by omega)
      simp [show n ≠ i by omega]; omega

/-- weight of one member: twice the number of pc steps left plus the listeners still to close -/
def weight (t : Topo) (s : St) (i : Nat) : Nat := 2 * (6 - rank (s.pc i)) + (t.nl i - s.closed i)

/-- the measure: decreases with every action except a message creation (which adds 2) -/
def mu (t : Topo) (s : St) : Nat := sumTo t.n (weight t s) + 2 * s.msgs.length + s.pendingLatch

def isInc : Act → Bool
  | .msgInc _ _ => true
  | _ => false

theorem mu_move (t : Topo) (s s' : St) (i : Nat) (hi : i < t.n)
    (hpc : ∀ j, j ≠ i → s'.pc j = s.pc j) (hcl : ∀ j, j ≠ i → s'.closed j = s.closed j) :
    sumTo t.n (weight t s') + weight t s i = sumTo t.n (weight t s) + weight t s' i := by
  have : sumTo t.n (weight t s') = sumTo t.n (fun j => if j = i then weight t s' i else weight t s j) := by
    apply sumTo_congr
    intro j _
    by_cases e : j = i
    · subst e; simp
    · simp [e, weight, hpc j e, hcl j e]
  rw [this]
  exact sumTo_upd t.n (weight t s) i _ hi

theorem decStep_pl_le (s : St) : (decStep s).pendingLatch ≤ s.pendingLatch + 1 := by
  rw [decStep_pl]; split <;> omega

theorem mu_step {t : Topo} {s s' : St} (a : Act) (hs : step t s a = some s') :
    mu t s' + 1 ≤ mu t s + (if isInc a then 3 else 0) := by
  cases a with
  | msgInc i k =>
    simp only [step] at hs; split at hs
    · injection hs with hs; subst hs
      have : sumTo t.n (weight t { s with pool := s.pool.inc, msgs := ⟨i, k⟩ :: s.msgs }) = sumTo t.n (weight t s) := rfl
      simp only [mu, isInc, this]; simp; omega
    · simp at hs
  | msgDone i k =>
    simp only [step] at hs; split at hs
    · rename_i hg; injection hs with hs; subst hs
      have hl := decStep_pl_le { s with msgs := s.msgs.erase ⟨i, k⟩ }
      have hlen : 0 < s.msgs.length := List.length_pos_of_mem hg
      simp only [mu, isInc, decStep_msgs, List.length_erase_of_mem hg]
      have : sumTo t.n (weight t (decStep { s with msgs := s.msgs.erase ⟨i, k⟩ })) = sumTo t.n (weight t s) := rfl
      rw [this]; simp at hl ⊢; omega
    · simp at hs
  | report i =>
    simp only [step] at hs; split at hs
    · rename_i hg; injection hs with hs; subst hs
      have := mu_move t s { s with pc := upd s.pc i .reported, pool := s.pool.set i } i hg.1
        (fun j e => upd_other _ _ _ _ e) (fun _ _ => rfl)
      simp [weight, hg.2, rank] at this
      simp [mu, isInc]; omega
    · simp at hs
  | srDec i =>
    simp only [step] at hs; split at hs
    · rename_i hg; injection hs with hs; subst hs
      have hl := decStep_pl_le { s with pc := upd s.pc i .waiting }
      have := mu_move t s (decStep { s with pc := upd s.pc i .waiting }) i hg.1
        (fun j e => upd_other _ _ _ _ e) (fun _ _ => rfl)
      simp [weight, hg.2, rank] at this
      simp [mu, isInc] at hl ⊢; omega
    · simp at hs
  | latch =>
    simp only [step] at hs; split at hs
    · rename_i hg; injection hs with hs; subst hs
      have : sumTo t.n (weight t { s with pendingLatch := s.pendingLatch - 1, pool := s.pool.latchSwap }) = sumTo t.n (weight t s) := rfl
      simp only [mu, isInc, this]; simp; omega
    · simp at hs
  | waitDone i =>
    simp only [step] at hs; split at hs
    · rename_i hg; injection hs with hs; subst hs
      have := mu_move t s { s with pc := upd s.pc i .passed } i hg.1
        (fun j e => upd_other _ _ _ _ e) (fun _ _ => rfl)
      simp [weight, hg.2.1, rank] at this
      simp [mu, isInc]; omega
    · simp at hs
  | beginCleanup i =>
    simp only [step] at hs; split at hs
    · rename_i hg; injection hs with hs; subst hs
      have := mu_move t s { s with pc := upd s.pc i .cleaning } i hg.1
        (fun j e => upd_other _ _ _ _ e) (fun _ _ => rfl)
      simp [weight, hg.2.1, rank] at this
      simp [mu, isInc]; omega
    · simp at hs
  | sleepDone i =>
    simp only [step] at hs; split at hs
    · rename_i hg; injection hs with hs; subst hs
      have := mu_move t s { s with pc := upd s.pc i .cleaning } i hg.1
        (fun j e => upd_other _ _ _ _ e) (fun _ _ => rfl)
      simp [weight, hg.2.1, rank] at this
      simp [mu, isInc]; omega
    · simp at hs
  | closeNext i =>
    simp only [step] at hs; split at hs
    · rename_i hg; injection hs with hs; subst hs
      have := mu_move t s { s with closed := upd s.closed i (s.closed i + 1) } i hg.1
        (fun _ _ => rfl) (fun j e => upd_other _ _ _ _ e)
      have hlt := hg.2.2
      simp [weight] at this
      simp [mu, isInc]; omega
    · simp at hs
  | wake i =>
    simp only [step] at hs; split at hs
    · rename_i hg; injection hs with hs; subst hs
      have := mu_move t s { s with pc := upd s.pc i .done, woken := upd s.woken (t.next i) true } i hg.1
        (fun j e => upd_other _ _ _ _ e) (fun _ _ => rfl)
      simp [weight, hg.2.1, rank] at this
      simp [mu, isInc]; omega
    · simp at hs
  | exit i =>
    simp only [step] at hs; split at hs
    · rename_i hg; injection hs with hs; subst hs
      have := mu_move t s { s with pc := upd s.pc i .exited } i hg.1
        (fun j e => upd_other _ _ _ _ e) (fun _ _ => rfl)
      simp [weight, hg.2.1, rank] at this
      simp [mu, isInc]; omega
    · simp at hs

theorem mu_run {t : Topo} (acts : List Act) {s s' : St} (hr : run t s acts = some s') :
    mu t s' + acts.length ≤ mu t s + 3 * acts.countP isInc := by
  induction acts generalizing s with
  | nil => simp [run] at hr; subst hr; simp
  | cons a as ih =>
    simp only [run] at hr
    cases hs : step t s a with
    | none => simp [hs] at hr
    | some s1 =>
      rw [hs] at hr
      have h1 := mu_step a hs
      have h2 := ih hr
      simp only [List.length_cons, List.countP_cons]
      split at h1 <;> rename_i hi <;> simp [hi] <;> omega

end OpenFGAVerif.Proofs.Cycle
