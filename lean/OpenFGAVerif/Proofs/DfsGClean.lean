/-
When does the evaluation with a shared visited set (`Model.DfsG.evalG`) never rely on an unjustified step?

`Proofs.DfsGSound` proves that *untainted* outcomes are the semantics.  This file gives sufficient static
conditions under which **no outcome is ever tainted**, so that every decision is the semantics:

  * the key of a tuple handed to the visited filter identifies the dispatched sub-problem (`keyOf` injective,
    `it.key = keyOf child`) — violated before commit 1d97cee by tuple-to-userset edges, whose key was the parent
    object (finding V2-A); it is `parent object # computed relation` now, the dispatched sub-problem;
  * (before commit 1d97cee a third condition was needed: a tuple that reached a shared visited filter must not be
    dropped by the condition filter afterwards — finding V2-B; the condition filter now runs first, `pull`);
  * no condition is unevaluable (`cond ∈ {tt, ff}`) — otherwise the iterator may swallow the error (finding V2-E).

Together with `evalG_root_sound` this is the precise form of "a global visited filter is sound and complete for
union-only cycles": `evalG_clean_sound`.
-/
import OpenFGAVerif.Proofs.DfsGSound

set_option linter.unusedSectionVars false

namespace OpenFGAVerif.DfsG
open OpenFGAVerif.BoolSys

def Untainted (o : VOut) : Prop := ∀ a t, o = .ok a t → t = false

theorem untainted_err (k : VErr) : Untainted (.err k) := by intro a t h; cases h

/-! ### reducers keep outcomes untainted -/

theorem unionGo_untainted (arr : List VOut) (fe : Option VErr) (h : ∀ o ∈ arr, Untainted o) :
    Untainted (unionGo arr fe false) := by
  induction arr generalizing fe with
  | nil => cases fe <;> simp [unionGo, Untainted]
  | cons o rest ih =>
    cases o with
    | err e => simp only [unionGo]; exact ih _ (fun x hx => h x (by simp [hx]))
    | ok a t =>
      have ht : t = false := h (.ok a t) (by simp) a t rfl
      subst ht
      simp only [unionGo]
      split
      · intro a' t' he; simp at he; exact he.2
      · simpa using ih fe (fun x hx => h x (by simp [hx]))

theorem interGo_untainted (arr : List VOut) (h : ∀ o ∈ arr, Untainted o) : Untainted (interGo arr false) := by
  induction arr with
  | nil => simp [interGo, Untainted]
  | cons o rest ih =>
    cases o with
    | err e => simp only [interGo]; exact untainted_err e
    | ok a t =>
      have ht : t = false := h (.ok a t) (by simp) a t rfl
      subst ht
      simp only [interGo]
      split
      · simpa using ih (fun x hx => h x (by simp [hx]))
      · intro a' t' he; simp at he; exact he.2

theorem exclV2_untainted (bf : Bool) (b : VOut) (s : Option VOut) (hb : Untainted b) (hs : ∀ x, s = some x → Untainted x) :
    Untainted (exclV2 bf b s) := by
  intro a t he
  cases a with
  | true =>
    obtain ⟨tb, hbe, h1, h2⟩ := exclV2_true bf b s t he
    have htb : tb = false := hb true tb hbe
    cases s with
    | none =>
      subst hbe
      cases b' : exclV2 bf (VOut.ok true tb) none with
      | err k => rw [b'] at he; cases he
      | ok a2 t2 =>
        rw [b'] at he
        simp [exclV2] at b'
        cases he
        rw [← b'.2]; exact htb
    | some x =>
      obtain ⟨ts, hxe, _⟩ := h2 x rfl
      have hts : ts = false := hs x rfl false ts hxe
      subst hbe; subst hxe; subst htb; subst hts
      cases bf <;> simp [exclV2] at he <;> exact he
  | false =>
    rcases exclV2_false bf b s t he with h | h
    · exact hb false t h
    · exact hs _ h true t rfl

theorem unionSet_untainted (cs : List (List VOut)) (h : ∀ c ∈ cs, ∀ o ∈ c, Untainted o) : ∀ o ∈ unionSet cs, Untainted o := by
  intro o ho
  unfold unionSet at ho
  rw [mem_dedup] at ho
  obtain ⟨arr, harr, rfl⟩ := List.mem_map.mp ho
  have hp := (mem_combos cs arr).mp harr
  apply unionGo_untainted
  intro x hx
  obtain ⟨c, hc, hxc⟩ := forall₂_mem_right hp hx
  exact h c hc x hxc

theorem interSet_untainted (cs : List (List VOut)) (h : ∀ c ∈ cs, ∀ o ∈ c, Untainted o) : ∀ o ∈ interSet cs, Untainted o := by
  intro o ho
  unfold interSet at ho
  rw [mem_dedup] at ho
  obtain ⟨arr, harr, rfl⟩ := List.mem_map.mp ho
  have hp := (mem_combos cs arr).mp harr
  apply interGo_untainted
  intro x hx
  obtain ⟨c, hc, hxc⟩ := forall₂_mem_right hp hx
  exact h c hc x hxc

theorem exclSet_untainted (bs : List VOut) (ss : Option (List VOut)) (hb : ∀ o ∈ bs, Untainted o)
    (hs : ∀ l, ss = some l → ∀ o ∈ l, Untainted o) : ∀ o ∈ exclSet bs ss, Untainted o := by
  intro o ho
  cases ss with
  | none =>
    simp only [exclSet, mem_dedup, List.mem_map] at ho
    obtain ⟨b, hbm, rfl⟩ := ho
    exact exclV2_untainted true b none (hb b hbm) (fun _ h => by cases h)
  | some l =>
    simp only [exclSet, mem_dedup, List.mem_flatMap] at ho
    obtain ⟨b, hbm, s, hsm, he⟩ := ho
    simp at he
    rcases he with rfl | rfl
    · exact exclV2_untainted true b (some s) (hb b hbm) (fun x hx => by cases hx; exact hs l rfl s hsm)
    · exact exclV2_untainted false b (some s) (hb b hbm) (fun x hx => by cases hx; exact hs l rfl s hsm)

theorem union2Set_untainted (as bs : List VOut) (ha : ∀ o ∈ as, Untainted o) (hb : ∀ o ∈ bs, Untainted o) :
    ∀ o ∈ union2Set as bs, Untainted o := by
  intro o ho
  simp only [union2Set, mem_dedup, List.mem_flatMap] at ho
  obtain ⟨a, ham, b, hbm, he⟩ := ho
  simp at he
  rcases he with rfl | rfl
  · apply unionGo_untainted
    intro x hx
    simp at hx
    rcases hx with rfl | rfl
    · exact ha _ ham
    · exact hb _ hbm
  · apply unionGo_untainted
    intro x hx
    simp at hx
    rcases hx with rfl | rfl
    · exact hb _ hbm
    · exact ha _ ham

/-! ### clean expressions -/

section
variable {N : Type} [DecidableEq N] (keyOf : N → String)

/-- a tuple of a filtered iterator that cannot cause an unjustified step: its condition can be evaluated and, if
it passes the condition filter in front of a *shared* visited filter, its key identifies the dispatched sub-problem -/
def Item.Clean (share : Bool) (it : Item N) : Prop :=
  (it.cond = .tt ∨ it.cond = .ff) ∧
  (share = true → it.cond = .tt → ∃ n, it.child = some n ∧ it.key = keyOf n)

inductive CleanE : VExpr N → Prop
  | lit (v : Leaf) : v ≠ .errSw → CleanE (.lit v)
  | fail (k : VErr) : CleanE (.fail k)
  | sub (share : Bool) (n : N) : CleanE (.sub share n)
  | gate (v : Leaf) (e : VExpr N) : CleanE e → CleanE (.gate v e)
  | iter (share : Bool) (items : List (Item N)) : (∀ it ∈ items, Item.Clean keyOf share it) → CleanE (.iter share items)
  | or (es : List (VExpr N)) : (∀ e ∈ es, CleanE e) → CleanE (.or es)
  | and (es : List (VExpr N)) : (∀ e ∈ es, CleanE e) → CleanE (.and es)
  | diff (b s : VExpr N) : CleanE b → CleanE s → CleanE (.diff b s)
  | diff1 (b : VExpr N) : CleanE b → CleanE (.diff1 b)
  | or2 (a b : VExpr N) : CleanE a → CleanE b → CleanE (.or2 a b)

/-- every entry is justified and filed under the key of its sub-problem (or is a ghost entry of a computed hop) -/
def VisOK (V : Vis N) : Prop := ∀ x ∈ V, x.2.2 = true ∧ (x.1 = "" ∨ x.1 = keyOf x.2.1)

def VisOK? (vis : Option (Vis N)) : Prop := ∀ V, vis = some V → VisOK keyOf V

structure KeyOK : Prop where
  inj : ∀ a b, keyOf a = keyOf b → a = b
  nonempty : ∀ a, keyOf a ≠ ""

/-! ### the filter never skips unjustifiably -/

def StOK (st : IterSt N) : Prop :=
  VisOK? keyOf st.vis ∧ st.lastErr = false ∧ ∀ c ∈ st.acc, ∀ o ∈ c, Untainted o

theorem pull_clean (hk : KeyOK keyOf) (share active : Bool) (hact : active = true → share = true)
    (raw : List (Item N)) (hraw : ∀ it ∈ raw, Item.Clean keyOf share it) (st : IterSt N) (hst : StOK keyOf st) :
    StOK keyOf (pull active raw st).2.2 := by
  induction raw generalizing st with
  | nil => simpa [pull] using hst
  | cons it rest ih =>
    have hit := hraw it (by simp)
    have hrest : ∀ x ∈ rest, Item.Clean keyOf share x := fun x hx => hraw x (by simp [hx])
    rcases hit.1 with hc | hc
    · -- the tuple passes the condition filter
      cases hv : (if active then st.vis else none) with
      | none =>
        have : pull active (it :: rest) st = (some it.child, rest, { st with onceValid := true }) := by
          simp [pull, hv, hc]
        rw [this]; exact hst
      | some V =>
        have hav : active = true ∧ st.vis = some V := by
          cases active with
          | false => simp at hv
          | true => simp at hv; exact ⟨rfl, hv⟩
        obtain ⟨n, hch, hkey⟩ := hit.2 (hact hav.1) hc
        have hVok : VisOK keyOf V := hst.1 V hav.2
        cases hf : V.find? (fun e => e.1 = it.key) with
        | some e =>
          -- the entry found is the one of this very sub-problem
          have hem : e ∈ V := List.mem_of_find?_eq_some hf
          have hek : e.1 = it.key := by simpa using List.find?_some hf
          obtain ⟨hj, hkk⟩ := hVok e hem
          have hnode : e.2.1 = n := by
            rcases hkk with h | h
            · rw [hek, hkey] at h; exact absurd h (hk.nonempty n)
            · rw [hek, hkey] at h; exact (hk.inj _ _ h).symm
          have hbad : (!(e.2.2 && decide (it.child = some e.2.1))) = false := by simp [hj, hch, hnode]
          have : pull active (it :: rest) st = pull active rest st := by simp [pull, hv, hf, hbad, hc]
          rw [this]; exact ih hrest st hst
        | none =>
          have : pull active (it :: rest) st =
              (some it.child, rest, { st with vis := some (mark it V), onceValid := true }) := by
            simp [pull, hv, hf, hc]
          rw [this]
          refine ⟨?_, hst.2.1, hst.2.2⟩
          intro W hW
          cases hW
          intro x hx
          unfold mark at hx
          rw [hch] at hx
          rcases List.mem_cons.mp hx with rfl | hx
          · simp [hc, hkey]
          · exact hVok x hx
    · -- dropped by the condition filter: nothing is claimed
      have : pull active (it :: rest) st = pull active rest st := by simp [pull, hc]
      rw [this]; exact ih hrest st hst

/-! ### the loop and the evaluator -/

def NodeClean (nodeF : Option (Vis N) → N → List VOut × Option (Vis N)) : Prop :=
  ∀ vis n, VisOK? keyOf vis → (∀ o ∈ (nodeF vis n).1, Untainted o) ∧ VisOK? keyOf (nodeF vis n).2

theorem iterLoop_clean (hk : KeyOK keyOf) (nodeF : Option (Vis N) → N → List VOut × Option (Vis N))
    (hN : NodeClean keyOf nodeF) (share active : Bool) (hact : active = true → share = true) (policy : Nat → Nat → Bool) :
    ∀ (steps : Nat) (raw : List (Item N)) (pending : List (Option N)) (st : IterSt N),
      (∀ it ∈ raw, Item.Clean keyOf share it) → StOK keyOf st →
      StOK keyOf (iterLoop nodeF active policy steps raw pending st) := by
  intro steps
  induction steps with
  | zero =>
    intro raw pending st _ hst
    show StOK keyOf (if raw.isEmpty && pending.isEmpty then st else { st with acc := st.acc ++ [[VOut.err VErr.abort]] })
    split
    · exact hst
    · refine ⟨hst.1, hst.2.1, ?_⟩
      intro c hcm o ho
      rcases List.mem_append.mp hcm with h | h
      · exact hst.2.2 c h o ho
      · simp at h; subst h; simp at ho; subst ho; exact untainted_err _
  | succ steps ih =>
    intro raw pending st hraw hst
    rw [iterLoop_succ]
    have hk2 := iterStep_kind nodeF active policy raw pending st
    cases hs : iterStep nodeF active policy raw pending st with
    | none => exact hst
    | some r =>
      obtain ⟨raw', pending', st'⟩ := r
      rw [hs] at hk2
      simp only
      have hp := pull_clean keyOf hk share active hact raw hraw st hst
      obtain ⟨_, _, _, _, p5, _⟩ := pull_spec active raw st
      cases hk2 with
      | pullSome c _ _ hpl =>
        rw [hpl] at hp p5
        exact ih raw' _ st' (fun it hit => hraw it (p5 it hit)) hp
      | pullNone x _ hpl =>
        rw [hpl] at hp
        exact ih [] _ st' (fun it hit => absurd hit List.not_mem_nil) hp
      | graphErr _ hpd =>
        apply ih raw pending' _ hraw
        refine ⟨hst.1, hst.2.1, ?_⟩
        intro c hcm o ho
        rcases List.mem_append.mp hcm with h | h
        · exact hst.2.2 c h o ho
        · simp at h; subst h; simp at ho; subst ho; exact untainted_err _
      | popShared n _ ha hpd =>
        obtain ⟨h1, h2⟩ := hN st.vis n hst.1
        apply ih raw pending' _ hraw
        refine ⟨h2, hst.2.1, ?_⟩
        intro c hcm o ho
        rcases List.mem_append.mp hcm with h | h
        · exact hst.2.2 c h o ho
        · simp at h; subst h; exact h1 o ho
      | popFresh n _ ha hpd =>
        obtain ⟨h1, _⟩ := hN none n (fun V h => nomatch h)
        apply ih raw pending' _ hraw
        refine ⟨hst.1, hst.2.1, ?_⟩
        intro c hcm o ho
        rcases List.mem_append.mp hcm with h | h
        · exact hst.2.2 c h o ho
        · simp at h; subst h; exact h1 o ho

variable (rule : Bool → N → VExpr N) (seed : N → Option String) (look : Nat → Nat → Bool)

/-- **No taint**: with faithful keys, no conditional drops under a shared filter and evaluable conditions, the
evaluation never relies on an unjustified step. -/
theorem evalG_clean (hk : KeyOK keyOf) (hrule : ∀ b n, CleanE keyOf (rule b n))
    (hseed : ∀ n k, seed n = some k → k = keyOf n) :
    ∀ (fuel : Nat) (vis : Option (Vis N)) (e : VExpr N), CleanE keyOf e → VisOK? keyOf vis →
      (∀ o ∈ (evalG rule seed look fuel vis e).1, Untainted o) ∧ VisOK? keyOf (evalG rule seed look fuel vis e).2 := by
  intro fuel
  induction fuel with
  | zero =>
    intro vis e _ hv
    rw [evalG_zero]
    exact ⟨fun o ho => by simp at ho; subst ho; exact untainted_err _, hv⟩
  | succ fuel ih =>
    intro vis e he hv
    have hN : NodeClean keyOf (nodeG rule seed look fuel) := by
      intro vis' n hv'
      cases vis' with
      | some V => exact ih (some V) (rule false n) (hrule false n) hv'
      | none =>
        apply ih _ (rule true n) (hrule true n)
        intro V hV
        cases hs : seed n with
        | none => rw [hs] at hV; cases hV
        | some k =>
          rw [hs] at hV
          simp at hV; subst hV
          intro x hx
          simp at hx; subst hx
          exact ⟨rfl, Or.inr (hseed n k hs)⟩
    cases he with
    | lit v hne =>
      rw [evalG_lit]
      refine ⟨?_, hv⟩
      intro o ho
      simp at ho; subst ho
      cases v <;> simp [leafOut, Untainted] at hne ⊢
    | fail k =>
      rw [evalG_fail]
      exact ⟨fun o ho => by simp at ho; subst ho; exact untainted_err _, hv⟩
    | sub share n =>
      rw [evalG_sub]
      cases hsv : (if share then vis else none) with
      | some V =>
        have hvis : vis = some V := by
          cases share with
          | true => simpa using hsv
          | false => simp at hsv
        simp only
        apply hN (some (("", n, true) :: V)) n
        intro W hW
        cases hW
        intro x hx
        rcases List.mem_cons.mp hx with rfl | hx
        · exact ⟨rfl, Or.inl rfl⟩
        · exact hv V hvis x hx
      | none =>
        simp only
        exact ⟨(hN none n (fun V h => nomatch h)).1, hv⟩
    | gate v e he' =>
      rw [evalG_gate]
      cases v with
      | tt => exact ⟨fun o ho => by simp at ho; subst ho; intro a t h; cases h; rfl, hv⟩
      | ff => exact ih vis e he' hv
      | err => exact ⟨fun o ho => by simp at ho; subst ho; exact untainted_err _, hv⟩
      | errSw => exact ⟨fun o ho => by simp at ho; subst ho; exact untainted_err _, hv⟩
    | iter share items hitems =>
      rw [evalG_iter]
      have hst0 : StOK keyOf ({ vis := vis } : IterSt N) :=
        ⟨hv, rfl, fun c hc => absurd hc List.not_mem_nil⟩
      have hfin := iterLoop_clean keyOf hk (nodeG rule seed look fuel) hN share (share && vis.isSome)
        (fun h => by cases share <;> simp_all) look (2 * items.length + 2) items [] { vis := vis } hitems hst0
      refine ⟨?_, ?_⟩
      · apply unionSet_untainted
        intro c hcm o ho
        rcases List.mem_append.mp hcm with h | h
        · exact hfin.2.2 c h o ho
        · unfold iterTail at h
          rw [hfin.2.1] at h
          simp at h
      · simp only
        split
        · exact hfin.1
        · exact hv
    | or es hes =>
      rw [evalG_or]
      -- the fold keeps both invariants
      have key : ∀ (l : List (VExpr N)) (acc : List (List VOut)) (vs : Option (Vis N)),
          (∀ e ∈ l, CleanE keyOf e) → (∀ c ∈ acc, ∀ o ∈ c, Untainted o) → VisOK? keyOf vs →
          (∀ c ∈ (l.foldl (fun (acc : List (List VOut) × Option (Vis N)) e =>
              (acc.1 ++ [(evalG rule seed look fuel acc.2 e).1], (evalG rule seed look fuel acc.2 e).2)) (acc, vs)).1,
            ∀ o ∈ c, Untainted o) ∧
          VisOK? keyOf (l.foldl (fun (acc : List (List VOut) × Option (Vis N)) e =>
              (acc.1 ++ [(evalG rule seed look fuel acc.2 e).1], (evalG rule seed look fuel acc.2 e).2)) (acc, vs)).2 := by
        intro l
        induction l with
        | nil => intro acc vs _ ha hvs; exact ⟨ha, hvs⟩
        | cons e l ihl =>
          intro acc vs hl ha hvs
          simp only [List.foldl_cons]
          obtain ⟨h1, h2⟩ := ih vs e (hl e (by simp)) hvs
          apply ihl _ _ (fun x hx => hl x (by simp [hx])) _ h2
          intro c hcm o ho
          rcases List.mem_append.mp hcm with h | h
          · exact ha c h o ho
          · simp at h; subst h; exact h1 o ho
      obtain ⟨h1, h2⟩ := key es [] vis hes (fun c hc => absurd hc List.not_mem_nil) hv
      exact ⟨unionSet_untainted _ h1, h2⟩
    | or2 a b ha hb =>
      rw [evalG_or2]
      obtain ⟨a1, a2⟩ := ih vis a ha hv
      obtain ⟨b1, b2⟩ := ih _ b hb a2
      exact ⟨union2Set_untainted _ _ a1 b1, b2⟩
    | and es hes =>
      rw [evalG_and]
      refine ⟨interSet_untainted _ ?_, hv⟩
      intro c hcm o ho
      obtain ⟨e0, he0, rfl⟩ := List.mem_map.mp hcm
      exact (ih none e0 (hes e0 he0) (fun V h => nomatch h)).1 o ho
    | diff b s hb hs =>
      rw [evalG_diff]
      have hb1 := (ih none b hb (fun V h => nomatch h)).1
      have hs1 := (ih none s hs (fun V h => nomatch h)).1
      refine ⟨exclSet_untainted (evalG rule seed look fuel none b).1 (some (evalG rule seed look fuel none s).1) hb1 ?_, hv⟩
      intro l hl o ho
      have : l = (evalG rule seed look fuel none s).1 := by injection hl with h; exact h.symm
      subst this
      exact hs1 o ho
    | diff1 b hb =>
      rw [evalG_diff1]
      have hb1 := (ih none b hb (fun V h => nomatch h)).1
      exact ⟨exclSet_untainted (evalG rule seed look fuel none b).1 none hb1 (fun l hl => nomatch hl), hv⟩

/-- **Sound and complete under the clean conditions**: every decision of the evaluation, not only the untainted
ones, is the least-fixpoint semantics. -/
theorem evalG_clean_sound (sys : Sys N) (I : Interp N) (hk : KeyOK keyOf)
    (hclean : ∀ b n, CleanE keyOf (rule b n)) (hseed : ∀ n k, seed n = some k → k = keyOf n)
    (hrule : ∀ b n, toExpr (rule b n) = sys.rule n) (hc : Coherent sys I)
    (fuel : Nat) (e : VExpr N) (he : CleanE keyOf e) (a t : Bool)
    (h : VOut.ok a t ∈ (evalG rule seed look fuel none e).1) :
    (a = true → HoldsD sys I [] (toExpr e)) ∧ (a = false → ¬ HoldsP sys I [] (toExpr e)) := by
  have ht : t = false :=
    (evalG_clean keyOf rule seed look hk hclean hseed fuel none e he (fun V h => nomatch h)).1 _ h a t rfl
  subst ht
  obtain ⟨h1, h2⟩ := evalG_root_sound sys I rule seed look hrule hc fuel e
  constructor
  · intro ha; subst ha; exact h1 h
  · intro ha; subst ha; exact h2 h

end

end OpenFGAVerif.DfsG
