/-
The receive loops of the weighted-graph engine (`Model.DfsG`): what each reducer returns as a function
of the arrival sequence, for an arbitrary arrival sequence, and how the outcome *sets* of the executable
evaluator decompose.

  union         `true` iff some child is `true`; `false` iff every child is `false`; otherwise an error —
                independent of the arrival order (the *which error* is order dependent: last one wins)
  intersection  `true` iff every child is `true`; otherwise **the first arrival that is not `true`, error or
                `false` alike** — the documented breaking change: `[err, false]` is an error, `[false, err]`
                is `false` (the default engine answers `false` in both orders)
  exclusion     **base error wins** when the base arrives first even if the subtracted operand is `true`
                (the default engine answers `false`), and the other way round
-/
import OpenFGAVerif.Model.DfsG

namespace OpenFGAVerif.DfsG
open OpenFGAVerif.BoolSys

/-! ### union -/

theorem unionGo_true (arr : List VOut) (fe : Option VErr) (tnt t : Bool)
    (h : unionGo arr fe tnt = .ok true t) : .ok true t ∈ arr := by
  induction arr generalizing fe tnt with
  | nil => cases fe <;> simp [unionGo] at h
  | cons o rest ih =>
    cases o with
    | err e => simp only [unionGo] at h; exact List.mem_cons_of_mem _ (ih _ _ h)
    | ok a t' =>
      simp only [unionGo] at h
      split at h
      · rename_i ha; subst ha; simp at h; subst h; simp
      · exact List.mem_cons_of_mem _ (ih _ _ h)

theorem unionGo_false (arr : List VOut) (fe : Option VErr) (tnt t : Bool)
    (h : unionGo arr fe tnt = .ok false t) :
    fe = none ∧ (tnt = true → t = true) ∧ ∀ o ∈ arr, ∃ t', o = .ok false t' ∧ (t' = true → t = true) := by
  induction arr generalizing fe tnt with
  | nil =>
    cases fe with
    | some e => simp [unionGo] at h
    | none => simp [unionGo] at h; subst h; exact ⟨rfl, id, fun _ hm => by cases hm⟩
  | cons o rest ih =>
    cases o with
    | err e =>
      simp only [unionGo] at h
      have := (ih _ _ h).1
      simp at this
    | ok a t' =>
      simp only [unionGo] at h
      split at h
      · simp at h
      · rename_i ha
        have ha' : a = false := by simpa using ha
        obtain ⟨h1, h2, h3⟩ := ih _ _ h
        refine ⟨h1, fun ht => h2 (by simp [ht]), ?_⟩
        intro o ho
        rcases List.mem_cons.mp ho with rfl | ho
        · exact ⟨t', by simp [ha'], fun ht => h2 (by simp [ht])⟩
        · exact h3 o ho

/-- a `true` child makes the union `true` whatever else arrives, errors included, in any order -/
theorem unionGo_of_mem_true (arr : List VOut) (fe : Option VErr) (tnt t : Bool) (h : .ok true t ∈ arr) :
    ∃ t', unionGo arr fe tnt = .ok true t' := by
  induction arr generalizing fe tnt with
  | nil => cases h
  | cons o rest ih =>
    cases o with
    | err e =>
      simp only [unionGo]
      rcases List.mem_cons.mp h with h | h
      · cases h
      · exact ih _ _ h
    | ok a t' =>
      simp only [unionGo]
      cases a with
      | true => exact ⟨t', by simp⟩
      | false =>
        simp only [Bool.false_eq_true, if_false]
        rcases List.mem_cons.mp h with h | h
        · cases h
        · exact ih _ _ h

/-- **union is order independent as a decision**: `true` iff some arrival is `true` -/
theorem unionV2_true_iff (arr : List VOut) : (∃ t, unionV2 arr = .ok true t) ↔ ∃ t, .ok true t ∈ arr := by
  constructor
  · rintro ⟨t, h⟩; exact ⟨t, unionGo_true arr none false t h⟩
  · rintro ⟨t, h⟩; exact unionGo_of_mem_true arr none false t h

theorem unionV2_perm_true {a b : List VOut} (hp : a.Perm b) : (∃ t, unionV2 a = .ok true t) ↔ ∃ t, unionV2 b = .ok true t := by
  rw [unionV2_true_iff, unionV2_true_iff]
  constructor <;> rintro ⟨t, h⟩
  · exact ⟨t, hp.mem_iff.mp h⟩
  · exact ⟨t, hp.mem_iff.mpr h⟩

/-! ### intersection -/

theorem interGo_true (arr : List VOut) (tnt t : Bool) (h : interGo arr tnt = .ok true t) :
    (tnt = true → t = true) ∧ ∀ o ∈ arr, ∃ t', o = .ok true t' ∧ (t' = true → t = true) := by
  induction arr generalizing tnt with
  | nil => simp [interGo] at h; subst h; exact ⟨id, fun _ hm => by cases hm⟩
  | cons o rest ih =>
    cases o with
    | err e => simp [interGo] at h
    | ok a t' =>
      simp only [interGo] at h
      split at h
      · rename_i ha; subst ha
        obtain ⟨h1, h2⟩ := ih _ h
        refine ⟨fun ht => h1 (by simp [ht]), ?_⟩
        intro o ho
        rcases List.mem_cons.mp ho with rfl | ho
        · exact ⟨t', rfl, fun ht => h1 (by simp [ht])⟩
        · exact h2 o ho
      · simp at h

theorem interGo_false (arr : List VOut) (tnt t : Bool) (h : interGo arr tnt = .ok false t) :
    .ok false t ∈ arr := by
  induction arr generalizing tnt with
  | nil => simp [interGo] at h
  | cons o rest ih =>
    cases o with
    | err e => simp [interGo] at h
    | ok a t' =>
      simp only [interGo] at h
      split at h
      · exact List.mem_cons_of_mem _ (ih _ h)
      · rename_i ha
        have ha' : a = false := by simpa using ha
        simp at h; subst h; subst ha'; simp

/-- an intersection is `true` iff every arrival is `true`: order independent -/
theorem interV2_true_iff (arr : List VOut) : (∃ t, interV2 arr = .ok true t) ↔ ∀ o ∈ arr, ∃ t, o = .ok true t := by
  constructor
  · rintro ⟨t, h⟩ o ho
    obtain ⟨t', e, _⟩ := (interGo_true arr false t h).2 o ho
    exact ⟨t', e⟩
  · intro h
    suffices ∀ tnt, ∃ t, interGo arr tnt = .ok true t from this false
    induction arr with
    | nil => intro tnt; exact ⟨tnt, rfl⟩
    | cons o rest ih =>
      intro tnt
      obtain ⟨t', rfl⟩ := h o (by simp)
      simp only [interGo]
      exact ih (fun o ho => h o (by simp [ho])) _

/-- **first error or false wins** (documented breaking change): the result of a failing intersection
depends on the arrival order … -/
theorem interV2_order_dependent :
    interV2 [.err .cond, .ok false false] = .err .cond ∧ interV2 [.ok false false, .err .cond] = .ok false false := by
  decide

/-- … but never on anything else: it is the first arrival that is not `true`. -/
theorem interGo_first_nontrue (pre : List VOut) (o : VOut) (post : List VOut) (tnt : Bool)
    (hpre : ∀ x ∈ pre, ∃ t, x = .ok true t) (ho : ∀ t, o ≠ .ok true t) :
    interGo (pre ++ o :: post) tnt = (match o with | .err e => .err e | .ok _ t => .ok false t) := by
  induction pre generalizing tnt with
  | nil =>
    cases o with
    | err e => simp [interGo]
    | ok a t =>
      cases a with
      | true => exact absurd rfl (ho t)
      | false => simp [interGo]
  | cons x pre ih =>
    obtain ⟨t, rfl⟩ := hpre x (by simp)
    simp only [List.cons_append, interGo]
    exact ih _ (fun y hy => hpre y (by simp [hy]))

/-! ### exclusion -/

theorem exclV2_true (bf : Bool) (b : VOut) (s : Option VOut) (t : Bool) (h : exclV2 bf b s = .ok true t) :
    ∃ tb, b = .ok true tb ∧ (tb = true → t = true) ∧ ∀ x, s = some x → ∃ ts, x = .ok false ts ∧ (ts = true → t = true) := by
  cases s with
  | none =>
    cases b with
    | err e => simp [exclV2] at h
    | ok a tb =>
      simp [exclV2] at h
      obtain ⟨rfl, rfl⟩ := h
      exact ⟨tb, rfl, id, fun _ hx => by cases hx⟩
  | some x =>
    cases bf <;> cases b with
    | err e => cases x with
      | err e2 => simp [exclV2] at h
      | ok a2 t2 => cases a2 <;> simp [exclV2] at h
    | ok a tb =>
      cases a <;> cases x with
      | err e2 => simp [exclV2] at h
      | ok a2 t2 =>
        cases a2 <;> simp [exclV2] at h
        all_goals (subst h; refine ⟨tb, rfl, ?_, ?_⟩)
        all_goals first
          | (intro ht; simp [ht])
          | (intro y hy; cases hy; exact ⟨t2, rfl, fun ht => by simp [ht]⟩)

theorem exclV2_false (bf : Bool) (b : VOut) (s : Option VOut) (t : Bool) (h : exclV2 bf b s = .ok false t) :
    b = .ok false t ∨ s = some (.ok true t) := by
  cases s with
  | none =>
    cases b with
    | err e => simp [exclV2] at h
    | ok a tb => simp [exclV2] at h; obtain ⟨rfl, rfl⟩ := h; exact Or.inl rfl
  | some x =>
    cases bf <;> cases b with
    | err e => cases x with
      | err e2 => simp [exclV2] at h
      | ok a2 t2 => cases a2 <;> simp [exclV2] at h <;> (subst h; exact Or.inr rfl)
    | ok a tb =>
      cases a <;> cases x with
      | err e2 => simp [exclV2] at h <;> (subst h; exact Or.inl rfl)
      | ok a2 t2 =>
        cases a2 <;> simp [exclV2] at h
        all_goals first
          | (subst h; exact Or.inl rfl)
          | (subst h; exact Or.inr rfl)

/-- **base error wins** (documented breaking change): with a failing base and a `true` subtracted operand the
answer depends on which of the two goroutines is received first … -/
theorem exclV2_order_dependent :
    exclV2 true (.err .cond) (some (.ok true false)) = .err .cond ∧
    exclV2 false (.err .cond) (some (.ok true false)) = .ok false false := by decide

/-- … and only then (and in the mirrored case): when neither operand is an error the two orders agree. -/
theorem exclV2_order_independent_of_no_error (b s : VOut) (hb : ∀ e, b ≠ .err e) (hs : ∀ e, s ≠ .err e) :
    (∃ t1 t2 a, exclV2 true b (some s) = .ok a t1 ∧ exclV2 false b (some s) = .ok a t2) := by
  cases b with
  | err e => exact absurd rfl (hb e)
  | ok a tb =>
    cases s with
    | err e => exact absurd rfl (hs e)
    | ok a2 ts =>
      cases a <;> cases a2 <;> simp [exclV2]

/-! ### outcome sets -/

theorem mem_dedup_go (l acc : List VOut) (o : VOut) :
    o ∈ l.foldl (fun acc o => if acc.contains o then acc else acc ++ [o]) acc ↔ o ∈ acc ∨ o ∈ l := by
  induction l generalizing acc with
  | nil => simp
  | cons x xs ih =>
    simp only [List.foldl_cons]
    rw [ih]
    by_cases hx : acc.contains x
    · simp only [hx, if_true]
      have hxm : x ∈ acc := by simpa using hx
      constructor
      · rintro (h | h)
        · exact Or.inl h
        · exact Or.inr (List.mem_cons_of_mem _ h)
      · rintro (h | h)
        · exact Or.inl h
        · rcases List.mem_cons.mp h with rfl | h
          · exact Or.inl hxm
          · exact Or.inr h
    · simp only [hx]
      constructor
      · rintro (h | h)
        · rcases List.mem_append.mp h with h | h
          · exact Or.inl h
          · simp at h; subst h; exact Or.inr (by simp)
        · exact Or.inr (List.mem_cons_of_mem _ h)
      · rintro (h | h)
        · exact Or.inl (List.mem_append_left _ h)
        · rcases List.mem_cons.mp h with rfl | h
          · exact Or.inl (List.mem_append_right _ (by simp))
          · exact Or.inr h

theorem mem_dedup (l : List VOut) (o : VOut) : o ∈ dedup l ↔ o ∈ l := by
  unfold dedup; rw [mem_dedup_go]; simp

/-- `Pick arr cs`: `arr` takes one outcome from every child, in order -/
inductive Pick : List VOut → List (List VOut) → Prop
  | nil : Pick [] []
  | cons {o : VOut} {c : List VOut} {arr : List VOut} {cs : List (List VOut)} : o ∈ c → Pick arr cs → Pick (o :: arr) (c :: cs)

theorem mem_combos (cs : List (List VOut)) (arr : List VOut) :
    arr ∈ combos cs ↔ Pick arr cs := by
  induction cs generalizing arr with
  | nil =>
    simp only [combos, List.mem_singleton]
    constructor
    · rintro rfl; exact .nil
    · intro h; cases h; rfl
  | cons c cs ih =>
    simp only [combos, List.mem_flatMap, List.mem_map]
    constructor
    · rintro ⟨o, ho, tail, ht, rfl⟩
      exact .cons ho ((ih tail).mp ht)
    · intro h
      cases h with
      | cons ho ht => exact ⟨_, ho, _, (ih _).mpr ht, rfl⟩

theorem forall₂_mem_left {arr : List VOut} {cs : List (List VOut)} (h : Pick arr cs)
    {c : List VOut} (hc : c ∈ cs) : ∃ o ∈ arr, o ∈ c := by
  induction h with
  | nil => cases hc
  | cons ho _ ih =>
    rcases List.mem_cons.mp hc with rfl | hc
    · exact ⟨_, by simp, ho⟩
    · obtain ⟨o, hm, hoc⟩ := ih hc
      exact ⟨o, List.mem_cons_of_mem _ hm, hoc⟩

theorem forall₂_mem_right {arr : List VOut} {cs : List (List VOut)} (h : Pick arr cs)
    {o : VOut} (ho : o ∈ arr) : ∃ c ∈ cs, o ∈ c := by
  induction h with
  | nil => cases ho
  | cons hoc _ ih =>
    rcases List.mem_cons.mp ho with rfl | ho
    · exact ⟨_, by simp, hoc⟩
    · obtain ⟨c, hm, h2⟩ := ih ho
      exact ⟨c, List.mem_cons_of_mem _ hm, h2⟩

/-- an untainted `false` of a union: every child can be an untainted `false` -/
theorem unionSet_false {cs : List (List VOut)} (h : .ok false false ∈ unionSet cs) :
    ∀ c ∈ cs, .ok false false ∈ c := by
  unfold unionSet at h
  rw [mem_dedup] at h
  obtain ⟨arr, harr, hu⟩ := List.mem_map.mp h
  have hf := (mem_combos cs arr).mp harr
  obtain ⟨_, _, hall⟩ := unionGo_false arr none false false hu
  intro c hc
  obtain ⟨o, hoa, hoc⟩ := forall₂_mem_left hf hc
  obtain ⟨t', rfl, ht⟩ := hall o hoa
  cases t' with
  | false => exact hoc
  | true => exact absurd (ht rfl) (by simp)

/-- an untainted `true` of a union comes from a child -/
theorem unionSet_true {cs : List (List VOut)} (h : .ok true false ∈ unionSet cs) :
    ∃ c ∈ cs, .ok true false ∈ c := by
  unfold unionSet at h
  rw [mem_dedup] at h
  obtain ⟨arr, harr, hu⟩ := List.mem_map.mp h
  have hf := (mem_combos cs arr).mp harr
  exact forall₂_mem_right hf (unionGo_true arr none false false hu)

theorem interSet_true {cs : List (List VOut)} (h : .ok true false ∈ interSet cs) :
    ∀ c ∈ cs, .ok true false ∈ c := by
  unfold interSet at h
  rw [mem_dedup] at h
  obtain ⟨arr, harr, hu⟩ := List.mem_map.mp h
  have hf := (mem_combos cs arr).mp harr
  obtain ⟨_, hall⟩ := interGo_true arr false false hu
  intro c hc
  obtain ⟨o, hoa, hoc⟩ := forall₂_mem_left hf hc
  obtain ⟨t', rfl, ht⟩ := hall o hoa
  cases t' with
  | false => exact hoc
  | true => exact absurd (ht rfl) (by simp)

theorem interSet_false {cs : List (List VOut)} (h : .ok false false ∈ interSet cs) :
    ∃ c ∈ cs, .ok false false ∈ c := by
  unfold interSet at h
  rw [mem_dedup] at h
  obtain ⟨arr, harr, hu⟩ := List.mem_map.mp h
  have hf := (mem_combos cs arr).mp harr
  exact forall₂_mem_right hf (interGo_false arr false false hu)

theorem exclSet_true {bs : List VOut} {ss : Option (List VOut)} (h : .ok true false ∈ exclSet bs ss) :
    .ok true false ∈ bs ∧ ∀ l, ss = some l → .ok false false ∈ l := by
  cases ss with
  | none =>
    simp only [exclSet, mem_dedup, List.mem_map] at h
    obtain ⟨b, hb, he⟩ := h
    obtain ⟨tb, rfl, htb, _⟩ := exclV2_true true b none false he
    cases tb with
    | true => exact absurd (htb rfl) (by simp)
    | false => exact ⟨hb, fun _ hl => by cases hl⟩
  | some l =>
    simp only [exclSet, mem_dedup, List.mem_flatMap] at h
    obtain ⟨b, hb, s, hs, he⟩ := h
    have key : ∀ bf, exclV2 bf b (some s) = .ok true false → .ok true false ∈ bs ∧ .ok false false ∈ l := by
      intro bf he
      obtain ⟨tb, rfl, htb, hx⟩ := exclV2_true bf b (some s) false he
      obtain ⟨ts, rfl, hts⟩ := hx s rfl
      cases tb with
      | true => exact absurd (htb rfl) (by simp)
      | false =>
        cases ts with
        | true => exact absurd (hts rfl) (by simp)
        | false => exact ⟨hb, hs⟩
    simp at he
    rcases he with he | he
    · obtain ⟨h1, h2⟩ := key true he.symm; exact ⟨h1, fun l' hl => by cases hl; exact h2⟩
    · obtain ⟨h1, h2⟩ := key false he.symm; exact ⟨h1, fun l' hl => by cases hl; exact h2⟩

theorem exclSet_false {bs : List VOut} {ss : Option (List VOut)} (h : .ok false false ∈ exclSet bs ss) :
    .ok false false ∈ bs ∨ ∃ l, ss = some l ∧ .ok true false ∈ l := by
  cases ss with
  | none =>
    simp only [exclSet, mem_dedup, List.mem_map] at h
    obtain ⟨b, hb, he⟩ := h
    rcases exclV2_false true b none false he with rfl | h2
    · exact Or.inl hb
    · cases h2
  | some l =>
    simp only [exclSet, mem_dedup, List.mem_flatMap] at h
    obtain ⟨b, hb, s, hs, he⟩ := h
    have key : ∀ bf, exclV2 bf b (some s) = .ok false false →
        .ok false false ∈ bs ∨ ∃ l', some l = some l' ∧ .ok true false ∈ l' := by
      intro bf he
      rcases exclV2_false bf b (some s) false he with rfl | h2
      · exact Or.inl hb
      · cases h2; exact Or.inr ⟨l, rfl, hs⟩
    simp at he
    rcases he with he | he
    · exact key true he.symm
    · exact key false he.symm

theorem union2Set_false {as bs : List VOut} (h : .ok false false ∈ union2Set as bs) :
    .ok false false ∈ as ∧ .ok false false ∈ bs := by
  simp only [union2Set, mem_dedup, List.mem_flatMap] at h
  obtain ⟨a, ha, b, hb, he⟩ := h
  have key : ∀ x y : VOut, unionV2 [x, y] = .ok false false → x = .ok false false ∧ y = .ok false false := by
    intro x y hu
    obtain ⟨_, _, hall⟩ := unionGo_false [x, y] none false false hu
    obtain ⟨t1, rfl, h1⟩ := hall x (by simp)
    obtain ⟨t2, rfl, h2⟩ := hall y (by simp)
    cases t1 <;> cases t2 <;> simp_all
  simp at he
  rcases he with he | he
  · obtain ⟨rfl, rfl⟩ := key a b he.symm; exact ⟨ha, hb⟩
  · obtain ⟨rfl, rfl⟩ := key b a he.symm; exact ⟨ha, hb⟩

theorem union2Set_true {as bs : List VOut} (h : .ok true false ∈ union2Set as bs) :
    .ok true false ∈ as ∨ .ok true false ∈ bs := by
  simp only [union2Set, mem_dedup, List.mem_flatMap] at h
  obtain ⟨a, ha, b, hb, he⟩ := h
  simp at he
  rcases he with he | he
  · have := unionGo_true [a, b] none false false he.symm
    simp at this
    rcases this with rfl | rfl
    · exact Or.inl ha
    · exact Or.inr hb
  · have := unionGo_true [b, a] none false false he.symm
    simp at this
    rcases this with rfl | rfl
    · exact Or.inr hb
    · exact Or.inl ha

end OpenFGAVerif.DfsG
