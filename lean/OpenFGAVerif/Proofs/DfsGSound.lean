/-
Soundness of the evaluation with a **shared, global visited set** (`Model.DfsG.evalG`) with respect to
the least-fixpoint semantics (`Spec.BoolSys`) of the equation system it evaluates, for every system,
every producer/consumer policy of the default strategy, every fuel.

The argument is not the path lemma of `Proofs.DfsSound` (a global set is not a path): when a region —
everything evaluated under one visited set — comes back with an untainted `false`, every sub-problem
that was *entered* in it (`nodesJ`: the justified entries of the final set, including the unmarked
computed hops recorded as ghost entries) is **dead**: its rule cannot be made true by possibly-true
sub-problems *outside* the set.  A set of dead sub-problems contains no possibly-true one (`closure`,
by leastness of the fixpoint): whichever branch claimed a userset, its `false` was reported to the same
union, so skipping it elsewhere lost nothing.  Where this breaks — a skip on a key that was placed for a
different sub-problem, or for a tuple that the condition filter dropped afterwards, or an error
swallowed by the iterator — the model sets the ghost taint bit and the theorem says nothing.
-/
import OpenFGAVerif.Proofs.DfsGReducers

set_option linter.unusedSectionVars false

namespace OpenFGAVerif.DfsG
open OpenFGAVerif.BoolSys

section
variable {N : Type} [DecidableEq N] (sys : Sys N) (I : Interp N)

/-- sub-problems entered under a visited set: nodes of its justified entries -/
def nodesJ (V : Vis N) : List N := (V.filter (fun e => e.2.2)).map (fun e => e.2.1)

def SubVis (V V' : Vis N) : Prop := ∀ x ∈ V, x ∈ V'

theorem SubVis.refl (V : Vis N) : SubVis V V := fun _ h => h
theorem SubVis.trans {A B C : Vis N} (h1 : SubVis A B) (h2 : SubVis B C) : SubVis A C := fun x h => h2 x (h1 x h)

theorem mem_nodesJ {V : Vis N} {m : N} : m ∈ nodesJ V ↔ ∃ k, (k, m, true) ∈ V := by
  unfold nodesJ
  simp only [List.mem_map, List.mem_filter]
  constructor
  · rintro ⟨⟨k, n, j⟩, ⟨hm, hj⟩, rfl⟩
    simp at hj; subst hj; exact ⟨k, hm⟩
  · rintro ⟨k, hm⟩; exact ⟨(k, m, true), ⟨hm, rfl⟩, rfl⟩

theorem nodesJ_mono {V V' : Vis N} (h : SubVis V V') {m : N} (hm : m ∈ nodesJ V) : m ∈ nodesJ V' := by
  obtain ⟨k, hk⟩ := mem_nodesJ.mp hm
  exact mem_nodesJ.mpr ⟨k, h _ hk⟩

/-- possibly-true sub-problems outside `X` -/
def Cand (X : List N) : N → Prop := fun y => P sys I [] y ∧ y ∉ X

/-- `e` cannot be made true by candidates outside `X` -/
def DeadX (X : List N) (e : Expr N) : Prop := ¬ Holds leafP I.negP (Cand sys I X) e

theorem DeadX.mono {X X' : List N} (h : ∀ m ∈ X, m ∈ X') {e : Expr N} (hd : DeadX sys I X e) : DeadX sys I X' e :=
  fun hh => hd (Holds.mono leafP I.negP (fun y hy => ⟨hy.1, fun hx => hy.2 (h y hx)⟩) hh)

theorem DeadX.of_global {X : List N} {e : Expr N} (h : ¬ HoldsP sys I [] e) : DeadX sys I X e :=
  fun hh => h (Holds.mono leafP I.negP (fun _ hy => hy.1) hh)

theorem DeadX.node_mem {X : List N} {d : Bool} {n : N} (h : n ∈ X) : DeadX sys I X (.node d n) := by
  intro hh; cases hh with | node hn => exact hn.2 h

/-- **Closure**: a set of dead sub-problems contains no possibly-true one. -/
theorem closure (X : List N) (h : ∀ m ∈ X, DeadX sys I X (sys.rule m)) : ∀ m ∈ X, ¬ P sys I [] m := by
  have key : ∀ n, P sys I [] n → Cand sys I X n := by
    apply lfp_least sys leafP I.negP [] (Cand sys I X)
    intro n _ hh
    refine ⟨lfp_closed sys leafP I.negP [] n List.not_mem_nil
      (Holds.mono leafP I.negP (fun _ hy => hy.1) hh), ?_⟩
    intro hx
    exact h n hx hh
  intro m hm hp
  exact (key m hp).2 hm

theorem dead_of_cand_nil {e : Expr N} (h : DeadX sys I [] e) : ¬ HoldsP sys I [] e :=
  fun hh => h (Holds.mono leafP I.negP (fun _ hy => ⟨hy, List.not_mem_nil⟩) hh)

/-! ### what the evaluation of a sub-problem must satisfy -/

/-- `X` covers the final visited set (a constraint only when a set is shared) -/
def Cover (vis' : Option (Vis N)) (X : List N) : Prop := ∀ V', vis' = some V' → ∀ m ∈ nodesJ V', m ∈ X

structure NodeSpec (nodeF : Option (Vis N) → N → List VOut × Option (Vis N)) : Prop where
  tru : ∀ vis n, .ok true false ∈ (nodeF vis n).1 → D sys I [] n
  fresh : ∀ n, .ok false false ∈ (nodeF none n).1 → ¬ P sys I [] n
  shared : ∀ V n, ∃ V', (nodeF (some V) n).2 = some V' ∧ SubVis V V' ∧
    (.ok false false ∈ (nodeF (some V) n).1 → ∀ X, (∀ m ∈ nodesJ V', m ∈ X) →
      DeadX sys I X (sys.rule n) ∧ ∀ m ∈ nodesJ V', m ∉ nodesJ V → DeadX sys I X (sys.rule m))

/-! ### the filter (`pull`) -/

def PullSpec (active : Bool) (raw : List (Item N)) (st : IterSt N) : Prop :=
    (∃ bad, (pull active raw st).2.2.acc = st.acc ++ bad ∧ ∀ s ∈ bad, s = [.ok false true]) ∧
    (st.lastErr = true → (pull active raw st).2.2.lastErr = true) ∧
    ((active = false ∨ st.vis = none) → (pull active raw st).2.2.vis = st.vis) ∧
    (active = true → ∀ V, st.vis = some V → ∃ V', (pull active raw st).2.2.vis = some V' ∧ SubVis V V' ∧
      (∀ m ∈ nodesJ V', m ∈ nodesJ V ∨ (pull active raw st).1 = some (some m)) ∧
      (∀ n, (pull active raw st).1 = some (some n) → n ∈ nodesJ V')) ∧
    (∀ it ∈ (pull active raw st).2.1, it ∈ raw) ∧
    (∀ c, (pull active raw st).1 = some c → ∃ it ∈ raw, it.cond = .tt ∧ it.child = c) ∧
    ((pull active raw st).1 = none → (pull active raw st).2.1 = []) ∧
    ((pull active raw st).2.2.acc = st.acc → (pull active raw st).2.2.lastErr = false →
      ∀ it ∈ raw, it ∈ (pull active raw st).2.1 ∨ ((pull active raw st).1 = some it.child ∧ it.cond = .tt) ∨ it.cond = .ff ∨
        (active = true ∧ ∃ V' n, (pull active raw st).2.2.vis = some V' ∧ it.child = some n ∧ n ∈ nodesJ V'))

theorem pull_spec (active : Bool) (raw : List (Item N)) (st : IterSt N) : PullSpec active raw st := by
  induction raw generalizing st with
  | nil =>
    unfold PullSpec
    refine ⟨⟨[], by simp [pull], by simp⟩, by simp [pull], by simp [pull], ?_, by simp [pull], by simp [pull],
      by simp [pull], by simp [pull]⟩
    intro _ V hV
    exact ⟨V, by simp [pull, hV], SubVis.refl V, fun m hm => Or.inl hm, by simp [pull]⟩
  | cons it rest ih =>
    -- three ways to continue with the rest, one way to stop
    have cont : ∀ (st1 : IterSt N),
        pull active (it :: rest) st = pull active rest st1 →
        (∃ b1, st1.acc = st.acc ++ b1 ∧ ∀ s ∈ b1, s = [VOut.ok false true]) →
        (st.lastErr = true → st1.lastErr = true) →
        ((active = false ∨ st.vis = none) → st1.vis = st.vis) →
        (active = true → ∀ V, st.vis = some V → ∃ V1, st1.vis = some V1 ∧ SubVis V V1 ∧ ∀ m ∈ nodesJ V1, m ∈ nodesJ V) →
        ((st1.acc = st.acc → st1.lastErr = false → it.cond = .ff ∨
          (active = true ∧ ∃ V1 n, st1.vis = some V1 ∧ it.child = some n ∧ n ∈ nodesJ V1))) →
        PullSpec active (it :: rest) st := by
      intro st1 heq hacc hle hvn hvs hit
      unfold PullSpec
      rw [heq]
      obtain ⟨⟨bad, hb1, hb2⟩, i2, i3, i4, i5, i6, i7, i8⟩ := ih st1
      obtain ⟨b1, hb3, hb4⟩ := hacc
      refine ⟨⟨b1 ++ bad, by rw [hb1, hb3, List.append_assoc], ?_⟩, fun h => i2 (hle h), ?_, ?_, ?_, ?_, i7, ?_⟩
      · intro s hs
        rcases List.mem_append.mp hs with h | h
        · exact hb4 s h
        · exact hb2 s h
      · intro h
        have h1 := hvn h
        rw [← h1]
        apply i3
        rcases h with h | h
        · exact Or.inl h
        · exact Or.inr (by rw [h1]; exact h)
      · intro ha V hV
        obtain ⟨V1, hV1, hs1, hn1⟩ := hvs ha V hV
        obtain ⟨V', hV', hs2, hn2, hn3⟩ := i4 ha V1 hV1
        refine ⟨V', hV', hs1.trans hs2, ?_, hn3⟩
        intro m hm
        rcases hn2 m hm with h | h
        · exact Or.inl (hn1 m h)
        · exact Or.inr h
      · intro x hx; exact List.mem_cons_of_mem _ (i5 x hx)
      · intro c hc
        obtain ⟨x, hx, h1, h2⟩ := i6 c hc
        exact ⟨x, List.mem_cons_of_mem _ hx, h1, h2⟩
      · intro hacc2 hle2 x hx
        -- no bad element was appended anywhere
        have hbad : b1 = [] ∧ bad = [] := by
          have hlen : (st.acc ++ (b1 ++ bad)).length = st.acc.length := by
            rw [← List.append_assoc, ← hb3, ← hb1, hacc2]
          simp only [List.length_append] at hlen
          exact ⟨List.eq_nil_of_length_eq_zero (by omega), List.eq_nil_of_length_eq_zero (by omega)⟩
        have hacc1 : st1.acc = st.acc := by rw [hb3, hbad.1]; simp
        have hacc3 : (pull active rest st1).2.2.acc = st1.acc := by rw [hb1, hbad.2]; simp
        have hle1 : st1.lastErr = false := by
          cases h : st1.lastErr with
          | false => rfl
          | true => rw [i2 h] at hle2; cases hle2
        rcases List.mem_cons.mp hx with rfl | hx
        · rcases hit hacc1 hle1 with h | ⟨ha, V1, n, hV1, hc, hn⟩
          · exact Or.inr (Or.inr (Or.inl h))
          · obtain ⟨V', hV', hs2, _, _⟩ := i4 ha V1 hV1
            exact Or.inr (Or.inr (Or.inr ⟨ha, V', n, hV', hc, nodesJ_mono hs2 hn⟩))
        · exact i8 hacc3 hle2 x hx
    -- now the definition: the condition filter first, then the visited filter
    have hstay : ∀ (st1 : IterSt N), st1.vis = st.vis →
        (active = true → ∀ V, st.vis = some V → ∃ V1, st1.vis = some V1 ∧ SubVis V V1 ∧ ∀ m ∈ nodesJ V1, m ∈ nodesJ V) := by
      intro st1 h1 _ V hV
      exact ⟨V, by rw [h1, hV], SubVis.refl V, fun _ hm => hm⟩
    cases hc : it.cond with
    | ff =>
      exact cont st (by simp [pull, hc]) ⟨[], by simp, by simp⟩ id (fun _ => rfl) (hstay st rfl)
        (fun _ _ => Or.inl hc)
    | err =>
      exact cont { st with lastErr := true } (by simp [pull, hc]) ⟨[], by simp, by simp⟩ (fun _ => rfl)
        (fun _ => rfl) (hstay _ rfl) (fun _ h => by simp at h)
    | errSw =>
      exact cont { st with lastErr := true } (by simp [pull, hc]) ⟨[], by simp, by simp⟩ (fun _ => rfl)
        (fun _ => rfl) (hstay _ rfl) (fun _ h => by simp at h)
    | tt =>
      cases hact : (if active then st.vis else none) with
      | none =>
        have hnv : active = false ∨ st.vis = none := by
          cases active with
          | false => exact Or.inl rfl
          | true => simp at hact; exact Or.inr hact
        have heq : pull active (it :: rest) st = (some it.child, rest, { st with onceValid := true }) := by
          simp [pull, hact, hc]
        unfold PullSpec
        rw [heq]
        refine ⟨⟨[], by simp, by simp⟩, id, fun _ => rfl, ?_, ?_, ?_, by simp, ?_⟩
        · intro ha V hV
          rcases hnv with h | h
          · rw [h] at ha; cases ha
          · rw [h] at hV; cases hV
        · intro x hx; exact List.mem_cons_of_mem _ hx
        · intro c hcc; simp at hcc; exact ⟨it, by simp, hc, hcc⟩
        · intro _ _ x hx
          rcases List.mem_cons.mp hx with rfl | hx
          · exact Or.inr (Or.inl ⟨rfl, hc⟩)
          · exact Or.inl hx
      | some V =>
        have hav : active = true ∧ st.vis = some V := by
          cases active with
          | false => simp at hact
          | true => simp at hact; exact ⟨rfl, hact⟩
        have hno : ¬ (active = false ∨ st.vis = none) := by
          rintro (h | h)
          · rw [h] at hav; cases hav.1
          · rw [h] at hav; cases hav.2
        cases hf : V.find? (fun e => e.1 = it.key) with
        | some e =>
          by_cases hbad : (!(e.2.2 && decide (it.child = some e.2.1))) = true
          · refine cont { st with acc := st.acc ++ [[.ok false true]] } (by simp [pull, hact, hf, hbad, hc])
              ⟨[[.ok false true]], rfl, by simp⟩ id (fun _ => rfl) ?_ ?_
            · intro _ V0 hV0; exact ⟨V0, hV0, SubVis.refl V0, fun _ hm => hm⟩
            · intro h; simp at h
          · refine cont st (by simp [pull, hact, hf, hbad, hc]) ⟨[], by simp, by simp⟩ id (fun _ => rfl) ?_ ?_
            · intro _ V0 hV0; exact ⟨V0, hV0, SubVis.refl V0, fun _ hm => hm⟩
            · intro _ _
              have hb2 : e.2.2 = true ∧ it.child = some e.2.1 := by simpa using hbad
              refine Or.inr ⟨hav.1, V, e.2.1, hav.2, hb2.2, ?_⟩
              have hm : e ∈ V := List.mem_of_find?_eq_some hf
              refine mem_nodesJ.mpr ⟨e.1, ?_⟩
              have : e = (e.1, e.2.1, true) := by
                rcases e with ⟨k, n, j⟩
                simp at hb2 ⊢
                exact hb2.1
              rw [← this]; exact hm
        | none =>
          -- the new visited set
          obtain ⟨V', hV'⟩ : ∃ V', V' = mark it V := ⟨_, rfl⟩
          have hsub : SubVis V V' := by
            subst hV'; unfold mark
            cases it.child with
            | none => exact SubVis.refl V
            | some n => exact fun x hx => List.mem_cons_of_mem _ hx
          have hnew : ∀ m ∈ nodesJ V', m ∈ nodesJ V ∨ (it.cond = .tt ∧ it.child = some m) := by
            intro m hm
            obtain ⟨k, hk⟩ := mem_nodesJ.mp hm
            subst hV'; unfold mark at hk
            cases hch : it.child with
            | none => rw [hch] at hk; exact Or.inl (mem_nodesJ.mpr ⟨k, hk⟩)
            | some n =>
              rw [hch] at hk
              rcases List.mem_cons.mp hk with h | h
              · simp at h; exact Or.inr ⟨h.2.2, by rw [h.2.1]⟩
              · exact Or.inl (mem_nodesJ.mpr ⟨k, h⟩)
          have heq : pull active (it :: rest) st = (some it.child, rest, { st with vis := some V', onceValid := true }) := by
            simp [pull, hact, hf, hc, hV']
          unfold PullSpec
          rw [heq]
          refine ⟨⟨[], by simp, by simp⟩, id, fun h => absurd h hno, ?_, ?_, ?_, by simp, ?_⟩
          · intro _ V0 hV0
            rw [hav.2] at hV0; cases hV0
            refine ⟨V', rfl, hsub, ?_, ?_⟩
            · intro m hm
              rcases hnew m hm with h | ⟨_, h⟩
              · exact Or.inl h
              · exact Or.inr (by rw [h])
            · intro n hn
              have hn' : it.child = some n := by simpa using hn
              refine mem_nodesJ.mpr ⟨it.key, ?_⟩
              subst hV'; unfold mark
              rw [hn']
              simp [hc]
          · intro x hx; exact List.mem_cons_of_mem _ hx
          · intro c hcc; simp at hcc; exact ⟨it, by simp, hc, hcc⟩
          · intro _ _ x hx
            rcases List.mem_cons.mp hx with rfl | hx
            · exact Or.inr (Or.inl ⟨rfl, hc⟩)
            · exact Or.inl hx

/-! ### the producer/consumer loop -/

section loop
variable (nodeF : Option (Vis N) → N → List VOut × Option (Vis N)) (active : Bool) (policy : Nat → Nat → Bool)

theorem iterLoop_succ (steps : Nat) (raw : List (Item N)) (pending : List (Option N)) (st : IterSt N) :
    iterLoop nodeF active policy (steps + 1) raw pending st =
      (match iterStep nodeF active policy raw pending st with
       | none => st
       | some (raw', pending', st') => iterLoop nodeF active policy steps raw' pending' st') := rfl

/-- the moves of the loop -/
inductive StepKind (raw : List (Item N)) (pending : List (Option N)) (st : IterSt N) :
    Option (List (Item N) × List (Option N) × IterSt N) → Prop
  | pullSome (c : Option N) (raw' : List (Item N)) (st' : IterSt N) :
      pull active raw st = (some c, raw', st') → StepKind raw pending st (some (raw', pending ++ [c], st'))
  | pullNone (x : List (Item N)) (st' : IterSt N) :
      pull active raw st = (none, x, st') → StepKind raw pending st (some ([], pending, st'))
  | done : pending = [] → raw = [] → StepKind raw pending st none
  | graphErr (p' : List (Option N)) : pending = none :: p' →
      StepKind raw pending st (some (raw, p', { st with acc := st.acc ++ [[.err .other]] }))
  | popShared (n : N) (p' : List (Option N)) : active = true → pending = some n :: p' →
      StepKind raw pending st (some (raw, p', { st with vis := (nodeF st.vis n).2, acc := st.acc ++ [(nodeF st.vis n).1] }))
  | popFresh (n : N) (p' : List (Option N)) : active = false → pending = some n :: p' →
      StepKind raw pending st (some (raw, p', { st with acc := st.acc ++ [(nodeF none n).1] }))

theorem iterStep_kind (raw : List (Item N)) (pending : List (Option N)) (st : IterSt N) :
    StepKind nodeF active raw pending st (iterStep nodeF active policy raw pending st) := by
  unfold iterStep
  split
  · rcases hp : pull active raw st with ⟨res, raw', st'⟩
    cases res with
    | some c => exact .pullSome c raw' st' hp
    | none => exact .pullNone raw' st' hp
  · rename_i hc
    cases pending with
    | nil =>
      refine .done rfl ?_
      cases raw with
      | nil => rfl
      | cons a l => simp at hc
    | cons c p' =>
      cases c with
      | none => exact .graphErr p' rfl
      | some n =>
        cases active with
        | true => exact .popShared n p' rfl rfl
        | false => exact .popFresh n p' rfl rfl

/-- what survives every step: the accumulated results, a remembered error, the visited set -/
def MonoRel (st st' : IterSt N) : Prop :=
  (∃ more, st'.acc = st.acc ++ more) ∧ (st.lastErr = true → st'.lastErr = true) ∧
  (active = false → st'.vis = st.vis) ∧
  (active = true → ∀ V, st.vis = some V → ∃ V', st'.vis = some V' ∧ SubVis V V')

theorem MonoRel.refl (st : IterSt N) : MonoRel active st st :=
  ⟨⟨[], by simp⟩, id, fun _ => rfl, fun _ V hV => ⟨V, hV, SubVis.refl V⟩⟩

theorem MonoRel.trans {a b c : IterSt N} (h1 : MonoRel active a b) (h2 : MonoRel active b c) : MonoRel active a c := by
  obtain ⟨⟨m1, e1⟩, l1, v1, s1⟩ := h1
  obtain ⟨⟨m2, e2⟩, l2, v2, s2⟩ := h2
  refine ⟨⟨m1 ++ m2, by rw [e2, e1, List.append_assoc]⟩, fun h => l2 (l1 h), fun h => by rw [v2 h, v1 h], ?_⟩
  intro ha V hV
  obtain ⟨V1, hV1, hs1⟩ := s1 ha V hV
  obtain ⟨V2, hV2, hs2⟩ := s2 ha V1 hV1
  exact ⟨V2, hV2, hs1.trans hs2⟩

theorem pull_mono (raw : List (Item N)) (st : IterSt N) : MonoRel active st (pull active raw st).2.2 := by
  obtain ⟨⟨bad, hb, _⟩, p2, p3, p4, _⟩ := pull_spec active raw st
  refine ⟨⟨bad, hb⟩, p2, fun h => p3 (Or.inl h), ?_⟩
  intro ha V hV
  obtain ⟨V', hV', hs, _⟩ := p4 ha V hV
  exact ⟨V', hV', hs⟩

theorem step_mono (hsh : ∀ V n, ∃ V', (nodeF (some V) n).2 = some V' ∧ SubVis V V')
    {raw : List (Item N)} {pending : List (Option N)} {st : IterSt N}
    {raw' : List (Item N)} {pending' : List (Option N)} {st' : IterSt N}
    (h : iterStep nodeF active policy raw pending st = some (raw', pending', st')) : MonoRel active st st' := by
  have hk := iterStep_kind nodeF active policy raw pending st
  rw [h] at hk
  cases hk with
  | pullSome c _ _ hp => have := pull_mono active raw st; rw [hp] at this; exact this
  | pullNone x _ hp => have := pull_mono active raw st; rw [hp] at this; exact this
  | graphErr p' _ => exact ⟨⟨_, rfl⟩, id, fun _ => rfl, fun _ V hV => ⟨V, hV, SubVis.refl V⟩⟩
  | popShared n p' ha _ =>
    subst ha
    refine ⟨⟨_, rfl⟩, id, by intro h; exact absurd h (by decide), ?_⟩
    intro _ V hV
    obtain ⟨V1, hV1, hs1⟩ := hsh V n
    exact ⟨V1, by simp [hV, hV1], hs1⟩
  | popFresh n p' ha _ => subst ha; exact ⟨⟨_, rfl⟩, id, fun _ => rfl, by intro h; exact absurd h (by decide)⟩

theorem iterLoop_mono (hsh : ∀ V n, ∃ V', (nodeF (some V) n).2 = some V' ∧ SubVis V V') :
    ∀ (steps : Nat) (raw : List (Item N)) (pending : List (Option N)) (st : IterSt N),
      MonoRel active st (iterLoop nodeF active policy steps raw pending st) := by
  intro steps
  induction steps with
  | zero =>
    intro raw pending st
    show MonoRel active st (if raw.isEmpty && pending.isEmpty then st else { st with acc := st.acc ++ [[.err .abort]] })
    split
    · exact MonoRel.refl active st
    · exact ⟨⟨_, rfl⟩, id, fun _ => rfl, fun _ V hV => ⟨V, hV, SubVis.refl V⟩⟩
  | succ steps ih =>
    intro raw pending st
    rw [iterLoop_succ]
    cases hs : iterStep nodeF active policy raw pending st with
    | none => exact MonoRel.refl active st
    | some r =>
      obtain ⟨raw', pending', st'⟩ := r
      exact (step_mono nodeF active policy hsh hs).trans active (ih raw' pending' st')

/-! #### provenance of `true` -/

theorem NodeSpec.hsh {nodeF : Option (Vis N) → N → List VOut × Option (Vis N)} (hN : NodeSpec sys I nodeF) :
    ∀ V n, ∃ V', (nodeF (some V) n).2 = some V' ∧ SubVis V V' := by
  intro V n
  obtain ⟨V', h1, h2, _⟩ := hN.shared V n
  exact ⟨V', h1, h2⟩

theorem iterLoop_true (hN : NodeSpec sys I nodeF) (Src : N → Prop) :
    ∀ (steps : Nat) (raw : List (Item N)) (pending : List (Option N)) (st : IterSt N),
      (∀ it ∈ raw, it.cond = .tt → ∀ n, it.child = some n → Src n) → (∀ n, some n ∈ pending → Src n) →
      ∀ s ∈ (iterLoop nodeF active policy steps raw pending st).acc, VOut.ok true false ∈ s →
        s ∈ st.acc ∨ ∃ n, Src n ∧ D sys I [] n := by
  intro steps
  induction steps with
  | zero =>
    intro raw pending st _ _ s hs ht
    have hs' : s ∈ (if raw.isEmpty && pending.isEmpty then st else { st with acc := st.acc ++ [[VOut.err VErr.abort]] }).acc := hs
    split at hs'
    · exact Or.inl hs'
    · rcases List.mem_append.mp hs' with h | h
      · exact Or.inl h
      · simp at h; subst h; simp at ht
  | succ steps ih =>
    intro raw pending st hraw hpend s hs ht
    have hk := iterStep_kind nodeF active policy raw pending st
    rw [iterLoop_succ] at hs
    cases hstep : iterStep nodeF active policy raw pending st with
    | none => rw [hstep] at hs; exact Or.inl hs
    | some r =>
      obtain ⟨raw', pending', st'⟩ := r
      rw [hstep] at hs hk
      simp only at hs
      -- results appended by a pull are tainted `false`s only
      have pullCase : ∀ (c : Option (Option N)) (x : List (Item N)), pull active raw st = (c, x, st') →
          (∀ it ∈ raw', it.cond = .tt → ∀ n, it.child = some n → Src n) → (∀ n, some n ∈ pending' → Src n) →
          s ∈ st.acc ∨ ∃ n, Src n ∧ D sys I [] n := by
        intro c x hp h1 h2
        rcases ih raw' pending' st' h1 h2 s hs ht with h | h
        · obtain ⟨⟨bad, hb, hbad⟩, _⟩ := pull_spec active raw st
          rw [hp] at hb
          simp only at hb
          rw [hb] at h
          rcases List.mem_append.mp h with h | h
          · exact Or.inl h
          · rw [hbad s h] at ht; simp at ht
        · exact Or.inr h
      cases hk with
      | pullSome c _ _ hp =>
        obtain ⟨_, _, _, _, p5, p6, _⟩ := pull_spec active raw st
        rw [hp] at p5 p6
        simp only at p5 p6
        refine pullCase (some c) raw' hp (fun it hit => hraw it (p5 it hit)) ?_
        intro n hn
        rcases List.mem_append.mp hn with h | h
        · exact hpend n h
        · simp at h
          obtain ⟨it, hit, hc, hch⟩ := p6 c rfl
          exact hraw it hit hc n (by rw [hch, h])
      | pullNone x _ hp =>
        exact pullCase none x hp (fun it hit => by cases hit) hpend
      | graphErr _ hp =>
        rcases ih raw pending' _ hraw (fun n hn => hpend n (by rw [hp]; exact List.mem_cons_of_mem _ hn)) s hs ht with h | h
        · rcases List.mem_append.mp h with h | h
          · exact Or.inl h
          · simp at h; subst h; simp at ht
        · exact Or.inr h
      | popShared n _ _ hp =>
        rcases ih raw pending' _ hraw (fun m hm => hpend m (by rw [hp]; exact List.mem_cons_of_mem _ hm)) s hs ht with h | h
        · rcases List.mem_append.mp h with h | h
          · exact Or.inl h
          · simp at h; subst h
            exact Or.inr ⟨n, hpend n (by rw [hp]; simp), hN.tru _ n ht⟩
        · exact Or.inr h
      | popFresh n _ _ hp =>
        rcases ih raw pending' _ hraw (fun m hm => hpend m (by rw [hp]; exact List.mem_cons_of_mem _ hm)) s hs ht with h | h
        · rcases List.mem_append.mp h with h | h
          · exact Or.inl h
          · simp at h; subst h
            exact Or.inr ⟨n, hpend n (by rw [hp]; simp), hN.tru _ n ht⟩
        · exact Or.inr h

/-! #### an untainted `false` -/

def Good (st : IterSt N) : Prop := st.lastErr = false ∧ ∀ s ∈ st.acc, VOut.ok false false ∈ s

theorem Good.of_mono {st st' : IterSt N} (h : MonoRel active st st') (hg : Good st') : Good st := by
  obtain ⟨⟨more, hm⟩, hl, _⟩ := h
  refine ⟨?_, fun s hs => hg.2 s (by rw [hm]; exact List.mem_append_left _ hs)⟩
  cases hle : st.lastErr with
  | false => rfl
  | true => have h1 := hg.1; rw [hl hle] at h1; cases h1

theorem dead_item_ff {X : List N} {it : Item N} (h : it.cond = .ff) : DeadX sys I X (itemExpr it) := by
  intro hh
  unfold itemExpr at hh
  cases hh with
  | and hall =>
    have := hall (.lit it.cond) List.mem_cons_self
    rw [h] at this
    cases this with
    | lit hv => exact hv rfl

theorem dead_item_child {X : List N} {it : Item N} {n : N} (h : it.child = some n)
    (hd : DeadX sys I X (.node true n)) : DeadX sys I X (itemExpr it) := by
  intro hh
  unfold itemExpr at hh
  cases hh with
  | and hall =>
    have := hall (match it.child with | some n => .node true n | none => .lit .err)
      (List.mem_cons_of_mem _ (List.mem_cons_self))
    rw [h] at this
    exact hd this

theorem iterLoop_false (hN : NodeSpec sys I nodeF) :
    ∀ (steps : Nat) (raw : List (Item N)) (pending : List (Option N)) (st : IterSt N),
      Good (iterLoop nodeF active policy steps raw pending st) →
      (active = true → ∃ V, st.vis = some V) →
      (active = true → ∀ V, st.vis = some V → ∀ n, some n ∈ pending → n ∈ nodesJ V) →
      ∀ X, (active = true → ∀ W, (iterLoop nodeF active policy steps raw pending st).vis = some W →
            ∀ m ∈ nodesJ W, m ∈ X) →
        (∀ it ∈ raw, DeadX sys I X (itemExpr it)) ∧
        (∀ n, some n ∈ pending → DeadX sys I X (.node true n)) ∧
        none ∉ pending ∧
        (active = true → ∀ V, st.vis = some V → ∀ W, (iterLoop nodeF active policy steps raw pending st).vis = some W →
          ∀ m ∈ nodesJ W, (m ∉ nodesJ V ∨ some m ∈ pending) → DeadX sys I X (sys.rule m)) := by
  intro steps
  induction steps with
  | zero =>
    intro raw pending st hg _ _ X _
    have hfin : iterLoop nodeF active policy 0 raw pending st =
        (if raw.isEmpty && pending.isEmpty then st else { st with acc := st.acc ++ [[VOut.err VErr.abort]] }) := rfl
    rw [hfin] at hg ⊢
    split at hg
    · rename_i he
      have hr : raw = [] := by cases raw with | nil => rfl | cons a l => simp at he
      have hp : pending = [] := by cases pending with | nil => rfl | cons a l => simp at he
      subst hr; subst hp
      refine ⟨fun _ h => absurd h List.not_mem_nil, fun _ h => absurd h List.not_mem_nil, List.not_mem_nil, ?_⟩
      intro _ V hV W hW m hm hor
      simp only [List.isEmpty_nil, Bool.and_self, if_true] at hW
      rw [hV] at hW; cases hW
      rcases hor with h | h
      · exact absurd hm h
      · cases h
    · have := hg.2 [VOut.err VErr.abort] (by simp)
      simp at this
  | succ steps ih =>
    intro raw pending st hg hsome hmarked X hcov
    have hk := iterStep_kind nodeF active policy raw pending st
    rw [iterLoop_succ] at hg hcov ⊢
    cases hstep : iterStep nodeF active policy raw pending st with
    | none =>
      rw [hstep] at hk
      cases hk with
      | done hp hr =>
        subst hp; subst hr
        refine ⟨fun _ h => absurd h List.not_mem_nil, fun _ h => absurd h List.not_mem_nil, List.not_mem_nil, ?_⟩
        intro _ V hV W hW m hm hor
        simp only at hW
        rw [hV] at hW; cases hW
        rcases hor with h | h
        · exact absurd hm h
        · cases h
    | some r =>
      obtain ⟨raw', pending', st'⟩ := r
      rw [hstep] at hk hg hcov
      simp only at hg hcov ⊢
      have hmono := iterLoop_mono nodeF active policy (hN.hsh sys I) steps raw' pending' st'
      have hg' : Good st' := Good.of_mono active hmono hg
      -- the two pull moves share everything but the new pending child
      have pullCase : ∀ (c : Option (Option N)) (x : List (Item N)), pull active raw st = (c, x, st') →
          pending' = (match c with | some ch => pending ++ [ch] | none => pending) →
          (c = none → raw' = []) → (c ≠ none → raw' = x) →
          (∀ it ∈ raw, DeadX sys I X (itemExpr it)) ∧
          (∀ n, some n ∈ pending → DeadX sys I X (.node true n)) ∧
          none ∉ pending ∧
          (active = true → ∀ V, st.vis = some V → ∀ W, (iterLoop nodeF active policy steps raw' pending' st').vis = some W →
            ∀ m ∈ nodesJ W, (m ∉ nodesJ V ∨ some m ∈ pending) → DeadX sys I X (sys.rule m)) := by
        intro c x hp hpend hrawN hrawS
        obtain ⟨⟨bad, hb, hbad⟩, _, _, p4, _, _, p7, p8⟩ := pull_spec active raw st
        rw [hp] at hb p4 p7 p8
        simp only at hb p4 p7 p8
        -- nothing bad was appended
        have hbad0 : st'.acc = st.acc := by
          cases bad with
          | nil => simpa using hb
          | cons b bs =>
            have hb1 : b = [VOut.ok false true] := hbad b (by simp)
            have := hg'.2 b (by rw [hb]; simp)
            rw [hb1] at this; simp at this
        -- preconditions of the rest of the loop
        have hsome' : active = true → ∃ V, st'.vis = some V := by
          intro ha
          obtain ⟨V, hV⟩ := hsome ha
          obtain ⟨V1, hV1, _⟩ := p4 ha V hV
          exact ⟨V1, hV1⟩
        have hmarked' : active = true → ∀ V, st'.vis = some V → ∀ n, some n ∈ pending' → n ∈ nodesJ V := by
          intro ha V1 hV1 n hn
          obtain ⟨V, hV⟩ := hsome ha
          obtain ⟨V2, hV2, hs1, _, hnew⟩ := p4 ha V hV
          rw [hV1] at hV2; cases hV2
          rw [hpend] at hn
          cases c with
          | none => exact nodesJ_mono hs1 (hmarked ha V hV n hn)
          | some ch =>
            rcases List.mem_append.mp hn with h | h
            · exact nodesJ_mono hs1 (hmarked ha V hV n h)
            · simp at h; exact hnew n (by rw [h])
        obtain ⟨i1, i2, i3, i4⟩ := ih raw' pending' st' hg hsome' hmarked' X hcov
        have hpsub : ∀ y, y ∈ pending → y ∈ pending' := by
          intro y hy; rw [hpend]
          cases c with
          | none => exact hy
          | some ch => exact List.mem_append_left _ hy
        refine ⟨?_, fun n hn => i2 n (hpsub _ hn), fun h => i3 (hpsub _ h), ?_⟩
        · intro it hit
          rcases p8 hbad0 hg'.1 it hit with h | ⟨h1, h2⟩ | h | ⟨ha, V1, n, hV1, hch, hn⟩
          · cases c with
            | none => rw [p7 rfl] at h; cases h
            | some ch => exact i1 it (by rw [hrawS (by simp)]; exact h)
          · cases c with
            | none => cases h1
            | some ch =>
              have hch : ch = it.child := by simpa using h1
              cases hcc : it.child with
              | none =>
                exfalso; apply i3; rw [hpend]; simp [hch, hcc]
              | some n =>
                exact dead_item_child sys I hcc (i2 n (by rw [hpend]; simp [hch, hcc]))
          · exact dead_item_ff sys I h
          · obtain ⟨_, _, _, hs4⟩ := hmono
            obtain ⟨W, hW, hs⟩ := hs4 ha V1 hV1
            exact dead_item_child sys I hch (DeadX.node_mem sys I (hcov ha W hW n (nodesJ_mono hs hn)))
        · intro ha V hV W hW m hm hor
          obtain ⟨V1, hV1, hs1, hnew1, _⟩ := p4 ha V hV
          apply i4 ha V1 hV1 W hW m hm
          rcases hor with h | h
          · by_cases hm1 : m ∈ nodesJ V1
            · rcases hnew1 m hm1 with h2 | h2
              · exact absurd h2 h
              · right
                rw [hpend]
                cases c with
                | none => cases h2
                | some ch =>
                  have : ch = some m := by simpa using h2
                  simp [this]
            · exact Or.inl hm1
          · exact Or.inr (hpsub _ h)
      cases hk with
      | pullSome c _ _ hp => exact pullCase (some c) raw' hp rfl (fun h => by cases h) (fun _ => rfl)
      | pullNone x _ hp => exact pullCase none x hp rfl (fun _ => rfl) (fun h => absurd rfl h)
      | graphErr _ hp =>
        exfalso
        have := hg'.2 [VOut.err VErr.other] (by simp)
        simp at this
      | popShared n _ ha hp =>
        obtain ⟨V, hV⟩ := hsome ha
        obtain ⟨V1, hV1, hs1, hF⟩ := hN.shared V n
        rw [hV] at hg' hmono hg hcov ⊢
        have hr : VOut.ok false false ∈ (nodeF (some V) n).1 := hg'.2 _ (by simp)
        have hsome' : active = true → ∃ V0, ({ st with vis := (nodeF (some V) n).2, acc := st.acc ++ [(nodeF (some V) n).1] } : IterSt N).vis = some V0 :=
          fun _ => ⟨V1, hV1⟩
        have hmarked' : active = true → ∀ V0, ({ st with vis := (nodeF (some V) n).2, acc := st.acc ++ [(nodeF (some V) n).1] } : IterSt N).vis = some V0 →
            ∀ k, some k ∈ pending' → k ∈ nodesJ V0 := by
          intro _ V0 hV0 k hk
          have : V0 = V1 := by
            have h1 : (nodeF (some V) n).2 = some V0 := hV0
            rw [hV1] at h1; cases h1; rfl
          subst this
          exact nodesJ_mono hs1 (hmarked ha V hV k (by rw [hp]; exact List.mem_cons_of_mem _ hk))
        obtain ⟨i1, i2, i3, i4⟩ := ih raw pending' _ hg hsome' hmarked' X hcov
        obtain ⟨_, _, _, hs4⟩ := hmono
        obtain ⟨W, hW, hs2⟩ := hs4 ha V1 hV1
        have hX1 : ∀ m ∈ nodesJ V1, m ∈ X := fun m hm => hcov ha W hW m (nodesJ_mono hs2 hm)
        obtain ⟨hdn, hdm⟩ := hF hr X hX1
        have hnV : n ∈ nodesJ V := hmarked ha V hV n (by rw [hp]; simp)
        refine ⟨i1, ?_, ?_, ?_⟩
        · intro k hk
          rw [hp] at hk
          rcases List.mem_cons.mp hk with h | h
          · cases h
            exact DeadX.node_mem sys I (hX1 n (nodesJ_mono hs1 hnV))
          · exact i2 k h
        · rw [hp]; intro h
          rcases List.mem_cons.mp h with h | h
          · cases h
          · exact i3 h
        · intro _ V0 hV0 W2 hW2 m hm hor
          have hVV : V0 = V := by cases hV0; rfl
          subst hVV
          have hWW : W2 = W := by rw [hW] at hW2; cases hW2; rfl
          subst hWW
          rw [hp] at hor
          by_cases hmn : m = n
          · subst hmn; exact hdn
          · by_cases hm1 : m ∈ nodesJ V1
            · rcases hor with h | h
              · exact hdm m hm1 h
              · rcases List.mem_cons.mp h with h | h
                · cases h; exact absurd rfl hmn
                · exact i4 ha V1 hV1 W2 hW m hm (Or.inr h)
            · exact i4 ha V1 hV1 W2 hW m hm (Or.inl hm1)
      | popFresh n _ ha hp =>
        have hr : VOut.ok false false ∈ (nodeF none n).1 := hg'.2 _ (by simp)
        have hnp : ¬ P sys I [] n := hN.fresh n hr
        have hcontra : ∀ {α : Prop}, active = true → α := fun h => by rw [ha] at h; cases h
        obtain ⟨i1, i2, i3, _⟩ := ih raw pending' _ hg (fun h => hcontra h) (fun h => hcontra h) X hcov
        refine ⟨i1, ?_, ?_, fun h => hcontra h⟩
        · intro k hk
          rw [hp] at hk
          rcases List.mem_cons.mp hk with h | h
          · cases h
            intro hh
            cases hh with
            | node hn => exact hnp hn.1
          · exact i2 k h
        · rw [hp]; intro h
          rcases List.mem_cons.mp h with h | h
          · cases h
          · exact i3 h

end loop

/-! ### the evaluator -/

section main
variable (rule : Bool → N → VExpr N) (seed : N → Option String) (look : Nat → Nat → Bool)

/-- the closure `node` of `evalG` at a given fuel -/
def nodeG (fuel : Nat) : Option (Vis N) → N → List VOut × Option (Vis N) := fun vis n =>
  match vis with
  | some V => evalG rule seed look fuel (some V) (rule false n)
  | none => evalG rule seed look fuel ((seed n).map (fun k => [(k, n, true)])) (rule true n)

theorem evalG_zero (vis : Option (Vis N)) (e : VExpr N) : evalG rule seed look 0 vis e = ([.err .abort], vis) := rfl
theorem evalG_lit (fuel : Nat) (vis : Option (Vis N)) (v : Leaf) :
    evalG rule seed look (fuel + 1) vis (.lit v) = ([leafOut v], vis) := rfl
theorem evalG_fail (fuel : Nat) (vis : Option (Vis N)) (k : VErr) :
    evalG rule seed look (fuel + 1) vis (.fail k) = ([.err k], vis) := rfl
theorem evalG_sub (fuel : Nat) (vis : Option (Vis N)) (share : Bool) (n : N) :
    evalG rule seed look (fuel + 1) vis (.sub share n) =
      (match (if share then vis else none) with
       | some V => nodeG rule seed look fuel (some (("", n, true) :: V)) n
       | none => ((nodeG rule seed look fuel none n).1, vis)) := rfl
theorem evalG_gate (fuel : Nat) (vis : Option (Vis N)) (v : Leaf) (e : VExpr N) :
    evalG rule seed look (fuel + 1) vis (.gate v e) =
      (match v with
       | .tt => ([.ok true false], vis)
       | .ff => evalG rule seed look fuel vis e
       | _ => ([.err .cond], vis)) := rfl
theorem evalG_or (fuel : Nat) (vis : Option (Vis N)) (es : List (VExpr N)) :
    evalG rule seed look (fuel + 1) vis (.or es) =
      (unionSet (es.foldl (fun (acc : List (List VOut) × Option (Vis N)) e =>
          (acc.1 ++ [(evalG rule seed look fuel acc.2 e).1], (evalG rule seed look fuel acc.2 e).2)) ([], vis)).1,
       (es.foldl (fun (acc : List (List VOut) × Option (Vis N)) e =>
          (acc.1 ++ [(evalG rule seed look fuel acc.2 e).1], (evalG rule seed look fuel acc.2 e).2)) ([], vis)).2) := rfl
theorem evalG_or2 (fuel : Nat) (vis : Option (Vis N)) (a b : VExpr N) :
    evalG rule seed look (fuel + 1) vis (.or2 a b) =
      (union2Set (evalG rule seed look fuel vis a).1 (evalG rule seed look fuel (evalG rule seed look fuel vis a).2 b).1,
       (evalG rule seed look fuel (evalG rule seed look fuel vis a).2 b).2) := rfl
theorem evalG_and (fuel : Nat) (vis : Option (Vis N)) (es : List (VExpr N)) :
    evalG rule seed look (fuel + 1) vis (.and es) =
      (interSet (es.map (fun e => (evalG rule seed look fuel none e).1)), vis) := rfl
theorem evalG_diff (fuel : Nat) (vis : Option (Vis N)) (b s : VExpr N) :
    evalG rule seed look (fuel + 1) vis (.diff b s) =
      (exclSet (evalG rule seed look fuel none b).1 (some (evalG rule seed look fuel none s).1), vis) := rfl
theorem evalG_diff1 (fuel : Nat) (vis : Option (Vis N)) (b : VExpr N) :
    evalG rule seed look (fuel + 1) vis (.diff1 b) = (exclSet (evalG rule seed look fuel none b).1 none, vis) := rfl
theorem evalG_iter (fuel : Nat) (vis : Option (Vis N)) (share : Bool) (items : List (Item N)) :
    evalG rule seed look (fuel + 1) vis (.iter share items) =
      (unionSet ((iterLoop (nodeG rule seed look fuel) (share && vis.isSome) look (2 * items.length + 2) items [] { vis := vis }).acc ++
          iterTail (iterLoop (nodeG rule seed look fuel) (share && vis.isSome) look (2 * items.length + 2) items [] { vis := vis })),
       if (share && vis.isSome) = true then
         (iterLoop (nodeG rule seed look fuel) (share && vis.isSome) look (2 * items.length + 2) items [] { vis := vis }).vis
       else vis) := rfl

/-- what an evaluation claims -/
structure Spec (vis : Option (Vis N)) (e : Expr N) (r : List VOut × Option (Vis N)) : Prop where
  tru : VOut.ok true false ∈ r.1 → HoldsD sys I [] e
  fresh : vis = none → r.2 = none ∧ (VOut.ok false false ∈ r.1 → ¬ HoldsP sys I [] e)
  shared : ∀ V, vis = some V → ∃ W, r.2 = some W ∧ SubVis V W ∧
    (VOut.ok false false ∈ r.1 → ∀ X, (∀ m ∈ nodesJ W, m ∈ X) →
      DeadX sys I X e ∧ ∀ m ∈ nodesJ W, m ∉ nodesJ V → DeadX sys I X (sys.rule m))

theorem dead_or {X : List N} {es : List (Expr N)} (h : ∀ e ∈ es, DeadX sys I X e) : DeadX sys I X (.or es) := by
  intro hh
  cases hh with
  | or hm he => exact h _ hm he

theorem dead_and_of_mem {X : List N} {es : List (Expr N)} {e : Expr N} (hm : e ∈ es) (h : DeadX sys I X e) :
    DeadX sys I X (.and es) := by
  intro hh
  cases hh with
  | and hall => exact h (hall e hm)

theorem nodesJ_cons_true (k : String) (n : N) (V : Vis N) (m : N) :
    m ∈ nodesJ ((k, n, true) :: V) ↔ m = n ∨ m ∈ nodesJ V := by
  rw [mem_nodesJ, mem_nodesJ]
  constructor
  · rintro ⟨k', h⟩
    rcases List.mem_cons.mp h with h | h
    · simp at h; exact Or.inl h.2
    · exact Or.inr ⟨k', h⟩
  · rintro (h | ⟨k', h⟩)
    · subst h; exact ⟨k, by simp⟩
    · exact ⟨k', List.mem_cons_of_mem _ h⟩

/-- a claim made without a shared set is in particular a claim under any shared set that is left untouched -/
theorem spec_of_fresh {vis : Option (Vis N)} {e : Expr N} {outs : List VOut}
    (ht : VOut.ok true false ∈ outs → HoldsD sys I [] e) (hf : VOut.ok false false ∈ outs → ¬ HoldsP sys I [] e) :
    Spec sys I vis e (outs, vis) := by
  refine ⟨ht, fun h => ⟨h, hf⟩, ?_⟩
  intro V hV
  refine ⟨V, hV, SubVis.refl V, ?_⟩
  intro hF X _
  exact ⟨DeadX.of_global sys I (hf hF), fun m hm hn => absurd hm hn⟩

theorem nodeG_spec (hrule : ∀ b n, toExpr (rule b n) = sys.rule n) (fuel : Nat)
    (ih : ∀ vis e, Spec sys I vis (toExpr e) (evalG rule seed look fuel vis e)) :
    NodeSpec sys I (nodeG rule seed look fuel) := by
  refine ⟨?_, ?_, ?_⟩
  · intro vis n ht
    have key : HoldsD sys I [] (sys.rule n) := by
      cases vis with
      | some V => have := (ih (some V) (rule false n)).tru ht; rwa [hrule] at this
      | none => have := (ih _ (rule true n)).tru ht; rwa [hrule] at this
    exact lfp_closed sys leafD I.negD [] n List.not_mem_nil key
  · intro n hF
    show ¬ P sys I [] n
    have hF' : VOut.ok false false ∈ (evalG rule seed look fuel ((seed n).map (fun k => [(k, n, true)])) (rule true n)).1 := hF
    cases hs : seed n with
    | none =>
      rw [hs] at hF'
      have := ((ih none (rule true n)).fresh rfl).2 hF'
      rw [hrule] at this
      exact fun hp => this (lfp_unfold sys leafP I.negP [] n hp).2
    | some k =>
      rw [hs] at hF'
      obtain ⟨W, _, hsub, hcl⟩ := (ih (some [(k, n, true)]) (rule true n)).shared _ rfl
      obtain ⟨h1, h2⟩ := hcl hF' (nodesJ W) (fun _ h => h)
      rw [hrule] at h1
      have hn : n ∈ nodesJ W := nodesJ_mono hsub (mem_nodesJ.mpr ⟨k, by simp⟩)
      refine closure sys I (nodesJ W) ?_ n hn
      intro m hm
      by_cases hmn : m = n
      · subst hmn; exact h1
      · apply h2 m hm
        intro hm0
        rw [nodesJ_cons_true] at hm0
        rcases hm0 with h | h
        · exact hmn h
        · simp [nodesJ] at h
  · intro V n
    obtain ⟨W, hW, hsub, hcl⟩ := (ih (some V) (rule false n)).shared V rfl
    refine ⟨W, hW, hsub, ?_⟩
    intro hF X hX
    have := hcl hF X hX
    rw [hrule] at this
    exact this

/-- the sequential union of `ResolveUnionEdges` -/
theorem orFold_spec (fuel : Nat)
    (ih : ∀ vis e, Spec sys I vis (toExpr e) (evalG rule seed look fuel vis e)) :
    ∀ (es : List (VExpr N)) (acc : List (List VOut)) (vis : Option (Vis N)),
      ∃ outs, (es.foldl (fun (acc : List (List VOut) × Option (Vis N)) e =>
          (acc.1 ++ [(evalG rule seed look fuel acc.2 e).1], (evalG rule seed look fuel acc.2 e).2)) (acc, vis)).1 = acc ++ outs ∧
        ((∃ c ∈ outs, VOut.ok true false ∈ c) → ∃ e ∈ es, HoldsD sys I [] (toExpr e)) ∧
        (vis = none → (es.foldl (fun (acc : List (List VOut) × Option (Vis N)) e =>
          (acc.1 ++ [(evalG rule seed look fuel acc.2 e).1], (evalG rule seed look fuel acc.2 e).2)) (acc, vis)).2 = none ∧
          ((∀ c ∈ outs, VOut.ok false false ∈ c) → ∀ e ∈ es, ¬ HoldsP sys I [] (toExpr e))) ∧
        (∀ V, vis = some V → ∃ W, (es.foldl (fun (acc : List (List VOut) × Option (Vis N)) e =>
          (acc.1 ++ [(evalG rule seed look fuel acc.2 e).1], (evalG rule seed look fuel acc.2 e).2)) (acc, vis)).2 = some W ∧ SubVis V W ∧
          ((∀ c ∈ outs, VOut.ok false false ∈ c) → ∀ X, (∀ m ∈ nodesJ W, m ∈ X) →
            (∀ e ∈ es, DeadX sys I X (toExpr e)) ∧ ∀ m ∈ nodesJ W, m ∉ nodesJ V → DeadX sys I X (sys.rule m))) := by
  intro es
  induction es with
  | nil =>
    intro acc vis
    refine ⟨[], by simp, ?_, fun h => ⟨h, fun _ _ he => absurd he List.not_mem_nil⟩, ?_⟩
    · rintro ⟨c, hc, _⟩; exact absurd hc List.not_mem_nil
    · intro V hV
      exact ⟨V, hV, SubVis.refl V, fun _ X _ => ⟨fun _ he => absurd he List.not_mem_nil, fun m hm hn => absurd hm hn⟩⟩
  | cons e es ihes =>
    intro acc vis
    simp only [List.foldl_cons]
    have he := ih vis e
    obtain ⟨outs, ho, t2, f2, s2⟩ := ihes (acc ++ [(evalG rule seed look fuel vis e).1]) (evalG rule seed look fuel vis e).2
    refine ⟨(evalG rule seed look fuel vis e).1 :: outs, by rw [ho]; simp, ?_, ?_, ?_⟩
    · rintro ⟨c, hcm, ht⟩
      rcases List.mem_cons.mp hcm with rfl | hcm
      · exact ⟨e, by simp, he.tru ht⟩
      · obtain ⟨e', hm, hh⟩ := t2 ⟨c, hcm, ht⟩
        exact ⟨e', List.mem_cons_of_mem _ hm, hh⟩
    · intro hv
      obtain ⟨h1, h2⟩ := he.fresh hv
      obtain ⟨h3, h4⟩ := f2 h1
      refine ⟨h3, ?_⟩
      intro hall e' he'
      rcases List.mem_cons.mp he' with rfl | he'
      · exact h2 (hall _ (by simp))
      · exact h4 (fun c hcm => hall c (List.mem_cons_of_mem _ hcm)) e' he'
    · intro V hV
      obtain ⟨W1, hW1, hs1, hcl1⟩ := he.shared V hV
      obtain ⟨W, hW, hs2, hcl2⟩ := s2 W1 hW1
      refine ⟨W, hW, hs1.trans hs2, ?_⟩
      intro hall X hX
      have hX1 : ∀ m ∈ nodesJ W1, m ∈ X := fun m hm => hX m (nodesJ_mono hs2 hm)
      obtain ⟨d1, n1⟩ := hcl1 (hall _ (by simp)) X hX1
      obtain ⟨d2, n2⟩ := hcl2 (fun c hcm => hall c (List.mem_cons_of_mem _ hcm)) X hX
      refine ⟨?_, ?_⟩
      · intro e' he'
        rcases List.mem_cons.mp he' with rfl | he'
        · exact d1
        · exact d2 e' he'
      · intro m hm hn
        by_cases hm1 : m ∈ nodesJ W1
        · exact n1 m hm1 hn
        · exact n2 m hm hm1

/-- **Soundness of the evaluation with a shared visited set.**  By induction on the fuel, for every
expression, under a fresh or a shared set. -/
theorem evalG_spec (hrule : ∀ b n, toExpr (rule b n) = sys.rule n) (hc : Coherent sys I) : ∀ (fuel : Nat) (vis : Option (Vis N)) (e : VExpr N),
    Spec sys I vis (toExpr e) (evalG rule seed look fuel vis e) := by
  intro fuel
  induction fuel with
  | zero =>
    intro vis e
    rw [evalG_zero]
    exact spec_of_fresh sys I (fun h => by simp at h) (fun h => by simp at h)
  | succ fuel ih =>
    intro vis e
    have hN := nodeG_spec sys I rule seed look hrule fuel ih
    cases e with
    | lit v =>
      rw [evalG_lit]
      simp only [toExpr]
      refine spec_of_fresh sys I ?_ ?_
      · intro h
        cases v <;> simp [leafOut] at h
        exact .lit rfl
      · intro h hp
        cases v <;> simp [leafOut] at h
        cases hp with
        | lit hv => exact hv rfl
    | fail k =>
      rw [evalG_fail]
      simp only [toExpr]
      exact spec_of_fresh sys I (fun h => by simp at h) (fun h => by simp at h)
    | sub share n =>
      rw [evalG_sub]
      simp only [toExpr]
      cases hsv : (if share then vis else none) with
      | some V =>
        have hvis : vis = some V := by
          cases share with
          | true => simpa using hsv
          | false => simp at hsv
        subst hvis
        simp only
        obtain ⟨W, hW, hsub, hcl⟩ := hN.shared (("", n, true) :: V) n
        refine ⟨fun ht => .node (hN.tru _ n ht), (fun h => nomatch h), ?_⟩
        intro V0 hV0
        cases hV0
        refine ⟨W, hW, fun x hx => hsub x (List.mem_cons_of_mem _ hx), ?_⟩
        intro hF X hX
        obtain ⟨d1, d2⟩ := hcl hF X hX
        have hnW : n ∈ nodesJ W := nodesJ_mono hsub ((nodesJ_cons_true "" n V n).mpr (Or.inl rfl))
        refine ⟨DeadX.node_mem sys I (hX n hnW), ?_⟩
        intro m hm hn
        by_cases hmn : m = n
        · subst hmn; exact d1
        · apply d2 m hm
          intro hm0
          rcases (nodesJ_cons_true "" n V m).mp hm0 with h | h
          · exact hmn h
          · exact hn h
      | none =>
        simp only
        refine spec_of_fresh sys I (fun ht => .node (hN.tru _ n ht)) ?_
        intro hF hp
        cases hp with
        | node hn => exact hN.fresh n hF hn
    | gate v e =>
      rw [evalG_gate]
      cases v with
      | tt =>
        simp only
        refine spec_of_fresh sys I (fun _ => ?_) (fun h => by simp at h)
        simp only [toExpr]
        exact .or (List.mem_cons_self) (.lit rfl)
      | ff =>
        simp only
        have he := ih vis e
        refine ⟨?_, ?_, ?_⟩
        · intro ht
          simp only [toExpr]
          exact .or (List.mem_cons_of_mem _ List.mem_cons_self) (he.tru ht)
        · intro hv
          obtain ⟨h1, h2⟩ := he.fresh hv
          refine ⟨h1, fun hF hp => ?_⟩
          simp only [toExpr] at hp
          cases hp with
          | or hm hh =>
            simp at hm
            rcases hm with rfl | rfl
            · cases hh with | lit hv => exact hv rfl
            · exact h2 hF hh
        · intro V hV
          obtain ⟨W, hW, hsub, hcl⟩ := he.shared V hV
          refine ⟨W, hW, hsub, fun hF X hX => ?_⟩
          obtain ⟨d1, d2⟩ := hcl hF X hX
          refine ⟨?_, d2⟩
          simp only [toExpr]
          apply dead_or
          intro e' he'
          simp at he'
          rcases he' with rfl | rfl
          · intro hh; cases hh with | lit hv => exact hv rfl
          · exact d1
      | err => simp only; exact spec_of_fresh sys I (fun h => by simp at h) (fun h => by simp at h)
      | errSw => simp only; exact spec_of_fresh sys I (fun h => by simp at h) (fun h => by simp at h)
    | iter share items =>
      rw [evalG_iter]
      simp only [toExpr]
      generalize hfin : iterLoop (nodeG rule seed look fuel) (share && vis.isSome) look (2 * items.length + 2) items [] { vis := vis } = fin
      have hmono := iterLoop_mono (nodeG rule seed look fuel) (share && vis.isSome) look (hN.hsh sys I)
        (2 * items.length + 2) items [] { vis := vis }
      rw [hfin] at hmono
      -- `true` comes from a tuple that passed and whose sub-problem holds
      have htrue : VOut.ok true false ∈ unionSet (fin.acc ++ iterTail fin) → HoldsD sys I [] (.or (items.map itemExpr)) := by
        intro ht
        obtain ⟨c, hcm, hct⟩ := unionSet_true ht
        rcases List.mem_append.mp hcm with hcm | hcm
        · have := iterLoop_true sys I (nodeG rule seed look fuel) (share && vis.isSome) look hN
            (fun n => ∃ it ∈ items, it.cond = .tt ∧ it.child = some n) (2 * items.length + 2) items [] { vis := vis }
            (fun it hit hcd n hch => ⟨it, hit, hcd, hch⟩) (fun n hn => absurd hn List.not_mem_nil) c (by rw [hfin]; exact hcm) hct
          rcases this with h | ⟨n, ⟨it, hit, hcd, hch⟩, hD⟩
          · exact absurd h List.not_mem_nil
          · refine .or (List.mem_map.mpr ⟨it, hit, rfl⟩) ?_
            unfold itemExpr
            rw [hcd, hch]
            refine .and ?_
            intro e' he'
            simp at he'
            rcases he' with rfl | rfl
            · exact .lit rfl
            · exact .node hD
        · unfold iterTail at hcm
          split at hcm
          · split at hcm <;> (simp at hcm; subst hcm; simp at hct)
          · exact absurd hcm List.not_mem_nil
      -- an untainted `false`: no error was remembered, every result is an untainted `false`
      have hgood : VOut.ok false false ∈ unionSet (fin.acc ++ iterTail fin) → Good fin := by
        intro hF
        have hall := unionSet_false hF
        refine ⟨?_, fun s hs => hall s (List.mem_append_left _ hs)⟩
        cases hle : fin.lastErr with
        | false => rfl
        | true =>
          exfalso
          cases hov : fin.onceValid with
          | true =>
            have := hall [VOut.ok false true] (List.mem_append_right _ (by simp [iterTail, hle, hov]))
            simp at this
          | false =>
            have := hall [VOut.err VErr.cond] (List.mem_append_right _ (by simp [iterTail, hle, hov]))
            simp at this
      cases hact : (share && vis.isSome) with
      | false =>
        rw [hact] at hfin hmono
        simp only [Bool.false_eq_true, if_false]
        have hfalse : VOut.ok false false ∈ unionSet (fin.acc ++ iterTail fin) → ∀ X, ∀ it ∈ items, DeadX sys I X (itemExpr it) := by
          intro hF X
          have := iterLoop_false sys I (nodeG rule seed look fuel) false look hN (2 * items.length + 2) items [] { vis := vis }
            (by rw [hfin]; exact hgood hF) (fun h => by cases h) (fun h => by cases h) X (fun h => by cases h)
          exact this.1
        refine ⟨htrue, ?_, ?_⟩
        · intro hv
          refine ⟨hv, fun hF => dead_of_cand_nil sys I (dead_or sys I ?_)⟩
          intro e' he'
          obtain ⟨it, hit, rfl⟩ := List.mem_map.mp he'
          exact hfalse hF [] it hit
        · intro V hV
          refine ⟨V, hV, SubVis.refl V, fun hF X _ => ⟨dead_or sys I ?_, fun m hm hn => absurd hm hn⟩⟩
          intro e' he'
          obtain ⟨it, hit, rfl⟩ := List.mem_map.mp he'
          exact hfalse hF X it hit
      | true =>
        rw [hact] at hfin hmono
        simp only [if_true]
        have hsome : ∃ V, vis = some V := by
          cases vis with
          | none => simp at hact
          | some V => exact ⟨V, rfl⟩
        obtain ⟨V, hV⟩ := hsome
        subst hV
        obtain ⟨_, _, _, hs4⟩ := hmono
        obtain ⟨W, hW, hsub⟩ := hs4 rfl V rfl
        refine ⟨htrue, (fun h => nomatch h), ?_⟩
        intro V0 hV0
        cases hV0
        refine ⟨W, hW, hsub, ?_⟩
        intro hF X hX
        have := iterLoop_false sys I (nodeG rule seed look fuel) true look hN (2 * items.length + 2) items [] { vis := some V }
          (by rw [hfin]; exact hgood hF) (fun _ => ⟨V, rfl⟩) (fun _ _ _ n hn => absurd hn List.not_mem_nil) X
          (by intro _ W2 hW2; rw [hfin, hW] at hW2; cases hW2; exact hX)
        obtain ⟨d1, _, _, d4⟩ := this
        refine ⟨dead_or sys I ?_, ?_⟩
        · intro e' he'
          obtain ⟨it, hit, rfl⟩ := List.mem_map.mp he'
          exact d1 it hit
        · intro m hm hn
          exact d4 rfl V rfl W (by rw [hfin]; exact hW) m hm (Or.inl hn)
    | or es =>
      rw [evalG_or]
      simp only [toExpr]
      obtain ⟨outs, ho, t2, f2, s2⟩ := orFold_spec sys I rule seed look fuel ih es [] vis
      simp only [List.nil_append] at ho
      rw [ho]
      refine ⟨?_, ?_, ?_⟩
      · intro ht
        obtain ⟨c, hcm, hct⟩ := unionSet_true ht
        obtain ⟨e', hm, hh⟩ := t2 ⟨c, hcm, hct⟩
        exact .or (List.mem_map.mpr ⟨e', hm, rfl⟩) hh
      · intro hv
        obtain ⟨h1, h2⟩ := f2 hv
        refine ⟨h1, fun hF hp => ?_⟩
        cases hp with
        | or hm hh =>
          obtain ⟨e', he', rfl⟩ := List.mem_map.mp hm
          exact h2 (unionSet_false hF) e' he' hh
      · intro V hV
        obtain ⟨W, hW, hsub, hcl⟩ := s2 V hV
        refine ⟨W, hW, hsub, fun hF X hX => ?_⟩
        obtain ⟨d1, d2⟩ := hcl (unionSet_false hF) X hX
        refine ⟨dead_or sys I ?_, d2⟩
        intro e' he'
        obtain ⟨e0, he0, rfl⟩ := List.mem_map.mp he'
        exact d1 e0 he0
    | or2 a b =>
      rw [evalG_or2]
      simp only [toExpr]
      have ha := ih vis a
      have hb := ih (evalG rule seed look fuel vis a).2 b
      refine ⟨?_, ?_, ?_⟩
      · intro ht
        rcases union2Set_true ht with h | h
        · exact .or List.mem_cons_self (ha.tru h)
        · exact .or (List.mem_cons_of_mem _ List.mem_cons_self) (hb.tru h)
      · intro hv
        obtain ⟨h1, h2⟩ := ha.fresh hv
        obtain ⟨h3, h4⟩ := hb.fresh h1
        refine ⟨h3, fun hF hp => ?_⟩
        obtain ⟨fa, fb⟩ := union2Set_false hF
        cases hp with
        | or hm hh =>
          simp at hm
          rcases hm with rfl | rfl
          · exact h2 fa hh
          · exact h4 fb hh
      · intro V hV
        obtain ⟨W1, hW1, hs1, hcl1⟩ := ha.shared V hV
        obtain ⟨W, hW, hs2, hcl2⟩ := hb.shared W1 hW1
        refine ⟨W, hW, hs1.trans hs2, fun hF X hX => ?_⟩
        obtain ⟨fa, fb⟩ := union2Set_false hF
        obtain ⟨d1, n1⟩ := hcl1 fa X (fun m hm => hX m (nodesJ_mono hs2 hm))
        obtain ⟨d2, n2⟩ := hcl2 fb X hX
        refine ⟨dead_or sys I ?_, ?_⟩
        · intro e' he'
          simp at he'
          rcases he' with rfl | rfl
          · exact d1
          · exact d2
        · intro m hm hn
          by_cases hm1 : m ∈ nodesJ W1
          · exact n1 m hm1 hn
          · exact n2 m hm hm1
    | and es =>
      rw [evalG_and]
      simp only [toExpr]
      refine spec_of_fresh sys I ?_ ?_
      · intro ht
        have hall := interSet_true ht
        refine .and ?_
        intro e' he'
        obtain ⟨e0, he0, rfl⟩ := List.mem_map.mp he'
        exact (ih none e0).tru (hall _ (List.mem_map.mpr ⟨e0, he0, rfl⟩))
      · intro hF hp
        obtain ⟨c, hcm, hcf⟩ := interSet_false hF
        obtain ⟨e0, he0, rfl⟩ := List.mem_map.mp hcm
        cases hp with
        | and hall => exact ((ih none e0).fresh rfl).2 hcf (hall _ (List.mem_map.mpr ⟨e0, he0, rfl⟩))
    | diff b s =>
      rw [evalG_diff]
      simp only [toExpr]
      refine spec_of_fresh sys I ?_ ?_
      · intro ht
        obtain ⟨hb, hs⟩ := exclSet_true ht
        have hsF := ((ih none s).fresh rfl).2 (hs _ rfl)
        exact .diff ((ih none b).tru hb) (((hc (toExpr s)).1).mpr hsF)
      · intro hF hp
        cases hp with
        | diff hb hn =>
          rcases exclSet_false hF with h | ⟨l, hl, h⟩
          · exact ((ih none b).fresh rfl).2 h hb
          · cases hl
            exact ((hc (toExpr s)).2.mp hn) ((ih none s).tru h)
    | diff1 b =>
      rw [evalG_diff1]
      simp only [toExpr]
      refine spec_of_fresh sys I ?_ ?_
      · intro ht
        exact (ih none b).tru (exclSet_true ht).1
      · intro hF
        rcases exclSet_false hF with h | ⟨l, hl, _⟩
        · exact ((ih none b).fresh rfl).2 h
        · cases hl

/-- **Top level** (`ResolveCheck`: no visited set yet): an untainted decision is the semantics. -/
theorem evalG_root_sound (hrule : ∀ b n, toExpr (rule b n) = sys.rule n) (hc : Coherent sys I) (fuel : Nat) (e : VExpr N) :
    (VOut.ok true false ∈ (evalG rule seed look fuel none e).1 → HoldsD sys I [] (toExpr e)) ∧
    (VOut.ok false false ∈ (evalG rule seed look fuel none e).1 → ¬ HoldsP sys I [] (toExpr e)) := by
  have h := evalG_spec sys I rule seed look hrule hc fuel none e
  exact ⟨h.tru, (h.fresh rfl).2⟩

end main

end

end OpenFGAVerif.DfsG
