/-
Soundness of the evaluation with a **shared, global visited set** (`Model.DfsG.evalG`) with respect to
the least-fixpoint semantics (`Spec.BoolSys`) of the equation system it evaluates, for every system,
every producer/consumer policy of the default strategy, every fuel.

The argument is not the path lemma of `Proofs.DfsSound` (a global set is not a path): when a region —
everything evaluated under one visited set — comes back with an untainted `false`, every sub-problem
that was *entered* in it (`nodesJ`: the justified entries of the final set, including the unmarked
computed hops recorded as ghost entries) is **dead**: its rule cannot be made true by possibly-true
sub-problems *outside* the set.  A set of dead sub-problems contains no possibly-true one (`closure`,
by leastness of the fixpoint): whichever branch claimed a userset, its `false` was reported to the same
union, so skipping it elsewhere lost nothing.  Where this breaks — a skip on a key that was placed for a
different sub-problem, or for a tuple that the condition filter dropped afterwards, or an error
swallowed by the iterator — the model sets the ghost taint bit and the theorem says nothing.
-/
import OpenFGAVerif.Proofs.DfsGReducers

set_option linter.unusedSectionVars false

namespace OpenFGAVerif.DfsG
open OpenFGAVerif.BoolSys

section
variable {N : Type} [DecidableEq N] (sys : Sys N) (I : Interp N)

/-- sub-problems entered under a visited set: nodes of its justified entries -/
def nodesJ (V : Vis N) : List N := (V.filter (fun e => e.2.2)).map (fun e => e.2.1)

def SubVis (V V' : Vis N) : Prop := ∀ x ∈ V, x ∈ V'

theorem SubVis.refl (V : Vis N) : SubVis V V := fun _ h => h
theorem SubVis.trans {A B C : Vis N} (h1 : SubVis A B) (h2 : SubVis B C) : SubVis A C := fun x h => h2 x (h1 x h)

theorem mem_nodesJ {V : Vis N} {m : N} : m ∈ nodesJ V ↔ ∃ k, (k, m, true) ∈ V := by
  unfold nodesJ
  simp only [List.mem_map, List.mem_filter]
  constructor
  · rintro ⟨⟨k, n, j⟩, ⟨hm, hj⟩, rfl⟩
    simp at hj; subst hj; exact ⟨k, hm⟩
  · rintro ⟨k, hm⟩; exact ⟨(k, m, true), ⟨hm, rfl⟩, rfl⟩

theorem nodesJ_mono {V V' : Vis N} (h : SubVis V V') {m : N} (hm : m ∈ nodesJ V) : m ∈ nodesJ V' := by
  obtain ⟨k, hk⟩ := mem_nodesJ.mp hm
  exact mem_nodesJ.mpr ⟨k, h _ hk⟩

/-- possibly-true sub-problems outside `X` -/
def Cand (X : List N) : N → Prop := fun y => P sys I [] y ∧ y ∉ X

/-- `e` cannot be made true by candidates outside `X` -/
def DeadX (X : List N) (e : Expr N) : Prop := ¬ Holds leafP I.negP (Cand sys I X) e

theorem DeadX.mono {X X' : List N} (h : ∀ m ∈ X, m ∈ X') {e : Expr N} (hd : DeadX sys I X e) : DeadX sys I X' e :=
  fun hh => hd (Holds.mono leafP I.negP (fun y hy => ⟨hy.1, fun hx => hy.2 (h y hx)⟩) hh)

theorem DeadX.of_global {X : List N} {e : Expr N} (h : ¬ HoldsP sys I [] e) : DeadX sys I X e :=
  fun hh => h (Holds.mono leafP I.negP (fun _ hy => hy.1) hh)

theorem DeadX.node_mem {X : List N} {d : Bool} {n : N} (h : n ∈ X) : DeadX sys I X (.node d n) := by
  intro hh; cases hh with | node hn => exact hn.2 h

/-- **Closure**: a set of dead sub-problems contains no possibly-true one. -/
theorem closure (X : List N) (h : ∀ m ∈ X, DeadX sys I X (sys.rule m)) : ∀ m ∈ X, ¬ P sys I [] m := by
  have key : ∀ n, P sys I [] n → Cand sys I X n := by
    apply lfp_least sys leafP I.negP [] (Cand sys I X)
    intro n _ hh
    refine ⟨lfp_closed sys leafP I.negP [] n List.not_mem_nil
      (Holds.mono leafP I.negP (fun _ hy => hy.1) hh), ?_⟩
    intro hx
    exact h n hx hh
  intro m hm hp
  exact (key m hp).2 hm

theorem dead_of_cand_nil {e : Expr N} (h : DeadX sys I [] e) : ¬ HoldsP sys I [] e :=
  fun hh => h (Holds.mono leafP I.negP (fun _ hy => ⟨hy, List.not_mem_nil⟩) hh)

/-! ### what the evaluation of a sub-problem must satisfy -/

/-- `X` covers the final visited set (a constraint only when a set is shared) -/
def Cover (vis' : Option (Vis N)) (X : List N) : Prop := ∀ V', vis' = some V' → ∀ m ∈ nodesJ V', m ∈ X

structure NodeSpec (nodeF : Option (Vis N) → N → List VOut × Option (Vis N)) : Prop where
  tru : ∀ vis n, .ok true false ∈ (nodeF vis n).1 → D sys I [] n
  fresh : ∀ n, .ok false false ∈ (nodeF none n).1 → ¬ P sys I [] n
  shared : ∀ V n, ∃ V', (nodeF (some V) n).2 = some V' ∧ SubVis V V' ∧
    (.ok false false ∈ (nodeF (some V) n).1 → ∀ X, (∀ m ∈ nodesJ V', m ∈ X) →
      DeadX sys I X (sys.rule n) ∧ ∀ m ∈ nodesJ V', m ∉ nodesJ V → DeadX sys I X (sys.rule m))

/-! ### the filter (`pull`) -/

def PullSpec (active : Bool) (raw : List (Item N)) (st : IterSt N) : Prop :=
    (∃ bad, (pull active raw st).2.2.acc = st.acc ++ bad ∧ ∀ s ∈ bad, s = [.ok false true]) ∧
    (st.lastErr = true → (pull active raw st).2.2.lastErr = true) ∧
    ((active = false ∨ st.vis = none) → (pull active raw st).2.2.vis = st.vis) ∧
    (active = true → ∀ V, st.vis = some V → ∃ V', (pull active raw st).2.2.vis = some V' ∧ SubVis V V' ∧
      (∀ m ∈ nodesJ V', m ∈ nodesJ V ∨ (pull active raw st).1 = some (some m)) ∧
      (∀ n, (pull active raw st).1 = some (some n) → n ∈ nodesJ V')) ∧
    (∀ it ∈ (pull active raw st).2.1, it ∈ raw) ∧
    (∀ c, (pull active raw st).1 = some c → ∃ it ∈ raw, it.cond = .tt ∧ it.child = c) ∧
    ((pull active raw st).1 = none → (pull active raw st).2.1 = []) ∧
    ((pull active raw st).2.2.acc = st.acc → (pull active raw st).2.2.lastErr = false →
      ∀ it ∈ raw, it ∈ (pull active raw st).2.1 ∨ ((pull active raw st).1 = some it.child ∧ it.cond = .tt) ∨ it.cond = .ff ∨
        (active = true ∧ ∃ V' n, (pull active raw st).2.2.vis = some V' ∧ it.child = some n ∧ n ∈ nodesJ V'))

theorem pull_spec (active : Bool) (raw : List (Item N)) (st : IterSt N) : PullSpec active raw st := by
  induction raw generalizing st with
  | nil =>
    unfold PullSpec
    refine ⟨⟨[], by simp [pull], by simp⟩, by simp [pull], by simp [pull], ?_, by simp [pull], by simp [pull],
      by simp [pull], by simp [pull]⟩
    intro _ V hV
    exact ⟨V, by simp [pull, hV], SubVis.refl V, fun m hm => Or.inl hm, by simp [pull]⟩
  | cons it rest ih =>
    -- three ways to continue with the rest, one way to stop
    have cont : ∀ (st1 : IterSt N),
        pull active (it :: rest) st = pull active rest st1 →
        (∃ b1, st1.acc = st.acc ++ b1 ∧ ∀ s ∈ b1, s = [VOut.ok false true]) →
        (st.lastErr = true → st1.lastErr = true) →
        ((active = false ∨ st.vis = none) → st1.vis = st.vis) →
        (active = true → ∀ V, st.vis = some V → ∃ V1, st1.vis = some V1 ∧ SubVis V V1 ∧ ∀ m ∈ nodesJ V1, m ∈ nodesJ V) →
        ((st1.acc = st.acc → st1.lastErr = false → it.cond = .ff ∨
          (active = true ∧ ∃ V1 n, st1.vis = some V1 ∧ it.child = some n ∧ n ∈ nodesJ V1))) →
        PullSpec active (it :: rest) st := by
      intro st1 heq hacc hle hvn hvs hit
      unfold PullSpec
      rw [heq]
      obtain ⟨⟨bad, hb1, hb2⟩, i2, i3, i4, i5, i6, i7, i8⟩ := ih st1
      obtain ⟨b1, hb3, hb4⟩ := hacc
      refine ⟨⟨b1 ++ bad, by rw [hb1, hb3, List.append_assoc], ?_⟩, fun h => i2 (hle h), ?_, ?_, ?_, ?_, i7, ?_⟩
      · intro s hs
        rcases List.mem_append.mp hs with h | h
        · exact hb4 s h
        · exact hb2 s h
      · intro h
        have h1 := hvn h
        rw [← h1]
        apply i3
        rcases h with h | h
        · exact Or.inl h
        · exact Or.inr (by rw [h1]; exact h)
      · intro ha V hV
        obtain ⟨V1, hV1, hs1, hn1⟩ := hvs ha V hV
        obtain ⟨V', hV', hs2, hn2, hn3⟩ := i4 ha V1 hV1
        refine ⟨V', hV', hs1.trans hs2, ?_, hn3⟩
        intro m hm
        rcases hn2 m hm with h | h
        · exact Or.inl (hn1 m h)
        · exact Or.inr h
      · intro x hx; exact List.mem_cons_of_mem _ (i5 x hx)
      · intro c hc
        obtain ⟨x, hx, h1, h2⟩ := i6 c hc
        exact ⟨x, List.mem_cons_of_mem _ hx, h1, h2⟩
      · intro hacc2 hle2 x hx
        -- no bad element was appended anywhere
        have hbad : b1 = [] ∧ bad = [] := by
          have hlen : (st.acc ++ (b1 ++ bad)).length = st.acc.length := by
            rw [← List.append_assoc, ← hb3, ← hb1, hacc2]
          simp only [List.length_append] at hlen
          exact ⟨List.eq_nil_of_length_eq_zero (by omega), List.eq_nil_of_length_eq_zero (by omega)⟩
        have hacc1 : st1.acc = st.acc := by rw [hb3, hbad.1]; simp
        have hacc3 : (pull active rest st1).2.2.acc = st1.acc := by rw [hb1, hbad.2]; simp
        have hle1 : st1.lastErr = false := by
          cases h : st1.lastErr with
          | false => rfl
          | true => rw [i2 h] at hle2; cases hle2
        rcases List.mem_cons.mp hx with rfl | hx
        · rcases hit hacc1 hle1 with h | ⟨ha, V1, n, hV1, hc, hn⟩
          · exact Or.inr (Or.inr (Or.inl h))
          · obtain ⟨V', hV', hs2, _, _⟩ := i4 ha V1 hV1
            exact Or.inr (Or.inr (Or.inr ⟨ha, V', n, hV', hc, nodesJ_mono hs2 hn⟩))
        · exact i8 hacc3 hle2 x hx
    -- now the definition
    cases hact : (if active then st.vis else none) with
    | none =>
      have hnv : active = false ∨ st.vis = none := by
        cases active with
        | false => exact Or.inl rfl
        | true => simp at hact; exact Or.inr hact
      have hstay : ∀ (st1 : IterSt N), st1.vis = st.vis →
          (active = true → ∀ V, st.vis = some V → ∃ V1, st1.vis = some V1 ∧ SubVis V V1 ∧ ∀ m ∈ nodesJ V1, m ∈ nodesJ V) := by
        intro st1 h1 _ V hV
        exact ⟨V, by rw [h1, hV], SubVis.refl V, fun _ hm => hm⟩
      cases hc : it.cond with
      | tt =>
        have heq : pull active (it :: rest) st = (some it.child, rest, { st with onceValid := true }) := by
          simp [pull, hact, hc]
        unfold PullSpec
        rw [heq]
        refine ⟨⟨[], by simp, by simp⟩, id, fun _ => rfl, ?_, ?_, ?_, by simp, ?_⟩
        · intro ha V hV
          rcases hnv with h | h
          · rw [h] at ha; cases ha
          · rw [h] at hV; cases hV
        · intro x hx; exact List.mem_cons_of_mem _ hx
        · intro c hcc; simp at hcc; exact ⟨it, by simp, hc, hcc⟩
        · intro _ _ x hx
          rcases List.mem_cons.mp hx with rfl | hx
          · exact Or.inr (Or.inl ⟨rfl, hc⟩)
          · exact Or.inl hx
      | ff =>
        exact cont st (by simp [pull, hact, hc]) ⟨[], by simp, by simp⟩ id (fun _ => rfl) (hstay st rfl)
          (fun _ _ => Or.inl hc)
      | err =>
        exact cont { st with lastErr := true } (by simp [pull, hact, hc]) ⟨[], by simp, by simp⟩ (fun _ => rfl)
          (fun _ => rfl) (hstay _ rfl) (fun _ h => by simp at h)
      | errSw =>
        exact cont { st with lastErr := true } (by simp [pull, hact, hc]) ⟨[], by simp, by simp⟩ (fun _ => rfl)
          (fun _ => rfl) (hstay _ rfl) (fun _ h => by simp at h)
    | some V =>
      have hav : active = true ∧ st.vis = some V := by
        cases active with
        | false => simp at hact
        | true => simp at hact; exact ⟨rfl, hact⟩
      have hno : ¬ (active = false ∨ st.vis = none) := by
        rintro (h | h)
        · rw [h] at hav; cases hav.1
        · rw [h] at hav; cases hav.2
      cases hf : V.find? (fun e => e.1 = it.key) with
      | some e =>
        by_cases hbad : (!(e.2.2 && decide (it.child = some e.2.1))) = true
        · refine cont { st with acc := st.acc ++ [[.ok false true]] } (by simp [pull, hact, hf, hbad])
            ⟨[[.ok false true]], rfl, by simp⟩ id (fun _ => rfl) ?_ ?_
          · intro _ V0 hV0; exact ⟨V0, hV0, SubVis.refl V0, fun _ hm => hm⟩
          · intro h; simp at h
        · refine cont st (by simp [pull, hact, hf, hbad]) ⟨[], by simp, by simp⟩ id (fun _ => rfl) ?_ ?_
          · intro _ V0 hV0; exact ⟨V0, hV0, SubVis.refl V0, fun _ hm => hm⟩
          · intro _ _
            have hb2 : e.2.2 = true ∧ it.child = some e.2.1 := by simpa using hbad
            refine Or.inr ⟨hav.1, V, e.2.1, hav.2, hb2.2, ?_⟩
            have hm : e ∈ V := List.mem_of_find?_eq_some hf
            refine mem_nodesJ.mpr ⟨e.1, ?_⟩
            have : e = (e.1, e.2.1, true) := by
              rcases e with ⟨k, n, j⟩
              simp at hb2 ⊢
              exact hb2.1
            rw [← this]; exact hm
      | none =>
        -- the new visited set
        obtain ⟨V', hV'⟩ : ∃ V', V' = mark it V := ⟨_, rfl⟩
        have hsub : SubVis V V' := by
          subst hV'; unfold mark
          cases it.child with
          | none => exact SubVis.refl V
          | some n => exact fun x hx => List.mem_cons_of_mem _ hx
        have hnew : ∀ m ∈ nodesJ V', m ∈ nodesJ V ∨ (it.cond = .tt ∧ it.child = some m) := by
          intro m hm
          obtain ⟨k, hk⟩ := mem_nodesJ.mp hm
          subst hV'; unfold mark at hk
          cases hch : it.child with
          | none => rw [hch] at hk; exact Or.inl (mem_nodesJ.mpr ⟨k, hk⟩)
          | some n =>
            rw [hch] at hk
            rcases List.mem_cons.mp hk with h | h
            · simp at h; exact Or.inr ⟨h.2.2, by rw [h.2.1]⟩
            · exact Or.inl (mem_nodesJ.mpr ⟨k, h⟩)
        have hvs : ∀ (st1 : IterSt N), st1.vis = some V' → it.cond ≠ .tt →
            (active = true → ∀ V0, st.vis = some V0 → ∃ V1, st1.vis = some V1 ∧ SubVis V0 V1 ∧ ∀ m ∈ nodesJ V1, m ∈ nodesJ V0) := by
          intro st1 h1 hne _ V0 hV0
          rw [hav.2] at hV0; cases hV0
          refine ⟨V', h1, hsub, ?_⟩
          intro m hm
          rcases hnew m hm with h | ⟨h, _⟩
          · exact h
          · exact absurd h hne
        cases hc : it.cond with
        | tt =>
          have heq : pull active (it :: rest) st = (some it.child, rest, { st with vis := some V', onceValid := true }) := by
            simp [pull, hact, hf, hc, hV']
          unfold PullSpec
          rw [heq]
          refine ⟨⟨[], by simp, by simp⟩, id, fun h => absurd h hno, ?_, ?_, ?_, by simp, ?_⟩
          · intro _ V0 hV0
            rw [hav.2] at hV0; cases hV0
            refine ⟨V', rfl, hsub, ?_, ?_⟩
            · intro m hm
              rcases hnew m hm with h | ⟨_, h⟩
              · exact Or.inl h
              · exact Or.inr (by rw [h])
            · intro n hn
              have hn' : it.child = some n := by simpa using hn
              refine mem_nodesJ.mpr ⟨it.key, ?_⟩
              subst hV'; unfold mark
              rw [hn']
              simp [hc]
          · intro x hx; exact List.mem_cons_of_mem _ hx
          · intro c hcc; simp at hcc; exact ⟨it, by simp, hc, hcc⟩
          · intro _ _ x hx
            rcases List.mem_cons.mp hx with rfl | hx
            · exact Or.inr (Or.inl ⟨rfl, hc⟩)
            · exact Or.inl hx
        | ff =>
          have heq : pull active (it :: rest) st = pull active rest { st with vis := some V' } := by
            simp [pull, hact, hf, hc, hV']
          exact cont { st with vis := some V' } heq ⟨[], by simp, by simp⟩ id (fun h => absurd h hno)
            (hvs _ rfl (by rw [hc]; intro h; cases h)) (fun _ _ => Or.inl hc)
        | err =>
          have heq : pull active (it :: rest) st = pull active rest { st with vis := some V', lastErr := true } := by
            simp [pull, hact, hf, hc, hV']
          exact cont { st with vis := some V', lastErr := true } heq ⟨[], by simp, by simp⟩ (fun _ => rfl)
            (fun h => absurd h hno) (hvs _ rfl (by rw [hc]; intro h; cases h)) (fun _ h => by simp at h)
        | errSw =>
          have heq : pull active (it :: rest) st = pull active rest { st with vis := some V', lastErr := true } := by
            simp [pull, hact, hf, hc, hV']
          exact cont { st with vis := some V', lastErr := true } heq ⟨[], by simp, by simp⟩ (fun _ => rfl)
            (fun h => absurd h hno) (hvs _ rfl (by rw [hc]; intro h; cases h)) (fun _ h => by simp at h)

end

end OpenFGAVerif.DfsG
