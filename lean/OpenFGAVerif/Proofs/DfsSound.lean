/-
Soundness of the path-cutting depth-first evaluation (`Model.Dfs.Eval`, every schedule) with respect
to the least-fixpoint semantics (`Spec.BoolSys`), for every system, every path `V`, every depth limit:

  * an untainted `allowed = true`                       ⇒ the expression definitely holds
  * an untainted `allowed = false` without cycle flag  ⇒ it does not even possibly hold, whatever the path
                                                          (this is what makes such results cacheable, C08)
  * an untainted `allowed = false` with the cycle flag ⇒ it does not possibly hold once the nodes on the
                                                          path are forced false (at the root the path is empty)
  * errors claim nothing.

Reducer characterisations (`unionGo_true`, `unionGo_false`, `interGo_*`, `exclR_*`) are stated for an
arbitrary arrival sequence; the main theorem then quantifies over every permutation.
-/
import OpenFGAVerif.Model.Dfs

namespace OpenFGAVerif.Dfs
open OpenFGAVerif.BoolSys

/-! ### reducer tables -/

theorem unionGo_true (arr : List Out) (fe : Option ErrKind) (cyc tnt c t : Bool)
    (h : unionGo arr fe cyc tnt = .ok true c t) : .ok true c t ∈ arr := by
  induction arr generalizing fe cyc tnt with
  | nil => cases fe <;> simp [unionGo] at h
  | cons o rest ih =>
    cases o with
    | err e => simp only [unionGo] at h; exact List.mem_cons_of_mem _ (ih _ _ _ h)
    | ok a c' t' =>
      simp only [unionGo] at h
      split at h
      · rename_i ha; subst ha; simp at h; obtain ⟨rfl, rfl⟩ := h; simp
      · exact List.mem_cons_of_mem _ (ih _ _ _ h)

theorem unionGo_false (arr : List Out) (fe : Option ErrKind) (cyc tnt c t : Bool)
    (h : unionGo arr fe cyc tnt = .ok false c t) :
    fe = none ∧ (cyc = true → c = true) ∧ (tnt = true → t = true) ∧
    ∀ o ∈ arr, ∃ c' t', o = .ok false c' t' ∧ (c' = true → c = true) ∧ (t' = true → t = true) := by
  induction arr generalizing fe cyc tnt with
  | nil =>
    cases fe with
    | some e => simp [unionGo] at h
    | none =>
      simp [unionGo] at h
      obtain ⟨rfl, rfl⟩ := h
      exact ⟨rfl, id, id, fun _ hm => by cases hm⟩
  | cons o rest ih =>
    cases o with
    | err e =>
      simp only [unionGo] at h
      have := ih _ _ _ h
      simp at this
    | ok a c' t' =>
      simp only [unionGo] at h
      split at h
      · simp at h
      · rename_i ha
        have ha' : a = false := by simpa using ha
        obtain ⟨h1, h2, h3, h4⟩ := ih _ _ _ h
        refine ⟨h1, ?_, ?_, ?_⟩
        · intro hc; exact h2 (by simp [hc])
        · intro ht; exact h3 (by simp [ht])
        · intro o ho
          rcases List.mem_cons.mp ho with rfl | ho
          · exact ⟨c', t', by simp [ha'], fun hc => h2 (by simp [hc]), fun ht => h3 (by simp [ht])⟩
          · exact h4 o ho

theorem interGo_true (arr : List Out) (fe : Option ErrKind) (tnt c t : Bool)
    (h : interGo arr fe tnt = .ok true c t) :
    fe = none ∧ c = false ∧ (tnt = true → t = true) ∧
    ∀ o ∈ arr, ∃ t', o = .ok true false t' ∧ (t' = true → t = true) := by
  induction arr generalizing fe tnt with
  | nil =>
    cases fe with
    | some e => simp [interGo] at h
    | none =>
      simp [interGo] at h
      obtain ⟨rfl, rfl⟩ := h
      exact ⟨rfl, rfl, id, fun _ hm => by cases hm⟩
  | cons o rest ih =>
    cases o with
    | err e =>
      simp only [interGo] at h
      have := (ih _ _ h).1
      cases fe <;> simp [Option.orElse] at this
    | ok a c' t' =>
      simp only [interGo] at h
      split at h
      · simp at h
      · rename_i hca
        have hc' : c' = false := by cases c' <;> simp_all
        have ha : a = true := by cases a <;> simp_all
        obtain ⟨h1, h2, h3, h4⟩ := ih _ _ h
        refine ⟨h1, h2, fun ht => h3 (by simp [ht]), ?_⟩
        intro o ho
        rcases List.mem_cons.mp ho with rfl | ho
        · exact ⟨t', by simp [ha, hc'], fun ht => h3 (by simp [ht])⟩
        · exact h4 o ho

theorem interGo_false (arr : List Out) (fe : Option ErrKind) (tnt c t : Bool)
    (h : interGo arr fe tnt = .ok false c t) :
    ∃ a, .ok a c t ∈ arr ∧ (c = true ∨ a = false) := by
  induction arr generalizing fe tnt with
  | nil => cases fe <;> simp [interGo] at h
  | cons o rest ih =>
    cases o with
    | err e =>
      simp only [interGo] at h
      obtain ⟨a, hm, hd⟩ := ih _ _ h
      exact ⟨a, List.mem_cons_of_mem _ hm, hd⟩
    | ok a c' t' =>
      simp only [interGo] at h
      split at h
      · rename_i hca
        simp at h; obtain ⟨rfl, rfl⟩ := h
        refine ⟨a, by simp, ?_⟩
        cases c' <;> cases a <;> simp_all
      · obtain ⟨a2, hm, hd⟩ := ih _ _ h
        exact ⟨a2, List.mem_cons_of_mem _ hm, hd⟩

theorem exclR_true (bf : Bool) (b s : Out) (c t : Bool) (h : exclR bf b s = .ok true c t) :
    c = false ∧ ∃ tb ts, b = .ok true false tb ∧ s = .ok false false ts ∧ t = (tb || ts) := by
  cases b with
  | err e => cases s with
    | err e2 => cases bf <;> simp [exclR, exclBase, exclSub] at h
    | ok a2 c2 t2 => cases bf <;> cases a2 <;> cases c2 <;> simp [exclR, exclBase, exclSub] at h
  | ok a1 c1 t1 => cases s with
    | err e2 => cases bf <;> cases a1 <;> cases c1 <;> simp [exclR, exclBase, exclSub] at h
    | ok a2 c2 t2 =>
      cases bf <;> cases a1 <;> cases c1 <;> cases a2 <;> cases c2 <;>
        simp [exclR, exclBase, exclSub] at h ⊢ <;> (obtain ⟨rfl, rfl⟩ := h; simp)

theorem exclR_false (bf : Bool) (b s : Out) (c t : Bool) (h : exclR bf b s = .ok false c t) :
    (∃ a, b = .ok a c t ∧ (c = true ∨ a = false)) ∨
    (∃ a ts, s = .ok a c ts ∧ (c = true ∨ a = true) ∧ t = (if a then ts else true)) := by
  cases b with
  | err e => cases s with
    | err e2 => cases bf <;> simp [exclR, exclBase, exclSub] at h
    | ok a2 c2 t2 =>
      cases bf <;> cases a2 <;> cases c2 <;> simp [exclR, exclBase, exclSub] at h ⊢ <;>
        (obtain ⟨rfl, rfl⟩ := h; simp)
  | ok a1 c1 t1 => cases s with
    | err e2 =>
      cases bf <;> cases a1 <;> cases c1 <;> simp [exclR, exclBase, exclSub] at h ⊢ <;>
        (obtain ⟨rfl, rfl⟩ := h; simp)
    | ok a2 c2 t2 =>
      cases bf <;> cases a1 <;> cases c1 <;> cases a2 <;> cases c2 <;>
        simp [exclR, exclBase, exclSub] at h ⊢ <;>
        (obtain ⟨rfl, rfl⟩ := h; simp)

/-! ### what an outcome claims -/

def Sound {N : Type} (sys : Sys N) (I : Interp N) (V : List N) (e : Expr N) : Out → Prop
  | .err _ => True
  | .ok a c t =>
    if t = true then True
    else if a = true then HoldsD sys I [] e
    else if c = true then ¬ HoldsP sys I V e
    else ¬ HoldsP sys I [] e

/-- a cache fact is sound when it states the global semantics of its node -/
def SoundFact {N : Type} (sys : Sys N) (I : Interp N) (n : N) (b : Bool) : Prop :=
  (b = true → D sys I [] n) ∧ (b = false → ¬ P sys I [] n)

section
variable {N : Type} (sys : Sys N) (I : Interp N) {facts : Facts N}

theorem sound_true {V : List N} {e : Expr N} {c : Bool} :
    Sound sys I V e (.ok true c false) ↔ HoldsD sys I [] e := by simp [Sound]
theorem sound_false_noflag {V : List N} {e : Expr N} :
    Sound sys I V e (.ok false false false) ↔ ¬ HoldsP sys I [] e := by simp [Sound]
theorem sound_false_flag {V : List N} {e : Expr N} :
    Sound sys I V e (.ok false true false) ↔ ¬ HoldsP sys I V e := by simp [Sound]
theorem sound_taint {V : List N} {e : Expr N} {a c : Bool} : Sound sys I V e (.ok a c true) := by simp [Sound]

theorem holdsP_to_global (V : List N) (e : Expr N) (h : HoldsP sys I V e) : HoldsP sys I [] e :=
  Holds.mono leafP I.negP (lfp_antitone sys leafP I.negP (fun _ hm => absurd hm List.not_mem_nil)) h

theorem holdsD_to_global (V : List N) (e : Expr N) (h : HoldsD sys I V e) : HoldsD sys I [] e :=
  Holds.mono leafD I.negD (lfp_antitone sys leafD I.negD (fun _ hm => absurd hm List.not_mem_nil)) h

/-- an untainted `false` (flagged or not) refutes possible truth relative to the path -/
theorem sound_false_rel (V : List N) (e : Expr N) (c : Bool) (h : Sound sys I V e (.ok false c false)) :
    ¬ HoldsP sys I V e := by
  cases c with
  | true => exact (sound_false_flag sys I).mp h
  | false => exact fun hp => (sound_false_noflag sys I).mp h (holdsP_to_global sys I V e hp)

theorem mem_of_perm_getElem {outs arr : List Out} (hp : arr.Perm outs) {o : Out} (ho : o ∈ arr) :
    ∃ i, ∃ h : i < outs.length, outs[i] = o := by
  have : o ∈ outs := hp.mem_iff.mp ho
  obtain ⟨i, hi, e⟩ := List.getElem_of_mem this
  exact ⟨i, hi, e⟩

theorem getElem_mem_arr {outs arr : List Out} (hp : arr.Perm outs) (i : Nat) (h : i < outs.length) :
    outs[i] ∈ arr := hp.mem_iff.mpr (List.getElem_mem h)

/-- `allowed = true` never carries the cycle flag, for any schedule. -/
theorem eval_true_noflag {maxDepth d : Nat} {V : List N} {e : Expr N} {o : Out}
    (h : Eval sys facts maxDepth d V e o) : ∀ c t, o = .ok true c t → c = false := by
  induction h with
  | abort => intro c t ho; cases ho
  | lit v => intro c t ho; cases v <;> simp [leafOut] at ho; exact ho.1.symm ▸ rfl
  | node_hit _ _ _ _ => intro c t ho; cases ho; rfl
  | node_depth => intro c t ho; cases ho
  | node_cycle => intro c t ho; cases ho
  | node_eval _ _ _ _ _ _ ih => exact ih
  | @or d V es outs arr hlen _ hperm ih =>
    intro c t ho
    have hm := unionGo_true arr none false false c t ho
    obtain ⟨i, hi, e⟩ := mem_of_perm_getElem hperm hm
    exact ih i (hlen ▸ hi) hi c t e
  | @and d V es outs arr hlen _ hperm ih =>
    intro c t ho
    unfold interR at ho
    split at ho
    · cases ho
    · exact (interGo_true arr none false c t ho).2.1
  | diff b s ob os bf _ _ _ _ =>
    intro c t ho
    exact (exclR_true bf ob os c t ho).1
  | diff_ideal b s ob os bf _ _ _ _ =>
    intro c t ho
    exact (exclR_true bf ob (clearFlag os) c t ho).1

/-- `exclusion`, given what is known about its two operands: the base outcome is sound relative to the
path; the subtract outcome, when it is an untainted `true` or an untainted unflagged `false`, is right
about the global semantics.  (A flagged `false` from the subtract operand taints the result.) -/
theorem diff_sound (hc : Coherent sys I) {V : List N} {b s : Expr N} {ob os : Out} (bf : Bool)
    (ihb : Sound sys I V b ob) (nfb : ∀ c t, ob = .ok true c t → c = false)
    (nfs : ∀ c t, os = .ok true c t → c = false)
    (hsT : ∀ c, os = .ok true c false → HoldsD sys I [] s)
    (hsF : os = .ok false false false → ¬ HoldsP sys I [] s) :
    Sound sys I V (.diff b s) (exclR bf ob os) := by
    generalize hr : exclR bf ob os = r
    cases r with
    | err k => trivial
    | ok a c t =>
      cases t with
      | true => exact sound_taint sys I
      | false =>
        cases a with
        | true =>
          obtain ⟨_, tb, ts, rfl, rfl, ht⟩ := exclR_true bf ob os c false hr
          have htb : tb = false := by cases tb <;> cases ts <;> simp at ht <;> rfl
          have hts : ts = false := by cases tb <;> cases ts <;> simp at ht <;> rfl
          subst htb; subst hts
          exact (sound_true sys I).mpr (.diff ((sound_true sys I).mp ihb)
            (((hc s).1).mpr (hsF rfl)))
        | false =>
          rcases exclR_false bf ob os c false hr with ⟨a, rfl, hd⟩ | ⟨a, ts, rfl, hd, ht⟩
          · -- decided by the base operand
            have ha : a = false := by
              cases a with
              | false => rfl
              | true =>
                have := nfb c false rfl
                rcases hd with hd | hd
                · rw [this] at hd; exact absurd hd (by simp)
                · exact absurd hd (by simp)
            subst ha
            have hrel := sound_false_rel sys I V _ c ihb
            cases c with
            | false =>
              refine (sound_false_noflag sys I).mpr ?_
              intro hp
              cases hp with
              | diff hb _ => exact (sound_false_noflag sys I).mp ihb hb
            | true =>
              refine (sound_false_flag sys I).mpr ?_
              intro hp
              cases hp with
              | diff hb _ => exact hrel hb
          · -- decided by the subtracted operand: untainted only if it is `true`
            have ha : a = true := by
              cases a with
              | true => rfl
              | false => simp at ht
            subst ha
            simp at ht
            subst ht
            have hcf := nfs c false rfl
            subst hcf
            have hsD : HoldsD sys I [] s := hsT false rfl
            refine (sound_false_noflag sys I).mpr ?_
            intro hp
            cases hp with
            | diff _ hn => exact ((hc s).2.mp hn) hsD


/-- **Main theorem.** Every outcome of every evaluation — any schedule, any depth limit, any path —
is sound for a coherent (stratified) interpretation. -/
theorem eval_sound (hc : Coherent sys I) (hf : ∀ n b, facts n b → SoundFact sys I n b)
    {maxDepth d : Nat} {V : List N} {e : Expr N} {o : Out}
    (h : Eval sys facts maxDepth d V e o) : Sound sys I V e o := by
  induction h with
  | abort => trivial
  | lit v =>
    cases v with
    | tt => exact (sound_true sys I).mpr (.lit rfl)
    | ff => exact (sound_false_noflag sys I).mpr (fun hp => by cases hp with | lit hv => exact hv rfl)
    | err => trivial
    | errSw => exact sound_taint sys I
  | node_hit dispatch n b hfact =>
    cases b with
    | true => exact (sound_true sys I).mpr (.node ((hf n true hfact).1 rfl))
    | false =>
      refine (sound_false_noflag sys I).mpr ?_
      intro hp
      cases hp with
      | node hn => exact (hf n false hfact).2 rfl hn
  | node_depth => trivial
  | node_cycle dispatch n _ hmem =>
    refine (sound_false_flag sys I).mpr ?_
    intro hp
    cases hp with
    | node hn => exact (lfp_unfold sys leafP I.negP _ n hn).1 hmem
  | @node_eval d V dispatch n o _ hnm hev ih =>
    cases o with
    | err k => trivial
    | ok a c t =>
      cases t with
      | true => exact sound_taint sys I
      | false =>
        cases a with
        | true =>
          have ih' := (sound_true sys I).mp ih
          exact (sound_true sys I).mpr (.node (lfp_closed sys leafD I.negD [] n List.not_mem_nil ih'))
        | false =>
          cases c with
          | false =>
            have ih' := (sound_false_noflag sys I).mp ih
            refine (sound_false_noflag sys I).mpr ?_
            intro hp
            cases hp with
            | node hn => exact ih' (lfp_unfold sys leafP I.negP [] n hn).2
          | true =>
            have ih' := (sound_false_flag sys I).mp ih
            refine (sound_false_flag sys I).mpr ?_
            intro hp
            cases hp with
            | node hn => exact ih' (lfp_path sys leafP I.negP V n hn)
  | @or d V es outs arr hlen _ hperm ih =>
    generalize hr : unionR arr = r
    cases r with
    | err k => trivial
    | ok a c t =>
      cases t with
      | true => exact sound_taint sys I
      | false =>
        cases a with
        | true =>
          have hm := unionGo_true arr none false false c false hr
          obtain ⟨i, hi, e⟩ := mem_of_perm_getElem hperm hm
          have hs := ih i (hlen ▸ hi) hi
          rw [e] at hs
          exact (sound_true sys I).mpr (.or (List.getElem_mem (hlen ▸ hi)) ((sound_true sys I).mp hs))
        | false =>
          obtain ⟨_, _, _, hall⟩ := unionGo_false arr none false false c false hr
          have key : ∀ i (h1 : i < es.length),
              ¬ HoldsP sys I V es[i] ∧ (c = false → ¬ HoldsP sys I [] es[i]) := by
            intro i h1
            have h2 : i < outs.length := hlen ▸ h1
            obtain ⟨c', t', eo, hcc, htt⟩ := hall _ (getElem_mem_arr hperm i h2)
            have ht' : t' = false := by cases t' with
              | false => rfl
              | true => exact absurd (htt rfl) (by simp)
            subst ht'
            have hs := ih i h1 h2
            rw [eo] at hs
            refine ⟨sound_false_rel sys I V _ c' hs, ?_⟩
            intro hcf
            have hc' : c' = false := by cases c' with
              | false => rfl
              | true => rw [hcf] at hcc; exact absurd (hcc rfl) (by simp)
            subst hc'
            exact (sound_false_noflag sys I).mp hs
          cases c with
          | false =>
            refine (sound_false_noflag sys I).mpr ?_
            intro hp
            cases hp with
            | or hmem he =>
              obtain ⟨i, hi, e⟩ := List.getElem_of_mem hmem
              exact (key i hi).2 rfl (e ▸ he)
          | true =>
            refine (sound_false_flag sys I).mpr ?_
            intro hp
            cases hp with
            | or hmem he =>
              obtain ⟨i, hi, e⟩ := List.getElem_of_mem hmem
              exact (key i hi).1 (e ▸ he)
  | @and d V es outs arr hlen hev hperm ih =>
    generalize hr : interR arr = r
    unfold interR at hr
    split at hr
    · subst hr; trivial
    · cases r with
      | err k => trivial
      | ok a c t =>
        cases t with
        | true => exact sound_taint sys I
        | false =>
          cases a with
          | true =>
            obtain ⟨_, _, _, hall⟩ := interGo_true arr none false c false hr
            refine (sound_true sys I).mpr (.and ?_)
            intro e hmem
            obtain ⟨i, hi, ee⟩ := List.getElem_of_mem hmem
            have h2 : i < outs.length := hlen ▸ hi
            obtain ⟨t', eo, htt⟩ := hall _ (getElem_mem_arr hperm i h2)
            have ht' : t' = false := by cases t' with
              | false => rfl
              | true => exact absurd (htt rfl) (by simp)
            subst ht'
            have hs := ih i hi h2
            rw [eo] at hs
            exact ee ▸ (sound_true sys I).mp hs
          | false =>
            obtain ⟨a, hm, hd⟩ := interGo_false arr none false c false hr
            obtain ⟨i, hi, eo⟩ := mem_of_perm_getElem hperm hm
            have h1 : i < es.length := hlen ▸ hi
            have hs := ih i h1 hi
            have hevi := hev i h1 hi
            rw [eo] at hs hevi
            have ha : a = false := by
              cases a with
              | false => rfl
              | true =>
                have := eval_true_noflag sys hevi c false rfl
                rcases hd with hd | hd
                · rw [this] at hd; exact absurd hd (by simp)
                · exact absurd hd (by simp)
            subst ha
            have hrel := sound_false_rel sys I V _ c hs
            cases c with
            | false =>
              refine (sound_false_noflag sys I).mpr ?_
              intro hp
              cases hp with
              | and hall => exact (sound_false_noflag sys I).mp hs (hall _ (List.getElem_mem h1))
            | true =>
              refine (sound_false_flag sys I).mpr ?_
              intro hp
              cases hp with
              | and hall => exact hrel (hall _ (List.getElem_mem h1))
  | @diff d V b s ob os bf hevb hevs ihb ihs =>
    refine diff_sound sys I hc bf ihb (eval_true_noflag sys hevb) (eval_true_noflag sys hevs) ?_ ?_
    · intro c ho; subst ho; exact (sound_true sys I).mp ihs
    · intro ho; subst ho; exact (sound_false_noflag sys I).mp ihs
  | @diff_ideal d V b s ob os bf hevb hevs ihb ihs =>
    refine diff_sound sys I hc bf ihb (eval_true_noflag sys hevb) ?_ ?_ ?_
    · intro c t ho
      cases os with
      | err k => simp [clearFlag] at ho
      | ok a' c' t' =>
        cases a' with
        | true => simp [clearFlag] at ho; obtain ⟨rfl, rfl⟩ := ho; exact eval_true_noflag sys hevs _ _ rfl
        | false => simp [clearFlag] at ho
    · intro c ho
      cases os with
      | err k => simp [clearFlag] at ho
      | ok a' c' t' =>
        cases a' with
        | true =>
          simp [clearFlag] at ho; obtain ⟨rfl, rfl⟩ := ho
          exact (sound_true sys I).mp ihs
        | false => simp [clearFlag] at ho
    · intro ho
      cases os with
      | err k => simp [clearFlag] at ho
      | ok a' c' t' =>
        cases a' with
        | true => simp [clearFlag] at ho
        | false =>
          simp [clearFlag] at ho; subst ho
          exact sound_false_rel sys I [] s c' ihs
end

/-- Top level (`V = []`, what `Check` returns): an untainted decision is the semantics. -/
theorem eval_root_sound {N : Type} (sys : Sys N) (I : Interp N) {facts : Facts N} (hc : Coherent sys I)
    (hf : ∀ n b, facts n b → SoundFact sys I n b)
    {maxDepth : Nat} {e : Expr N} {a c : Bool} (h : Eval sys facts maxDepth 0 [] e (.ok a c false)) :
    (a = true → HoldsD sys I [] e) ∧ (a = false → ¬ HoldsP sys I [] e) := by
  have hs := eval_sound sys I hc hf h
  constructor
  · intro ha; subst ha; exact (sound_true sys I).mp hs
  · intro ha; subst ha; exact sound_false_rel sys I [] e c hs

end OpenFGAVerif.Dfs
