/-
Termination of the path-cutting depth-first evaluation (`Model.Dfs`), with the *real* bound (C20 a).

`Dfs.evalF` is total because it carries fuel; fuel exhaustion shows up as `.err .abort`.  This file proves
that the fuel is not an artefact of the model:

* `Path`: the node steps along one root-to-leaf path of an evaluation, with exactly the side conditions of
  `Eval.node_eval` (depth test, path-set test).  `path_dispatch_bounded`: the number of *dispatching* node
  steps on a path is `< maxDepth - d` (the depth limit of `ResolveCheck`); `path_length_bounded`: for a rule
  system whose non-dispatching edges (computed usersets) strictly decrease a rank `≤ R`
  (`Ranked`, the consequence of model validation "no computed-userset-only cycle"), every path has at most
  `(maxDepth - d) * (R + 1) + k` node steps.
* `evalF_no_fuel_abort`: with `fuel ≥ h + (H + 1) * (k + (maxDepth - d) * (R + 1))` (`H` = height bound of the
  rules, `h` = height of the expression) `evalF` never returns `.err .abort`, for every schedule and cache;
  `evalF_fuel_stable`: the result does not depend on the fuel beyond that bound.
-/
import OpenFGAVerif.Model.Dfs

namespace OpenFGAVerif.DfsTermination
open OpenFGAVerif.BoolSys OpenFGAVerif.Dfs

variable {N : Type}

/-! ### height of expressions, non-dispatching nodes -/

mutual
def height : Expr N → Nat
  | .lit _ => 1
  | .node _ _ => 1
  | .or es => heightL es + 1
  | .and es => heightL es + 1
  | .diff b s => max (height b) (height s) + 1
def heightL : List (Expr N) → Nat
  | [] => 0
  | e :: es => max (height e) (heightL es)
end

theorem height_pos (e : Expr N) : 1 ≤ height e := by
  cases e <;> simp [height]

theorem height_le_heightL {es : List (Expr N)} {e : Expr N} (h : e ∈ es) : height e ≤ heightL es := by
  induction es with
  | nil => cases h
  | cons a as ih =>
    simp only [heightL]
    rcases List.mem_cons.mp h with rfl | h'
    · exact Nat.le_max_left _ _
    · exact Nat.le_trans (ih h') (Nat.le_max_right _ _)

/-- `NDBelow rank k e`: every non-dispatching node of `e` has rank `< k` -/
inductive NDBelow (rank : N → Nat) (k : Nat) : Expr N → Prop
  | lit (v : Leaf) : NDBelow rank k (.lit v)
  | nodeD (n : N) : NDBelow rank k (.node true n)
  | nodeN (n : N) : rank n < k → NDBelow rank k (.node false n)
  | or (es : List (Expr N)) : (∀ e ∈ es, NDBelow rank k e) → NDBelow rank k (.or es)
  | and (es : List (Expr N)) : (∀ e ∈ es, NDBelow rank k e) → NDBelow rank k (.and es)
  | diff (b s : Expr N) : NDBelow rank k b → NDBelow rank k s → NDBelow rank k (.diff b s)

theorem NDBelow.mono {rank : N → Nat} {k k' : Nat} (hk : k ≤ k') {e : Expr N} (h : NDBelow rank k e) :
    NDBelow rank k' e := by
  induction h with
  | lit v => exact .lit v
  | nodeD n => exact .nodeD n
  | nodeN n hn => exact .nodeN n (Nat.lt_of_lt_of_le hn hk)
  | or es _ ih => exact .or es ih
  | and es _ ih => exact .and es ih
  | diff b s _ _ ihb ihs => exact .diff b s ihb ihs

/-- non-dispatching edges strictly decrease a rank bounded by `R` (no computed-userset-only cycle) -/
structure Ranked (sys : Sys N) (rank : N → Nat) (R : Nat) : Prop where
  bound : ∀ n, rank n ≤ R
  decr : ∀ n, NDBelow rank (rank n) (sys.rule n)

/-- every rule has height at most `H` -/
def RuleHeight (sys : Sys N) (H : Nat) : Prop := ∀ n, height (sys.rule n) ≤ H

/-! ### paths of an evaluation -/

/-- `Path sys maxDepth d V e π`: `π` lists the node steps (dispatch flag, node) that one path of the
evaluation of `e` at depth `d` with path set `V` goes through — each step under exactly the side conditions
of `Eval.node_eval` (`ResolveCheck`: depth test, then `hasCycle`). -/
inductive Path (sys : Sys N) (maxDepth : Nat) : Nat → List N → Expr N → List (Bool × N) → Prop
  | stop {d V e} : Path sys maxDepth d V e []
  | node {d V} (dispatch : Bool) (n : N) (π : List (Bool × N)) :
      (if dispatch then d + 1 else d) ≠ maxDepth → n ∉ V →
      Path sys maxDepth (if dispatch then d + 1 else d) (n :: V) (sys.rule n) π →
      Path sys maxDepth d V (.node dispatch n) ((dispatch, n) :: π)
  | or {d V} (es : List (Expr N)) (e : Expr N) (π : List (Bool × N)) :
      e ∈ es → Path sys maxDepth d V e π → Path sys maxDepth d V (.or es) π
  | and {d V} (es : List (Expr N)) (e : Expr N) (π : List (Bool × N)) :
      e ∈ es → Path sys maxDepth d V e π → Path sys maxDepth d V (.and es) π
  | diffBase {d V} (b s : Expr N) (π : List (Bool × N)) :
      Path sys maxDepth d V b π → Path sys maxDepth d V (.diff b s) π
  | diffSub {d V} (b s : Expr N) (π : List (Bool × N)) :
      Path sys maxDepth d V s π → Path sys maxDepth d V (.diff b s) π

def dispatches (π : List (Bool × N)) : Nat := (π.filter (·.1)).length

/-- **Depth bound.** On every path the number of dispatching steps stays below the depth limit. -/
theorem path_dispatch_bounded (sys : Sys N) (maxDepth : Nat) {d : Nat} {V : List N} {e : Expr N}
    {π : List (Bool × N)} (h : Path sys maxDepth d V e π) :
    d < maxDepth → d + dispatches π < maxDepth := by
  induction h with
  | stop => intro hd; simpa [dispatches] using hd
  | @node d V dispatch n π hne _ _ ih =>
    intro hd
    cases dispatch with
    | true =>
      simp only [if_true] at hne ih
      have hd' : d + 1 < maxDepth := by omega
      have := ih hd'
      simp only [dispatches, List.filter_cons, if_true, List.length_cons] at this ⊢
      omega
    | false =>
      simp only [Bool.false_eq_true, if_false] at hne ih
      have := ih hd
      simpa [dispatches, List.filter_cons] using this
  | or _ _ _ _ _ ih => exact ih
  | and _ _ _ _ _ ih => exact ih
  | diffBase _ _ _ _ ih => exact ih
  | diffSub _ _ _ _ ih => exact ih

/-- **Length bound.** With non-dispatching edges ranked (`Ranked`), a path through an expression whose
non-dispatching nodes have rank `< k` has at most `k + (maxDepth - d - 1) * (R + 1)` steps … -/
theorem path_length_bounded (sys : Sys N) (maxDepth : Nat) (rank : N → Nat) (R : Nat) (hr : Ranked sys rank R)
    {d : Nat} {V : List N} {e : Expr N} {π : List (Bool × N)} (h : Path sys maxDepth d V e π) :
    ∀ k, d < maxDepth → NDBelow rank k e → π.length ≤ k + (maxDepth - d - 1) * (R + 1) := by
  induction h with
  | stop => intro k _ _; simp
  | @node d V dispatch n π hne _ _ ih =>
    intro k hd hk
    cases dispatch with
    | true =>
      simp only [if_true] at hne ih
      have hd' : d + 1 < maxDepth := by omega
      have := ih (rank n) hd' (hr.decr n)
      have hb := hr.bound n
      simp only [List.length_cons]
      have e1 : maxDepth - d - 1 = (maxDepth - (d + 1) - 1) + 1 := by omega
      rw [e1, Nat.add_mul]
      omega
    | false =>
      simp only [Bool.false_eq_true, if_false] at hne ih
      cases hk with
      | nodeN _ hlt =>
        have := ih (rank n) hd (hr.decr n)
        simp only [List.length_cons]
        omega
  | or es e π hm _ ih => intro k hd hk; cases hk with | or _ hall => exact ih k hd (hall e hm)
  | and es e π hm _ ih => intro k hd hk; cases hk with | and _ hall => exact ih k hd (hall e hm)
  | diffBase b s π _ ih => intro k hd hk; cases hk with | diff _ _ hb _ => exact ih k hd hb
  | diffSub b s π _ ih => intro k hd hk; cases hk with | diff _ _ _ hs => exact ih k hd hs

/-- … in particular at most `maxDepth * (R + 1)` from the root. -/
theorem path_length_root (sys : Sys N) (maxDepth : Nat) (rank : N → Nat) (R : Nat) (hr : Ranked sys rank R)
    (root : N) {π : List (Bool × N)} (hm : 0 < maxDepth)
    (h : Path sys maxDepth 0 [] (.node false root) π) : π.length ≤ maxDepth * (R + 1) := by
  have := path_length_bounded sys maxDepth rank R hr h (rank root + 1) hm (.nodeN root (Nat.lt_succ_self _))
  have hb := hr.bound root
  have e1 : maxDepth = (maxDepth - 0 - 1) + 1 := by omega
  rw [e1, Nat.add_mul]
  omega

/-! ### the reducers do not invent `abort` -/

def NoAbort (o : Out) : Prop := o ≠ .err .abort

theorem unionGo_noAbort (arr : List Out) (fe : Option ErrKind) (cyc tnt : Bool)
    (h : ∀ o ∈ arr, NoAbort o) (hfe : fe ≠ some .abort) : NoAbort (unionGo arr fe cyc tnt) := by
  induction arr generalizing fe cyc tnt with
  | nil => cases fe with
    | none => simp [unionGo, NoAbort]
    | some e => simp only [unionGo, NoAbort]; intro c; apply hfe; cases c; rfl
  | cons o rest ih =>
    have hrest : ∀ o ∈ rest, NoAbort o := fun o ho => h o (List.mem_cons_of_mem _ ho)
    cases o with
    | err e =>
      simp only [unionGo]
      apply ih _ _ _ hrest
      intro c; cases c
      exact h (.err .abort) (List.mem_cons_self ..) rfl
    | ok a c t =>
      simp only [unionGo]
      split
      · simp [NoAbort]
      · exact ih _ _ _ hrest hfe

theorem interGo_noAbort (arr : List Out) (fe : Option ErrKind) (tnt : Bool)
    (h : ∀ o ∈ arr, NoAbort o) (hfe : fe ≠ some .abort) : NoAbort (interGo arr fe tnt) := by
  induction arr generalizing fe tnt with
  | nil => cases fe with
    | none => simp [interGo, NoAbort]
    | some e => simp only [interGo, NoAbort]; intro c; apply hfe; cases c; rfl
  | cons o rest ih =>
    have hrest : ∀ o ∈ rest, NoAbort o := fun o ho => h o (List.mem_cons_of_mem _ ho)
    cases o with
    | err e =>
      simp only [interGo]
      apply ih _ _ hrest
      cases fe with
      | none =>
        simp only [Option.orElse]
        intro c; cases c
        exact h (.err .abort) (List.mem_cons_self ..) rfl
      | some e' => simpa [Option.orElse] using hfe
    | ok a c t =>
      simp only [interGo]
      split
      · simp [NoAbort]
      · exact ih _ _ hrest hfe

theorem unionR_noAbort (arr : List Out) (h : ∀ o ∈ arr, NoAbort o) : NoAbort (unionR arr) :=
  unionGo_noAbort arr none false false h (by simp)

theorem interR_noAbort (arr : List Out) (h : ∀ o ∈ arr, NoAbort o) : NoAbort (interR arr) := by
  unfold interR
  split
  · simp [NoAbort]
  · exact interGo_noAbort arr none false h (by simp)

theorem exclR_noAbort (bf : Bool) (b s : Out) (hb : NoAbort b) (hs : NoAbort s) : NoAbort (exclR bf b s) := by
  cases b with
  | err eb =>
    have h1 : eb ≠ .abort := fun c => hb (by rw [c])
    cases s with
    | err es =>
      cases bf <;> simp [exclR, exclBase, exclSub, NoAbort, h1]
    | ok a c t =>
      cases a <;> cases c <;> cases t <;> cases bf <;> simp [exclR, exclBase, exclSub, NoAbort, h1]
  | ok a c t =>
    cases s with
    | err es =>
      have h2 : es ≠ .abort := fun c => hs (by rw [c])
      cases a <;> cases c <;> cases t <;> cases bf <;> simp [exclR, exclBase, exclSub, NoAbort, h2]
    | ok a' c' t' =>
      cases a <;> cases c <;> cases t <;> cases a' <;> cases c' <;> cases t' <;> cases bf <;> simp [exclR, exclBase, exclSub, NoAbort]

theorem clearFlag_noAbort (o : Out) (h : NoAbort o) : NoAbort (clearFlag o) := by
  cases o with
  | err e => simpa [clearFlag] using h
  | ok a c t => cases a <;> simp [clearFlag, NoAbort]

theorem arrange_mem (sc : Sched) (l : List Out) (o : Out) (h : o ∈ arrange sc l) : o ∈ l := by
  unfold arrange at h
  split at h
  · exact List.mem_reverse.mp h
  · exact h

/-! ### enough fuel ⇒ no fuel abort -/

/-- the fuel that suffices at depth `d` for an expression of height `h` whose non-dispatching nodes have
rank `< k` -/
def fuelBound (maxDepth H R d k h : Nat) : Nat := h + (H + 1) * (k + (maxDepth - d) * (R + 1))

/-- **Termination with the real bound.** For a ranked rule system with rules of height `≤ H`, every schedule
and every cache: `evalF` with at least `fuelBound` fuel never returns the fuel-exhaustion outcome. -/
theorem evalF_no_fuel_abort [DecidableEq N] (sys : Sys N) (maxDepth : Nat) (sc : Sched) (cache : N → Option Bool)
    (rank : N → Nat) (R H : Nat) (hr : Ranked sys rank R) (hH : RuleHeight sys H) :
    ∀ (fuel d : Nat) (V : List N) (e : Expr N) (k : Nat), d < maxDepth → NDBelow rank k e →
      fuelBound maxDepth H R d k (height e) ≤ fuel → NoAbort (evalF sys maxDepth sc cache fuel d V e) := by
  intro fuel
  induction fuel with
  | zero =>
    intro d V e k _ _ hf
    have := height_pos e
    simp only [fuelBound] at hf
    omega
  | succ fuel ih =>
    intro d V e k hd hk hf
    cases e with
    | lit v => cases v <;> simp [evalF, leafOut, NoAbort]
    | node dispatch n =>
      cases dispatch with
      | true =>
        have hstep : evalF sys maxDepth sc cache (fuel + 1) d V (.node true n) =
            (match cache n with
             | some b => .ok b false false
             | none =>
               if d + 1 = maxDepth then .err .depth
               else if n ∈ V then .ok false true false
               else evalF sys maxDepth sc cache fuel (d + 1) (n :: V) (sys.rule n)) := by
          rfl
        rw [hstep]
        cases cache n with
        | some b => simp [NoAbort]
        | none =>
          simp only []
          by_cases h1 : d + 1 = maxDepth
          · simp [h1, NoAbort]
          · by_cases h2 : n ∈ V
            · simp [h1, h2, NoAbort]
            · rw [if_neg h1, if_neg h2]
              have hd' : d + 1 < maxDepth := by omega
              apply ih (d + 1) (n :: V) (sys.rule n) (rank n) hd' (hr.decr n)
              have hb := hr.bound n
              have hh := hH n
              simp only [fuelBound, height] at hf ⊢
              have e2 : (maxDepth - d) * (R + 1) = (maxDepth - (d + 1)) * (R + 1) + (R + 1) := by
                have e1 : maxDepth - d = (maxDepth - (d + 1)) + 1 := by omega
                rw [e1, Nat.add_mul, Nat.one_mul]
              rw [e2] at hf
              have key : (H + 1) * (rank n + (maxDepth - (d + 1)) * (R + 1)) + (H + 1) ≤
                     (H + 1) * (k + ((maxDepth - (d + 1)) * (R + 1) + (R + 1))) := by
                rw [← Nat.mul_succ]
                apply Nat.mul_le_mul_left
                omega
              generalize (H + 1) * (rank n + (maxDepth - (d + 1)) * (R + 1)) = P2 at key ⊢
              generalize (H + 1) * (k + ((maxDepth - (d + 1)) * (R + 1) + (R + 1))) = P1 at key hf
              omega
      | false =>
        have hstep : evalF sys maxDepth sc cache (fuel + 1) d V (.node false n) =
            (if d = maxDepth then .err .depth
             else if n ∈ V then .ok false true false
             else evalF sys maxDepth sc cache fuel d (n :: V) (sys.rule n)) := by
          rfl
        rw [hstep]
        by_cases h1 : d = maxDepth
        · simp [h1, NoAbort]
        · by_cases h2 : n ∈ V
          · simp [h1, h2, NoAbort]
          · rw [if_neg h1, if_neg h2]
            cases hk with
            | nodeN _ hlt =>
              apply ih d (n :: V) (sys.rule n) (rank n) hd (hr.decr n)
              have hh := hH n
              simp only [fuelBound, height] at hf ⊢
              have key : (H + 1) * (rank n + (maxDepth - d) * (R + 1)) + (H + 1) ≤
                     (H + 1) * (k + (maxDepth - d) * (R + 1)) := by
                rw [← Nat.mul_succ]
                apply Nat.mul_le_mul_left
                omega
              generalize (H + 1) * (rank n + (maxDepth - d) * (R + 1)) = P2 at key ⊢
              generalize (H + 1) * (k + (maxDepth - d) * (R + 1)) = P1 at key hf
              omega
    | or es =>
      simp only [evalF]
      apply unionR_noAbort
      intro o ho
      obtain ⟨e, he, rfl⟩ := List.mem_map.mp (arrange_mem sc _ o ho)
      cases hk with
      | or _ hall =>
        apply ih d V e k hd (hall e he)
        have := height_le_heightL he
        simp only [fuelBound, height] at hf ⊢
        omega
    | and es =>
      simp only [evalF]
      apply interR_noAbort
      intro o ho
      obtain ⟨e, he, rfl⟩ := List.mem_map.mp (arrange_mem sc _ o ho)
      cases hk with
      | and _ hall =>
        apply ih d V e k hd (hall e he)
        have := height_le_heightL he
        simp only [fuelBound, height] at hf ⊢
        omega
    | diff b s =>
      cases hk with
      | diff _ _ hb hs =>
        have fb : fuelBound maxDepth H R d k (height b) ≤ fuel := by
          simp only [fuelBound, height] at hf ⊢
          have := Nat.le_max_left (height b) (height s)
          omega
        have fs : fuelBound maxDepth H R d k (height s) ≤ fuel := by
          simp only [fuelBound, height] at hf ⊢
          have := Nat.le_max_right (height b) (height s)
          omega
        simp only [evalF]
        split
        · exact exclR_noAbort _ _ _ (ih d V b k hd hb fb) (clearFlag_noAbort _ (ih d [] s k hd hs fs))
        · exact exclR_noAbort _ _ _ (ih d V b k hd hb fb) (ih d V s k hd hs fs)


/-- **Fuel independence.** Beyond the bound the result does not depend on the fuel at all: the fuel of the
executable model is not observable. -/
theorem evalF_fuel_stable [DecidableEq N] (sys : Sys N) (maxDepth : Nat) (sc : Sched) (cache : N → Option Bool)
    (rank : N → Nat) (R H : Nat) (hr : Ranked sys rank R) (hH : RuleHeight sys H) :
    ∀ (fuel d : Nat) (V : List N) (e : Expr N) (k : Nat), d < maxDepth → NDBelow rank k e →
      fuelBound maxDepth H R d k (height e) ≤ fuel →
      evalF sys maxDepth sc cache (fuel + 1) d V e = evalF sys maxDepth sc cache fuel d V e := by
  intro fuel
  induction fuel with
  | zero =>
    intro d V e k _ _ hf
    have := height_pos e
    simp only [fuelBound] at hf
    omega
  | succ fuel ih =>
    intro d V e k hd hk hf
    cases e with
    | lit v => rfl
    | node dispatch n =>
      cases dispatch with
      | true =>
        have hstep : ∀ f, evalF sys maxDepth sc cache (f + 1) d V (.node true n) =
            (match cache n with
             | some b => .ok b false false
             | none =>
               if d + 1 = maxDepth then .err .depth
               else if n ∈ V then .ok false true false
               else evalF sys maxDepth sc cache f (d + 1) (n :: V) (sys.rule n)) := fun _ => rfl
        rw [hstep (fuel + 1), hstep fuel]
        cases cache n with
        | some b => rfl
        | none =>
          simp only []
          by_cases h1 : d + 1 = maxDepth
          · simp [h1]
          · by_cases h2 : n ∈ V
            · simp [h1, h2]
            · rw [if_neg h1, if_neg h2, if_neg h1, if_neg h2]
              have hd' : d + 1 < maxDepth := by omega
              apply ih (d + 1) (n :: V) (sys.rule n) (rank n) hd' (hr.decr n)
              have hb := hr.bound n
              have hh := hH n
              simp only [fuelBound, height] at hf ⊢
              have e2 : (maxDepth - d) * (R + 1) = (maxDepth - (d + 1)) * (R + 1) + (R + 1) := by
                have e1 : maxDepth - d = (maxDepth - (d + 1)) + 1 := by omega
                rw [e1, Nat.add_mul, Nat.one_mul]
              rw [e2] at hf
              have key : (H + 1) * (rank n + (maxDepth - (d + 1)) * (R + 1)) + (H + 1) ≤
                     (H + 1) * (k + ((maxDepth - (d + 1)) * (R + 1) + (R + 1))) := by
                rw [← Nat.mul_succ]
                apply Nat.mul_le_mul_left
                omega
              generalize (H + 1) * (rank n + (maxDepth - (d + 1)) * (R + 1)) = P2 at key ⊢
              generalize (H + 1) * (k + ((maxDepth - (d + 1)) * (R + 1) + (R + 1))) = P1 at key hf
              omega
      | false =>
        have hstep : ∀ f, evalF sys maxDepth sc cache (f + 1) d V (.node false n) =
            (if d = maxDepth then .err .depth
             else if n ∈ V then .ok false true false
             else evalF sys maxDepth sc cache f d (n :: V) (sys.rule n)) := fun _ => rfl
        rw [hstep (fuel + 1), hstep fuel]
        by_cases h1 : d = maxDepth
        · simp [h1]
        · by_cases h2 : n ∈ V
          · simp [h1, h2]
          · rw [if_neg h1, if_neg h2, if_neg h1, if_neg h2]
            cases hk with
            | nodeN _ hlt =>
              apply ih d (n :: V) (sys.rule n) (rank n) hd (hr.decr n)
              have hh := hH n
              simp only [fuelBound, height] at hf ⊢
              have key : (H + 1) * (rank n + (maxDepth - d) * (R + 1)) + (H + 1) ≤
                     (H + 1) * (k + (maxDepth - d) * (R + 1)) := by
                rw [← Nat.mul_succ]
                apply Nat.mul_le_mul_left
                omega
              generalize (H + 1) * (rank n + (maxDepth - d) * (R + 1)) = P2 at key ⊢
              generalize (H + 1) * (k + (maxDepth - d) * (R + 1)) = P1 at key hf
              omega
    | or es =>
      cases hk with
      | or _ hall =>
        have : es.map (evalF sys maxDepth sc cache (fuel + 1) d V) = es.map (evalF sys maxDepth sc cache fuel d V) := by
          apply List.map_congr_left
          intro e he
          apply ih d V e k hd (hall e he)
          have := height_le_heightL he
          simp only [fuelBound, height] at hf ⊢
          omega
        have hstep : ∀ f, evalF sys maxDepth sc cache (f + 1) d V (.or es) =
            unionR (arrange sc (es.map (evalF sys maxDepth sc cache f d V))) := fun _ => rfl
        rw [hstep (fuel + 1), hstep fuel, this]
    | and es =>
      cases hk with
      | and _ hall =>
        have : es.map (evalF sys maxDepth sc cache (fuel + 1) d V) = es.map (evalF sys maxDepth sc cache fuel d V) := by
          apply List.map_congr_left
          intro e he
          apply ih d V e k hd (hall e he)
          have := height_le_heightL he
          simp only [fuelBound, height] at hf ⊢
          omega
        have hstep : ∀ f, evalF sys maxDepth sc cache (f + 1) d V (.and es) =
            interR (arrange sc (es.map (evalF sys maxDepth sc cache f d V))) := fun _ => rfl
        rw [hstep (fuel + 1), hstep fuel, this]
    | diff b s =>
      cases hk with
      | diff _ _ hb hs =>
        have fb : fuelBound maxDepth H R d k (height b) ≤ fuel := by
          simp only [fuelBound, height] at hf ⊢
          have := Nat.le_max_left (height b) (height s)
          omega
        have fs : fuelBound maxDepth H R d k (height s) ≤ fuel := by
          simp only [fuelBound, height] at hf ⊢
          have := Nat.le_max_right (height b) (height s)
          omega
        have hstep : ∀ f, evalF sys maxDepth sc cache (f + 1) d V (.diff b s) =
            (if sc.ideal then
               exclR sc.baseFirst (evalF sys maxDepth sc cache f d V b) (clearFlag (evalF sys maxDepth sc cache f d [] s))
             else exclR sc.baseFirst (evalF sys maxDepth sc cache f d V b) (evalF sys maxDepth sc cache f d V s)) :=
          fun _ => rfl
        rw [hstep (fuel + 1), hstep fuel, ih d V b k hd hb fb, ih d V s k hd hs fs, ih d [] s k hd hs fs]

/-- from the root (`ResolveCheck` of the request at depth 0): `1 + (H+1)·(R+1)·(maxDepth+1)` fuel suffices -/
theorem evalF_root_no_fuel_abort [DecidableEq N] (sys : Sys N) (maxDepth : Nat) (sc : Sched) (cache : N → Option Bool)
    (rank : N → Nat) (R H : Nat) (hr : Ranked sys rank R) (hH : RuleHeight sys H) (hm : 0 < maxDepth)
    (root : N) (fuel : Nat) (hf : 1 + (H + 1) * ((R + 1) * (maxDepth + 1)) ≤ fuel) :
    NoAbort (evalF sys maxDepth sc cache fuel 0 [] (.node false root)) := by
  apply evalF_no_fuel_abort sys maxDepth sc cache rank R H hr hH fuel 0 [] _ (rank root + 1) hm
    (.nodeN root (Nat.lt_succ_self _))
  have hb := hr.bound root
  simp only [fuelBound, height, Nat.sub_zero]
  have e : (R + 1) * (maxDepth + 1) = maxDepth * (R + 1) + (R + 1) := by
    rw [Nat.mul_succ, Nat.mul_comm]
  have key : (H + 1) * (rank root + 1 + maxDepth * (R + 1)) ≤ (H + 1) * ((R + 1) * (maxDepth + 1)) := by
    apply Nat.mul_le_mul_left
    rw [e]
    omega
  generalize (H + 1) * (rank root + 1 + maxDepth * (R + 1)) = P2 at key ⊢
  generalize (H + 1) * ((R + 1) * (maxDepth + 1)) = P1 at key hf
  omega

end OpenFGAVerif.DfsTermination
