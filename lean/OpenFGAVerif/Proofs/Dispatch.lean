/-
C20 (b), second protocol: the dispatch pipeline of the default resolver (`Model.Dispatch`).  For every
interleaving of producer, processor, workers, consumer and environment, given the three source facts
(`trySend`, `cancelAfterLoop`, `deferCancel`) and `1 ≤ L`:

* `worker_not_blocked_forever` / `producer_not_blocked_forever`: a sender that cannot complete its send right
  now is waited on by a goroutine that *can* move (the consumer receives, or executes `cancel()` / the deferred
  `cancelFunc()`), and once the consumer is past `cancel()` every sender on `outcomes` can move outright;
* `progress`, `step_decreases`, `no_infinite_run`, `all_goroutines_finish`: no deadlock, every execution is
  finite, and it can only end with handler, producer, processor and all workers finished;
* `plain_send_leaks`: with a plain `outcomes <- x` instead of `TrySendThroughChannel` a worker and the processor
  are left blocked forever after the handler has returned (a goroutine leak) — reachable with two tuples and
  limit 1 when the deadline strikes.
-/
import OpenFGAVerif.Model.Dispatch

namespace OpenFGAVerif.DispatchProofs
open OpenFGAVerif.Model.Dispatch

structure Inv (c : Cfg) (s : St) : Prop where
  closed : s.dClosed = s.pDone
  qdone : s.qPhase = .done → s.oClosed = true ∧ s.wComp = 0 ∧ s.wSend = 0
  qhold : s.qPhase ≠ .loop → s.qHold = false
  cq : c.cancelAfterLoop = true → (s.cPhase = .cancelled ∨ s.cPhase = .waitP ∨ s.cPhase = .returned) → s.ctxQ = true
  cp : c.deferCancel = true → (s.cPhase = .waitP ∨ s.cPhase = .returned) → s.ctxP = true

theorem inv_init (c : Cfg) : Inv c (init c) := by
  constructor <;> simp [init]

theorem inv_istep {c : Cfg} {s s' : St} (hi : Inv c s) (h : IStep c s s') : Inv c s' := by
  obtain ⟨h1, h2, h3, h4, h5⟩ := hi
  cases h <;> (constructor <;> simp_all) <;>
    (try (intro hq; have := h2 hq; omega))

theorem inv_estep {c : Cfg} {s s' : St} (hi : Inv c s) (h : EStep s s') : Inv c s' := by
  obtain ⟨h1, h2, h3, h4, h5⟩ := hi
  cases h <;> (constructor <;> simp_all)

theorem inv_reachable {c : Cfg} {s : St} (h : Reachable c s) : Inv c s := by
  induction h with
  | init => exact inv_init c
  | step _ hs ih =>
    rcases hs with hs | hs
    · exact inv_istep ih hs
    · exact inv_estep ih hs

/-- a step of the consumer is enabled unless it waits for the producer or has returned -/
theorem consumer_moves (c : Cfg) (s : St) (h : (s.cPhase = .loop ∧ (0 < s.oLen ∨ s.oClosed = true)) ∨ s.cPhase = .left ∨ s.cPhase = .cancelled) :
    ∃ s', IStep c s s' := by
  rcases h with ⟨hl, ho⟩ | hl | hl
  · by_cases hp : 0 < s.oLen
    · exact ⟨_, IStep.cRecvNext s hl hp⟩
    · rcases ho with ho | ho
      · exact absurd ho hp
      · exact ⟨_, IStep.cClosed s hl ho (by omega)⟩
  · exact ⟨_, IStep.cCancel s hl⟩
  · exact ⟨_, IStep.cDefer s hl⟩

/-- **No worker is blocked forever.** A worker at its send either completes it now, or the channel is full and
the consumer — still before its `cancel()` — is able to move (receive, or leave and cancel); after `cancel()`
the worker takes the cancellation branch of `TrySendThroughChannel`. -/
theorem worker_not_blocked_forever (c : Cfg) (ht : c.trySend = true) (hca : c.cancelAfterLoop = true)
    (hL : 1 ≤ c.L) {s : St} (hr : Reachable c s) (hw : 0 < s.wSend) :
    (∃ s', IStep c s s' ∧ s'.wSend = s.wSend - 1) ∨
    ((s.cPhase = .loop ∨ s.cPhase = .left) ∧ 0 < s.oLen ∧ ∃ s', IStep c s s' ∧ (s'.oLen < s.oLen ∨ s'.cPhase ≠ s.cPhase)) := by
  have hi := inv_reachable hr
  by_cases ho : s.oLen < c.L
  · exact Or.inl ⟨_, IStep.wSend s hw ho, rfl⟩
  · by_cases hq : s.cancQ = true
    · exact Or.inl ⟨_, IStep.wDrop s ht hw hq, rfl⟩
    · have hpos : 0 < s.oLen := by omega
      cases hc : s.cPhase with
      | loop => exact Or.inr ⟨Or.inl rfl, hpos, _, IStep.cRecvNext s hc hpos, Or.inl (by simp; omega)⟩
      | left => exact Or.inr ⟨Or.inr rfl, hpos, _, IStep.cCancel s hc, Or.inr (by simp [hc])⟩
      | cancelled => exact absurd (by simp [St.cancQ, hi.cq hca (Or.inl hc)]) hq
      | waitP => exact absurd (by simp [St.cancQ, hi.cq hca (Or.inr (Or.inl hc))]) hq
      | returned => exact absurd (by simp [St.cancQ, hi.cq hca (Or.inr (Or.inr hc))]) hq

/-- once the consumer has executed `cancel()`, every sender on `outcomes` can move outright -/
theorem worker_free_after_cancel (c : Cfg) (ht : c.trySend = true) (hca : c.cancelAfterLoop = true) {s : St}
    (hr : Reachable c s) (hw : 0 < s.wSend)
    (hc : s.cPhase = .cancelled ∨ s.cPhase = .waitP ∨ s.cPhase = .returned) :
    ∃ s', IStep c s s' ∧ s'.wSend = s.wSend - 1 :=
  ⟨_, IStep.wDrop s ht hw (by simp [St.cancQ, (inv_reachable hr).cq hca hc]), rfl⟩

/-- **No deadlock.** -/
theorem progress (c : Cfg) (ht : c.trySend = true) (hca : c.cancelAfterLoop = true) (hdc : c.deferCancel = true)
    (hL : 1 ≤ c.L) {s : St} (hr : Reachable c s) (hf : ¬ Final s) : ∃ s', IStep c s s' := by
  have hi := inv_reachable hr
  by_cases hwc : 0 < s.wComp
  · exact ⟨_, IStep.wCompute s hwc⟩
  by_cases hws : 0 < s.wSend
  · rcases worker_not_blocked_forever c ht hca hL hr hws with ⟨s', h, _⟩ | ⟨_, _, s', h, _⟩ <;> exact ⟨s', h⟩
  have hwc0 : s.wComp = 0 := by omega
  have hws0 : s.wSend = 0 := by omega
  cases hh : s.qHold with
  | true => exact ⟨_, IStep.qSpawn s hh (by omega)⟩
  | false =>
    cases hq : s.qPhase with
    | loop =>
      by_cases hd : 0 < s.dLen
      · exact ⟨_, IStep.qRecv s hq hh hd⟩
      · exact ⟨_, IStep.qQuit s hq hh⟩
    | draining => exact ⟨_, IStep.qFinish s hq hwc0 hws0⟩
    | done =>
      obtain ⟨hoc, _, _⟩ := hi.qdone hq
      -- the consumer can move unless it waits for the producer or has returned
      cases hc : s.cPhase with
      | loop => exact consumer_moves c s (Or.inl ⟨hc, Or.inr hoc⟩)
      | left => exact consumer_moves c s (Or.inr (Or.inl hc))
      | cancelled => exact consumer_moves c s (Or.inr (Or.inr hc))
      | waitP =>
        cases hp : s.pDone with
        | true => exact ⟨_, IStep.cWaitDone s hc hp⟩
        | false =>
          by_cases hrem : 0 < s.pRem
          · exact ⟨_, IStep.pDrop s ht hp hrem (by simp [St.cancP, hi.cp hdc (Or.inl hc)])⟩
          · exact ⟨_, IStep.pClose s hp (by omega)⟩
      | returned =>
        cases hp : s.pDone with
        | true => exact absurd ⟨hc, hp, hq, hh, hwc0, hws0⟩ hf
        | false =>
          by_cases hrem : 0 < s.pRem
          · exact ⟨_, IStep.pDrop s ht hp hrem (by simp [St.cancP, hi.cp hdc (Or.inr hc)])⟩
          · exact ⟨_, IStep.pClose s hp (by omega)⟩

/-- **No producer is blocked forever**: if the producer cannot complete its send, another goroutine can move
(and by `no_infinite_run` that cannot go on for ever without unblocking it). -/
theorem producer_not_blocked_forever (c : Cfg) (ht : c.trySend = true) (hca : c.cancelAfterLoop = true)
    (hdc : c.deferCancel = true) (hL : 1 ≤ c.L) {s : St} (hr : Reachable c s)
    (hp : s.pDone = false) (hrem : 0 < s.pRem) :
    (∃ s', IStep c s s' ∧ s'.pRem = s.pRem - 1) ∨ (c.L ≤ s.dLen ∧ s.cancP = false ∧ ∃ s', IStep c s s' ∧ s'.pRem = s.pRem) := by
  by_cases hd : s.dLen < c.L
  · exact Or.inl ⟨_, IStep.pSend s hp hrem hd, rfl⟩
  · by_cases hcp : s.cancP = true
    · exact Or.inl ⟨_, IStep.pDrop s ht hp hrem hcp, rfl⟩
    · -- some other goroutine moves: reuse the case analysis of `progress` on a non-final state
      have hnf : ¬ Final s := fun hf => by simp [hf.2.1] at hp
      have hi := inv_reachable hr
      have hdpos : 0 < s.dLen := by omega
      have hcp' : s.cancP = false := by simpa using hcp
      -- find a step that is not the producer's
      by_cases hwc : 0 < s.wComp
      · exact Or.inr ⟨by omega, hcp', _, IStep.wCompute s hwc, rfl⟩
      by_cases hws : 0 < s.wSend
      · rcases worker_not_blocked_forever c ht hca hL hr hws with ⟨s', h, _⟩ | ⟨_, _, s', h, _⟩
        · refine Or.inr ⟨by omega, hcp', s', h, ?_⟩
          cases h <;> simp_all
        · refine Or.inr ⟨by omega, hcp', s', h, ?_⟩
          cases h <;> simp_all
      have hwc0 : s.wComp = 0 := by omega
      have hws0 : s.wSend = 0 := by omega
      cases hh : s.qHold with
      | true => exact Or.inr ⟨by omega, hcp', _, IStep.qSpawn s hh (by omega), rfl⟩
      | false =>
        cases hq : s.qPhase with
        | loop => exact Or.inr ⟨by omega, hcp', _, IStep.qRecv s hq hh hdpos, rfl⟩
        | draining => exact Or.inr ⟨by omega, hcp', _, IStep.qFinish s hq hwc0 hws0, rfl⟩
        | done =>
          obtain ⟨hoc, _, _⟩ := hi.qdone hq
          cases hc : s.cPhase with
          | loop =>
            by_cases hpo : 0 < s.oLen
            · exact Or.inr ⟨by omega, hcp', _, IStep.cRecvNext s hc hpo, rfl⟩
            · exact Or.inr ⟨by omega, hcp', _, IStep.cClosed s hc hoc (by omega), rfl⟩
          | left => exact Or.inr ⟨by omega, hcp', _, IStep.cCancel s hc, rfl⟩
          | cancelled => exact Or.inr ⟨by omega, hcp', _, IStep.cDefer s hc, rfl⟩
          | waitP => exact absurd (by simp [St.cancP, hi.cp hdc (Or.inl hc)]) hcp
          | returned => exact absurd (by simp [St.cancP, hi.cp hdc (Or.inr hc)]) hcp

/-- **Every step makes progress towards the end** (explicit measure). -/
theorem step_decreases (c : Cfg) {s s' : St} (h : Step c s s') : mu s' < mu s := by
  rcases h with h | h
  · cases h <;> simp_all [mu, qWeight, cWeight] <;>
      first
      | omega
      | (by_cases hb1 : s.qHold = true <;> by_cases hb2 : s.pDone = true <;> by_cases hb3 : s.parent = true <;>
            simp [hb1, hb2, hb3] <;> omega)
  · cases h with
    | parentCancel hp =>
      simp only [mu, hp]
      by_cases hb1 : s.qHold = true <;> by_cases hb2 : s.pDone = true <;> simp [hb1, hb2] <;> omega

theorem no_infinite_run (c : Cfg) (f : Nat → St) (hstep : ∀ i, Step c (f i) (f (i + 1))) : False := by
  have bound : ∀ i, mu (f i) + i ≤ mu (f 0) := by
    intro i
    induction i with
    | zero => simp
    | succ i ih =>
      have := step_decreases c (hstep i)
      omega
  have := bound (mu (f 0) + 1)
  omega

/-- **All goroutines finish**: an execution can stop only when the handler has returned and the producer, the
processor and every worker have finished. -/
theorem all_goroutines_finish (c : Cfg) (ht : c.trySend = true) (hca : c.cancelAfterLoop = true)
    (hdc : c.deferCancel = true) (hL : 1 ≤ c.L) {s : St} (hr : Reachable c s)
    (hstuck : ∀ s', ¬ IStep c s s') : Final s := by
  apply Classical.byContradiction
  intro hf
  obtain ⟨s', hs'⟩ := progress c ht hca hdc hL hr hf
  exact hstuck s' hs'

/-! ### `TrySendThroughChannel` is load-bearing -/

def plainCfg : Cfg := { m := 2, L := 1, trySend := false, cancelAfterLoop := true, deferCancel := true }

/-- the handler has returned, the producer is done; the processor waits for a worker that is blocked in
`outcomes <- x` on a full channel nobody reads any more -/
def leakState : St :=
  { pRem := 0, pDone := true, dLen := 0, dClosed := true, qHold := false, qPhase := .draining, wComp := 0, wSend := 1,
    oLen := 1, oClosed := false, cPhase := .returned, parent := true, ctxQ := true, ctxP := true }

theorem plain_send_leaks :
    Reachable plainCfg leakState ∧ ¬ Final leakState ∧ ∀ s', ¬ Step plainCfg leakState s' := by
  refine ⟨?_, ?_, ?_⟩
  · have r0 : Reachable plainCfg (init plainCfg) := .init
    have r1 := Reachable.step r0 (Or.inl (IStep.pSend _ (by decide) (by decide) (by decide)))
    have r2 := Reachable.step r1 (Or.inl (IStep.qRecv _ (by decide) (by decide) (by decide)))
    have r3 := Reachable.step r2 (Or.inl (IStep.qSpawn _ (by decide) (by decide)))
    have r4 := Reachable.step r3 (Or.inl (IStep.wCompute _ (by decide)))
    have r5 := Reachable.step r4 (Or.inl (IStep.wSend _ (by decide) (by decide)))
    have r6 := Reachable.step r5 (Or.inl (IStep.pSend _ (by decide) (by decide) (by decide)))
    have r7 := Reachable.step r6 (Or.inl (IStep.qRecv _ (by decide) (by decide) (by decide)))
    have r8 := Reachable.step r7 (Or.inl (IStep.qSpawn _ (by decide) (by decide)))
    have r9 := Reachable.step r8 (Or.inl (IStep.wCompute _ (by decide)))
    -- the deadline strikes: the consumer leaves, cancels, the producer closes, the handler returns
    have r10 := Reachable.step r9 (Or.inr (EStep.parentCancel _ (by decide)))
    have r11 := Reachable.step r10 (Or.inl (IStep.cCtxDone _ (by decide) (by decide)))
    have r12 := Reachable.step r11 (Or.inl (IStep.cCancel _ (by decide)))
    have r13 := Reachable.step r12 (Or.inl (IStep.cDefer _ (by decide)))
    have r14 := Reachable.step r13 (Or.inl (IStep.pClose _ (by decide) (by decide)))
    have r15 := Reachable.step r14 (Or.inl (IStep.cWaitDone _ (by decide) (by decide)))
    have r16 := Reachable.step r15 (Or.inl (IStep.qCtxDone _ (by decide) (by decide) (by decide)))
    exact r16
  · intro h; exact absurd h.2.2.1 (by decide)
  · intro s' h
    rcases h with h | h
    · cases h <;> simp_all [leakState, plainCfg, St.cancQ, St.cancP]
    · cases h; simp_all [leakState]

/-- with the source's `TrySendThroughChannel` the same configuration always winds down -/
example : ∀ s, Reachable { plainCfg with trySend := true } s → (∀ s', ¬ IStep { plainCfg with trySend := true } s s') → Final s :=
  fun _ hr hs => all_goroutines_finish _ rfl rfl rfl (by decide) hr hs

end OpenFGAVerif.DispatchProofs
