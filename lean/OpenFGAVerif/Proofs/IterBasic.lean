/-
Proofs about the simple iterator adapters of `Model.Iter`: Static, combined, Concat, the filters, Validate,
SkipTo.  (Merge: `Proofs/IterMerge.lean`, OrderedCombined: `Proofs/IterOC.lean`.)
-/
import OpenFGAVerif.Model.Iter

namespace OpenFGAVerif.Proofs.Iter
open OpenFGAVerif.Model.Iter

variable {α : Type}

/-! ### the stream of results -/

theorem take_append_replicate (l : List (Res α)) (n m : Nat) (h : n ≤ m) :
    (l ++ List.replicate m Res.done).take n = stream l n := by
  induction n generalizing l m with
  | zero => cases l <;> simp [stream]
  | succ n ih =>
    cases l with
    | nil =>
      obtain ⟨m', rfl⟩ : ∃ m', m = m' + 1 := ⟨m - 1, by omega⟩
      have := ih [] m' (by omega)
      simp only [List.nil_append] at this
      simp [stream, List.replicate_succ, this]
    | cons r l => simp [stream, ih l m (by omega)]

theorem stream_eq_take (l : List (Res α)) (n : Nat) :
    stream l n = (l ++ List.replicate n Res.done).take n :=
  (take_append_replicate l n n (Nat.le_refl n)).symm

@[simp] theorem stream_zero (l : List (Res α)) : stream l 0 = [] := by cases l <;> rfl
@[simp] theorem stream_cons (r : Res α) (l : List (Res α)) (n : Nat) : stream (r :: l) (n + 1) = r :: stream l n := rfl
@[simp] theorem stream_nil_succ (n : Nat) : stream ([] : List (Res α)) (n + 1) = Res.done :: stream [] n := rfl

theorem stream_length (l : List (Res α)) (n : Nat) : (stream l n).length = n := by
  induction n generalizing l with
  | zero => simp
  | succ n ih => cases l <;> simp [stream, ih]

@[simp] theorem nexts_zero {σ : Type} (m : Machine σ α) (s : σ) : m.nexts 0 s = [] := rfl
theorem nexts_succ {σ : Type} (m : Machine σ α) (s : σ) (n : Nat) :
    m.nexts (n + 1) s = (m.next s false).1 :: m.nexts n (m.next s false).2 := rfl

/-- `Head` is invisible: after a `Head` (live or cancelled) every later live call behaves as if it had not
happened (same result *and* same state afterwards) -/
def HeadTransparent {σ : Type} (m : Machine σ α) : Prop :=
  ∀ s c, m.next (m.head s c).2 false = m.next s false ∧ m.head (m.head s c).2 false = m.head s false

/-- a live `Head` announces exactly what the next live `Next` returns -/
def HeadAgrees {σ : Type} (m : Machine σ α) : Prop :=
  ∀ s, (m.head s false).1 = (m.next s false).1

theorem El.res_ne_done (e : El α) (v : Option α) : e.res ≠ Res.err .done v := by
  cases e <;> simp [El.res]

/-! ## StaticIterator -/

theorem static_drain (items : List α) (n : Nat) :
    Static.machine.nexts n ⟨items⟩ = stream (items.map Res.ok) n := by
  induction n generalizing items with
  | zero => simp
  | succ n ih =>
    cases items with
    | nil => simpa [nexts_succ, Static.machine, Static.next] using ih []
    | cons a r => simpa [nexts_succ, Static.machine, Static.next] using ih r

theorem static_head_transparent : HeadTransparent (Static.machine (α := α)) := by
  intro s c
  cases c <;> cases hs : s.items <;> simp [Static.machine, Static.head, hs]

theorem static_head_agrees : HeadAgrees (Static.machine (α := α)) := by
  intro s
  cases hs : s.items <;> simp [Static.machine, Static.head, Static.next, hs]

theorem static_stop (s : Static α) (n : Nat) : Static.machine.nexts n (Static.machine.stop s) = stream [] n := by
  simpa [Static.machine, Static.stop] using static_drain ([] : List α) n

theorem static_cancelled (s : Static α) : Static.machine.next s true = (Res.cancelled, s) ∧ Static.machine.head s true = (Res.cancelled, s) := by
  simp [Static.machine, Static.next, Static.head]

/-! ## combinedIterator -/

/-- the specified sequence: the scripts one after the other, errors at their positions -/
def combinedSpec (ins : List (SIter α)) : List (Res α) := ins.flatMap fun it => it.rem.map El.res

theorem combined_nextP_cons_nil (it : SIter α) (rest dead : List (SIter α)) (h : it.rem = []) :
    Combined.nextP (it :: rest) dead false = Combined.nextP rest (it.stop :: dead) false := by
  simp [Combined.nextP, SIter.next, h]

theorem combined_nextP_cons_cons (it : SIter α) (e : El α) (r : List (El α)) (rest dead : List (SIter α))
    (h : it.rem = e :: r) :
    Combined.nextP (it :: rest) dead false = (e.res, { it with rem := r } :: rest, dead) := by
  cases e <;> simp [Combined.nextP, SIter.next, h, El.res]

theorem combined_drain_aux (pending dead : List (SIter α)) (once : Bool) (n : Nat) :
    Combined.machine.nexts n ⟨pending, dead, once⟩ = stream (combinedSpec pending) n := by
  induction n generalizing pending dead with
  | zero => simp
  | succ n ih =>
    induction pending generalizing dead with
    | nil =>
      simp only [nexts_succ, Combined.machine, Combined.next, Combined.nextP, combinedSpec, List.flatMap_nil, stream_nil_succ]
      congr 1
      exact ih [] dead
    | cons it rest ihp =>
      cases hr : it.rem with
      | nil =>
        have h1 := ihp (it.stop :: dead)
        simp only [nexts_succ, Combined.machine, Combined.next] at h1 ⊢
        rw [combined_nextP_cons_nil it rest dead hr]
        simpa [combinedSpec, hr] using h1
      | cons e r =>
        simp only [nexts_succ, Combined.machine, Combined.next]
        rw [combined_nextP_cons_cons it e r rest dead hr]
        have := ih ({ it with rem := r } :: rest) dead
        simp only [Combined.machine] at this
        simp [combinedSpec, hr, this]

/-- **combined**: draining yields the inputs' scripts one after the other (items and errors in place), then `Done` for ever -/
theorem combined_drain (ins : List (SIter α)) (n : Nat) :
    Combined.machine.nexts n (Combined.start ins) = stream (combinedSpec ins) n :=
  combined_drain_aux ins [] false n

theorem combined_headP_next (p d : List (SIter α)) (c : Bool) :
    Combined.nextP (Combined.headP p d c).2.1 (Combined.headP p d c).2.2 false = Combined.nextP p d false ∧
    Combined.headP (Combined.headP p d c).2.1 (Combined.headP p d c).2.2 false = Combined.headP p d false := by
  induction p generalizing d with
  | nil => simp [Combined.headP]
  | cons it rest ih =>
    cases c with
    | true => simp [Combined.headP, SIter.head]
    | false =>
      cases hr : it.rem with
      | nil =>
        have := ih (it.stop :: d)
        simpa [Combined.headP, Combined.nextP, SIter.head, SIter.next, hr] using this
      | cons e r =>
        cases e <;> simp [Combined.headP, SIter.head, hr, El.res]

theorem combined_head_transparent : HeadTransparent (Combined.machine (α := α)) := by
  intro s c
  have := combined_headP_next s.pending s.dead c
  simp only [Combined.machine, Combined.next, Combined.head]
  constructor
  · rw [this.1]
  · rw [this.2]

theorem combined_headP_agrees (p d : List (SIter α)) :
    (Combined.headP p d false).1 = (Combined.nextP p d false).1 := by
  induction p generalizing d with
  | nil => simp [Combined.headP, Combined.nextP]
  | cons it rest ih =>
    cases hr : it.rem with
    | nil => simpa [Combined.headP, Combined.nextP, SIter.head, SIter.next, hr] using ih (it.stop :: d)
    | cons e r => cases e <;> simp [Combined.headP, Combined.nextP, SIter.head, SIter.next, hr, El.res]

theorem combined_head_agrees : HeadAgrees (Combined.machine (α := α)) := by
  intro s
  simpa [Combined.machine, Combined.next, Combined.head] using combined_headP_agrees s.pending s.dead

theorem combinedSpec_stopped (p : List (SIter α)) : combinedSpec (p.map SIter.stop) = [] := by
  induction p with
  | nil => rfl
  | cons it rest ih => simpa [combinedSpec, SIter.stop] using ih

/-- after the first `Stop` every `Next` is `Done` -/
theorem combined_stop (s : Combined α) (h : s.once = false) (n : Nat) :
    Combined.machine.nexts n (Combined.machine.stop s) = stream [] n := by
  have := combined_drain_aux (s.pending.map SIter.stop) s.dead true n
  rw [combinedSpec_stopped] at this
  simpa [Combined.machine, Combined.stop, h] using this

/-- a call with a cancelled context changes nothing (as long as something is pending) -/
theorem combined_cancelled (it : SIter α) (rest dead : List (SIter α)) (once : Bool) :
    Combined.machine.next ⟨it :: rest, dead, once⟩ true = (Res.cancelled, ⟨it :: rest, dead, once⟩) ∧
    Combined.machine.head ⟨it :: rest, dead, once⟩ true = (Res.cancelled, ⟨it :: rest, dead, once⟩) := by
  simp [Combined.machine, Combined.next, Combined.head, Combined.nextP, Combined.headP, SIter.next, SIter.head]

/-! ## Concat -/

/-- a script up to and including its first error -/
def untilErr : List (El α) → List (Res α)
  | [] => []
  | .item a :: r => .ok a :: untilErr r
  | .fail e :: _ => [.err (.fail e) none]

/-- what `Concat a b` yields: `a` up to its first error (then nothing more); if `a` has none, the first element
of `b` whatever it is (the call that switches returns `b.Next` directly), then `b` up to its first error. -/
def concatSpec : List (El α) → List (El α) → List (Res α)
  | [], [] => []
  | [], e :: b => e.res :: untilErr b
  | .item x :: a, b => .ok x :: concatSpec a b
  | .fail e :: _, _ => [.err (.fail e) none]

theorem concat_done (s : Concat α) (h : s.done = true) (n : Nat) : Concat.machine.nexts n s = stream [] n := by
  induction n with
  | zero => simp
  | succ n ih => simp [nexts_succ, Concat.machine, Concat.next, h] at ih ⊢; exact ih

theorem concat_second (id st : Nat) (l : List (El α)) (once : Bool) (dead : List (SIter α)) (n : Nat) :
    Concat.machine.nexts n ⟨⟨id, l, st⟩, none, false, once, dead⟩ = stream (untilErr l) n := by
  induction n generalizing l with
  | zero => simp
  | succ n ih =>
    cases l with
    | nil =>
      simp only [nexts_succ, Concat.machine, Concat.next, SIter.next, untilErr, stream_nil_succ]
      simp only [Bool.false_eq_true, if_false]
      congr 1
      exact concat_done _ rfl n
    | cons e r =>
      cases e with
      | item a =>
        have := ih r
        simp only [Concat.machine] at this
        simp [nexts_succ, Concat.machine, Concat.next, SIter.next, El.res, untilErr, this]
      | fail e =>
        have := concat_done (α := α) ⟨⟨id, r, st⟩, none, true, once, dead⟩ rfl n
        simp only [Concat.machine] at this
        simp [nexts_succ, Concat.machine, Concat.next, SIter.next, El.res, untilErr, this]

theorem concat_drain_aux (id st : Nat) (a : List (El α)) (b : SIter α) (once : Bool) (dead : List (SIter α)) (n : Nat) :
    Concat.machine.nexts n ⟨⟨id, a, st⟩, some b, false, once, dead⟩ = stream (concatSpec a b.rem) n := by
  induction n generalizing a with
  | zero => simp
  | succ n ih =>
    cases a with
    | nil =>
      obtain ⟨bid, brem, bst⟩ := b
      cases brem with
      | nil =>
        have := concat_second (α := α) bid bst [] once (SIter.stop ⟨id, [], st⟩ :: dead) n
        simp only [Concat.machine, untilErr] at this
        simp [nexts_succ, Concat.machine, Concat.next, SIter.next, concatSpec, this]
      | cons e r =>
        have := concat_second (α := α) bid bst r once (SIter.stop ⟨id, [], st⟩ :: dead) n
        simp only [Concat.machine] at this
        cases e <;> simp [nexts_succ, Concat.machine, Concat.next, SIter.next, concatSpec, El.res, this]
    | cons e r =>
      cases e with
      | item x =>
        have := ih r
        simp only [Concat.machine] at this
        simp [nexts_succ, Concat.machine, Concat.next, SIter.next, El.res, concatSpec, this]
      | fail e =>
        have := concat_done (α := α) ⟨⟨id, r, st⟩, some b, true, once, dead⟩ rfl n
        simp only [Concat.machine] at this
        simp [nexts_succ, Concat.machine, Concat.next, SIter.next, El.res, concatSpec, this]

/-- **Concat**: draining yields `concatSpec` -/
theorem concat_drain (a b : SIter α) (n : Nat) :
    Concat.machine.nexts n (Concat.start a b) = stream (concatSpec a.rem b.rem) n := by
  obtain ⟨id, l, st⟩ := a
  exact concat_drain_aux id st l b false [] n

/-- on error-free inputs `Concat` is the concatenation -/
theorem concatSpec_items (as bs : List α) :
    concatSpec (as.map El.item) (bs.map El.item) = (as ++ bs).map Res.ok := by
  induction as with
  | nil =>
    cases bs with
    | nil => rfl
    | cons b bs =>
      have : ∀ l : List α, untilErr (l.map El.item) = l.map Res.ok := by
        intro l; induction l with
        | nil => rfl
        | cons x l ih => simp [untilErr, ih]
      simp [concatSpec, El.res, this]
  | cons a as ih => simp [concatSpec, ih]

/-- **deviation, proved**: one `Next` with a cancelled context finishes a `Concat` for good — every later `Next`
(live context) answers `Done` although items are left. -/
theorem concat_cancel_truncates (s : Concat α) (h : s.done = false) (n : Nat) :
    (Concat.machine.next s true).1 = Res.cancelled ∧
    Concat.machine.nexts n (Concat.machine.next s true).2 = stream [] n := by
  have h1 : Concat.machine.next s true = (Res.cancelled, { s with done := true }) := by
    simp [Concat.machine, Concat.next, h, SIter.next]
  rw [h1]
  exact ⟨rfl, concat_done _ rfl n⟩

theorem concat_stop (s : Concat α) (h : s.once = false) (n : Nat) :
    Concat.machine.nexts n (Concat.machine.stop s) = stream [] n := by
  apply concat_done
  simp [Concat.machine, Concat.stop, h]

end OpenFGAVerif.Proofs.Iter
